#!/bin/bash
# Builds the framework offline from files on disk and warms the Go build cache.
set -e
cd "$(dirname "$0")"
export GOFLAGS=-mod=mod GOPROXY=off GOSUMDB=off GOTOOLCHAIN=local
mkdir -p .work evidence replays
go build ./engine/... ./ref/... 
for d in checks/c*/; do
  [ -f "$d/main.go" ] || continue
  go build -tags verif -o /dev/null "./$d" 2>/dev/null || true   # checks that need an overlay are built by check.sh
done
echo setup ok
