#!/bin/bash
# tools/propcheck.sh <ID> [workers]: acceptance of one check after it was changed — quick on the unchanged tree must exit 0
# without a VIOLATION line, every mutants/cNN_*.diff and every seeded change whose detector is this check must be DETECTED.
id=$1; P=${2:-3}; lc=$(echo $id | tr A-Z a-z)
cd /verif
s=$(date +%s); out=$(timeout 3600 ./check.sh $id quick 2>&1); rc=$?
echo "UNCHANGED $id rc=$rc $(( $(date +%s)-s ))s violations=$(echo "$out" | grep -c '^VIOLATION') :: $(echo "$out" | grep -m1 "^$id quick" | cut -c1-200)"
[ $rc -ne 0 ] && echo "$out" | grep -m3 -e '^VIOLATION' -e HARNESS | cut -c1-400
{
  for f in mutants/${lc}_*.diff; do [ -f "$f" ] && echo "$id $f"; done
  for d in seeded/*/; do
    [ -f $d/patch.diff ] || continue
    w=$(python3 -c "import json;m=json.load(open('$d/meta.json'));print(m.get('checked_with',m['property']))")
    [ "$w" = "$id" ] && echo "$id ${d}patch.diff seeded/$(basename $d)"
  done
} > .work/propcheck_$id.list
awk '{print $1" "$2}' .work/propcheck_$id.list | tools/mutbatch.sh .work/propcheck_$id.res quick $P
cut -c1-140 .work/propcheck_$id.res
echo "SUMMARY $id: $(grep -c DETECTED .work/propcheck_$id.res) detected, $(grep -vc DETECTED .work/propcheck_$id.res) not"
