#!/bin/bash
# tools/seedbatch.sh <suffix-letter>: verify every /tmp/seed_CNN<hint>_out present, naming results CNN<suffix>
suf=$1
for d in /tmp/seed_C*_out; do
  [ -f "$d/patch.diff" ] || continue
  b=$(basename $d _out); b=${b#seed_}; p=${b:0:3}
  n=${p}${suf}
  [ -d /verif/seeded/$n ] && [ -f /verif/seeded/$n/meta.json ] && [ "${FORCE:-}" = "" ] && continue
  /verif/tools/seedverify.sh $p $d $n 2>&1 | grep RESULT | cut -c1-260
done
