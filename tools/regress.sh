#!/bin/bash
# tools/regress.sh [tier] [workers]: re-runs every seeded change (seeded/*/patch.diff) and every audit / demonstration patch
# (mutants/*.diff) against the check that is supposed to catch it, in scratch worktrees (never /repo), and writes
# seeded/RESULTS.md. Every line must say DETECTED; anything else is a regression of a check.
tier=${1:-quick}; P=${2:-4}
cd /verif
list=.work/regress.list; : > $list
for d in seeded/*/; do
  [ -f $d/patch.diff ] || continue
  id=$(python3 -c "import json;m=json.load(open('$d/meta.json'));print(m.get('checked_with',m['property']))")
  echo "$id ${d}patch.diff" >> $list
done
for p in mutants/*.diff; do
  n=$(basename $p .diff); echo "$(echo $n | cut -c1-3 | tr a-z A-Z) $p" >> $list
done
tools/mutbatch.sh .work/regress.res $tier $P < $list
{
echo "# Detection regression ($(date -u +%Y-%m-%dT%H:%MZ), tier $tier, /repo at $(git -C /repo rev-parse --short HEAD))"
echo
echo "| change | check | result |"
echo "|---|---|---|"
awk '{id=$1; f=$2; $1="";$2="";$3=""; r=substr($0,4); gsub(/\|/,"/",r); printf "| %s | %s | %s |\n", f, id, substr(r,1,170)}' .work/regress.res
} > seeded/RESULTS.md
echo "detected: $(grep -c DETECTED .work/regress.res) of $(wc -l < $list)"; grep -v DETECTED .work/regress.res | cut -c1-200
