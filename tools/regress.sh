#!/bin/bash
# tools/regress.sh [tier]: re-runs every seeded change (seeded/*/patch.diff) and every own demonstration
# patch (mutants/*.diff) against the check that is supposed to catch it, in scratch worktrees, and
# writes seeded/RESULTS.md. Every line must say DETECTED; anything else is a regression of a check.
tier=${1:-quick}
cd /verif
out=seeded/RESULTS.md
{
echo "# Detection regression ($(date -u +%Y-%m-%dT%H:%MZ), tier $tier, /repo at $(git -C /repo rev-parse --short HEAD))"
echo
echo "| change | check | result |"
echo "|---|---|---|"
for d in seeded/*/; do
  n=$(basename $d); [ -f $d/patch.diff ] || continue
  id=$(python3 -c "import json;m=json.load(open('$d/meta.json'));print(m.get('checked_with',m['property']))")
  r=$(tools/mutant.sh $id $d/patch.diff $tier 2>&1 | tail -1 | cut -c1-160 | tr '|' '/')
  echo "| seeded/$n | $id | $r |"
done
for p in mutants/*.diff; do
  n=$(basename $p .diff); id=$(echo $n | cut -c1-3 | tr a-z A-Z)
  r=$(tools/mutant.sh $id $p $tier 2>&1 | tail -1 | cut -c1-160 | tr '|' '/')
  echo "| mutants/$n | $id | $r |"
done
} > $out.tmp
mv $out.tmp $out
grep -c DETECTED $out; grep -v DETECTED $out | grep "^| " | grep -v "^| change\|^|---" 
