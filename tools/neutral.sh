#!/bin/bash
# tools/neutral.sh <patch.diff> <ID> [<ID>...]: negative control. Applies a PROPERTY-PRESERVING change to a scratch worktree of
# /repo and runs the named checks against it; every one must exit 0 without a VIOLATION line (anything else is a false alarm
# of that check). VERIF_HOME selects the framework copy to run (default /verif).
patch=$(readlink -f "$1"); shift
for id in "$@"; do
  r=$(MUT_SLOT=${MUT_SLOT:-neutral$$} "$(dirname "$0")/mutant.sh" "$id" "$patch" ${TIER:-quick} 2>&1 | tail -1 | cut -c1-300)
  case "$r" in MISSED*) v="QUIET(ok)";; DETECTED*) v="FALSE-ALARM";; *) v="?";; esac
  echo "$(basename $patch) $id $v :: $r"
done
