#!/bin/bash
# tools/mutant.sh <CHECK_ID> <patch.diff> [tier]
# Applies a patch to a scratch git worktree of /repo (never to /repo itself), confirms the mutant
# builds and passes the pinned tests, runs the check against it (VERIF_REPO), removes the worktree.
# Prints DETECTED / MISSED / NOT-A-MUTANT.
id=$1; patch=$(readlink -f "$2"); tier=${3:-quick}
export GOFLAGS=-mod=mod GOPROXY=off GOSUMDB=off GOTOOLCHAIN=local
wt=/tmp/verif_mut.${MUT_SLOT:-$$}   # MUT_SLOT: a fixed scratch path per parallel worker keeps the Go build cache hitting
git -C /repo worktree add -q --detach "$wt" HEAD || exit 2
trap 'git -C /repo worktree remove --force "$wt" 2>/dev/null; rm -rf "$wt"' EXIT
cd "$wt" || exit 2
git apply "$patch" || { echo "patch does not apply"; exit 2; }
if ! go build ./... 2>"$wt.build.log"; then echo "NOT-A-MUTANT (does not build): $(head -3 $wt.build.log)"; rm -f $wt.build.log; exit 0; fi
rm -f $wt.build.log
# the suite binds fixed ports (RCON 25575): a failure while another scratch tree runs it is retried once
if ! go test -vet=off -count=1 ./... > "$wt.test.log" 2>&1 && { sleep $((5 + RANDOM % 10)); ! go test -vet=off -count=1 ./... > "$wt.test.log" 2>&1; }; then echo "NOT-A-MUTANT (pinned tests fail): $(grep -m3 -e FAIL -e '^---' $wt.test.log | tr '\n' ' ')"; rm -f $wt.test.log; exit 0; fi
rm -f $wt.test.log
cd "${VERIF_HOME:-/verif}"
out=$(VERIF_REPO="$wt" VERIF_EVIDENCE_DIR="$wt/evidence" timeout 2400 ./check.sh "$id" "$tier" 2>&1); rc=$?
n=$(echo "$out" | grep -c '^VIOLATION')
first=$(echo "$out" | grep -m1 '^VIOLATION' | cut -c1-300)
if [ $rc -eq 1 ] && [ $n -gt 0 ]; then echo "DETECTED rc=$rc violations=$n :: $first"; elif [ $rc -eq 0 ]; then echo "MISSED rc=0"; else echo "ERROR rc=$rc :: $(echo "$out" | tail -3 | cut -c1-300)"; fi
