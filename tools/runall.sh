#!/bin/bash
# tools/runall.sh [tier]: run every registered check once, print one line each
tier=${1:-quick}
cd /verif
for i in $(seq -w 1 20); do
  id=C$i
  s=$(date +%s)
  out=$(timeout 3600 ./check.sh $id $tier 2>&1); rc=$?
  e=$(( $(date +%s) - s ))
  echo "$id rc=$rc ${e}s :: $(echo "$out" | grep -m1 "^$id $tier" | cut -c1-150) $(echo "$out" | grep -c '^VIOLATION') violations $(echo "$out" | grep -c '^CAP') caps"
done
