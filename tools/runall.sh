#!/bin/bash
# tools/runall.sh [tier] [ids...]: run registered checks once on /repo, print one line each (exit code, wall, peak RSS)
tier=${1:-quick}; shift
ids=${@:-$(seq -w 1 20 | sed 's/^/C/')}
cd "$(dirname "$0")/.."
for id in $ids; do
  s=$(date +%s)
  out=$(/usr/bin/time -f "RSS_KB=%M" timeout 3600 ./check.sh $id $tier 2>&1); rc=$?
  e=$(( $(date +%s) - s ))
  echo "$id rc=$rc ${e}s rss=$(( $(echo "$out" | grep -o 'RSS_KB=[0-9]*' | tail -1 | cut -d= -f2) / 1024 ))MB :: $(echo "$out" | grep -m1 "^$id $tier" | cut -c1-150) $(echo "$out" | grep -c '^VIOLATION') violations $(echo "$out" | grep -c '^CAP') caps"
done
