#!/bin/bash
# summarise failure classes of an evidence file: tools/classes.sh C02 [depth]
python3 - "$1" "${2:-3}" <<'PY'
import json,sys,collections
e=json.load(open('/verif/evidence/%s.json'%sys.argv[1])); d=int(sys.argv[2])
c=collections.Counter()
for f in e['coverage']['failure_classes']:
    c['/'.join(f['class'].split('/')[:d])+('  [known]' if f['known'] else '')]+=1
for k,v in sorted(c.items()): print(v,k)
print('total classes',sum(c.values()), 'evals', e['coverage']['evaluations'], 'wall', e['wall_s'])
PY
