#!/usr/bin/env python3
"""Regenerates MANIFEST.json from the table below. Run from /verif."""
import json, os

ALL = ["C%02d" % i for i in range(1, 21)]

# id -> (technique, level text, level note, design ref)
CHECKS = {
 "C13": ("exhaustive enumeration over the whole block-state registry (26,684 states) and over a cross product of chunk shapes (sections x palette classes x biome classes x height maps x block entities x light x status) on the real conversions, plus all SetBlock histories to depth 4/5; judged by a plain-array chunk model, ref/refnbt and ref/refpal",
         "Every registry state survives ChunkToSave -> ChunkFromSave at all positions and its saved (name, properties) is unique (bijection); every chunk written with WriteTo and read into a fresh / plain-reader / previously-used chunk has identical blocks, biomes, BlockCounts, MOTION_BLOCKING and WORLD_SURFACE height maps and block entities and consumes exactly the bytes written; the save form (direct and through Data/Load with every compression) preserves blocks, biomes, light, status and each of the six height maps under its own name; BlockCount equals an independent recount of non-air states after every step of every SetBlock history.",
         "Trusted: the check's plain-array model; refnbt/refpal are used to locate fields, not as oracles. Returned byte counts, block entities through the save form, nil vs empty light arrays, fields level.Chunk does not carry are unspecified. save.Chunk raw NBT fields are pre-filled with empty values (an unset RawMessage cannot be encoded).",
         "DESIGN.md §2 C13"),

 "C09": ("exhaustive enumeration of environment behaviours on the real readers/writers: all 2^n fragmentations of inputs <=12 bytes and deviation-bounded short reads (engine.Explore/Deviate, bound 2/3) of longer ones, every failure offset x {EOF, injected} x two legal failure styles (+ one transient failure) for readers, every failure offset for writers; differential oracle against the contiguous run of the same operation",
         "69 read operations (UnPack in 3 modes, NBT decode into 8 targets in both formats, every wire field and combinator, RCON ReadPacket) and 41 write operations (NBT Encode, Pack, WriteTo, RCON WritePacket) over inputs chosen so that every Read/ReadFull/ReadByte/CopyN/Write site of the anchored files is on some path (coverage-confirmed): identical value, byte count and residual stream under every fragmentation; a failure before the operation has consumed/produced everything must give a non-nil error.",
         "Trusted: the contiguous run as the baseline (its conformance is C01/C06/C07's business). Which error is returned, byte counts alongside errors, an error delivered together with the last needed byte, and PluginMessageData ending at EOF are unspecified. (0,nil) reads are not generated.",
         "DESIGN.md §2 C09"),

 "C04": ("bounded exhaustive enumeration in both directions on the real converter: every NBT tree <=N nodes over a quoting/literal-classifier alphabet (binary->text->binary), every string <=L over a 22-character alphabet, every token sequence <=K over punctuation + 28 literals, every printed text under all lexical styles and <=2 whitespace deviations plus every single-token mutant (text->binary); judged by an independent three-valued SNBT reader and ref/refnbt",
         "binary->text->binary yields the identical tree (tags, integers, strings exact, finite floats bit-exact; StringifiedMessage and RawMessage.String agree; TagType equals the root tag). Every text the parser accepts yields one well-formed document that agrees with the reference reading when the reference accepts, with the announced tag type; every text the reference rejects (trailing garbage, truncation, mixed lists, wrong array elements...) is an error; never a panic.",
         "Trusted: ref/refsnbt (204 hand vectors + printer/reader identity + bigtest values) and ref/refnbt. The reference REJECTs only what every sane reader rejects; vanilla disagreements (true/false, trailing commas, irregular numeric tokens, other escapes, NaN/Inf, empty-list element tags) are unspecified: executed, panic-checked, output must still be a well-formed document.",
         "DESIGN.md §2 C04"),
 "C08": ("bounded exhaustive enumeration of hostile inputs on 90 real decoders: all byte strings <=5 over a 7-symbol alphabet, every truncation / single-byte substitution / located length-prefix overwrite of 313 valid seed encodings, wrong-size data arrays and height maps, all JSON token sequences <=5, all command lines <=6 over 6 characters x 30 command graphs",
         "UnPack (5 thresholds), every packet field and combinator, Packet.Scan bodies of the handshake/login/configuration packets, BitStorage, PaletteContainer, Section, Chunk.PutData/ReadFrom, BlockEntity, chat Message/JsonMessage/Type, Registry ReadFrom/ReadTagsFrom and Graph.Execute return a value or an error: never a panic, never non-termination; negative or inconsistent length prefixes written by the check into the places the statement names must give a non-nil error.",
         "Trusted: an independent layout walker (checks/c08/scan.go, pinned on protocol vectors) locates the prefixes. Declared lengths above 2^20 are not executed (over-allocation guard, counted). Which error, partial results, prefixes outside the named places: unspecified. level/component is excluded (unimplemented upstream).",
         "DESIGN.md §2 C08"),

 "C10": ("explicit-state exploration of the real CFB8 stream: all call sequences to depth 3/4 over (length x aliasing layout) from the initial state and from every register position (all 7,854 (direction, ivPos, length, layout) transitions taken), plus exhaustive packet-size sequences over an encrypted Conn pair under 16 read-fragmentation patterns; judged by a byte-at-a-time AES-CFB8 reference",
         "Every call's output equals ref/refcfb8 continued across calls for encrypt and decrypt, key sizes 16/24/32, in place / disjoint-below / disjoint-above / longer dst carved from one arena; decrypt(encrypt(m)) == m under four call patterns; two mcnet.Conn with SetCipher on both ends deliver every packet intact and in order for thresholds {-1,0,64} and all size sequences <=3 over 8 sizes in both directions.",
         "Trusted: ref/refcfb8 (self-tested on NIST SP 800-38A F.3.7-F.3.12). Partial overlap of src and dst is outside cipher.Stream's contract and not exercised. The Conn part uses a deterministic single-threaded pipe (no scheduler).",
         "DESIGN.md §2 C10"),
 "C11": ("explicit-state BFS to fixpoint for all (b,n) with b*n<=8 on the real BitStorage, and the exhaustive (b in 1..32) x (n in 0..130,256,4096) x background x index-class x value-boundary product for single operations, ordered pairs and rejected calls; judged by a []uint64 model and a reference packer",
         "After every Set/Swap/Get all n indices and all raw longs equal the model and ref/refpal's 1.16+ packing; Swap returns the previous value; out-of-range index/value panics and leaves every long unchanged; constructor accepts reference-packed longs and refuses len +-1; WriteTo -> ReadFrom into fresh/used storages -> Fix(b) preserves everything; b = 0 reads 0.",
         "Trusted: ref/refpal (self-tested on the wiki.vg 5-bit example). calcBitStorageSize/calcBitsPerValue are judged through observable behaviour only. With b = 0 whether odd calls panic is unspecified.",
         "DESIGN.md §2 C11"),
 "C12": ("explicit-state search over operation histories on the real PaletteContainer (spine through every upgrade boundary, per-d sweeps with 6 transfer kinds, all macro-histories to depth 5/6, vanilla save pairs for every width) with a []int model compared at all positions after every step and an independent paletted-container wire reader",
         "For block states (4096) and biomes (64): Get(i) returns the last value set or the default across single/linear/hash/global representations; wire round trips into fresh, previously-smaller and previously-larger containers preserve every position and consume exactly the bytes written; the wire form decodes with ref/refpal's reader under vanilla width rules; New*WithData(palette, raw) agrees with the same reading, including go-mc's own export and vanilla save pairs.",
         "Trusted: ref/refpal. The announced bits byte for 4-bit and direct palettes (1 / 9) is accepted as vanilla's reader maps both to the right width. Ids outside the registry are not exercised.",
         "DESIGN.md §2 C12"),
 "C14": ("explicit-state BFS with replay over operation histories on the real region.Region (to fixpoint for small alphabets, depth-bounded for the full alphabet), oracle after every transition: map model, independent Anvil parser on the backing bytes, fresh Load compared with in-memory tables; logical clock through an overlay seam with ticks explored per transition",
         "WriteSector over 4 coordinates x 7 sector-boundary sizes (+ largest accepted / over-limit leaves), ReadSector, ExistSector, PadToFullSector, re-open, on devices with and without io.WriterAt (thorough: also a real os.File): every chunk reads back the bytes last written, never-written chunks report absence, over-limit writes are refused without changing anything, the file is always a valid Anvil region (pairwise-disjoint runs beyond the header, length word, data), and offsets and Timestamps of a fresh Load equal those in memory.",
         "Trusted: ref/refanvil (self-tested on 678 vanilla-written chunks of /repo/save/testdata). Payload bytes and timestamp values are dropped from the state key (no branch of mca.go depends on them) but checked on every transition. Zero-length writes and what padding must achieve are unspecified. mca.go is compiled with time.Now replaced by a seam (sed-generated overlay).",
         "DESIGN.md §2 C14"),
 "C15": ("exhaustive crash-point enumeration over the explored region-file state graph: for every WriteSector transition every prefix of its recorded physical writes, the last one torn at every 512-byte boundary (and every byte for short writes), re-opened with Load on the real code",
         "For each of ~2M (quick) crash images Load succeeds, every coordinate other than the one being written reads back exactly its pre-state bytes and all 1024 never-written slots stay absent; the written chunk is only classified (old/new/absent/unreadable/torn).",
         "Prefix-in-issue-order crash model (no write reordering); both device variants. The written chunk reading back a torn mix without error is unspecified (Anvil has no checksum; the statement allows old, new, absent or unreadable).",
         "DESIGN.md §2 C15"),
 "C19": ("stateless model checking of one real bot<->server session under the controlled scheduler (delay-bounded: every departure from the default scheduler and every short read on the in-memory pipe is a deviation) for every configuration of enumerated families (login matrix, play traffic, handler dispatch, status ping), against a reference dispatch model and the offline-UUID reference; free-running -race pass with both queue kinds; one loopback TCP ping",
         "real server.Server.AcceptConn (offline MojangLoginHandler with threshold T, login checker, configuration-finish handler, harness GamePlay) vs real bot.Client.JoinServerWithOptions + HandleGame over shim/vnet: join completes iff the checker admits; AcceptPlayer sees Client.Name, the offline UUID (ref/refjava) and bot.ProtocolVersion; play packets of sizes around the threshold arrive intact and in order both ways; handler invocations equal the reference (generic before specific, descending priority, registration order on ties, bundles after the closing delimiter, stop at the failing handler with its error); status ping returns the handler's JSON; no deadlock in any explored schedule.",
         "Sequential consistency; scheduling points at sync/pool/pipe operations only; LinkedListQueue under the scheduler (ChannelQueue blocks on a real channel: free-running pass only). The configuration handler is the statement's 'configuration finish' (server.Configurations' registry data is not used). Files that synchronise are compiled against shim/vsync by a mechanical overlay regenerated from /repo on every run.",
         "DESIGN.md §1.3, §2 C19"),

 "C05": ("exhaustive enumeration (all 2^32 VarInt values in thorough; group-alphabet VarLong; all byte strings <=3 over 256 values and longer ones over a 6-symbol alphabet) on the real encoder/decoder against a bit-at-a-time LEB128 reference",
         "Encoder: WriteToBytes/WriteTo bytes equal the minimal LEB128 reference and Len() equals both counts; decoder: value, n and bytes consumed are exact with the tail untouched, never more than 5/10 bytes consumed, continuation runs of cap length are errors; from a ByteReader and from a plain io.Reader.",
         "Trusted: ref/refwire (self-tested on the protocol tables). VarLong's 2^64 values cannot be enumerated: 7-bit-group alphabets are the stated bound. Non-minimal encodings, overflow bits in the last group and truncated streams are unspecified.",
         "DESIGN.md §2 C05"),
 "C06": ("bounded exhaustive enumeration of 671 field shapes (every exported field type, combinators nested to depth 3) x boundary alphabets x all prior states of the destination (history dimension) on the real codecs against reference wire layouts",
         "Wire bytes equal ref/refwire's layout, WriteTo n equals bytes produced, ReadFrom n equals bytes consumed with a sentinel tail intact, decoded equals written independent of what the destination held before (zero, every other alphabet value, nil/shorter/longer/spare-capacity slices at every nesting level); Marshal/Builder/Packet.Scan over all field lists <=3.",
         "Trusted: ref/refwire, ref/refnbt. Byte counts on error paths, Option.Val when absent, NBT-into-held-any type hints are unspecified. Only well-formed encodings are decoded here (malformed input is C08).",
         "DESIGN.md §2 C06"),
 "C07": ("bounded exhaustive enumeration of (id, threshold, payload length, content class) around every boundary, frame streams <=3 over an 8-frame alphabet + a 50-frame chain, Conn threshold histories, and 817 hand-built malformed frames, judged by an independent frame reader (compress/zlib only)",
         "Every emitted frame must parse as a conformant frame (VarInt total length; data length 0+plain or true size >= threshold + zlib stream inflating to exactly id+payload); UnPack with the same threshold returns the same id/payload from fresh and reused receivers and consumes exactly one frame; streams come back in order; malformed headers (negative, > 2^21, non-zero below threshold, shorter than the id) give an error, never a panic.",
         "Trusted: ref/refframe (self-tested on a hand-assembled stored-block frame). Pool hand-out order is the natural one here (pool choices are explored in C20). id+payload > 2 MiB and frames with bytes after the zlib stream are unspecified.",
         "DESIGN.md §2 C07"),
 "C20": ("stateless model checking of the real code under a hand-written controlled scheduler: go-mc files that synchronise are compiled against a sync shim by a mechanical overlay, every sync/pool/map operation is a scheduling point, all schedules within a preemption+deviation bound are executed (iterative context bounding), histories judged by porcupine against a FIFO-with-close model plus exactly-once/order/capacity invariants; scheduler litmus suite; separate free-running -race pass",
         "For 16 scenarios (LinkedListQueue and ChannelQueue with 1-3 producers, 1-2 consumers and a closer incl. consumers blocked before the first push and close racing blocked consumers; close-after-consumers variants that expose lost wake-ups; 2-3 threads Pack/UnPack through the shared pools with pool hand-out as an environment choice; concurrent NBT type-cache use; PlayerList join/leave/sample at capacity 1 and 2) every schedule with <=2 (thorough 3) preemptions/deviations is run to completion: no deadlock, exactly-once delivery, producer order, linearizable FIFO-with-close history, no foreign bytes, Len() <= capacity.",
         "Assumes sequential consistency and that shared data is only touched between sync operations (validated, by sampling only, by the free-running -race pass of the same bodies). ChannelQueue is interleaved at method level (each method is one channel operation). The shim (shim/vsync) is a model of package sync: five litmus queues (1 correct, 4 broken) must be classified correctly on every run or the check aborts with a harness error.",
         "DESIGN.md §1.3, §2 C20"),

 "C01": ("bounded exhaustive enumeration of documents (all trees <=N nodes over the tag grammar) and of a reflect-built Go type/value universe on the real codec, judged by an independent NBT reader and an independent implementation of the documented mapping",
         "Decode: every tree x 5 targets x 4 formats x 3 trailing streams x 2 source kinds must yield the format's values, the root name, and leave exactly the trailing bytes unread. Encode: every (type,value) x {file,network} x {value,pointer}: accepted values must produce one well-formed document equal to the documented mapping. Exhaustive within the stated node/depth bounds.",
         "Trusted: ref/refnbt, checks/nbtgo.ToTree (self-tested). Unspecified (executed, not judged): duplicate keys, nil pointers/interfaces, []bool, slices of interfaces/pointers, Go int/uint. Hand-written catalogue for embedding rules.",
         "DESIGN.md §2 C01"),
 "C02": ("bounded exhaustive enumeration of (type,value) pairs and of carrier placements on the real encoder+decoder with an independent deep-equality / snapshot oracle",
         "Every value of the reflect-built universe x {file,network} x {value,pointer} is encoded (no panic, input unmodified by snapshot comparison, no error for documented kinds), decoded into a fresh variable and compared (NaN by bits, nil==empty). Every document <=N nodes is decoded into RawMessage / dynbt.Value at root, struct field, value field, map value and list element and must re-encode byte for byte.",
         "Trusted: checks/nbtgo (Snapshot, equality). Interface-typed slots are compared at the NBT level; nil pointers/interfaces, ,list misuse, slices of pointers to scalars are outside the documented universe (counted as unspecified).",
         "DESIGN.md §2 C02"),
 "C16": ("bounded exhaustive enumeration of RCON frames, frame concatenations, declared lengths, password pairs and command/response/adversary scripts on the real RCON code (in-memory conn + loopback TCP) against a reference frame layout and session model",
         "All (id,type,payload-class) frames, all concatenations <=4 frames over a 6-frame alphabet + a 20-frame chain under 3 fragmentations, all declared lengths around both bounds, all 36 ordered password pairs (real DialRCON vs ListenRCON/AcceptLogin), all command/response scripts <=3 steps against the real server side and against a scripted adversary answering {right id,id+1,-1,0}x{type 0,2}. Oracle: refrcon layout, self-delimitation, login iff passwords equal, Resp only under the id in use.",
         "Trusted: ref/refrcon (self-tested on the Valve example packet). Loopback TCP sessions run outside any scheduler with a 20 s deadline that can only produce a harness error. Responses under the right id with type != 0 etc. are unspecified.",
         "DESIGN.md §2 C16"),
 "C17": ("deviation-bounded exhaustive enumeration (engine.Explore, every non-default field is a deviation) of text components on the real JSON/NBT codecs and renderers, judged by refnbt and an independent component model",
         "All components with <=5 departures from the empty component over the DESIGN grammar (depth <=3), the 2^5 style-flag product, three input shapes in both forms, chat.Type headers with/without target: JSON and NBT round trips are identity, Message.WriteTo is one well-formed network-format compound with the expected keys, rendering never panics, ClearString leaves no formatting code, arguments substituted in order.",
         "Trusted: ref/refnbt and the check's own component model/reader (self-tested on hand vectors). Rendered text for unknown keys / argument-count mismatches, returned byte counts and JSON key sets are unspecified.",
         "DESIGN.md §2 C17"),
 "C18": ("exhaustive enumeration where finite (all byte strings <=3 for twosComplement, all 65,792 one/two-byte names) and structured digest enumeration through a sha1 seam, against math/big and hand-rolled MD5 name-UUID references; finite forgery family for signatures",
         "Offline UUID over named + all 1- and 2-byte names; both twosComplement copies on all 16.8M strings <=3 bytes; both authDigest copies on ~5M enumerated digests (every sign/leading-zero/trailing-zero/carry shape) via an overlay seam replacing sha1.New, equal to each other and to BigInteger(d).toString(16); binding pass with real SHA-1; 386 forged signatures/keys (incl. a valid signature by a different deterministic RSA key) must all be refused.",
         "Trusted: ref/refjava (self-tested on the wiki.vg digests). Unforgeability is decided only for the finite forgery family. The all-zero digest is unjudged. Seams are overlay-generated from the current /repo files.",
         "DESIGN.md §2 C18"),

 "C03": ("bounded exhaustive input enumeration on the real decoders (all byte strings <=L over a tag/length alphabet + all systematic mutants of all documents <=N nodes) judged by an independent NBT reader",
         "Every byte string up to the bound and every truncation/substitution/length-or-tag overwrite of every generated document is executed on every NBT decoding entry point in both formats; a panic, a 20 s non-terminating call, or a nil error on a strict prefix / negative length / unknown tag id is a violation. Exhaustive within the stated alphabets and sizes, nothing sampled.",
         "Trusted: ref/refnbt (self-tested against hand vectors); inputs declaring lengths > 65536 are skipped (over-allocation guard); sizes beyond the bounds are not covered.",
         "DESIGN.md §2 C03"),
}

PENDING_REASON = "check not built yet in this round (planned: see DESIGN.md §2); not claimed until its harness exists"

# id -> what the white-box audit round added (DESIGN.md §8.6); appended to the level text
AUDIT = {
 "C01": "used destinations (7 slice kinds x 11 prior states), size classes around 2^7..2^17, 32 string/name lengths x 5 positions, widening alphabet x 13 Go kinds, tag-option sets, every sequence <=3 on one Decoder/Encoder, typed maps, EOF-with-last-byte and one-byte sources; call histories re-check every retained result",
 "C02": "package-level Marshal/Unmarshal; encodings alive together (all ordered pairs/triples), used carrier destinations (all ordered pairs), size classes 0..130 and 2^k+-1, name lengths 0..300 (thorough 32767), every carrier tree from EOF-with-last-bytes and one-byte readers, StringifiedMessage (go-mc's own text of every tree) round-tripped at root/field/map/list",
 "C03": "19 destinations of defined (named) types, 10 more entry points (nbt.Unmarshal, direct RawMessage methods, DisallowUnknownFields), 2-call histories on 56 destinations, 53 typed destinations, 6 reader kinds, payloads crossing 256/512/4096/8192",
 "C04": "binary->text through streaming decoders over short-read sources, every string <=2 over 131 units and <=4 over 18 classifier characters at 4 positions, one-/two-hole byte sweeps, every sequence <=3 of 40 operations in one process, embedded positions, lengths to 70000 and nesting to 300/10002; exponent literals without a decimal point (33 literals)",
 "C05": "re-entrant framing writer, 6 source kinds (incl. bytes.Buffer, bufio.Reader, (0,nil) answers, EOF with the last byte), 3 writer kinds, exact-length WriteToBytes windows; one bufio.Reader carrying many numbers (buffer sizes 16/17/19/23); accepted non-minimal encodings must report the bytes consumed",
 "C06": "process histories (every sequence of <=3/4 field encodes / Marshal / Pack / UnPack on one processor), bytes.Buffer source reused before the value is looked at, 3 writer kinds, 5 source kinds, priors with len<cap<value, every ordered triple of 84 items on one Builder with earlier packets re-checked, 32767-character strings",
 "C07": "process histories (every sequence of <=3/4 Pack/UnPack operations incl. reads failing inside a body, one processor), 5 source kinds, 4 receiver states, kept packets re-compared after later traffic, Accept-built Conn ends, ragged/one-byte pipe delivery, over-maximum complete frames, frames whose packet length crosses 2^7/2^14/2^21 exactly, loopback TCP",
 "C08": "39 extra command-line symbols (all Unicode White_Space, look-alikes, malformed UTF-8), every declared length <=600 (4200) for 19 leaf decoders and every located prefix, nesting depth up to what a 2 MiB frame holds (5 shapes x 10 depths x every NBT-consuming decoder), declared counts of 2^28 and more (32-bit byte-count overflow); decode histories on one destination with a differential oracle (what a fresh destination rejects, a used one must reject)",
 "C09": "Conn.ReadPacket/WritePacket and 2-3-frame histories on one Conn, size classes 600/5000 (thorough 70000) on both sides, root-value targets, end-of-stream-delimited operations judged against the contiguous read of the shorter stream, RCON server-side operations and sessions, late-failing writer, chat signatures",
 "C10": "every call length 0..4096, four histories of the caller's IV slice, every source-address residue mod 16, Conn set-up histories (SetThreshold/SetCipher at every packet index and order, WrapConn/Accept ends, (n,io.EOF) delivery), packets to 128 KiB (1 MiB), full duplex at socket-call granularity; CPU-time walk budget",
 "C11": "13 wrong raw lengths per (b,n), WriteTo/Reload/Fix as history operations, full operation menu after ReadFrom+Fix, 8 fragment sizes x EOF style x reader kind, garbage padding bits, ReadFrom+Fix chains on one destination",
 "C12": "6 reader devices, destinations previously wider/narrower, caller palette slices with spare capacity, two live containers (all words of depth 3/4 over 12 operations incl. transfer), Get probes around every Set/ReadFrom",
 "C13": "every sequence <=3/4 of reads into one destination, every sequence <=3/4 of 11 steps on one source, used save.Chunk destinations, two conversions alive together, palette sizes 32..129 and 3..23 sections, plain writer, containers whose palette entry 0 is not registry id 0 grown through every representation",
 "C14": "family env (every history <=3/4 over 17 operations x short-read devices x EOF style x caller retains/scribbles buffers x clock same-second/backwards, real-path Create/Open/Close), every k in 1..255 at sizes k*4096-5..-3; state key renders every further field of Region (added bookkeeping splits states); writes-only growth search over four coordinates to depth 6/7",
 "C15": "refused over-limit write followed by further writes, second explicit-state search on an os.File-like device (truncation as a physical operation), one crash+reopen as an operation with continuation, zero-length writes expanded, sector numbers around 256, reopen through region.Open on real files; a pre-state that already fails the oracle is reported as crash point 0; over-limit writes the region accepts enter the model",
 "C16": "every payload length 0..4087, 8 reader devices, 21-word password alphabet (all ordered pairs), every long-password length, 25-text verbatim menu (all ordered pairs), login/session/request-id histories, 3 more foreign-id kinds",
 "C17": "10 translation keys x 0..5 arguments, 44 codes x placements and all adjacent pairs, 51 string classes x 12 positions, 36 colours, nesting chains to depth 6, constructor path, render-then-encode history, nested shapes, the bare-string / list JSON shapes through the JsonMessage packet carrier",
 "C18": "every name length 0..2048 (16384), every field length 0..600 (4096) + 26^3 boundary triples, operation histories on one PublicKey, VerifySignature call sequences, the real login flows of bot and server with a recording HTTP transport, neighbour forgeries (every key-blob length 0..1700/4200 x 9 neighbours of the signed blob)",
 "C19": "families dispatch-reg, dispatch-extreme, dispatch-ids, history (1-3 rounds of ping/join on one Client and one Server), long (200 packets, bundles of 0/127/128/129/198); checker arguments and every status JSON member judged; family deadline (join context deadline armed, play after it passed); family framewidth (every play-packet size of two windows so frame lengths cross 127/128 and 16383/16384 one byte at a time, four thresholds)",
 "C20": "scenarios marshal-pack-unpack-scan (3 thresholds), connections (private socket per thread, CFB8, scheduling point at every socket call), nbt-type-cache-values (omitempty menu, streaming codecs, a struct type new per execution); warm-up execution before every walk; bot-conn scenario; sequential FIFO histories (every sequence of <=16/20 Push/Pull then Close and drain); independent writers of text components; unpack after a failed unpack; player list with refused clients that leave and admitted clients that leave twice",
}

def main():
    checks = []
    for pid in ALL:
        if pid not in CHECKS:
            continue
        tech, text, note, ref = CHECKS[pid]
        if pid in AUDIT:
            text = text + " Added by the white-box audit round (DESIGN.md §8.6): " + AUDIT[pid] + "."
        checks.append({
            "property_id": pid,
            "quick_cmd": "./check.sh %s quick" % pid,
            "thorough_cmd": "./check.sh %s thorough" % pid,
            "evidence_file": "/verif/evidence/%s.json" % pid,
            "replay_cmd_template": "./check.sh %s quick -replay {path}" % pid,
            "engine": "engine",
            "level_claimed": {"category": "model_checking", "text": text, "design_ref": ref},
            "level_note": note,
            "technique": tech,
        })
    na = [{"property_id": p, "reason": PENDING_REASON} for p in ALL if p not in CHECKS]
    m = {
        "version": 1,
        "setup_cmd": "./setup.sh",
        "hooks": {
            "guard": "verif",
            "enable": "go build -tags verif -overlay <generated> (seams are injected by overlay files generated at check time from /repo's working tree; no guarded source commits in /repo)",
            "baseline_off_cmd": "cd /repo && GOFLAGS=-mod=mod GOPROXY=off GOSUMDB=off GOTOOLCHAIN=local go test -vet=off -count=1 -timeout 25m ./...",
            "source_commits": [],
            "add_only": True,
        },
        "engines": [
            {"name": "engine", "path": "engine/", "serves_properties": sorted(CHECKS.keys()),
             "kind_free_text": "hand-written bounded exhaustive explorer: choice-tape DFS with deviation bounds (Pick = free choice, Deviate = costs one deviation), work stealing over goroutines, sharding across subprocesses by the first k choices, divergence detection on replay; fault/fragmentation devices; evidence, replay files, failure classes, known-findings matching"},
            {"name": "controlled-scheduler", "path": "shim/", "serves_properties": ["C19", "C20"],
             "kind_free_text": "stateless model checker for real Go code: shim/sched (cooperative scheduler, one controlled thread runs at a time, deadlock/horizon/panic outcomes), shim/vsync (Mutex, RWMutex, Cond, Pool, Map, WaitGroup, Once on top of it), shim/vnet (in-memory duplex pipe with short reads as deviations); injected by tools/overlaygen, which rewrites `import \"sync\"` and `go f()` in go-mc files mechanically at every run; schedfree/vnetfree give the same API on real goroutines for the separate -race pass"},
            {"name": "reference-models", "path": "ref/", "serves_properties": sorted(CHECKS.keys()),
             "kind_free_text": "refnbt, refsnbt, refwire, refframe, refpal, refanvil, refcfb8, refrcon, refjava: plain Go, import nothing from go-mc, each self-tested against published vectors or repository fixtures at the start of every check"},
        ],
        "checks": checks,
        "not_applicable": na,
        "notes": "All checks rebuild from /repo's working tree (go.mod replace => /repo). KNOWN_FINDINGS.txt lists open findings (suppressed per narrow class) and fixed defects (suppress nothing).",
    }
    json.dump(m, open("MANIFEST.json", "w"), indent=1)
    print("checks:", len(checks), "not_applicable:", len(na))

main()
