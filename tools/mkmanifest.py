#!/usr/bin/env python3
"""Regenerates MANIFEST.json from the table below. Run from /verif."""
import json, os

ALL = ["C%02d" % i for i in range(1, 21)]

# id -> (technique, level text, level note, design ref)
CHECKS = {
 "C03": ("bounded exhaustive input enumeration on the real decoders (all byte strings <=L over a tag/length alphabet + all systematic mutants of all documents <=N nodes) judged by an independent NBT reader",
         "Every byte string up to the bound and every truncation/substitution/length-or-tag overwrite of every generated document is executed on every NBT decoding entry point in both formats; a panic, a 20 s non-terminating call, or a nil error on a strict prefix / negative length / unknown tag id is a violation. Exhaustive within the stated alphabets and sizes, nothing sampled.",
         "Trusted: ref/refnbt (self-tested against hand vectors); inputs declaring lengths > 65536 are skipped (over-allocation guard); sizes beyond the bounds are not covered.",
         "DESIGN.md §2 C03"),
}

PENDING_REASON = "check not built yet in this round (planned: see DESIGN.md §2); not claimed until its harness exists"

def main():
    checks = []
    for pid in ALL:
        if pid not in CHECKS:
            continue
        tech, text, note, ref = CHECKS[pid]
        checks.append({
            "property_id": pid,
            "quick_cmd": "./check.sh %s quick" % pid,
            "thorough_cmd": "./check.sh %s thorough" % pid,
            "evidence_file": "/verif/evidence/%s.json" % pid,
            "replay_cmd_template": "./check.sh %s quick -replay {path}" % pid,
            "engine": "engine",
            "level_claimed": {"category": "model_checking", "text": text, "design_ref": ref},
            "level_note": note,
            "technique": tech,
        })
    na = [{"property_id": p, "reason": PENDING_REASON} for p in ALL if p not in CHECKS]
    m = {
        "version": 1,
        "setup_cmd": "./setup.sh",
        "hooks": {
            "guard": "verif",
            "enable": "go build -tags verif -overlay <generated> (seams are injected by overlay files generated at check time from /repo's working tree; no guarded source commits in /repo)",
            "baseline_off_cmd": "cd /repo && GOFLAGS=-mod=mod GOPROXY=off GOSUMDB=off GOTOOLCHAIN=local go test -vet=off -count=1 -timeout 25m ./...",
            "source_commits": [],
            "add_only": True,
        },
        "engines": [
            {"name": "engine", "path": "engine/", "serves_properties": sorted(CHECKS.keys()),
             "kind_free_text": "hand-written bounded exhaustive explorer: choice-tape DFS with deviation bounds (Pick/Deviate), explicit-state BFS over real objects, fault/fragmentation devices, controlled scheduler; reference models in ref/"},
        ],
        "checks": checks,
        "not_applicable": na,
        "notes": "All checks rebuild from /repo's working tree (go.mod replace => /repo). KNOWN_FINDINGS.txt lists open findings (suppressed per narrow class) and fixed defects (suppress nothing).",
    }
    if not na:
        del m["not_applicable"]
    json.dump(m, open("MANIFEST.json", "w"), indent=1)
    print("checks:", len(checks), "not_applicable:", len(na))

main()
