#!/bin/bash
# tools/neutralbatch.sh [workers] [filter-regex]: runs every negative control of neutral/index.txt (a property-preserving
# change to go-mc + the ids of the checks whose scope it touches) through tools/neutral.sh; writes neutral/RESULTS.md.
# Every line must say QUIET; FALSE-ALARM (the check printed VIOLATION) or ? (it broke: exit 2) is a defect of the check.
P=${1:-4}; filt=${2:-.}
cd /verif
mapfile -t lines < <(grep -E "$filt" neutral/index.txt | while read f ids; do for id in $ids; do echo "$f $id"; done; done)
tmp=.work/neutral_res.$$; : > $tmp
for w in $(seq 1 $P); do
  (
    i=0
    for l in "${lines[@]}"; do
      i=$((i+1)); [ $(( (i-1) % P + 1 )) -eq $w ] || continue
      set -- $l
      MUT_SLOT=neutral$w tools/neutral.sh neutral/$1 $2 >> $tmp 2>&1
    done
  ) &
done
wait
sort $tmp > .work/neutral_res.txt; rm -f $tmp
{
  echo "# Negative controls ($(date -u +%Y-%m-%dT%H:%MZ), /repo at $(git -C /repo rev-parse --short HEAD)): property-preserving changes, every check must stay quiet"
  echo; echo "| change | check | result |"; echo "|---|---|---|"
  awk '{r=$3; $1=$1; printf "| %s | %s | %s |\n", $1, $2, r}' .work/neutral_res.txt
} > neutral/RESULTS.md
grep -vc "QUIET" .work/neutral_res.txt; grep -v QUIET .work/neutral_res.txt | cut -c1-300
