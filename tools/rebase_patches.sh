#!/bin/bash
# tools/rebase_patches.sh: after a "fix:" commit in /repo, refresh every seeded/*/patch.diff and mutants/*.diff that no
# longer applies with plain `git apply` (context moved) by applying it with fuzz in a scratch worktree and re-diffing.
# Prints what it refreshed and what it could not (those need a hand).
wt=/tmp/verif_rebase.$$
git -C /repo worktree add -q --detach "$wt" HEAD || exit 2
trap 'git -C /repo worktree remove --force "$wt" 2>/dev/null; rm -rf "$wt"' EXIT
cd "$wt"
for f in /verif/seeded/*/patch.diff /verif/mutants/*.diff /verif/neutral/*.diff; do
  git checkout -q -- . ; git clean -fdq
  if git apply --check "$f" 2>/dev/null; then continue; fi
  if patch -p1 -F3 -s --no-backup-if-mismatch < "$f" >/dev/null 2>&1; then
    find . -name '*.orig' -delete; find . -name '*.rej' -delete
    git add -A -N . >/dev/null 2>&1
    git diff > "$f.new"
    if [ -s "$f.new" ]; then mv "$f.new" "$f"; echo "REFRESHED ${f#/verif/}"; else rm -f "$f.new"; echo "EMPTY-AFTER-APPLY ${f#/verif/}"; fi
  else
    echo "CANNOT-APPLY ${f#/verif/}"
  fi
done
