#!/bin/bash
# tools/mutbatch.sh <out-file> [tier] [workers] < list of "ID patch.diff" lines
# Runs tools/mutant.sh for every line with a fixed number of workers (fixed scratch slots), one result line each.
out=$1; tier=${2:-quick}; P=${3:-4}
cd /verif
mapfile -t lines
: > "$out"
for w in $(seq 1 $P); do
  (
    i=0
    for l in "${lines[@]}"; do
      i=$((i+1)); [ $(( (i-1) % P + 1 )) -eq $w ] || continue
      set -- $l
      s=$(date +%s)
      r=$(MUT_SLOT=slot$w tools/mutant.sh "$1" "$2" "$tier" 2>&1 | tail -1 | cut -c1-260)
      echo "$1 ${2#/verif/} $(( $(date +%s)-s ))s $r" >> "$out"
    done
  ) &
done
wait
sort -o "$out" "$out"
