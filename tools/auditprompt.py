#!/usr/bin/env python3
"""prints the prompt for a white-box audit-and-strengthen sub-agent: tools/auditprompt.py C08"""
import json, sys, glob, os
pid = sys.argv[1]
for l in open('/verif/properties.jsonl'):
    d = json.loads(l)
    if d['id'] == pid:
        break
n = pid[1:]
tried = []
for m in sorted(glob.glob('/verif/seeded/*/meta.json')):
    mm = json.load(open(m))
    if mm['property'] != pid and mm.get('checked_with') != pid:
        continue
    notes = os.path.join(os.path.dirname(m), 'notes.md')
    title = open(notes).readline().strip().lstrip('# ') if os.path.exists(notes) else mm['name']
    tried.append(f"  - seeded/{mm['name']}: {title}" + (" [was missed at first]" if 'history' in mm else ""))
for p in sorted(glob.glob(f'/verif/mutants/c{n}_*.diff')):
    tried.append(f"  - mutants/{os.path.basename(p)}")
print(f"""You are strengthening ONE check of a model-checking framework that lives in /verif and verifies the Go library Tnze/go-mc checked out at /repo. Read /verif/HARNESS_GUIDE.md completely first (it is the contract for check authors), then in /verif/DESIGN.md the §2 section for property {pid} and §8.2, §8.4, §8.5.

Environment (every shell call): `export GOFLAGS=-mod=mod GOPROXY=off GOSUMDB=off GOTOOLCHAIN=local`. No network. ALWAYS wrap first runs in `timeout`, and pipe long output through `tail`/`cut -c1-300`. Never use `pkill -f`. Other agents are working on other checks at the same time on the same 16 cores, so wall times you measure are inflated; do not "fix" slowness that is contention.

THE PROPERTY (given and fixed; never edit /verif/properties.jsonl):
  {pid}: {d['title']}
  Statement: {d['statement']}
  Quantified over: {d['quantifier']['text']}
  Why tests can't: {d['why_tests_cant']}
  Anchored in: {', '.join(d['anchors']['files'])}

YOUR CHECK: /verif/checks/c{n}/ (run with `cd /verif && ./check.sh {pid} quick` / `thorough`; it may import shared helper packages under /verif/checks/ and /verif/ref/ and /verif/engine/).

Property-breaking changes already tried against this check (all are detected now; look ELSEWHERE):
{chr(10).join(tried) if tried else '  (none)'}

BACKGROUND. Independent engineers who saw only the property text keep finding realistic property-breaking changes to go-mc that compile, pass go-mc's own test suite, and that a check misses at first. The misses cluster: (a) state that survives a call — sync.Pool objects, recycled slice capacity (len<cap), memo maps, per-type caches, option flags on reused objects, package-level scratch — which only shows in HISTORIES on one object / one process or in overlapping use; (b) alphabet holes — a boundary value, a size class, a character class, a combination of two options the check never produces together; (c) environment answers — short reads, (n>0, err) results, write failures at an offset, a reader that is not a ByteReader, reopened files; (d) entry points in the property's scope that the check never calls; (e) oracles that only look at part of the result (value but not byte count / residual stream / aliasing of the caller's buffers / the destination's previous contents).

YOUR TASK
1. AUDIT. Read the anchored go-mc code and everything it calls that falls inside the property's scope, and read your check's source. Write down (for yourself) every dimension of the property's quantifier and every piece of state in that go-mc code that outlives a call or is shared, and for each whether the check enumerates it. Look at the evidence file /verif/evidence/{pid}.json to see what the check currently counts.
2. PROVE EACH GAP with a mutant. For the 3-6 most realistic gaps, write a property-breaking patch to go-mc in a scratch worktree (`git -C /repo worktree add --detach /tmp/audit_{pid}_wt HEAD`; edit files there only; NEVER edit /repo). The patch must look like a plausible refactor/optimisation/boundary slip, must build (`go build ./...`), must pass go-mc's own suite (`cd /tmp/audit_{pid}_wt && go test -vet=off -count=1 ./...`), and must really violate the property statement as written (be able to say which sentence). Save it as /verif/mutants/c{n}_<short-name>.diff (`git -C /tmp/audit_{pid}_wt diff > ...`, then `git -C /tmp/audit_{pid}_wt checkout -- .` before the next patch). Run `cd /verif && tools/mutant.sh {pid} mutants/c{n}_<short-name>.diff quick 2>&1 | tail -3` — it builds a scratch tree with the patch, runs the suite and the check, and prints DETECTED / MISSED. If DETECTED already, it was not a gap: delete that diff and move on to another idea.
3. CLOSE EACH GAP by extending the check: a new family, a wider alphabet, a history dimension, a new entry point, a stronger oracle. Stay inside the technique: exhaustive enumeration of a stated finite menu/space, never sampling, deterministic. The oracle must not demand more than the property statement says (where the statement is silent: `rep.Unspec`). New case kinds must be replayable (`-replay`). Report the new coverage through rep.Count/rep.Extra so the evidence file names the new menus and bounds. Keep the quick tier around a minute of wall time on an idle 16-core machine and thorough under 15 minutes.
4. After every extension: `cd /verif && timeout 1800 ./check.sh {pid} quick 2>&1 | tail -5` on the UNCHANGED /repo must exit 0 with no VIOLATION line. If it reports something, triage it before anything else: either your new oracle/reference/harness is wrong or stricter than the statement (a false alarm: fix the check), or go-mc really violates the property (a genuine defect: do NOT touch /repo and do NOT weaken the check; keep going with other work and report it to me at the end with the class string, the minimal witness, the go-mc lines at fault and the smallest patch that repairs it). Then re-run tools/mutant.sh for your patch: it must now say DETECTED; also re-run it for the other c{n}_*.diff in /verif/mutants/ if you touched shared logic.
5. Before finishing: run `cd /verif && timeout 3000 ./check.sh {pid} thorough 2>&1 | tail -5` once (must exit 0, no VIOLATION), `gofmt -l checks/c{n}`, remove your worktree (`git -C /repo worktree remove --force /tmp/audit_{pid}_wt; git -C /repo worktree prune`) and everything else you created under /tmp.

RULES. Edit only files inside /verif/checks/c{n}/ (add new files freely) and add /verif/mutants/c{n}_*.diff. Shared helper packages (/verif/checks/nbtx, nbtgo, regionx, /verif/ref/*, /verif/engine, /verif/shim/*, /verif/tools/*, check.sh) must not be modified — if you need something from them that is missing, add a helper inside your own directory or tell me in the report. Do not edit /repo, MANIFEST.json, KNOWN_FINDINGS.txt, DESIGN.md, properties.jsonl or other checks' directories. Do not `git commit`. Do not leave background processes running.

FINAL REPORT (at most 40 lines): the gaps you found (one line each: the state/dimension, the mutant file, MISSED→DETECTED or already detected), what you added to the check (families, menus, bounds, counts, quick wall time before/after), any genuine go-mc defect found on the unchanged tree (with witness and proposed minimal fix), anything you could not close and why.""")
