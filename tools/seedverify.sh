#!/bin/bash
# tools/seedverify.sh <PROPERTY_ID> <out_dir_of_agent> [name]
# Confirms a seeded change independently in a fresh scratch worktree (applies patch.diff to current HEAD,
# builds, runs the pinned suite, runs the demonstration with and without the change), then runs the
# property's quick check against it and stores everything under /verif/seeded/<name>/.
id=$1; src=$2; name=${3:-$id}
export GOFLAGS=-mod=mod GOPROXY=off GOSUMDB=off GOTOOLCHAIN=local
wt=/tmp/verif_seed.$$
git -C /repo worktree add -q --detach "$wt" HEAD || exit 2
trap 'git -C /repo worktree remove --force "$wt" 2>/dev/null; rm -rf "$wt"' EXIT
pkg=$(cat "$src/demo_pkg.txt" | tr -d ' \n')
demo=$(ls "$src"/*_test.go | head -1)
cd "$wt"
cp "$demo" "$wt/$pkg/zz_seed_demo_test.go"
base_demo=$(go test -vet=off -count=1 -run SeedDemo "$pkg" 2>&1 | tail -3 | tr '\n' ' ')
echo "$base_demo" | grep -q '^ok\|	ok\|^ok ' && base_ok=true || { echo "$base_demo" | grep -q "ok  " && base_ok=true || base_ok=false; }
git apply "$src/patch.diff" 2>/dev/null || patch -p1 -F3 -s --no-backup-if-mismatch < "$src/patch.diff" || { echo "RESULT patch does not apply to HEAD"; exit 1; }
find . -name "*.orig" -delete 2>/dev/null
build_ok=true; go build ./... 2>/dev/null || build_ok=false
mv "$wt/$pkg/zz_seed_demo_test.go" /tmp/zz_seed_demo_$$.go
suite=$(go test -vet=off -count=1 ./... 2>&1 | grep -v "no test files" | grep -v "^ok" | head -5 | tr '\n' ' ')
# the suite binds fixed ports (RCON 25575): a failure while another scratch tree runs it is retried once
[ -n "$suite" ] && { sleep $((5 + RANDOM % 10)); suite=$(go test -vet=off -count=1 ./... 2>&1 | grep -v "no test files" | grep -v "^ok" | head -5 | tr '\n' ' '); }
suite_ok=true; [ -n "$suite" ] && suite_ok=false
mv /tmp/zz_seed_demo_$$.go "$wt/$pkg/zz_seed_demo_test.go"
mut_demo=$(go test -vet=off -count=1 -run SeedDemo "$pkg" 2>&1 | tail -4 | tr '\n' ' ')
echo "$mut_demo" | grep -q "FAIL" && mut_fails=true || mut_fails=false
rm -f "$wt/$pkg/zz_seed_demo_test.go"
cd /verif
out=$(VERIF_REPO="$wt" VERIF_EVIDENCE_DIR="$wt/evidence" timeout 2400 ./check.sh "$id" quick 2>&1); rc=$?
nviol=$(echo "$out" | grep -c '^VIOLATION')
first=$(echo "$out" | grep -m1 '^VIOLATION' | cut -c1-400)
verdict=MISSED; [ $rc -eq 1 ] && [ $nviol -gt 0 ] && verdict=DETECTED; [ $rc -ge 2 ] && verdict="ERROR($rc)"
mkdir -p "seeded/$name"
git -C "$wt" diff > "seeded/$name/patch.diff"; [ -s "seeded/$name/patch.diff" ] || cp "$src/patch.diff" "seeded/$name/patch.diff"; cp "$demo" "seeded/$name/"; cp "$src/notes.md" "seeded/$name/notes.md" 2>/dev/null
python3 - "$id" "$name" "$pkg" "$base_ok" "$build_ok" "$suite_ok" "$mut_fails" "$verdict" "$nviol" "$first" "$(git -C /repo rev-parse --short HEAD)" <<'PY'
import json,sys
a=sys.argv[1:]
notes=""
try: notes=open('/verif/seeded/%s/notes.md'%a[1]).read()
except Exception: pass
meta={"property":a[0],"name":a[1],"demo_package":a[2],"repo_head":a[10],
 "confirmed":{"demo_passes_on_unchanged_tree":a[3]=="true","builds_with_change":a[4]=="true","pinned_suite_passes_with_change":a[5]=="true","demo_fails_with_change":a[6]=="true"},
 "needs_to_manifest":"see notes.md (written by the independent sub-agent that produced the change)",
 "what_i_ran":["git worktree add --detach <scratch> HEAD","go test -run SeedDemo <pkg> (unchanged)","git apply patch.diff","go build ./...","go test -vet=off -count=1 ./... (demo moved aside)","go test -run SeedDemo <pkg> (changed)","VERIF_REPO=<scratch> ./check.sh %s quick"%a[0]],
 "check_result":{"verdict":a[7],"violations":int(a[8]),"first_violation":a[9]}}
json.dump(meta,open('/verif/seeded/%s/meta.json'%a[1],'w'),indent=1)
print("RESULT",a[1],"base_demo_ok=%s build=%s suite=%s demo_fails=%s check=%s n=%s :: %s"%(a[3],a[4],a[5],a[6],a[7],a[8],a[9][:200]))
PY
