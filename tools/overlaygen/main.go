// overlaygen writes a `go build -overlay` file that (a) injects the shim packages as virtual
// packages inside the go-mc module (github.com/Tnze/go-mc/verifshim/...) and (b) replaces listed
// go-mc files by mechanically rewritten copies generated from the CURRENT /repo files:
//   import "sync"      -> sync "github.com/Tnze/go-mc/verifshim/vsync"   (identifier unchanged)
//   go f(x)            -> vsyncgo.Go(func() { f(x) })
// and optionally adds extra files (dst=src) to go-mc packages.
//
// usage: overlaygen -work DIR -mode controlled|free [-rewrite a.go,b.go] [-add dst=src,...]
package main

import (
	"bytes"
	"encoding/json"
	"flag"
	"fmt"
	"go/ast"
	"go/format"
	"go/parser"
	"go/token"
	"os"
	"path/filepath"
	"strconv"
	"strings"
)

var repo = "/repo"
const shimPath = "github.com/Tnze/go-mc/verifshim/"

func die(f string, a ...any) {
	fmt.Fprintf(os.Stderr, "overlaygen: "+f+"\n", a...)
	os.Exit(1)
}

func main() {
	work := flag.String("work", "", "work dir")
	mode := flag.String("mode", "controlled", "controlled|free")
	rewrite := flag.String("rewrite", "", "comma separated repo-relative files to rewrite (controlled mode only)")
	add := flag.String("add", "", "comma separated dst=src pairs (dst repo-relative)")
	rewriteDirs := flag.String("rewrite-dirs", "", "comma separated repo-relative package dirs: every non-test .go file in them that imports sync or has a go statement is rewritten (controlled mode only)")
	flag.Parse()
	if r := os.Getenv("VERIF_REPO"); r != "" {
		repo = r
	}
	if *work == "" {
		die("need -work")
	}
	if abs, err := filepath.Abs(*work); err == nil {
		*work = abs
	}
	root, _ := os.Getwd()
	if r := os.Getenv("VERIF_ROOT"); r != "" {
		root = r
	}
	ov := map[string]string{}
	// merge an existing overlay
	if b, err := os.ReadFile(filepath.Join(*work, "overlay.json")); err == nil {
		var old struct{ Replace map[string]string }
		if json.Unmarshal(b, &old) == nil {
			for k, v := range old.Replace {
				ov[k] = v
			}
		}
	}
	addDir := func(pkg, srcDir string) {
		ents, err := os.ReadDir(srcDir)
		if err != nil {
			die("%v", err)
		}
		for _, e := range ents {
			if strings.HasSuffix(e.Name(), ".go") && !strings.HasSuffix(e.Name(), "_test.go") {
				ov[filepath.Join(repo, "verifshim", pkg, e.Name())] = filepath.Join(srcDir, e.Name())
			}
		}
	}
	if *mode == "controlled" {
		addDir("sched", filepath.Join(root, "shim/sched"))
		addDir("vsync", filepath.Join(root, "shim/vsync"))
	} else {
		addDir("sched", filepath.Join(root, "shim/schedfree"))
	}
	if *mode == "controlled" {
		addDir("vnet", filepath.Join(root, "shim/vnet"))
	} else {
		addDir("vnet", filepath.Join(root, "shim/vnetfree"))
	}
	if *rewrite != "" && *mode == "controlled" {
		for _, rel := range strings.Split(*rewrite, ",") {
			src := filepath.Join(repo, rel)
			out := filepath.Join(*work, "rw_"+strings.ReplaceAll(rel, "/", "_"))
			if err := rewriteFile(src, out); err != nil {
				die("%s: %v", rel, err)
			}
			ov[src] = out
		}
	}
	if *rewriteDirs != "" && *mode == "controlled" {
		for _, dir := range strings.Split(*rewriteDirs, ",") {
			ents, err := os.ReadDir(filepath.Join(repo, dir))
			if err != nil {
				die("%v", err)
			}
			for _, e := range ents {
				name := e.Name()
				if e.IsDir() || !strings.HasSuffix(name, ".go") || strings.HasSuffix(name, "_test.go") {
					continue
				}
				src := filepath.Join(repo, dir, name)
				if _, done := ov[src]; done {
					continue
				}
				out := filepath.Join(*work, "rw_"+strings.ReplaceAll(filepath.Join(dir, name), "/", "_"))
				err := rewriteFile(src, out)
				if err == errNothing {
					continue
				}
				if err != nil {
					die("%s: %v", filepath.Join(dir, name), err)
				}
				ov[src] = out
			}
		}
	}
	if *add != "" {
		for _, p := range strings.Split(*add, ",") {
			dst, src, ok := strings.Cut(p, "=")
			if !ok {
				die("bad -add %q", p)
			}
			if !filepath.IsAbs(src) {
				src = filepath.Join(root, src)
			}
			ov[filepath.Join(repo, dst)] = src
		}
	}
	b, _ := json.MarshalIndent(map[string]any{"Replace": ov}, "", " ")
	if err := os.WriteFile(filepath.Join(*work, "overlay.json"), b, 0o644); err != nil {
		die("%v", err)
	}
}

var errNothing = fmt.Errorf("file has neither a sync import nor a go statement: nothing to rewrite (stale rewrite list?)")

func rewriteFile(src, out string) error {
	fset := token.NewFileSet()
	f, err := parser.ParseFile(fset, src, nil, parser.ParseComments)
	if err != nil {
		return err
	}
	syncSeen := false
	for _, im := range f.Imports {
		p, _ := strconv.Unquote(im.Path.Value)
		if p == "sync" {
			if im.Name != nil && im.Name.Name != "sync" {
				return fmt.Errorf("import of sync under another name (%s) is not supported by the rewriter", im.Name.Name)
			}
			im.Path.Value = strconv.Quote(shimPath + "vsync")
			im.Name = ast.NewIdent("sync")
			syncSeen = true
		}
	}
	goSeen := false
	var rewriteStmts func(list []ast.Stmt)
	ast.Inspect(f, func(n ast.Node) bool {
		switch b := n.(type) {
		case *ast.BlockStmt:
			rewriteList(b.List, &goSeen)
		case *ast.CaseClause:
			rewriteList(b.Body, &goSeen)
		case *ast.CommClause:
			rewriteList(b.Body, &goSeen)
		case *ast.LabeledStmt:
			if _, ok := b.Stmt.(*ast.GoStmt); ok {
				goSeen = true
				b.Stmt = wrapGo(b.Stmt.(*ast.GoStmt))
			}
		}
		return true
	})
	_ = rewriteStmts
	// any go statement left (e.g. as the body of an if without braces is impossible in Go) is an error
	left := false
	ast.Inspect(f, func(n ast.Node) bool {
		if _, ok := n.(*ast.GoStmt); ok {
			left = true
		}
		return true
	})
	if left {
		return fmt.Errorf("a go statement in a position the rewriter does not know")
	}
	if goSeen {
		spec := &ast.ImportSpec{Name: ast.NewIdent("vsyncgo"), Path: &ast.BasicLit{Kind: token.STRING, Value: strconv.Quote(shimPath + "vsync")}}
		added := false
		for _, d := range f.Decls {
			if gd, ok := d.(*ast.GenDecl); ok && gd.Tok == token.IMPORT {
				gd.Specs = append(gd.Specs, spec)
				if !gd.Lparen.IsValid() {
					gd.Lparen = gd.Pos()
					gd.Rparen = gd.End()
				}
				added = true
				break
			}
		}
		if !added {
			f.Decls = append([]ast.Decl{&ast.GenDecl{Tok: token.IMPORT, Specs: []ast.Spec{spec}}}, f.Decls...)
		}
	}
	if !syncSeen && !goSeen {
		return errNothing
	}
	var buf bytes.Buffer
	if err := format.Node(&buf, fset, f); err != nil {
		return err
	}
	return os.WriteFile(out, buf.Bytes(), 0o644)
}

func rewriteList(list []ast.Stmt, seen *bool) {
	for i, s := range list {
		if g, ok := s.(*ast.GoStmt); ok {
			list[i] = wrapGo(g)
			*seen = true
		}
	}
}

// wrapGo turns `go call` into `vsyncgo.Go(func() { call })`.
func wrapGo(g *ast.GoStmt) ast.Stmt {
	return &ast.ExprStmt{X: &ast.CallExpr{
		Fun: &ast.SelectorExpr{X: ast.NewIdent("vsyncgo"), Sel: ast.NewIdent("Go")},
		Args: []ast.Expr{&ast.FuncLit{
			Type: &ast.FuncType{Params: &ast.FieldList{}},
			Body: &ast.BlockStmt{List: []ast.Stmt{&ast.ExprStmt{X: g.Call}}},
		}},
	}}
}
