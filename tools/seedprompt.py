#!/usr/bin/env python3
"""prints the prompt for a seeded-change sub-agent: tools/seedprompt.py C20 [variant-hint]"""
import json, sys
pid = sys.argv[1]
hint = sys.argv[2] if len(sys.argv) > 2 else ""
for l in open('/verif/properties.jsonl'):
    d = json.loads(l)
    if d['id'] == pid:
        break
wt = f"/tmp/seed_{pid}{hint}"
out = f"/tmp/seed_{pid}{hint}_out"
print(f"""You are helping to evaluate a verification effort for the Go library Tnze/go-mc (a collection of Minecraft libraries: NBT codec, network packet protocol, region files, chunk palettes, RCON, bot and server frameworks). You have your own scratch git worktree of the repository at {wt} (a detached checkout of the current HEAD). Work ONLY inside {wt} and {out}; never read or write /repo or /verif, and do not run git commit.

Environment (every shell call): `export GOFLAGS=-mod=mod GOPROXY=off GOSUMDB=off GOTOOLCHAIN=local` — there is no network; Go 1.23; the module builds offline. The repository's own tests run with `cd {wt} && go test -vet=off -count=1 ./...` (they all pass on the unchanged tree).

The semantic property under study:

  Title: {d['title']}
  Statement: {d['statement']}
  Quantified over: {d['quantifier']['text']}
  Code it is anchored in: {', '.join(d['anchors']['files'])}

YOUR TASK: make ONE realistic change to the library source in {wt} (not to tests) that BREAKS this property, while the repository still compiles and its existing test suite still passes completely. The change should look like a plausible refactoring / optimisation / off-by-one slip a maintainer could make (cursor or length arithmetic, a boundary condition, ordering of two steps, a reused buffer or pooled object, a missing reset, a swapped index, a condition hoisted out of a lock, ...) — not sabotage like deleting a whole function body. Prefer a change that needs something SPECIFIC to manifest — a particular interleaving of threads, a crash or I/O fault at a particular point, a multi-step sequence of operations, an unusual input value or size, or two cooperating sites that each look fine alone — rather than one that any ordinary use would expose at once.{' ' + open('/verif/tools/seedhint_'+hint+'.txt').read().strip() if hint else ''}

Also write a DEMONSTRATION: a Go test file (or small program) that fails (or prints a clear failure) with your change and passes on the unchanged tree. Put it in the appropriate package directory of the worktree as `zz_seed_demo_test.go` (package-internal or external test, your choice) so that `go test -run SeedDemo ./<pkg>/` runs it.

Deliver, in {out}/ (create it):
  - patch.diff : `git -C {wt} diff -- . ':(exclude)**/zz_seed_demo_test.go'` — the library change only (no demo file in it)
  - the demonstration file (copy of zz_seed_demo_test.go) plus demo_pkg.txt containing the package path to run it in (e.g. ./net/queue/)
  - notes.md : what the change is, why it breaks the property, what exactly is needed for it to manifest, and the commands you ran with their results (build, full test suite with the change, demo with and without the change).

Verify all of this yourself before finishing: (1) `go build ./...` ok with the change, (2) the full existing test suite passes with the change, (3) the demo fails with the change, (4) after reverting the change with `git apply -R <your diff>` the demo passes (never use `git stash`: stashes are shared between sibling worktrees); then re-apply the change so the worktree ends in the changed state. Your final message should summarise the change in a few lines.""")
