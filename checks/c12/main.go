// C12 — PaletteContainer is an array of state ids across all palette upgrades.
//
// Explicit-state exploration of the REAL containers (block states: 4096 entries, biomes: 64)
// by replayed operation histories; a []int model is compared at ALL positions after every
// judged step and the wire form is decoded by ref/refpal's independent reader after every
// judged step. Enumerated (never sampled):
//
//	spine   one history per configuration that adds one new distinct id at a time from d=1 to
//	        dmax, judged after every single Set (every upgrade boundary is crossed);
//	sweep   for every d in 1..dmax (the state reached by the spine) x every operation of the
//	        alphabet: Set(new id | existing id | default) at positions {0,1,15,16,last}; wire
//	        round trip into {fresh, previously smaller, previously larger (wire-filled),
//	        previously larger (grown by Set)} containers; reload through
//	        New*PaletteContainerWithData(exported palette, raw longs); each round trip / reload
//	        followed by every follow-up mutation; also with a round trip after every Set;
//	macro   every history of depth <= 5 over {grow to next boundary, grow one past the
//	        boundary, set existing, round trip fresh/smaller/larger, reload} from several start
//	        sizes, so that each boundary is crossed from each predecessor;
//	saved   save-format (palette, data) pairs as vanilla writes them for palette sizes through
//	        every width, loaded with New*WithData, compared with refpal's reading of the same
//	        pair, then mutated further; the same pairs handed over in a palette slice with spare
//	        capacity (capMenu) and grown through the next two boundaries;
//	reader  every d x every reader device (readers.go: short counts, io.ByteReader,
//	        (n>0, io.EOF)) x {never used, previously larger} destination;
//	dest-size  every source state (quick: around the boundaries) x a destination used before at
//	        ANOTHER size N (grown by Set | received by an earlier ReadFrom | built from data), then
//	        the destination's old values are set again and the contents grow on;
//	pair    two LIVE containers in one history (pair.go): all words over 12 operations from every
//	        pair of start sizes, including reading one container's bytes into the other live one;
//	        both are compared in full after every step.
//
// Every judged Set(i,v) is bracketed by an isolated Get(i) directly before and directly after,
// every judged ReadFrom by a Get(i) on the destination before and the same Get(i) first thing after.
//
// x id orders {0,1,2,.. | registry max downwards and 15-bit ids} x placements.
package main

import (
	"bytes"
	"encoding/json"
	"fmt"
	"hash/fnv"
	"io"
	"regexp"
	"sort"
	"strconv"
	"strings"
	"sync"
	"sync/atomic"
	"time"

	"github.com/Tnze/go-mc/level"
	"github.com/Tnze/go-mc/level/biome"
	"github.com/Tnze/go-mc/level/block"

	"verif/engine"
	"verif/ref/refpal"
)

// ---------------------------------------------------------------------------------------
// uniform view of the two generic instantiations

type cont interface {
	Get(i int) int
	Set(i, v int)
	WriteTo(w io.Writer) (int64, error)
	ReadFrom(r io.Reader) (int64, error)
	Palette() []int
}

type blocksC struct {
	p *level.PaletteContainer[level.BlocksState]
}

func (c blocksC) Get(i int) int                       { return int(c.p.Get(i)) }
func (c blocksC) Set(i, v int)                        { c.p.Set(i, level.BlocksState(v)) }
func (c blocksC) WriteTo(w io.Writer) (int64, error)  { return c.p.WriteTo(w) }
func (c blocksC) ReadFrom(r io.Reader) (int64, error) { return c.p.ReadFrom(r) }
func (c blocksC) Palette() []int {
	p := c.p.Palette()
	out := make([]int, len(p))
	for i, v := range p {
		out[i] = int(v)
	}
	return out
}

type biomesC struct {
	p *level.PaletteContainer[level.BiomesState]
}

func (c biomesC) Get(i int) int                       { return int(c.p.Get(i)) }
func (c biomesC) Set(i, v int)                        { c.p.Set(i, level.BiomesState(v)) }
func (c biomesC) WriteTo(w io.Writer) (int64, error)  { return c.p.WriteTo(w) }
func (c biomesC) ReadFrom(r io.Reader) (int64, error) { return c.p.ReadFrom(r) }
func (c biomesC) Palette() []int {
	p := c.p.Palette()
	out := make([]int, len(p))
	for i, v := range p {
		out[i] = int(v)
	}
	return out
}

type kindCfg struct {
	name     string
	ref      refpal.Kind
	n        int
	caps     []int // palette capacities of the successive representations
	dmax     int
	ctorName string
}

func (k *kindCfg) fresh(def int) cont {
	if k.name == "blocks" {
		return blocksC{level.NewStatesPaletteContainer(k.n, level.BlocksState(def))}
	}
	return biomesC{level.NewBiomesPaletteContainer(k.n, level.BiomesState(def))}
}

// withData passes the palette slice with the given spare capacity (exact == cap == len, as
// go-mc's own save reader builds it; otherwise what Palette() exported).
func (k *kindCfg) withData(longs []uint64, pal []int, exported []int) cont {
	if k.name == "blocks" {
		p := make([]level.BlocksState, len(pal), len(pal)+cap(exported)-len(exported))
		for i, v := range pal {
			p[i] = level.BlocksState(v)
		}
		return blocksC{level.NewStatesPaletteContainerWithData(k.n, longs, p)}
	}
	p := make([]level.BiomesState, len(pal), len(pal)+cap(exported)-len(exported))
	for i, v := range pal {
		p[i] = level.BiomesState(v)
	}
	return biomesC{level.NewBiomesPaletteContainerWithData(k.n, longs, p)}
}

var kinds map[string]*kindCfg

func initKinds(thorough bool) {
	nb := len(block.StateList)
	// the biome registry size is not exported: BitsPerBiome = bits.Len(count); the largest id
	// the direct form can hold without exceeding the registry is found by probing names
	nbio := 0
	for biome.Type(nbio).String() != biome.Type(-1).String() {
		nbio++
		if nbio > 1<<20 {
			engine.HarnessError("cannot determine the biome registry size from biome.Type.String()")
		}
	}
	kinds = map[string]*kindCfg{
		"blocks": {name: "blocks", ref: refpal.Blocks(nb), n: 4096, caps: []int{1, 16, 32, 64, 128, 256}, dmax: 262, ctorName: "NewStatesPaletteContainerWithData"},
		"biomes": {name: "biomes", ref: refpal.Biomes(nbio), n: 64, caps: []int{1, 2, 4, 8}, dmax: 12, ctorName: "NewBiomesPaletteContainerWithData"},
	}
	if thorough {
		kinds["blocks"].dmax = 520
		kinds["biomes"].dmax = 40
	}
	if kinds["blocks"].ref.DirectBits != block.BitsPerBlock || kinds["biomes"].ref.DirectBits != biome.BitsPerBiome {
		// not an error of go-mc by itself: the registries decide. The reference uses ceil(log2(size)).
		engine.HarnessError("registry width mismatch: reference %d/%d, go-mc %d/%d (registry sizes %d/%d)",
			kinds["blocks"].ref.DirectBits, kinds["biomes"].ref.DirectBits, block.BitsPerBlock, biome.BitsPerBiome, nb, nbio)
	}
}

var (
	idCache   = map[string][]int{}
	idCacheMu sync.Mutex
)

// idOrder returns distinct valid ids; [0] is the default value. The result is shared: read only.
func (k *kindCfg) idOrder(variant string) []int {
	idCacheMu.Lock()
	defer idCacheMu.Unlock()
	if v, ok := idCache[k.name+"/"+variant]; ok {
		return v
	}
	v := k.idOrderBuild(variant)
	idCache[k.name+"/"+variant] = v
	return v
}

func (k *kindCfg) idOrderBuild(variant string) []int {
	reg := k.ref.RegistrySize
	var out []int
	switch variant {
	case "low":
		for i := 0; i < reg && len(out) < 5000; i++ {
			out = append(out, i)
		}
	case "high":
		if k.name == "blocks" {
			for j := 0; j < 2500; j++ {
				out = append(out, reg-1-j, 16384-j) // registry max downwards / ids needing the 15th bit
			}
		} else {
			for i := reg - 1; i >= 0; i-- {
				out = append(out, i)
			}
		}
	default:
		engine.HarnessError("unknown id order %q", variant)
	}
	return out
}

// ---------------------------------------------------------------------------------------
// cases

// Step is one (macro) operation of a history.
type Step struct {
	Op    string `json:"op"`            // new | existing | default | grow-to | G | P | rt | reload
	Pos   int    `json:"pos,omitempty"` // new/existing/default: position
	Arg   int    `json:"arg,omitempty"` // existing: which used id (0 oldest non-default, 1 newest); grow-to: target d
	Dest  string `json:"dest,omitempty"`
	Every bool   `json:"judge_every_set,omitempty"`
	RT    bool   `json:"round_trip_after_every_set,omitempty"`
	Rd    string `json:"reader,omitempty"` // rt/xfer: reader device (see readerMenu); "" = plain
	On    int    `json:"on,omitempty"`     // pair family: index of the live container the step works on
}

// Case is a replayable history.
type Case struct {
	Part    string `json:"part"` // history | saved | pair
	Kind    string `json:"kind"`
	Kind2   string `json:"kind2,omitempty"`             // pair: configuration of the second live container
	Cap     string `json:"palette_slice_cap,omitempty"` // saved: spare capacity of the palette slice handed to the constructor (see capMenu)
	IDs     string `json:"ids"`
	Place   string `json:"place"` // spread | cycle5+<0..4>
	Steps   []Step `json:"steps,omitempty"`
	D       int    `json:"palette_size,omitempty"` // saved
	Pattern string `json:"pattern,omitempty"`      // saved
	NilData bool   `json:"nil_data,omitempty"`     // saved, d == 1
	From    int    `json:"judge_from,omitempty"`   // steps before this index are a replayed prefix

	fam   string     // spine | sweep | macro | saved | ... (evidence accounting only)
	batch *pairBatch // pair: the task stands for every extension of Steps (see pairTasks)
}

// weight is the number of histories the task stands for.
func (c *Case) weight() int64 {
	if c.batch != nil {
		return int64(c.batch.size())
	}
	return 1
}

var (
	rep        *engine.Report
	absMu      sync.Mutex
	absStates  = map[string]int64{}
	transTotal int64
	histories  int64
	checksDone int64
	nonCanon   int64
	abandoned  int64
	probesDone int64
	destShort  int64
)

type machine struct {
	k        *kindCfg
	cs       *Case
	ids      []int
	c        cont
	model    []int
	used     []int
	nset     int
	fromWire bool
	failed   bool
	step     int
	last     refpal.Container // decoded wire form at the last judged step
	lastWire []byte
	wireOK   bool // lastWire/last describe the current state
	buf      bytes.Buffer
	destOld  []int // values the last used destination held before it was overwritten from the wire

	// the raw longs the harness (as the caller) passed to the last New*WithData and a private copy of them: the
	// container must not write into the caller's slice (variant "exact": compared at every later check), nor
	// keep reading from it (variant "exported": the caller scribbles over its slice right after the call)
	callerLongs, callerCopy []uint64

	idsName, placeName string // id order / placement (the second container of a pair uses the other id order)
	pfx                string // class prefix
}

var crossingRE = regexp.MustCompile(`crossing-[0-9]+-to-[0-9]+`)

var pos5 = func(n int) []int { return []int{0, 1, 15, 16, n - 1} }

func (m *machine) place() int {
	n := m.k.n
	var p int
	if len(m.placeName) == 8 && m.placeName[:7] == "cycle5+" {
		p = pos5(n)[(m.nset+int(m.placeName[7]-'0'))%5]
	} else if m.placeName != "spread" {
		engine.HarnessError("unknown placement %q", m.placeName)
	} else {
		p = (m.nset*37 + 5) % n // 37 is coprime to 64 and 4096: a permutation
	}
	m.nset++
	return p
}

func (m *machine) fail(class, detail string) {
	m.failed = true
	class = m.pfx + class
	if m.cs.Cap != "" {
		// one class per failure kind whatever the boundary: the palette slice's capacity is the subject
		class = crossingRE.ReplaceAllString(class, "crossing-a-boundary")
	}
	size := m.step*100000 + len(m.used)
	if m.cs.Part == "saved" {
		size += 10000000 + m.cs.D // prefer plain histories as witnesses of classes both families reach
	}
	if m.cs.Part == "pair" {
		size += 20000000
	}
	// the witness is the history up to the failing step
	cc := *m.cs
	cc.From = 0
	nst := m.step
	if nst > len(m.cs.Steps) {
		nst = len(m.cs.Steps)
	}
	cc.Steps = append([]Step(nil), m.cs.Steps[:nst]...)
	// deterministic tie-break between equally small witnesses found by different workers
	if js, err := json.Marshal(cc); err == nil {
		h := fnv.New32a()
		h.Write(js)
		size = size*1024 + int(h.Sum32()%1024)
	}
	rep.FailLazy(class, size, func() engine.Failure {
		return engine.Failure{Detail: fmt.Sprintf("%s ids=%s place=%s step %d (distinct values so far %d): %s", m.k.name, m.idsName, m.placeName, m.step, len(m.used), detail), Case: cc}
	})
}

func formName(c refpal.Container) string {
	if c.Form == refpal.Single {
		return "single"
	}
	return fmt.Sprintf("%s-%dbit", c.Form, c.Bits)
}

// rawWire runs WriteTo only (replayed, already judged prefixes).
func (m *machine) rawWire() bool {
	m.buf.Reset()
	var err error
	if _, _, p := engine.Guard(func() { _, err = m.c.WriteTo(&m.buf) }); p || err != nil {
		return false
	}
	m.lastWire = append(m.lastWire[:0], m.buf.Bytes()...)
	return true
}

// agrees is the cheap comparison used after replayed (unjudged) transfers: a history whose
// prefix already broke the model is abandoned silently - the break is reported by the history
// in which that step is the judged one.
func (m *machine) agrees() bool {
	ok := true
	if _, _, p := engine.Guard(func() {
		for i, w := range m.model {
			if m.c.Get(i) != w {
				ok = false
				return
			}
		}
	}); p {
		return false
	}
	if !ok {
		atomic.AddInt64(&abandoned, 1)
	}
	return ok
}

// writeWire runs WriteTo and the independent decoder. what: class prefix.
func (m *machine) writeWire(what string) bool {
	m.buf.Reset()
	var n int64
	var err error
	if pk, frame, p := engine.Guard(func() { n, err = m.c.WriteTo(&m.buf) }); p {
		m.fail(what+"/WriteTo/panic/"+frame+"/"+pk, "WriteTo panicked: "+pk)
		return false
	}
	m.lastWire = append(m.lastWire[:0], m.buf.Bytes()...)
	if err != nil || n != int64(len(m.lastWire)) {
		m.fail(what+"/WriteTo/count-or-error", fmt.Sprintf("WriteTo returned (%d, %v), %d bytes written", n, err, len(m.lastWire)))
		return false
	}
	dc, used, derr := refpal.ReadContainer(m.k.ref, m.lastWire)
	if derr != nil {
		m.fail(what+"/WriteTo/not-a-paletted-container/"+formName(dc), fmt.Sprintf("independent decoder: %v (bits byte %d, %d bytes)", derr, dc.BitsByte, len(m.lastWire)))
		return false
	}
	if used != len(m.lastWire) {
		m.fail(what+"/WriteTo/trailing-bytes/"+formName(dc), fmt.Sprintf("independent decoder used %d of %d bytes", used, len(m.lastWire)))
		return false
	}
	for i, v := range dc.Values {
		if v != m.model[i] {
			m.fail(what+"/WriteTo/decoded-values-differ/"+formName(dc), fmt.Sprintf("decoded[%d]=%d, model has %d (bits byte %d)", i, v, m.model[i], dc.BitsByte))
			return false
		}
	}
	m.last = dc
	m.wireOK = true
	return true
}

// check compares every position and the wire form with the model.
func (m *machine) check(what string) bool {
	var bad, got = -1, 0
	if pk, frame, p := engine.Guard(func() {
		for i, w := range m.model {
			if got = m.c.Get(i); got != w {
				bad = i
				return
			}
		}
	}); p {
		m.fail(what+"/Get/panic/"+frame+"/"+pk, "reading back all positions panicked: "+pk)
		return false
	}
	if bad >= 0 {
		m.fail(what+"/Get/wrong-value", fmt.Sprintf("Get(%d)=%d, model has %d", bad, got, m.model[bad]))
		return false
	}
	for i := range m.callerCopy {
		if m.callerLongs[i] != m.callerCopy[i] {
			m.fail(what+"/callers-data-slice-changed", fmt.Sprintf("long %d of the slice given to %s earlier is now %#x; the caller passed %#x and has not touched it", i, m.k.ctorName, m.callerLongs[i], m.callerCopy[i]))
			return false
		}
	}
	if !m.writeWire(what) {
		return false
	}
	atomic.AddInt64(&checksDone, 1)
	// abstract state: (kind, palette size as announced on the wire | distinct ids for the direct
	// form, representation, announced bits, decoded-from-wire flag)
	psize := len(m.last.Palette)
	if m.last.Form == refpal.Direct {
		psize = len(m.used)
	}
	key := fmt.Sprintf("%s palette=%d %s byte=%d wire=%v", m.k.name, psize, formName(m.last), m.last.BitsByte, m.fromWire)
	absMu.Lock()
	absStates[key]++
	absMu.Unlock()
	if m.last.BitsByte != m.k.ref.CanonicalBitsByte(m.last.Form, m.last.Bits) {
		atomic.AddInt64(&nonCanon, 1)
	}
	return true
}

func (m *machine) crossing(before int) string {
	for _, c := range m.k.caps {
		if before == c {
			return fmt.Sprintf("crossing-%d-to-%d", c, c+1)
		}
	}
	return "no-upgrade"
}

func wireTag(b bool) string {
	if b {
		return "container-from-wire-or-data"
	}
	return "container-grown-by-Set"
}

// set performs one Set and (if judged) the full comparison.
func (m *machine) set(kind string, pos, v int, judged bool) bool {
	before := len(m.used)
	if m.wireOK && m.last.Form != refpal.Direct {
		before = len(m.last.Palette) // the palette only keeps values still present at the last upgrade
	}
	isNew := true
	for _, u := range m.used {
		if u == v {
			isNew = false
		}
	}
	cross := "no-upgrade"
	if isNew {
		cross = m.crossing(before)
	}
	what := "set/" + kind + "/" + cross + "," + wireTag(m.fromWire)
	m.wireOK = false
	// Get(pos) directly before and directly after Set(pos, v): the history Get(i) Set(i,v) Get(i)
	// with nothing in between (the full comparison reads in ascending order and would hide a
	// read that depends on the read before it)
	if judged && !m.probe(what+"/Get-directly-before-Set", pos) {
		return false
	}
	if pk, frame, p := engine.Guard(func() { m.c.Set(pos, v) }); p {
		m.fail(what+"/Set/panic/"+frame+"/"+pk, fmt.Sprintf("Set(%d,%d) panicked: %s", pos, v, pk))
		return false
	}
	atomic.AddInt64(&transTotal, 1)
	m.model[pos] = v
	if isNew {
		m.used = append(m.used, v)
	}
	if judged {
		if !m.probe(what+"/Get-directly-after-Set", pos) {
			return false
		}
		return m.check(what)
	}
	return true
}

// probe is one isolated Get(pos) compared with the model.
func (m *machine) probe(what string, pos int) bool {
	var got int
	if pk, frame, p := engine.Guard(func() { got = m.c.Get(pos) }); p {
		m.fail(what+"/Get/panic/"+frame+"/"+pk, fmt.Sprintf("Get(%d) panicked: %s", pos, pk))
		return false
	}
	atomic.AddInt64(&probesDone, 1)
	if got != m.model[pos] {
		m.fail(what+"/Get/wrong-value", fmt.Sprintf("isolated Get(%d)=%d, model has %d", pos, got, m.model[pos]))
		return false
	}
	return true
}

func (m *machine) isUsed(v int) bool {
	for _, u := range m.used {
		if u == v {
			return true
		}
	}
	return false
}

// nextID is the first id of the order, from index len(used) on, that the container does not hold.
// (In plain histories ids are consumed in order and that is ids[len(used)]; after a transfer
// from a container that draws from the other order the scan skips what came with it.)
func (m *machine) nextID() int {
	for j := len(m.used); j < len(m.ids); j++ {
		if !m.isUsed(m.ids[j]) {
			return m.ids[j]
		}
	}
	engine.HarnessError("id order exhausted")
	return 0
}

var (
	largeWire   = map[string][]byte{}
	destDefault = map[string][2]int{"blocks": {7777, 7778}, "biomes": {33, 34}}
)

// destClass is the destination as it appears in class strings (no sizes).
func destClass(dest string) string {
	if i := strings.IndexByte(dest, ':'); i >= 0 {
		return dest[:i] + "-at-another-size"
	}
	return dest
}

// otherIDs returns n ids of the other id order that the source does not hold (fewer when the
// registry has no more).
func (m *machine) otherIDs(n int) []int {
	other := "high"
	if m.idsName == "high" {
		other = "low"
	}
	var cand []int
	for _, id := range m.k.idOrder(other) {
		if len(cand) == n {
			break
		}
		if !m.isUsed(id) {
			cand = append(cand, id)
		}
	}
	if len(cand) < n {
		atomic.AddInt64(&destShort, 1)
	}
	return cand
}

// makeDest builds the container a wire form is read into:
//
//	fresh        never used
//	small        grown by Set to 2 values
//	large        filled from a direct-form wire
//	large-grown  grown by Set into the direct form
//	same         grown by Set to the source's number of distinct values, other values
//	grown:N      grown by Set to N distinct values (any representation, narrower or wider)
//	wired:N      the same contents, but received through an earlier ReadFrom
//	data:N       built by New*WithData from an N-entry save pair (palette slice with cap == len)
//	self         the source itself reads its own bytes back
func (m *machine) makeDest(dest string) (c cont, perr string) {
	k := m.k
	dd := destDefault[k.name]
	if dest == "self" {
		m.destOld = append([]int(nil), m.used...)
		return m.c, ""
	}
	how, prevD := dest, 0
	if i := strings.IndexByte(dest, ':'); i >= 0 {
		n, err := strconv.Atoi(dest[i+1:])
		if err != nil || n < 1 {
			engine.HarnessError("bad destination %q", dest)
		}
		how, prevD = dest[:i], n
	}
	pk, _, p := engine.Guard(func() {
		switch how {
		case "fresh":
			c = k.fresh(dd[0])
		case "small":
			c = k.fresh(dd[0])
			c.Set(3, dd[1])
		case "large":
			c = k.fresh(dd[0])
			if _, err := c.ReadFrom(bytes.NewReader(largeWire[k.name])); err != nil {
				panic("cannot fill the destination from a direct-form wire: " + err.Error())
			}
		case "large-grown":
			c = k.fresh(dd[0])
			hi := k.idOrder("high")
			cnt := k.caps[len(k.caps)-1] + 5
			for j := 0; j < cnt; j++ {
				c.Set((j*37+11)%k.n, hi[(j+7)%len(hi)])
			}
		case "same", "grown", "wired":
			// a container that was used before with other values: stale per-palette state shows
			// only when one of its old values is set again after the transfer, recycled capacity
			// when the contents grow afterwards
			want := len(m.used)
			if prevD > 0 {
				want = prevD
			}
			cand := m.otherIDs(want)
			c = k.fresh(cand[0])
			for j := 1; j < len(cand); j++ {
				c.Set((j*37+11)%k.n, cand[j])
			}
			if how == "wired" {
				var b bytes.Buffer
				if _, err := c.WriteTo(&b); err != nil {
					panic("cannot write the destination's previous contents: " + err.Error())
				}
				c = k.fresh(dd[0])
				if _, err := c.ReadFrom(bytes.NewReader(b.Bytes())); err != nil {
					panic("cannot fill the destination from its previous contents: " + err.Error())
				}
			}
			m.destOld = cand
		case "data":
			cand := m.otherIDs(prevD)
			vals := make([]int, k.n)
			for i := range vals {
				vals[i] = cand[(i*7+1)%len(cand)]
			}
			c = k.withData(refpal.WriteSaved(k.ref, cand, vals), cand, cand[:len(cand):len(cand)])
			m.destOld = cand
		default:
			engine.HarnessError("unknown destination %q", dest)
		}
	})
	if p {
		perr = pk
	}
	return
}

func (m *machine) roundTrip(s Step, judged bool) bool {
	dest := s.Dest
	what := "rt/dest=" + destClass(dest)
	if !judged {
		if !m.rawWire() {
			return false
		}
	} else {
		if !m.wireOK && !m.writeWire(what) {
			return false
		}
		what += ",form=" + formName(m.last)
	}
	dst, perr := m.makeDest(dest)
	if perr != "" {
		m.fail("rt/build-destination/panic/dest="+destClass(dest), perr)
		return false
	}
	return m.readWire(dst, m.lastWire, s, what, judged)
}

// readWire reads wire into dst through the step's reader device; dst becomes the machine's
// container (the model must already describe the wire's contents).
func (m *machine) readWire(dst cont, wire []byte, s Step, what string, judged bool) bool {
	if s.Rd != "" && s.Rd != "plain" {
		what += ",reader=" + s.Rd
	}
	wire = append([]byte(nil), wire...)
	rd, consumed := newReader(s.Rd, wire)
	// one Get on the destination right before it is overwritten and the same Get first thing
	// afterwards: the history Get(i) ReadFrom Get(i)
	probe := s.Pos % m.k.n
	if judged {
		engine.Guard(func() { dst.Get(probe) })
	}
	var n int64
	var err error
	if pk, frame, p := engine.Guard(func() { n, err = dst.ReadFrom(rd) }); p {
		m.fail(what+"/ReadFrom/panic/"+frame+"/"+pk, "ReadFrom panicked on the bytes WriteTo produced: "+pk)
		return false
	}
	atomic.AddInt64(&transTotal, 1)
	if err != nil {
		m.fail(what+"/ReadFrom/error-on-own-output", fmt.Sprintf("ReadFrom: %v", err))
		return false
	}
	if n != int64(len(wire)) || consumed() != len(wire) {
		m.fail(what+"/ReadFrom/consumed-count", fmt.Sprintf("ReadFrom returned n=%d and took %d bytes from the reader; the container is %d bytes", n, consumed(), len(wire)))
		return false
	}
	m.c = dst
	m.fromWire = true
	m.wireOK = false
	if !judged {
		return m.agrees()
	}
	if !m.probe(what+"/Get-directly-after-ReadFrom", probe) {
		return false
	}
	return m.check(what)
}

func (m *machine) reload(variant string, judged bool) bool {
	if !m.wireOK {
		if !m.writeWire("reload") {
			return false
		}
	}
	form := formName(m.last)
	what := "reload/" + m.k.ctorName + "/exported-palette+raw/form=" + form
	var pal []int
	if pk, frame, p := engine.Guard(func() { pal = m.c.Palette() }); p {
		m.fail(what+"/Palette/panic/"+frame+"/"+pk, pk)
		return false
	}
	exported := pal
	if variant == "exact" {
		exported = pal[:len(pal):len(pal)]
	}
	longs := append([]uint64{}, m.last.Longs...)
	var nc cont
	if pk, frame, p := engine.Guard(func() { nc = m.k.withData(longs, pal, exported) }); p {
		m.fail(what+"/panic/"+frame+"/"+pk, fmt.Sprintf("constructor panicked on palette of %d entries and %d longs: %s", len(pal), len(longs), pk))
		return false
	}
	atomic.AddInt64(&transTotal, 1)
	m.c = nc
	m.fromWire = true
	m.wireOK = false
	if variant == "exact" {
		m.callerLongs, m.callerCopy = longs, append([]uint64{}, longs...)
	} else {
		m.callerLongs, m.callerCopy = nil, nil
		for i := range longs {
			longs[i] = ^longs[i] // the caller reuses its buffer
		}
	}
	if !judged {
		return m.agrees()
	}
	return m.check(what)
}

func (m *machine) growTo(target int, every, rt, judged bool, kind string) bool {
	for len(m.used) < target {
		before := len(m.used)
		j := judged && (every || len(m.used)+1 == target)
		if judged && !j {
			// always judge the Set that crosses a boundary and the one that fills it
			for _, c := range m.k.caps {
				if before == c || before+1 == c {
					j = true
				}
			}
		}
		if !m.set(kind, m.place(), m.nextID(), j) {
			return false
		}
		if rt {
			if !m.roundTrip(Step{Op: "rt", Dest: "fresh"}, j) {
				return false
			}
		}
	}
	return true
}

func (m *machine) exec(s Step, judged bool) bool {
	n := m.k.n
	switch s.Op {
	case "new":
		return m.set("new-id", s.Pos%n, m.nextID(), judged)
	case "existing":
		v := m.used[0]
		if len(m.used) > 1 {
			v = m.used[1]
			if s.Arg == 1 {
				v = m.used[len(m.used)-1]
			}
		}
		return m.set("existing-id", s.Pos%n, v, judged)
	case "default":
		return m.set("default-id", s.Pos%n, m.used[0], judged)
	case "old-dest": // a value the destination held before the last transfer into it
		if len(m.destOld) == 0 {
			return true
		}
		v := m.destOld[len(m.destOld)-1]
		if s.Arg == 1 {
			v = m.destOld[len(m.destOld)/2]
		}
		return m.set("dest-old-id", s.Pos%n, v, judged)
	case "grow-to":
		return m.growTo(s.Arg, s.Every, s.RT, judged, "new-id")
	case "G": // grow to the next boundary (fill the current representation)
		d := len(m.used)
		target := d + 3
		for _, c := range m.k.caps {
			if c > d {
				target = c
				break
			}
		}
		return m.growTo(target, false, false, judged, "new-id")
	case "P": // grow one past the boundary
		d := len(m.used)
		target := d + 1
		for _, c := range m.k.caps {
			if c >= d {
				target = c + 1
				break
			}
		}
		return m.growTo(target, false, false, judged, "new-id")
	case "rt":
		if s.Dest == "used" { // previously smaller / previously larger, alternating with the step index
			s.Dest = []string{"small", "large"}[m.step%2]
		}
		return m.roundTrip(s, judged)
	case "reload":
		return m.reload(s.Dest, judged)
	}
	engine.HarnessError("unknown step %q", s.Op)
	return false
}

// newMachine starts a fresh container holding the default value (the first id of the order).
func newMachine(k *kindCfg, cs *Case, idsName string) *machine {
	ids := k.idOrder(idsName)
	m := &machine{k: k, cs: cs, ids: ids, model: make([]int, k.n), idsName: idsName, placeName: cs.Place}
	for i := range m.model {
		m.model[i] = ids[0]
	}
	m.used = []int{ids[0]}
	if pk, _, p := engine.Guard(func() { m.c = k.fresh(ids[0]) }); p {
		m.fail("new/constructor/panic", pk)
		return nil
	}
	return m
}

// runHistory replays the case on a fresh container. Steps before cs.From are applied unjudged
// (they were judged when the state they lead to was first reached).
func runHistory(cs *Case) {
	k := kinds[cs.Kind]
	if k == nil {
		engine.HarnessError("unknown kind %q", cs.Kind)
	}
	m := newMachine(k, cs, cs.IDs)
	if m == nil {
		return
	}
	atomic.AddInt64(&histories, 1)
	if cs.From == 0 && !m.check("new/constructor") {
		return
	}
	for i, s := range cs.Steps {
		m.step = i + 1
		if i > 0 && i <= cs.From && !m.agrees() {
			return // the replayed prefix already broke the model: reported where that step is judged
		}
		if !m.exec(s, i >= cs.From) {
			return
		}
	}
}

// ---------------------------------------------------------------------------------------
// saved family

func savedPattern(name string, i, d, n int) int {
	switch name {
	case "cyclic":
		return i % d
	case "reverse":
		return (d - 1) - i%d
	case "runs":
		return (i * d / n) % d
	}
	engine.HarnessError("unknown pattern %q", name)
	return 0
}

func runSaved(cs *Case) {
	k := kinds[cs.Kind]
	ids := k.idOrder(cs.IDs)
	d := cs.D
	pal := append([]int(nil), ids[:d]...)
	values := make([]int, k.n)
	for i := range values {
		values[i] = pal[savedPattern(cs.Pattern, i, d, k.n)]
	}
	longs := refpal.WriteSaved(k.ref, pal, values)
	if cs.NilData {
		longs = nil
	} else if longs == nil {
		longs = []uint64{}
	}
	want, err := refpal.ReadSaved(k.ref, pal, longs)
	if err != nil {
		engine.HarnessError("reference cannot read its own saved pair: %v", err)
	}
	bits := k.ref.SavedBits(d)
	m := &machine{k: k, cs: cs, ids: ids, model: want, idsName: cs.IDs, placeName: cs.Place}
	// "used" ids: every palette entry counts as present
	m.used = append([]int(nil), pal...)
	m.fromWire = true
	sizeClass := fmt.Sprintf("saved-bits=%d", bits)
	if bits > k.ref.MaxIndirect {
		sizeClass = "palette-beyond-the-largest-in-memory-palette"
	}
	what := "saved/" + k.ctorName + "/vanilla-save-pair/" + sizeClass
	atomic.AddInt64(&histories, 1)
	// the palette slice as the caller hands it over: its spare capacity is not part of the
	// saved (palette, data) pair and must not show in the container's behaviour
	full := d // entries the in-memory palette of this width can hold
	if bits > 0 && bits <= k.ref.MaxIndirect {
		full = 1 << bits
		if k.name == "blocks" && bits < 4 {
			full = 16
		}
	}
	spare := 0
	switch cs.Cap {
	case "":
	case "plus1":
		spare = 1
	case "full":
		spare = full - d
	case "over":
		spare = full - d + 1
	case "double":
		spare = 2*full - d + 3
	default:
		engine.HarnessError("unknown palette slice capacity %q", cs.Cap)
	}
	if cs.Cap != "" {
		m.pfx = "palette-slice-with-spare-capacity/"
	}
	if pk, frame, p := engine.Guard(func() { m.c = k.withData(longs, pal, make([]int, d, d+spare)) }); p {
		m.fail(what+"/panic/"+frame+"/"+pk, fmt.Sprintf("constructor panicked on a %d-entry palette and %d longs (%d-bit indices): %s", d, len(longs), bits, pk))
		return
	}
	atomic.AddInt64(&transTotal, 1)
	if !m.check(what) {
		return
	}
	for i, s := range cs.Steps {
		m.step = i + 1
		if len(m.used) >= len(ids) || len(m.used) >= k.ref.RegistrySize {
			return
		}
		if !m.exec(s, true) {
			return
		}
	}
}

var (
	deadlineAt time.Time
	stopFlag   int32
)

// expired reports whether the walk's deadline has passed (never during a replay).
func expired() bool {
	if atomic.LoadInt32(&stopFlag) != 0 {
		return true
	}
	if !deadlineAt.IsZero() && time.Now().After(deadlineAt) {
		atomic.StoreInt32(&stopFlag, 1)
		return true
	}
	return false
}

// judge executes the task and returns the number of histories it executed.
func judge(cs *Case) int64 {
	switch cs.Part {
	case "saved":
		runSaved(cs)
	case "pair":
		if cs.batch != nil {
			return int64(runPairBatch(cs))
		}
		runPair(cs)
	default:
		runHistory(cs)
	}
	return 1
}

// capMenu: spare capacity of the palette slice given to New*WithData, relative to what the
// in-memory palette of the pair's width holds ("" = none: cap == len, as go-mc's save reader builds it).
var capMenu = []string{"plus1", "full", "over", "double"}

// ---------------------------------------------------------------------------------------
// enumeration

// nonGrowing are the single operations that leave the number of distinct values unchanged;
// they are chained on one replay of the state (each one judged).
func nonGrowing(n int) []Step {
	var out []Step
	for _, p := range pos5(n) {
		out = append(out, Step{Op: "existing", Pos: p}, Step{Op: "existing", Pos: p, Arg: 1}, Step{Op: "default", Pos: p})
	}
	return out
}

var transfers = []Step{{Op: "rt", Dest: "fresh"}, {Op: "rt", Dest: "small"}, {Op: "rt", Dest: "large"}, {Op: "rt", Dest: "large-grown"},
	{Op: "reload", Dest: "exported"}, {Op: "reload", Dest: "exact"}}

func cat(parts ...[]Step) []Step {
	var out []Step
	for _, p := range parts {
		out = append(out, p...)
	}
	return out
}

func buildTasks(thorough bool) []Case {
	var tasks []Case
	for _, kn := range []string{"blocks", "biomes"} {
		k := kinds[kn]
		n := k.n
		boundary := map[int]bool{}
		for _, c := range k.caps {
			boundary[c-1], boundary[c], boundary[c+1] = true, true, true
		}
		for _, ids := range []string{"low", "high"} {
			// spines: every d, judged after every Set; also with a round trip after every Set.
			// The five cycle placements put the new id of every d at each of {0,1,15,16,last}.
			for _, place := range []string{"spread", "cycle5+0", "cycle5+1", "cycle5+2", "cycle5+3", "cycle5+4"} {
				for _, rt := range []bool{false, true} {
					tasks = append(tasks, Case{Part: "history", Kind: kn, IDs: ids, Place: place, fam: "spine",
						Steps: []Step{{Op: "grow-to", Arg: k.dmax, Every: true, RT: rt}}})
				}
			}
			// sweep: every state d x every operation
			for _, place := range []string{"spread", "cycle5+0"} {
				for _, rt := range []bool{false, true} {
					for d := 1; d <= k.dmax-2; d++ {
						if rt && !thorough && !(boundary[d] && place == "spread") {
							continue
						}
						base := Case{Part: "history", Kind: kn, IDs: ids, Place: place, fam: "sweep", From: 1}
						pre := []Step{{Op: "grow-to", Arg: d, RT: rt}}
						c := base
						c.Steps = cat(pre, nonGrowing(n), []Step{{Op: "new", Pos: n / 2}})
						tasks = append(tasks, c)
						for _, tr := range transfers {
							c := base
							c.Steps = cat(pre, []Step{tr}, nonGrowing(n), []Step{{Op: "new", Pos: 0}, {Op: "existing", Pos: 1, Arg: 1}})
							tasks = append(tasks, c)
							c2 := base
							c2.Steps = cat(pre, []Step{tr, {Op: "new", Pos: n - 1}, {Op: "default", Pos: 15}})
							c2.From = 2
							tasks = append(tasks, c2)
						}
						c3 := base
						c3.Steps = cat(pre, []Step{{Op: "rt", Dest: "same"}, {Op: "old-dest", Pos: 5}, {Op: "existing", Pos: 1}, {Op: "old-dest", Pos: n - 1, Arg: 1}, {Op: "new", Pos: 2}})
						tasks = append(tasks, c3)
					}
				}
			}
			// readers: every state d x every reader device x {never used, previously larger} destination,
			// the probe position (Get before / first Get after ReadFrom) cycling through pos5
			for d := 1; d <= k.dmax-2; d++ {
				for ri, rd := range readerMenu[1:] {
					for di, dest := range []string{"fresh", "large"} {
						c := Case{Part: "history", Kind: kn, IDs: ids, Place: "spread", fam: "reader", From: 1}
						c.Steps = []Step{{Op: "grow-to", Arg: d}, {Op: "rt", Dest: dest, Rd: rd, Pos: pos5(n)[(d+ri+di)%5]},
							{Op: "new", Pos: 1}, {Op: "existing", Pos: 0, Arg: 1}}
						tasks = append(tasks, c)
					}
				}
			}
			// destinations used before at ANOTHER size: every source state d (quick: around the
			// boundaries) x every previous size N of the destination x how it got there, then the
			// destination's old values are set again and the contents grow through the next boundaries
			var destNs []int
			if kn == "blocks" {
				destNs = []int{1, 2, 3, 15, 16, 17, 31, 32, 33, 64, 65, 128, 129, 255, 256, 257, 300}
			} else {
				destNs = []int{1, 2, 3, 4, 5, 6, 7, 8, 9, 10, 11, 12}
			}
			for d := 1; d <= k.dmax-2; d++ {
				if !thorough && !boundary[d] {
					continue
				}
				for ni, N := range destNs {
					for _, how := range []string{"grown", "wired", "data"} {
						c := Case{Part: "history", Kind: kn, IDs: ids, Place: "spread", fam: "dest-size", From: 1}
						c.Steps = []Step{{Op: "grow-to", Arg: d}, {Op: "rt", Dest: how + ":" + strconv.Itoa(N), Pos: pos5(n)[(d+ni)%5]},
							{Op: "old-dest", Pos: 5}, {Op: "new", Pos: 0}, {Op: "G"}, {Op: "P"}, {Op: "existing", Pos: 1, Arg: 1}, {Op: "old-dest", Pos: n - 1, Arg: 1}, {Op: "P"}}
						tasks = append(tasks, c)
					}
				}
			}
			// macro histories: all words of the given depth (shorter words are prefixes, every step is judged)
			macro := []Step{{Op: "G"}, {Op: "P"}, {Op: "existing", Pos: 1, Arg: 1}, {Op: "rt", Dest: "fresh"}, {Op: "rt", Dest: "used"}, {Op: "reload", Dest: "exported"}}
			type start struct{ d, depth int }
			var starts []start
			if kn == "blocks" {
				switch {
				case thorough:
					starts = []start{{1, 6}, {16, 5}, {32, 5}, {64, 5}, {128, 6}, {256, 5}}
				case ids == "low":
					starts = []start{{1, 5}, {16, 5}, {32, 5}, {64, 5}, {128, 5}, {256, 5}}
				default:
					starts = []start{{1, 4}, {16, 4}, {32, 4}, {64, 4}, {128, 4}, {256, 4}}
				}
			} else {
				starts = []start{{1, 5}, {2, 5}, {4, 5}, {8, 5}}
				if thorough {
					starts = []start{{1, 6}, {2, 6}, {4, 6}, {8, 6}}
				}
			}
			for _, st := range starts {
				var rec func(cur []Step)
				rec = func(cur []Step) {
					if len(cur) == st.depth {
						c := Case{Part: "history", Kind: kn, IDs: ids, Place: "spread", fam: "macro", From: 1}
						c.Steps = cat([]Step{{Op: "grow-to", Arg: st.d}}, cur)
						tasks = append(tasks, c)
						return
					}
					for _, op := range macro {
						rec(cat(cur, []Step{op}))
					}
				}
				rec(nil)
			}
			// saved pairs
			var ds []int
			if kn == "blocks" {
				ds = []int{1, 2, 3, 15, 16, 17, 31, 32, 33, 63, 64, 65, 127, 128, 129, 255, 256, 257, 300, 511, 512, 513, 1024, 1025, 2048, 2049, 4096}
			} else {
				ds = []int{1, 2, 3, 4, 5, 7, 8, 9, 15, 16, 17, 31, 32, 33, 62}
			}
			fus := [][]Step{
				cat(nonGrowing(n), []Step{{Op: "new", Pos: 0}, {Op: "rt", Dest: "fresh"}, {Op: "new", Pos: n - 1}}),
				{{Op: "new", Pos: n - 1}, {Op: "rt", Dest: "small"}, {Op: "existing", Pos: 1, Arg: 1}},
				{{Op: "rt", Dest: "large"}, {Op: "new", Pos: 0}},
				{{Op: "reload", Dest: "exact"}, {Op: "new", Pos: 0}},
				{{Op: "P"}, {Op: "reload", Dest: "exported"}},
			}
			for _, d := range ds {
				for _, pat := range []string{"cyclic", "reverse", "runs"} {
					for _, fu := range fus {
						tasks = append(tasks, Case{Part: "saved", Kind: kn, IDs: ids, Place: "spread", D: d, Pattern: pat, Steps: fu, fam: "saved"})
						if d == 1 {
							tasks = append(tasks, Case{Part: "saved", Kind: kn, IDs: ids, Place: "spread", D: d, Pattern: pat, Steps: fu, NilData: true, fam: "saved"})
						}
					}
					// the same pair handed over in a palette slice with spare capacity, then grown
					// through the next two boundaries
					for _, cp := range capMenu {
						tasks = append(tasks, Case{Part: "saved", Kind: kn, IDs: ids, Place: "spread", D: d, Pattern: pat, Cap: cp, fam: "saved-cap",
							Steps: []Step{{Op: "new", Pos: 0}, {Op: "G"}, {Op: "P"}, {Op: "existing", Pos: 1, Arg: 1}, {Op: "G"}, {Op: "P"}}})
					}
				}
			}
		}
	}
	return append(tasks, pairTasks(thorough)...)
}

func selftest() {
	if err := refpal.SelfTest(); err != nil {
		engine.HarnessError("%v", err)
	}
	for _, k := range kinds {
		for _, v := range []string{"low", "high"} {
			ids := k.idOrder(v)
			seen := map[int]bool{}
			for _, id := range ids {
				if id < 0 || id >= k.ref.RegistrySize || seen[id] {
					engine.HarnessError("id order %s/%s is not a list of distinct registry ids (%d)", k.name, v, id)
				}
				seen[id] = true
			}
			if len(ids) < k.dmax+8 && len(ids) < k.ref.RegistrySize {
				engine.HarnessError("id order %s/%s too short", k.name, v)
			}
		}
		// destination filler: a direct-form container of ids nobody else uses
		vals := make([]int, k.n)
		for i := range vals {
			vals[i] = (k.ref.RegistrySize/2 + i*3) % k.ref.RegistrySize
		}
		largeWire[k.name] = refpal.AppendContainer(nil, k.ref, k.ref.DirectBits, nil, vals)
	}
	if kinds["biomes"].dmax+8 > kinds["biomes"].ref.RegistrySize {
		kinds["biomes"].dmax = kinds["biomes"].ref.RegistrySize - 8
	}
}

func main() {
	rep = engine.NewReport("C12")
	rep.Rule = "spine (one new id at a time through every boundary, judged after every Set) + sweep (every d x every operation of the alphabet, transfers followed by every follow-up) + macro histories (all words of depth <= 5 over 7 macro operations from each start size) + save-format pairs for palette sizes through every width (x spare capacity of the palette slice) + reader devices (every d x 6 devices x 2 destinations) + destinations used before at another size (d x N x {grown, wired, built from data}) + pair histories (two live containers, all words of depth 3 (thorough: 4) over 12 operations from every pair of start sizes, both compared in full after every step) + isolated Get(i) directly before/after every judged Set(i) and ReadFrom; x {blocks,biomes} x 2 id orders x placements. distinct = distinct (configuration, step list) tuples; non-trivial = all (each compares all positions and decodes the wire form after every judged step)"
	initKinds(rep.Thorough())
	selftest()
	if rep.ReplayPath != "" {
		rp, err := engine.LoadReplay(rep.ReplayPath)
		if err != nil {
			engine.HarnessError("cannot load replay: %v", err)
		}
		var dc dupCase
		if json.Unmarshal(rp.Case, &dc) == nil && dc.Part == "dup" {
			for i := 0; i < 5; i++ {
				if class, detail := judgeDup(dc); class != "" {
					rep.Fail(engine.Failure{Class: class, Detail: detail, Case: dc}, 0)
				}
			}
			rep.Eval(5)
			rep.Finish()
		}
		var c Case
		if err := json.Unmarshal(rp.Case, &c); err != nil {
			engine.HarnessError("bad case: %v", err)
		}
		c.From = 0
		fmt.Printf("replaying %s\n", string(rp.Case))
		for i := 0; i < 5; i++ {
			judge(&c)
		}
		rep.Eval(5)
		rep.Finish()
	}
	runDup()
	tasks := buildTasks(rep.Thorough())
	// Execution order (matters only when the deadline stops the walk): the cheap 64-entry
	// configuration in full first, then the block-state families from the smallest to the largest.
	prio := func(c *Case) int {
		switch {
		case c.Kind == "biomes" || c.Kind2 == "biomes":
			return 0
		case c.fam == "sweep":
			return 2
		case c.fam == "pair":
			return 3
		case c.fam == "macro":
			return 4
		}
		return 1
	}
	sort.SliceStable(tasks, func(i, j int) bool { return prio(&tasks[i]) < prio(&tasks[j]) })
	deadlineAt = time.Now().Add(50 * time.Second)
	if rep.Thorough() {
		deadlineAt = time.Now().Add(13 * time.Minute)
	}
	var skipped int64
	engine.ParallelFor(len(tasks), func(_, i int) {
		w := tasks[i].weight()
		if expired() {
			atomic.AddInt64(&skipped, w)
			return
		}
		n := judge(&tasks[i]) // a batch stops at the deadline too
		rep.Eval(n)
		atomic.AddInt64(&skipped, w-n)
	})
	var total int64
	for i := range tasks {
		total += tasks[i].weight()
	}
	if skipped > 0 {
		rep.Cap("deadline reached: %d of %d histories not executed (order: all biome histories; block states: spines, readers, destination sizes, saved pairs; sweep; pairs; macro)", skipped, total)
	}
	rep.Count("histories_abandoned_silently_because_a_replayed_(already_judged)_prefix_step_broke_the_model", abandoned)
	var parts = map[string]int64{}
	for i := range tasks {
		parts[tasks[i].fam+"_histories"] += tasks[i].weight()
	}
	for k, v := range parts {
		rep.Count(k, v)
	}
	absMu.Lock()
	rep.AddStates(int64(len(absStates)))
	n := 0
	for k := range absStates {
		if n < 4 {
			rep.Sample(map[string]any{"abstract_state": k})
			n++
		}
	}
	absMu.Unlock()
	rep.AddTrans(transTotal)
	rep.AddTraces(histories)
	rep.NonTrivial(rep.Evaluations)
	rep.Count("full_comparisons_(all_positions+wire_decode)", checksDone)
	rep.Count("wire_forms_whose_bits_byte_is_not_what_vanilla_writes_(accepted_by_vanilla's_reader)", nonCanon)
	rep.Unspec(nonCanon)
	rep.Count("isolated_Get_probes_(Get(i)_directly_before/after_Set(i,v)_or_ReadFrom)", probesDone)
	rep.Count("pair_histories_executed_(two_live_containers,_both_compared_after_every_judged_step)", pairsRun)
	rep.Count("used_destinations_built_with_fewer_old_values_than_asked_(registry_exhausted)", destShort)
	rep.Extra("reader_devices", readerMenu)
	rep.Extra("destinations", []string{"fresh", "small", "large", "large-grown", "same", "grown:N", "wired:N", "data:N", "self", "other live container (pair xfer)"})
	rep.Extra("palette_slice_spare_capacity_menu", append([]string{"none (cap == len)"}, capMenu...))
	rep.Extra("pair_depth", map[bool]int{false: 3, true: 4}[rep.Thorough()])
	rep.Extra("dmax", map[string]int{"blocks": kinds["blocks"].dmax, "biomes": kinds["biomes"].dmax})
	rep.Extra("registry_sizes", map[string]int{"blocks": kinds["blocks"].ref.RegistrySize, "biomes": kinds["biomes"].ref.RegistrySize})
	rep.Sample(tasks[len(tasks)/2])
	rep.Assume("reference reader/packer (ref/refpal) is trusted; pinned to the published wiki.vg packing example, the VarInt table and hand-assembled containers")
	rep.Assume("a bits-per-entry byte that vanilla's reader maps to the right storage width (1..3 for a 4-bit block palette, 9..14 for direct block ids) is accepted: the statement asks for the protocol encoding as judged by an independent decoder, and vanilla's decoder applies exactly these width rules; such wire forms are counted as unspecified")
	rep.Assume("every reader device is a conformant io.Reader (short counts, optional ReadByte, (n>0, io.EOF) on the last byte); failing readers and writers are not exercised (statement silent)")
	rep.Assume("ids stay inside the registries; Set with an id outside the registry and Get/Set with an out-of-range position are not exercised (statement silent)")
	rep.Finish()
}
