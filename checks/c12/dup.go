package main

// Part "dup": indirect palettes that list a value twice. A peer (or a save written by other software) may send a
// palette in which one value occurs at two indices; it reads correctly, because every index still names a value.
// Every container the other parts build comes from go-mc's own Set calls or from the reference writer, whose palettes
// are repeat-free, so "the palette as loaded" and "the palette as go-mc would have built it" never differ. Here the
// container is loaded from such a wire form / saved pair, compared, and then grown with new values through every
// later representation, compared in full after every Set.
//
// Menu (complete): kind x palette size d at every capacity of an indirect representation x position of the repeated
// entry {1, d/2, d-1} (it repeats entry 0) x loaded through {ReadFrom into a fresh container, ReadFrom into a used
// one, New*WithData}; the data uses every entry except the repeated copy, placed by index modulo.

import (
	"bytes"
	"fmt"

	"verif/engine"
	"verif/ref/refpal"
)

type dupCase struct {
	Part string `json:"part"` // dup
	Kind string `json:"kind"`
	D    int    `json:"palette_size"`
	At   int    `json:"repeat_at"`
	Via  string `json:"via"` // wire-fresh | wire-used | saved
}

func dupMenu() []dupCase {
	var out []dupCase
	for _, kn := range []string{"blocks", "biomes"} {
		k := kinds[kn]
		for _, d := range k.caps {
			if d < 3 {
				continue
			}
			for _, at := range []int{1, d / 2, d - 1} {
				for _, via := range []string{"wire-fresh", "wire-used", "saved"} {
					out = append(out, dupCase{"dup", kn, d, at, via})
				}
			}
		}
	}
	return out
}

func judgeDup(c dupCase) (class, detail string) {
	k := kinds[c.Kind]
	// d palette entries: distinct ids 1.., entry c.At repeats entry 0
	pal := make([]int, c.D)
	for i := range pal {
		pal[i] = 1 + i
	}
	pal[c.At] = pal[0]
	var usable []int // indices the data uses: all but the repeated copy
	for i := range pal {
		if i != c.At {
			usable = append(usable, i)
		}
	}
	model := make([]int, k.n)
	idx := make([]uint64, k.n)
	for i := range model {
		j := usable[i%len(usable)]
		idx[i], model[i] = uint64(j), pal[j]
	}
	pre := fmt.Sprintf("dup/%s/%s/", c.Kind, c.Via)
	var ct cont
	bits := 0
	for 1<<uint(bits) < c.D {
		bits++
	}
	bitsByte := bits
	if c.Kind == "blocks" && bitsByte < 4 {
		bitsByte = 4
	}
	kind, frame, p := engine.Guard(func() {
		switch c.Via {
		case "saved":
			sb := k.ref.SavedBits(c.D)
			ct = k.withData(refpal.Pack(sb, idx), pal, pal[:len(pal):len(pal)])
		default:
			wire := []byte{byte(bitsByte)}
			wire = refpal.AppendVarInt(wire, int32(c.D))
			for _, v := range pal {
				wire = refpal.AppendVarInt(wire, int32(v))
			}
			_, sbits := k.ref.StorageBits(bitsByte)
			wire = refpal.AppendLongArray(wire, refpal.Pack(sbits, idx))
			ct = k.fresh(0)
			if c.Via == "wire-used" {
				for i := 0; i < 5; i++ {
					ct.Set(i, 900+i)
				}
			}
			if _, err := ct.ReadFrom(bytes.NewReader(wire)); err != nil {
				class, detail = pre+"ReadFrom/error", fmt.Sprintf("ReadFrom of a %d-entry palette that lists value %d twice failed: %v", c.D, pal[0], err)
			}
		}
	})
	if p {
		return pre + "load/panic/" + frame + "/" + kind, "loading panicked: " + kind
	}
	if class != "" {
		return
	}
	compare := func(when string) bool {
		for i := range model {
			var g int
			if kind, frame, p := engine.Guard(func() { g = ct.Get(i) }); p {
				class, detail = pre+"Get/panic/"+frame+"/"+kind+"/"+when, fmt.Sprintf("%s: Get(%d) panicked: %s", when, i, kind)
				return false
			}
			if g != model[i] {
				class, detail = pre+"Get/wrong-value/"+when, fmt.Sprintf("%s: Get(%d)=%d, the array holds %d (palette of %d entries, entry %d repeats entry 0)", when, i, g, model[i], c.D, c.At)
				return false
			}
		}
		return true
	}
	if !compare("as-loaded") {
		return
	}
	// grow: new distinct values at positions 0,1,2,... until two representation changes have happened
	limit := 2*c.D + 3
	if limit > k.n {
		limit = k.n
	}
	for s := 0; s < limit; s++ {
		v := 2000 + s
		if v >= k.ref.RegistrySize {
			break
		}
		if kind, frame, p := engine.Guard(func() { ct.Set(s, v) }); p {
			return pre + "Set/panic/" + frame + "/" + kind, fmt.Sprintf("Set(%d, %d) (new value %d after loading) panicked: %s", s, v, s+1, kind)
		}
		model[s] = v
		if !compare(fmt.Sprintf("after-%d-new-values", classN(s+1, c.D))) {
			return
		}
	}
	return "", ""
}

// classN buckets the number of new values into "1", "crossing the first boundary", ... for stable class names.
func classN(n, d int) int {
	switch {
	case n == 1:
		return 1
	case n <= d:
		return d
	default:
		return 2 * d
	}
}

func runDup() int64 {
	menu := dupMenu()
	engine.ParallelFor(len(menu), func(_, i int) {
		c := menu[i]
		if class, detail := judgeDup(c); class != "" {
			rep.FailLazy(class, c.D, func() engine.Failure { return engine.Failure{Detail: detail, Case: c} })
		}
	})
	rep.Eval(int64(len(menu)))
	rep.Count("palettes_with_a_repeated_entry_loaded_and_grown", int64(len(menu)))
	rep.Extra("dup_part", "kind x palette size at every indirect capacity x position of the repeated entry {1, d/2, d-1} x {wire into fresh, wire into used, New*WithData}; then 2d+3 Sets of new values, full comparison after each")
	return int64(len(menu))
}
