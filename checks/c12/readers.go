package main

import (
	"io"

	"verif/engine"
)

// The reader devices a container is read through ("the wire"). Every device is a conformant
// io.Reader; what differs is how the bytes arrive. All but eof-with-data carry four foreign
// bytes after the container, so reading ahead is visible in the consumed count.
//
//	plain          every Read delivers all that is asked for; no optional interfaces
//	bytereader     also implements io.ByteReader (go-mc's VarInt/byte decoders take another path)
//	chunk1/3/7     every Read delivers at most 1/3/7 bytes (7 splits every long of the data array)
//	chunk509       at most 509 bytes per Read (a prime just below 512: splits buffered bulk reads)
//	eof-with-data  at most 7 bytes per Read, the stream ends with the container and the Read that
//	               delivers its last byte returns (n>0, io.EOF)
var readerMenu = []string{"plain", "bytereader", "chunk1", "chunk3", "chunk7", "chunk509", "eof-with-data"}

var trailer = []byte{0xA5, 0x5A, 0xA5, 0x5A}

// fragReader delivers at most max bytes per Read (0: all asked for).
type fragReader struct {
	data    []byte
	pos     int
	max     int
	eofWith bool // the Read that reaches the end returns io.EOF together with the bytes
}

func (f *fragReader) Read(b []byte) (int, error) {
	if len(b) == 0 {
		return 0, nil
	}
	if f.pos >= len(f.data) {
		return 0, io.EOF
	}
	n := len(b)
	if f.max > 0 && n > f.max {
		n = f.max
	}
	n = copy(b[:n], f.data[f.pos:])
	f.pos += n
	if f.eofWith && f.pos >= len(f.data) {
		return n, io.EOF
	}
	return n, nil
}

// byteReader is a fragReader that also offers ReadByte.
type byteReader struct{ fragReader }

func (b *byteReader) ReadByte() (byte, error) {
	if b.pos >= len(b.data) {
		return 0, io.EOF
	}
	c := b.data[b.pos]
	b.pos++
	return c, nil
}

// newReader returns the device and a function reporting how many bytes it has handed out.
func newReader(name string, wire []byte) (io.Reader, func() int) {
	withTrailer := append(append(make([]byte, 0, len(wire)+len(trailer)), wire...), trailer...)
	frag := func(max int) (io.Reader, func() int) {
		f := &fragReader{data: withTrailer, max: max}
		return f, func() int { return f.pos }
	}
	switch name {
	case "", "plain":
		p := &engine.PlainReader{Data: withTrailer}
		return p, func() int { return p.Pos }
	case "bytereader":
		b := &byteReader{fragReader{data: withTrailer}}
		return b, func() int { return b.pos }
	case "chunk1":
		return frag(1)
	case "chunk3":
		return frag(3)
	case "chunk7":
		return frag(7)
	case "chunk509":
		return frag(509)
	case "eof-with-data":
		f := &fragReader{data: append([]byte(nil), wire...), max: 7, eofWith: true}
		return f, func() int { return f.pos }
	}
	engine.HarnessError("unknown reader device %q", name)
	return nil, nil
}
