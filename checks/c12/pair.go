package main

import (
	"sync/atomic"

	"verif/engine"
)

// pair family: TWO live containers in one history. Container 0 draws its ids from the case's id
// order, container 1 from the other one, so the two never hold a common value unless a transfer
// put it there. Every step works on one of them (Step.On); after every judged step BOTH are
// compared in full (all positions + independent decode of the wire form): the one that was not
// touched must not have changed. The extra operation
//
//	xfer   the other container is written to the wire and the bytes are read into this LIVE
//	       container (which has been read, written and mutated before in the same history);
//	       afterwards both hold the same contents and are mutated independently
//
// is what "reading it into another container - however that container was used before" means
// for a container that is still in use.

var pairsRun int64

func runPair(cs *Case) {
	k0, k1 := kinds[cs.Kind], kinds[cs.Kind2]
	if k0 == nil || k1 == nil {
		engine.HarnessError("unknown kind in pair case %q/%q", cs.Kind, cs.Kind2)
	}
	other := "high"
	if cs.IDs == "high" {
		other = "low"
	}
	ms := [2]*machine{newMachine(k0, cs, cs.IDs), newMachine(k1, cs, other)}
	if ms[0] == nil || ms[1] == nil {
		return
	}
	ms[0].pfx, ms[1].pfx = "pair/", "pair/"
	atomic.AddInt64(&histories, 1)
	atomic.AddInt64(&pairsRun, 1)
	for i, s := range cs.Steps {
		if s.On != 0 && s.On != 1 {
			engine.HarnessError("pair step on container %d", s.On)
		}
		m, o := ms[s.On], ms[1-s.On]
		m.step, o.step = i+1, i+1
		judged := i >= cs.From
		if s.Op == "xfer" {
			if k0 != k1 {
				engine.HarnessError("xfer between containers of different configurations")
			}
			what := "xfer/into-live-container"
			if judged {
				if !o.wireOK && !o.writeWire("xfer/source") {
					return
				}
				what += ",form=" + formName(o.last)
			} else if !o.rawWire() {
				return
			}
			m.destOld = m.used
			m.model = append([]int(nil), o.model...)
			m.used = append([]int(nil), o.used...)
			if !m.readWire(m.c, o.lastWire, s, what, judged) {
				return
			}
		} else if !m.exec(s, judged) {
			return
		}
		if !judged {
			if !o.agrees() {
				return
			}
			continue
		}
		if !o.check("other-live-container-after-" + s.Op) {
			return
		}
	}
}

// pairBatch stands for all words that extend the task's steps by more operations of the alphabet
// (the words are enumerated when the task runs, so the task list stays small).
type pairBatch struct {
	alpha []Step
	more  int // operations still to append
}

func (b *pairBatch) size() int {
	n := 1
	for i := 0; i < b.more; i++ {
		n *= len(b.alpha)
	}
	return n
}

// runPairBatch executes every history of the batch (until the deadline) and returns the number executed.
func runPairBatch(cs *Case) int {
	n := 0
	var rec func(cur []Step, more int)
	rec = func(cur []Step, more int) {
		if more == 0 {
			if expired() {
				return
			}
			c := *cs
			c.batch = nil
			c.Steps = append([]Step(nil), cur...)
			runPair(&c)
			n++
			return
		}
		for _, op := range cs.batch.alpha {
			rec(append(cur[:len(cur):len(cur)], op), more-1)
		}
	}
	rec(cs.Steps, cs.batch.more)
	return n
}

// pairTasks: for every pair of start sizes, all words of the given depth over the alphabet
// {new id, grow one past the next boundary, set existing, round trip into a fresh container,
// read own bytes back, xfer} x {container 0, container 1}. One task per (start sizes, first
// operation); the task enumerates the rest of the word.
func pairTasks(thorough bool) []Case {
	var tasks []Case
	depth := 3
	if thorough {
		depth = 4
	}
	type cfg struct {
		k0, k1 string
		s0, s1 []int
	}
	cfgs := []cfg{
		{"blocks", "blocks", []int{1, 16, 17, 256}, []int{1, 16, 17, 256}},
		{"biomes", "biomes", []int{1, 2, 3, 4, 5, 8, 9}, []int{1, 2, 3, 4, 5, 8, 9}},
		{"blocks", "biomes", []int{1, 16}, []int{1, 2, 8}},
	}
	const last = 4095 // taken modulo the length: the last position (where the full comparison stops reading)
	for _, c := range cfgs {
		var alpha []Step
		for on := 0; on < 2; on++ {
			alpha = append(alpha,
				Step{Op: "new", Pos: last, On: on},
				Step{Op: "P", On: on},
				Step{Op: "existing", Pos: 1, Arg: 1, On: on},
				Step{Op: "rt", Dest: "fresh", Pos: last, On: on},
				Step{Op: "rt", Dest: "self", Pos: last, On: on})
			if c.k0 == c.k1 {
				alpha = append(alpha, Step{Op: "xfer", Pos: last, On: on})
			}
		}
		for _, ids := range []string{"low", "high"} {
			for _, d0 := range c.s0 {
				for _, d1 := range c.s1 {
					for _, first := range alpha {
						t := Case{Part: "pair", Kind: c.k0, Kind2: c.k1, IDs: ids, Place: "spread", fam: "pair", From: 2}
						t.Steps = []Step{{Op: "grow-to", Arg: d0, On: 0}, {Op: "grow-to", Arg: d1, On: 1}, first}
						t.batch = &pairBatch{alpha: alpha, more: depth - 1}
						tasks = append(tasks, t)
					}
				}
			}
		}
	}
	return tasks
}
