// C10 — CFB8 equals AES-CFB8 for any call pattern; encrypted Conn is transparent.
//
// Stream part (explicit-state exploration of the real CFB8 object by replay; state =
// (direction, ivPos, register)):
//
//	(i)   every sequence of XORKeyStream calls of depth <= D over the alphabet
//	      {17 lengths} x {in place, dst below src, dst above src, dst longer than src}, from the
//	      initial state; src and dst are carved from ONE arena so the address order (which
//	      selects the optimised path) is controlled;
//	(ii)  from every register position: a short in-place prefix call of every length p in 0..32,
//	      then every operation (7 aliasing layouts), then a 40-byte in-place probe; and the same
//	      with every PAIR (thorough: triple) of operations between prefix and probe;
//	      x {encrypt, decrypt} x key sizes {16,24,32} x 2 key/IV/message materials;
//	(iii) 4096-byte messages divided in 12 fixed ways (one call, 1+4095, 2048+2048, 256x16,
//	      240x17+16, ...) x all 7 layouts; encrypt-direction cases of (ii)/(iii) and all depth <= 2
//	      sequences additionally feed the real encrypter's output to real decrypters under four
//	      call patterns.
//
// Oracle: the output of EVERY call equals the byte-at-a-time reference (ref/refcfb8, own shift
// register, pinned to NIST SP 800-38A) continued across calls; decrypt(encrypt(m)) == m.
//
// Conn part: two mcnet.Conn over a deterministic in-memory duplex pipe, SetCipher on both
// ends, thresholds {-1,0,64}, every packet-size sequence of length <= 3 (thorough 4) over
// {0,1,15,16,17,33,100,5000}, both directions, the reading side's socket fragmenting reads by
// every pattern of a fixed list (the fragmentation IS the decrypter's call pattern).
// Oracle: every packet arrives intact, in order, nothing is left over.
//
// extra.go adds (white-box audit): every call length 0..4096, histories of the caller's IV
// slice, src address residues; Conn set-up histories (SetCipher / SetThreshold in mid-stream,
// call orders, Listener.Accept, (n, io.EOF) socket answers), large packets, sizes around the
// threshold, full-duplex use at socket-call granularity.
//
// The budget that may stop a walk is counted in user CPU time of the process (see pastDeadline).
package main

import (
	"bytes"
	"crypto/aes"
	"crypto/cipher"
	"crypto/sha256"
	"encoding/json"
	"errors"
	"fmt"
	"io"
	"net"
	"reflect"
	"sync/atomic"
	"syscall"
	"time"
	"unsafe"

	mcnet "github.com/Tnze/go-mc/net"
	"github.com/Tnze/go-mc/net/CFB8"
	pk "github.com/Tnze/go-mc/net/packet"

	"verif/engine"
	"verif/ref/refcfb8"
)

// Call is one XORKeyStream call.
type Call struct {
	Len   int    `json:"len"`
	Alias string `json:"alias"`
}

// Case re-executes one judged history.
type Case struct {
	Part string `json:"part"` // stream | conn
	// stream
	Decrypt  bool   `json:"decrypt,omitempty"`
	KeySize  int    `json:"key_size"`
	Material int    `json:"material"`
	Prefix   int    `json:"prefix"` // -1: none; else an in-place call of that length first
	Calls    []Call `json:"calls,omitempty"`
	Probe    bool   `json:"probe,omitempty"`              // a final 40-byte in-place call
	Long     bool   `json:"long_message,omitempty"`       // 4096-byte stream material and arena
	IVMode   string `json:"iv_buffer,omitempty"`          // what the caller does with the IV slice it passed (see ivModes)
	Align    int    `json:"src_address_mod_16,omitempty"` // 0: wherever the arena starts; k in 1..16: &src[0] = k (mod 16)
	// conn
	Threshold  int   `json:"threshold,omitempty"`
	Sizes      []int `json:"sizes,omitempty"`
	BtoA       bool  `json:"b_to_a,omitempty"`
	Frag       []int `json:"read_fragments,omitempty"` // cyclic cap of each socket Read; 0 = everything available; -1 = this Read answers (0, nil)
	Interleave bool  `json:"interleave,omitempty"`     // write one / read one instead of write all / read all
	// set-up history of the two ends: SetThreshold is called before packet TAt and SetCipher before packet
	// CAt (0 = before the first packet, len(Sizes) = after the last one, before the reverse packet); when both
	// fall on the same position OrderS / OrderR ("TC" default, or "CT") give the order of the two calls on the
	// sending / the receiving end. Packets before CAt travel in clear, packets before TAt without compression.
	TAt     int    `json:"set_threshold_before_packet,omitempty"`
	CAt     int    `json:"set_cipher_before_packet,omitempty"`
	OrderS  string `json:"sender_call_order,omitempty"`
	OrderR  string `json:"receiver_call_order,omitempty"`
	EOFData bool   `json:"eof_with_last_bytes,omitempty"` // the socket Read that takes the last written byte returns (n, io.EOF)
	Accept  bool   `json:"b_end_from_listener_accept,omitempty"`
	// full-duplex use at socket-call granularity: "write-during-read" = inside the DuplexAt-th socket Read of
	// the receiving end (bytes already copied out, Read not yet returned) that end writes the reverse packet;
	// "read-during-write" = inside the DuplexAt-th socket Write of the sending end (bytes not yet taken) that
	// end reads the reverse packet, which its peer wrote beforehand.
	Duplex   string `json:"duplex,omitempty"`
	DuplexAt int    `json:"duplex_at_socket_call,omitempty"`
}

var rep *engine.Report

// ---------------------------------------------------------------------------------------
// alphabets

var lens = []int{0, 1, 2, 15, 16, 17, 31, 32, 33, 34, 35, 47, 48, 49, 64, 65, 100}

// aliasing layouts; the first four are the depth-exploration alphabet
var aliases = []string{"inplace", "dst-low", "dst-high", "dst-long", "dst-low-gap", "dst-high-gap", "dst-long-low"}

const (
	nAliasCore = 4
	guard      = 16
	arenaSize  = 2*100 + 64 + 2*guard
	streamMax  = 32 + 4*100 + 40 + 8
)

func aliasIndex(s string) int {
	for i, a := range aliases {
		if a == s {
			return i
		}
	}
	engine.HarnessError("unknown aliasing %q", s)
	return -1
}

// layout gives the offsets of src and dst for a call of length L inside the arena (guard
// bytes on both ends): (src offset, dst offset, dst length).
func layout(L, alias int) (so, do, dl int) {
	g := guard
	switch alias {
	case 0: // in place
		return g, g, L
	case 1: // dst directly below src
		return g + L, g, L
	case 2: // dst directly above src
		return g, g + L, L
	case 3: // dst 7 bytes longer than src, above it
		return g, g + L + 3, L + 7
	case 4: // dst below with a gap
		return g + L + 5, g, L
	case 5: // dst above with a gap
		return g, g + L + 5, L
	case 6: // dst longer, below src
		return g + L + 7, g, L + 7
	}
	engine.HarnessError("bad aliasing index %d", alias)
	return
}

func newArena() []byte     { return make([]byte, arenaSize+16) }
func newLongArena() []byte { return make([]byte, 2*longMat+64+2*guard+16) }

// carve returns src and dst for a call of length L inside arena.
func carve(arena []byte, L, alias int) (src, dst []byte) {
	so, do, dl := layout(L, alias)
	return arena[so : so+L : so+L], arena[do : do+dl : do+dl]
}

// ---------------------------------------------------------------------------------------
// configurations

type config struct {
	decrypt  bool
	keySize  int
	material int
	key, iv  []byte
	blk      cipher.Block
	src, exp []byte // input stream and the reference's output stream
	msg      []byte // plaintext
}

func material(m, keySize, total int) (key, iv, msg []byte) {
	h := sha256.Sum256([]byte(fmt.Sprintf("verif C10 key material %d", m)))
	key = append([]byte(nil), h[:keySize]...)
	h2 := sha256.Sum256([]byte(fmt.Sprintf("verif C10 iv material %d", m)))
	iv = append([]byte(nil), h2[:16]...)
	if m != 0 {
		// a 16-byte IV cut from a larger buffer (as the shared secret usually is): a stream that
		// builds its register by appending to the caller's slice would write into this spare room
		// and share it with every other stream made from the same IV
		big := make([]byte, 16, 96)
		copy(big, h2[:16])
		iv = big
	}
	if m == 0 {
		// the protocol's habit: IV == shared secret
		copy(iv, key[:16])
	}
	msg = make([]byte, 0, total+32)
	for c := 0; len(msg) < total; c++ {
		hh := sha256.Sum256([]byte(fmt.Sprintf("verif C10 message %d block %d", m, c)))
		msg = append(msg, hh[:]...)
	}
	// a few structured bytes so that runs of equal bytes occur too
	for i := 40; i < 60 && i < total; i++ {
		msg[i] = 0
	}
	for i := 130; i < 150 && i < total; i++ {
		msg[i] = 0xFF
	}
	return key, iv, msg[:total]
}

func newConfig(decrypt bool, keySize, m int) *config {
	return newConfigLen(decrypt, keySize, m, streamMax)
}

func newConfigLen(decrypt bool, keySize, m, total int) *config {
	key, iv, msg := material(m, keySize, total)
	blk, err := aes.NewCipher(key)
	if err != nil {
		engine.HarnessError("aes: %v", err)
	}
	e, err := refcfb8.New(key, iv, false)
	if err != nil {
		engine.HarnessError("refcfb8: %v", err)
	}
	ct := e.Apply(msg)
	d, _ := refcfb8.New(key, iv, true)
	if back := d.Apply(ct); !bytes.Equal(back, msg) {
		engine.HarnessError("refcfb8 does not invert itself (key size %d)", keySize)
	}
	c := &config{decrypt: decrypt, keySize: keySize, material: m, key: key, iv: iv, blk: blk, msg: msg}
	if decrypt {
		c.src, c.exp = ct, msg
	} else {
		c.src, c.exp = msg, ct
	}
	return c
}

func (c *config) newStream() *CFB8.CFB8 { return c.newStreamIV(c.iv) }

func (c *config) newStreamIV(iv []byte) *CFB8.CFB8 {
	if c.decrypt {
		return CFB8.NewCFB8Decrypt(c.blk, iv)
	}
	return CFB8.NewCFB8Encrypt(c.blk, iv)
}

// ---------------------------------------------------------------------------------------
// stream judge

var (
	cpuBudget     time.Duration // work budget in user CPU time of this process (see pastDeadline)
	skippedShards int64
	ivPosReadable int32                = 1
	covered       [2][34][17][7]uint32 // (direction, ivPos before the call, length, aliasing) seen
	absStates     [2][34][streamMax + 1]uint32
	unspecTouched int64 // calls that wrote outside dst[:len(src)] or into src (statement silent)
	streamCalls   int64
	streamSeqs    int64
	roundTrips    int64
)

// pastDeadline: the budget that stops a walk is counted in user CPU time consumed by this
// process (75 s x 16 for quick, 14 min x 16 for thorough, i.e. the wall-clock limits of the
// reference 16-core machine when it is otherwise idle), not in wall time and not per worker: on a
// machine shared with other jobs, or with fewer workers, the same work is done and the same cases
// are covered, only later.
func pastDeadline() bool {
	var ru syscall.Rusage
	if err := syscall.Getrusage(syscall.RUSAGE_SELF, &ru); err != nil {
		return false
	}
	return time.Duration(ru.Utime.Nano()) > cpuBudget
}

func readIvPos(cf *CFB8.CFB8) int {
	if atomic.LoadInt32(&ivPosReadable) == 0 {
		return -1
	}
	f := reflect.ValueOf(cf).Elem().FieldByName("ivPos")
	if !f.IsValid() || !f.CanInt() {
		atomic.StoreInt32(&ivPosReadable, 0)
		return -1
	}
	p := int(f.Int())
	if p < 0 || p > 33 {
		return 33
	}
	return p
}

func lenIndex(L int) int {
	for i, l := range lens {
		if l == L {
			return i
		}
	}
	return -1
}

func shapeOf(L, alias int) string {
	if L > 32 && alias != 0 {
		return "over-2-blocks-disjoint/" + aliases[alias]
	}
	if L > 32 {
		return "over-2-blocks/" + aliases[alias]
	}
	return "up-to-2-blocks/" + aliases[alias]
}

type stepper struct {
	cfg   *config
	cf    *CFB8.CFB8
	arena []byte
	off   int
	prev  string
	calls int
	out   []byte // outputs concatenated (for the round-trip clause)
	dir   int
	// caller-side history of the IV slice (see ivModes) and address alignment
	ivMode  string
	ivBuf   []byte     // the caller's IV buffer with its whole capacity (private to this stepper)
	other   *CFB8.CFB8 // a second stream made from the same buffer after it was refilled
	scratch [19]byte
	align   int
}

func newStepper(cfg *config, arena []byte) *stepper {
	return newStepperMode(cfg, arena, "", 0)
}

func newStepperMode(cfg *config, arena []byte, ivMode string, align int) *stepper {
	s := &stepper{cfg: cfg, arena: arena, prev: "none", ivMode: ivMode, align: align}
	if cfg.decrypt {
		s.dir = 1
	}
	if align < 0 || align > 16 {
		engine.HarnessError("bad alignment %d", align)
	}
	// the arena handed in is 16 bytes longer than needed (newArena / newLongArena)
	s.arena = arena[:len(arena)-16]
	if align != 0 {
		// start where &src[0] (guard bytes in, for every layout with src first and for the in-place
		// layout) has the wanted residue
		base := int(uintptr(unsafe.Pointer(&arena[guard])) & 15)
		sh := (align - base + 32) & 15
		s.arena = arena[sh : len(arena)-16+sh]
	}
	s.reset()
	return s
}

// ivModes: what the caller does with the IV slice it handed to the constructor. The statement
// quantifies over the IV VALUE given to NewCFB8Encrypt/Decrypt; the slice stays the caller's.
var ivModes = []string{
	"exact-capacity",                 // len 16, cap 16
	"overwritten-after-construction", // len 16 of a 96-byte buffer; whole buffer refilled right after the constructor returns
	"overwritten-after-first-call",   // same, refilled after the first XORKeyStream call
	"reused-for-second-stream",       // buffer refilled with another IV, a second stream built from it and used between the calls
}

func scribble(b []byte) {
	b = b[:cap(b)]
	for i := range b {
		b[i] = 0xA7 ^ byte(i*29)
	}
}

func (s *stepper) reset() {
	s.other = nil
	switch s.ivMode {
	case "":
		s.cf = s.cfg.newStream()
	case "exact-capacity":
		iv := make([]byte, 16)
		copy(iv, s.cfg.iv)
		s.cf = s.cfg.newStreamIV(iv)
	case "overwritten-after-construction", "overwritten-after-first-call", "reused-for-second-stream":
		if s.ivBuf == nil {
			s.ivBuf = make([]byte, 96)
		}
		for i := range s.ivBuf {
			s.ivBuf[i] = 0
		}
		iv := s.ivBuf[:16]
		copy(iv, s.cfg.iv)
		s.cf = s.cfg.newStreamIV(iv)
		switch s.ivMode {
		case "overwritten-after-construction":
			scribble(iv)
		case "reused-for-second-stream":
			scribble(iv)
			s.other = s.cfg.newStreamIV(iv)
		}
	default:
		engine.HarnessError("unknown iv mode %q", s.ivMode)
	}
	s.off = 0
	s.prev = "none"
	s.calls = 0
	s.out = s.out[:0]
}

func dirName(d bool) string {
	if d {
		return "decrypt"
	}
	return "encrypt"
}

// step performs one call and judges it. Returns a failure class ("" = ok) and detail.
func (s *stepper) step(L, alias int, keepOut bool) (class, detail string) {
	cfg := s.cfg
	if s.off+L > len(cfg.src) {
		engine.HarnessError("stream material too short: %d+%d", s.off, L)
	}
	ar := s.arena
	for i := range ar {
		ar[i] = 0xC5
	}
	src, dst := carve(ar, L, alias)
	for i := range dst {
		dst[i] = 0x3A
	}
	copy(src, cfg.src[s.off:s.off+L])
	if p := readIvPos(s.cf); p >= 0 {
		if li := lenIndex(L); li >= 0 && atomic.LoadUint32(&covered[s.dir][p][li][alias]) == 0 {
			atomic.StoreUint32(&covered[s.dir][p][li][alias], 1)
		}
		if s.off <= streamMax && atomic.LoadUint32(&absStates[s.dir][p][s.off]) == 0 {
			atomic.StoreUint32(&absStates[s.dir][p][s.off], 1)
		}
	}
	kind, frame, panicked := engine.Guard(func() { s.cf.XORKeyStream(dst, src) })
	s.calls++
	if s.calls == 1 && s.ivMode == "overwritten-after-first-call" {
		scribble(s.ivBuf)
	}
	if s.other != nil {
		// the second stream (other IV, same key) works between the calls of the judged one
		for i := range s.scratch {
			s.scratch[i] = byte(i + s.calls)
		}
		engine.Guard(func() { s.other.XORKeyStream(s.scratch[:], s.scratch[:]) })
	}
	shape := shapeOf(L, alias)
	if s.ivMode != "" {
		shape += ",iv-buffer=" + s.ivMode
	}
	if s.align != 0 {
		shape += ",src-address-chosen"
	}
	pfx := "stream/" + dirName(cfg.decrypt) + "/XORKeyStream/"
	if panicked {
		return pfx + "panic/" + frame + "/" + kind + "/this=" + shape, fmt.Sprintf("call %d (len %d, %s) at stream offset %d panicked: %s", s.calls, L, aliases[alias], s.off, kind)
	}
	want := cfg.exp[s.off : s.off+L]
	if !bytes.Equal(dst[:L], want) {
		j := 0
		for j < L && dst[j] == want[j] {
			j++
		}
		return pfx + "output-differs-from-AES-CFB8/this=" + shape + ",prev=" + s.prev,
			fmt.Sprintf("call %d (len %d, %s) at stream offset %d: first wrong byte at +%d: got %02x want %02x", s.calls, L, aliases[alias], s.off, j, dst[j], want[j])
	}
	// everything else in the arena: the statement is silent, count only
	touched := false
	if alias != 0 {
		if !bytes.Equal(src, cfg.src[s.off:s.off+L]) {
			touched = true
		}
		for _, b := range dst[L:] {
			if b != 0x3A {
				touched = true
			}
		}
	}
	so, do, dl := layout(L, alias)
	for i, b := range ar {
		if b != 0xC5 && !(i >= so && i < so+L) && !(i >= do && i < do+dl) {
			touched = true
		}
	}
	if touched {
		atomic.AddInt64(&unspecTouched, 1)
	}
	if keepOut {
		s.out = append(s.out, dst[:L]...)
	}
	s.off += L
	if L > 32 && alias != 0 {
		s.prev = "over-2-blocks-disjoint"
	} else if L > 0 {
		s.prev = "short-or-inplace"
	}
	return "", ""
}

// runStream executes a whole stream case (used by the enumerators' failure path and by replay).
func runStream(c *Case, cfg *config, arena []byte) {
	s := newStepperMode(cfg, arena, c.IVMode, c.Align)
	type cl struct{ L, a int }
	var seq []cl
	if c.Prefix >= 0 {
		seq = append(seq, cl{c.Prefix, 0})
	}
	for _, k := range c.Calls {
		seq = append(seq, cl{k.Len, aliasIndex(k.Alias)})
	}
	if c.Probe {
		seq = append(seq, cl{40, 0})
	}
	for i, k := range seq {
		atomic.AddInt64(&streamCalls, 1)
		if class, detail := s.step(k.L, k.a, !cfg.decrypt); class != "" {
			recordStream(class, detail, c, i+1, s.off)
			return
		}
	}
	if !cfg.decrypt {
		roundTrip(s, c)
	}
}

func recordStream(class, detail string, c *Case, ncalls, off int) {
	rep.FailLazy(class, ncalls*10000+off, func() engine.Failure {
		cc := *c
		cc.Calls = append([]Call(nil), c.Calls...)
		// the witness is the history up to the failing call
		k := ncalls
		if c.Prefix >= 0 {
			k--
		}
		if k >= 0 && k <= len(cc.Calls) {
			cc.Calls = cc.Calls[:k]
			cc.Probe = false
		}
		return engine.Failure{Detail: fmt.Sprintf("key %d bytes, material %d: %s", c.KeySize, c.Material, detail), Case: cc}
	})
}

// roundTrip: what the real encrypter produced is fed to real decrypters under four call
// patterns; each must return the message.
func roundTrip(s *stepper, c *Case) {
	cfg := s.cfg
	ct := s.out
	n := len(ct)
	if n == 0 {
		return
	}
	want := cfg.msg[:n]
	patterns := []string{"one-call-inplace", "one-call-disjoint", "byte-at-a-time", "17-byte-calls-disjoint"}
	for _, p := range patterns {
		d := CFB8.NewCFB8Decrypt(cfg.blk, cfg.iv)
		buf := make([]byte, 2*n+8)
		copy(buf, ct)
		var got []byte
		kind, frame, panicked := engine.Guard(func() {
			switch p {
			case "one-call-inplace":
				d.XORKeyStream(buf[:n], buf[:n])
				got = buf[:n]
			case "one-call-disjoint":
				d.XORKeyStream(buf[n:2*n], buf[:n])
				got = buf[n : 2*n]
			case "byte-at-a-time":
				for i := 0; i < n; i++ {
					d.XORKeyStream(buf[i:i+1], buf[i:i+1])
				}
				got = buf[:n]
			default:
				for i := 0; i < n; i += 17 {
					e := i + 17
					if e > n {
						e = n
					}
					d.XORKeyStream(buf[n+i:n+e], buf[i:e])
				}
				got = buf[n : 2*n]
			}
		})
		atomic.AddInt64(&roundTrips, 1)
		if panicked {
			recordStream("stream/roundtrip/decrypt-panic/"+frame+"/"+kind+"/"+p, "decrypting the real encrypter's output panicked", c, 99, n)
			return
		}
		if !bytes.Equal(got, want) {
			recordStream("stream/roundtrip/decrypt(encrypt(m))!=m/"+p, fmt.Sprintf("%d bytes encrypted by the case's calls, decrypted with pattern %s: differs from the message", n, p), c, 99, n)
			return
		}
	}
}

func mkCalls(ops []int, nAlias int) []Call {
	out := make([]Call, len(ops))
	for i, o := range ops {
		out[i] = Call{lens[o/nAlias], aliases[o%nAlias]}
	}
	return out
}

// exploreDepth walks every call sequence of exactly depth D (all shorter ones are prefixes and
// every call is judged) after an optional prefix, with an optional probe at the end.
func exploreDepth(cfgs []*config, D, nAlias int, prefixes []int, probe bool) {
	nOps := len(lens) * nAlias
	type shard struct {
		cfg    *config
		prefix int
		first  int
	}
	var shards []shard
	for _, cfg := range cfgs {
		for _, p := range prefixes {
			for f := 0; f < nOps; f++ {
				shards = append(shards, shard{cfg, p, f})
			}
		}
	}
	engine.ParallelFor(len(shards), func(_, si int) {
		sh := shards[si]
		if pastDeadline() {
			atomic.AddInt64(&skippedShards, 1)
			return
		}
		arena := newArena()
		s := newStepper(sh.cfg, arena)
		ops := make([]int, D)
		ops[0] = sh.first
		var seqs, calls int64
		var rec func(d int)
		run := func() {
			s.reset()
			seqs++
			mkCase := func() *Case {
				return &Case{Part: "stream", Decrypt: sh.cfg.decrypt, KeySize: sh.cfg.keySize, Material: sh.cfg.material,
					Prefix: sh.prefix, Calls: mkCalls(ops, nAlias), Probe: probe}
			}
			n := 0
			if sh.prefix >= 0 {
				n++
				if class, detail := s.step(sh.prefix, 0, false); class != "" {
					recordStream(class, detail, mkCase(), n, s.off)
					calls += int64(n)
					return
				}
			}
			for _, o := range ops {
				n++
				if class, detail := s.step(lens[o/nAlias], o%nAlias, false); class != "" {
					recordStream(class, detail, mkCase(), n, s.off)
					calls += int64(n)
					return
				}
			}
			if probe {
				n++
				if class, detail := s.step(40, 0, false); class != "" {
					recordStream(class, detail, mkCase(), n, s.off)
				}
			}
			calls += int64(n)
		}
		rec = func(d int) {
			if d == D {
				run()
				return
			}
			for o := 0; o < nOps; o++ {
				ops[d] = o
				rec(d + 1)
			}
		}
		rec(1)
		atomic.AddInt64(&streamSeqs, seqs)
		atomic.AddInt64(&streamCalls, calls)
		rep.Eval(seqs)
	})
}

// roundTripFamily: every sequence of depth <= 2 (core alphabet) and every (prefix, op) of part
// (ii), encrypt direction, through runStream (which appends the round-trip clause).
func roundTripFamily(cfgs []*config) {
	type item struct {
		cfg *config
		c   Case
	}
	var items []item
	for _, cfg := range cfgs {
		if cfg.decrypt {
			continue
		}
		nOps := len(lens) * nAliasCore
		for a := 0; a < nOps; a++ {
			items = append(items, item{cfg, Case{Part: "stream", KeySize: cfg.keySize, Material: cfg.material, Prefix: -1, Calls: mkCalls([]int{a}, nAliasCore)}})
			for b := 0; b < nOps; b++ {
				items = append(items, item{cfg, Case{Part: "stream", KeySize: cfg.keySize, Material: cfg.material, Prefix: -1, Calls: mkCalls([]int{a, b}, nAliasCore)}})
			}
		}
		for p := 0; p <= 32; p++ {
			for o := 0; o < len(lens)*len(aliases); o++ {
				items = append(items, item{cfg, Case{Part: "stream", KeySize: cfg.keySize, Material: cfg.material, Prefix: p, Calls: mkCalls([]int{o}, len(aliases)), Probe: true}})
			}
		}
	}
	engine.ParallelFor(len(items), func(_, i int) {
		arena := newArena()
		runStream(&items[i].c, items[i].cfg, arena)
	})
	rep.Eval(int64(len(items)))
	atomic.AddInt64(&streamSeqs, int64(len(items)))
}

// longFamily: 4096-byte messages divided in a fixed list of ways, every aliasing layout.
const (
	longTotal = 4096
	longMat   = longTotal + 96 // stream material of the long configurations (a prefix and a probe fit around a 4096-byte call)
)

var longSplits = [][]int{{4096}, {1, 4095}, {4095, 1}, {2048, 2048}, {33, 4063}, {32, 4064}, {17, 4079}, {1000, 1000, 1000, 1096}, {4064, 16, 16}, {4063, 33}}

func init() {
	var a, b []int
	for i := 0; i < 256; i++ {
		a = append(a, 16)
	}
	for i := 0; i < 240; i++ {
		b = append(b, 17)
	}
	b = append(b, 16)
	longSplits = append(longSplits, a, b)
}

func longFamily(keySizes []int) {
	type item struct {
		cfg *config
		c   Case
	}
	var items []item
	for _, d := range []bool{false, true} {
		for _, ks := range keySizes {
			for m := 0; m < 2; m++ {
				cfg := newConfigLen(d, ks, m, longMat)
				for _, sp := range longSplits {
					for a := range aliases {
						calls := make([]Call, len(sp))
						for i, l := range sp {
							calls[i] = Call{l, aliases[a]}
						}
						items = append(items, item{cfg, Case{Part: "stream", Decrypt: d, KeySize: ks, Material: m, Prefix: -1, Calls: calls, Long: true}})
					}
				}
			}
		}
	}
	engine.ParallelFor(len(items), func(_, i int) {
		runStream(&items[i].c, items[i].cfg, newLongArena())
	})
	rep.Eval(int64(len(items)))
	atomic.AddInt64(&streamSeqs, int64(len(items)))
	rep.Count("long_message_(4096_byte)_sequences", int64(len(items)))
}

// ---------------------------------------------------------------------------------------
// Conn part: deterministic single-threaded duplex pipe

var errEmpty = errors.New("verif pipe: Read on an empty pipe (the reader wants bytes that were never written)")

type half struct {
	buf   []byte
	rpos  int
	frag  []int
	k     int
	reads int
	eof   bool // the writer is done: the Read that takes the last byte reports io.EOF together with it
}

type pipeEnd struct {
	rd, wr  *half
	nr, nw  int
	onRead  func(k int) // inside the k-th Read, after the bytes were copied out
	onWrite func(k int) // inside the k-th Write, before the bytes are taken
}

func (p *pipeEnd) Read(b []byte) (int, error) {
	if len(b) == 0 {
		return 0, nil
	}
	h := p.rd
	avail := len(h.buf) - h.rpos
	if avail == 0 {
		if h.eof {
			return 0, io.EOF
		}
		return 0, errEmpty
	}
	n := len(b)
	if n > avail {
		n = avail
	}
	if len(h.frag) > 0 {
		f := h.frag[h.k%len(h.frag)]
		h.k++
		if f < 0 {
			// "nothing happened": io.Reader allows (0, nil); the caller must simply read again
			return 0, nil
		}
		if f > 0 && f < n {
			n = f
		}
	}
	copy(b[:n], h.buf[h.rpos:])
	h.rpos += n
	h.reads++
	p.nr++
	if p.onRead != nil {
		p.onRead(p.nr)
	}
	if h.eof && h.rpos == len(h.buf) {
		return n, io.EOF
	}
	return n, nil
}

func (p *pipeEnd) Write(b []byte) (int, error) {
	p.nw++
	if p.onWrite != nil {
		p.onWrite(p.nw)
	}
	p.wr.buf = append(p.wr.buf, b...)
	return len(b), nil
}

type pipeAddr struct{}

func (pipeAddr) Network() string { return "verifpipe" }
func (pipeAddr) String() string  { return "verifpipe" }

func (p *pipeEnd) Close() error                     { return nil }
func (p *pipeEnd) LocalAddr() net.Addr              { return pipeAddr{} }
func (p *pipeEnd) RemoteAddr() net.Addr             { return pipeAddr{} }
func (p *pipeEnd) SetDeadline(time.Time) error      { return nil }
func (p *pipeEnd) SetReadDeadline(time.Time) error  { return nil }
func (p *pipeEnd) SetWriteDeadline(time.Time) error { return nil }

var (
	connSizes  = []int{0, 1, 15, 16, 17, 33, 100, 5000}
	thresholds = []int{-1, 0, 64}
	fragsQuick = [][]int{{0}, {1}, {2}, {15}, {16}, {17}, {31}, {32}, {33}, {34}, {48}, {49}, {100}, {1, 0}, {33, 1}, {17, 40, 1}, {-1, 0}, {-1, 1, -1, 17}}
	fragsMore  = [][]int{{3}, {35}, {47}, {64}, {65}, {4096}, {16, 17}, {32, 33, 34}, {1, 1, 100}, {40, 16}}
	packetIDs  = []int32{0x00, 0x7F, 0x80, 0x3FFF}
)

func payload(size, k int) []byte {
	b := make([]byte, size)
	x := uint32(size*2654435761) + uint32(k)*97
	for i := range b {
		x = x*1664525 + 1013904223
		if i%64 < 40 {
			b[i] = byte(x >> 24)
		} else {
			b[i] = byte(k) // compressible stretches
		}
	}
	return b
}

var connPackets, connCases, connReads int64

func fragName(f []int) string {
	switch {
	case len(f) == 1 && f[0] == 0:
		return "whole-reads"
	case len(f) == 1 && f[0] == 1:
		return "single-byte-reads"
	case len(f) == 1:
		return "fixed-size-reads"
	default:
		return "mixed-size-reads"
	}
}

// oneShotListener hands the prepared pipe end to mcnet.Listener.Accept.
type oneShotListener struct{ c net.Conn }

func (l *oneShotListener) Accept() (net.Conn, error) {
	if l.c == nil {
		return nil, errors.New("verif listener: no more connections")
	}
	c := l.c
	l.c = nil
	return c, nil
}
func (l *oneShotListener) Close() error   { return nil }
func (l *oneShotListener) Addr() net.Addr { return pipeAddr{} }

func normOrder(o string) string {
	if o == "" {
		return "TC"
	}
	if o != "TC" && o != "CT" {
		engine.HarnessError("bad call order %q", o)
	}
	return o
}

// connShape is the part of a failure class that names the case's family (no raw values).
func connShape(c *Case) string {
	tn := "none"
	if c.Threshold >= 0 {
		tn = fmt.Sprint(c.Threshold)
	}
	shape := "T=" + tn + "," + fragName(c.Frag)
	if c.CAt > 0 {
		shape += ",cipher-enabled-mid-stream"
	}
	if c.TAt > 0 {
		shape += ",threshold-set-mid-stream"
	}
	if c.TAt == c.CAt && (normOrder(c.OrderS) != "TC" || normOrder(c.OrderR) != "TC") {
		shape += ",calls=" + normOrder(c.OrderS) + "/" + normOrder(c.OrderR)
	}
	if c.EOFData {
		shape += ",eof-with-last-bytes"
	}
	if c.Accept {
		shape += ",accepted-conn"
	}
	if c.Duplex != "" {
		shape += ",duplex=" + c.Duplex
	}
	for _, sz := range c.Sizes {
		if sz > 5000 {
			shape += ",large-packet"
			break
		}
	}
	return shape
}

func runConn(c *Case) {
	key, _, _ := material(0, c.KeySize, 64)
	iv := key[:16]
	blk, err := aes.NewCipher(key)
	if err != nil {
		engine.HarnessError("aes: %v", err)
	}
	n := len(c.Sizes)
	if c.TAt < 0 || c.TAt > n || c.CAt < 0 || c.CAt > n {
		engine.HarnessError("set-up positions out of range: T@%d C@%d with %d packets", c.TAt, c.CAt, n)
	}
	if c.EOFData && c.Interleave {
		engine.HarnessError("eof-with-last-bytes needs the batch schedule")
	}
	ab, ba := &half{}, &half{}
	ea, eb := &pipeEnd{rd: ba, wr: ab}, &pipeEnd{rd: ab, wr: ba}
	ca := mcnet.WrapConn(ea)
	var cb *mcnet.Conn
	if c.Accept {
		l := mcnet.Listener{Listener: &oneShotListener{c: eb}}
		acc, err := l.Accept()
		if err != nil {
			engine.HarnessError("Listener.Accept: %v", err)
		}
		cb = &acc
	} else {
		cb = mcnet.WrapConn(eb)
	}
	snd, rcv, wire, back := ca, cb, ab, ba
	sndSock, rcvSock := ea, eb
	if c.BtoA {
		snd, rcv, wire, back = cb, ca, ba, ab
		sndSock, rcvSock = eb, ea
	}
	if c.Duplex != "" && (c.TAt != 0 || c.CAt != 0 || c.EOFData || c.DuplexAt < 1) {
		engine.HarnessError("duplex cases use the plain set-up")
	}
	wire.frag = c.Frag
	back.frag = c.Frag
	shape := connShape(c)
	// setUp performs the end's SetThreshold / SetCipher calls that are due before packet k
	nextSetUp := map[*mcnet.Conn]int{}
	setUp := func(end *mcnet.Conn, order string, k int) {
		if k < nextSetUp[end] {
			return // already done (the duplex cases set both ends up before anything else)
		}
		nextSetUp[end] = k + 1
		for _, call := range []byte(normOrder(order)) {
			if call == 'T' && c.TAt == k {
				end.SetThreshold(c.Threshold)
			}
			if call == 'C' && c.CAt == k {
				end.SetCipher(CFB8.NewCFB8Encrypt(blk, iv), CFB8.NewCFB8Decrypt(blk, iv))
			}
		}
	}
	fail := func(class string, k int, detail string) {
		rep.FailLazy(class, len(c.Sizes)*1000000000+k*100000000+sum(c.Sizes), func() engine.Failure {
			cc := *c
			cc.Sizes = append([]int(nil), c.Sizes...)
			cc.Frag = append([]int(nil), c.Frag...)
			return engine.Failure{Detail: fmt.Sprintf("key %d bytes, threshold %d (set before packet %d), cipher set before packet %d, call orders %s/%s, sizes %v, fragments %v: %s",
				c.KeySize, c.Threshold, c.TAt, c.CAt, normOrder(c.OrderS), normOrder(c.OrderR), c.Sizes, c.Frag, detail), Case: cc}
		})
	}
	write := func(from *mcnet.Conn, k, size int) bool {
		var werr error
		kind, frame, panicked := engine.Guard(func() {
			werr = from.WritePacket(pk.Packet{ID: packetIDs[k%len(packetIDs)], Data: payload(size, k)})
		})
		if panicked {
			fail("conn/WritePacket/panic/"+frame+"/"+kind+"/"+shape, k, fmt.Sprintf("packet %d (%d bytes): %s", k, size, kind))
			return false
		}
		if werr != nil {
			fail("conn/WritePacket/error/"+shape, k, fmt.Sprintf("packet %d (%d bytes): %v", k, size, werr))
			return false
		}
		return true
	}
	// one Packet per receiving end, reused for every read of this connection, as the read loops of bot and server
	// do: what a read finds in it is what the previous read of that end left (a longer, shorter or empty payload)
	held := map[*mcnet.Conn]*pk.Packet{}
	read := func(to *mcnet.Conn, k, size int) bool {
		if held[to] == nil {
			held[to] = &pk.Packet{}
		}
		p := held[to]
		var rerr error
		kind, frame, panicked := engine.Guard(func() { rerr = to.ReadPacket(p) })
		atomic.AddInt64(&connPackets, 1)
		if panicked {
			fail("conn/ReadPacket/panic/"+frame+"/"+kind+"/"+shape, k, fmt.Sprintf("packet %d (%d bytes): %s", k, size, kind))
			return false
		}
		if rerr != nil {
			fail("conn/ReadPacket/error/"+shape, k, fmt.Sprintf("packet %d (%d bytes): %v", k, size, rerr))
			return false
		}
		if p.ID != packetIDs[k%len(packetIDs)] {
			fail("conn/ReadPacket/packet-id-differs/"+shape, k, fmt.Sprintf("packet %d: id %#x, sent %#x", k, p.ID, packetIDs[k%len(packetIDs)]))
			return false
		}
		if want := payload(size, k); !bytes.Equal(p.Data, want) {
			j := 0
			for j < len(want) && j < len(p.Data) && p.Data[j] == want[j] {
				j++
			}
			fail("conn/ReadPacket/payload-differs/"+shape, k, fmt.Sprintf("packet %d: %d bytes received, %d sent, first difference at %d", k, len(p.Data), len(want), j))
			return false
		}
		return true
	}
	// full-duplex hooks (both ends are fully set up before the first packet in these cases)
	reverseWritten, reverseRead, nestedFailed := false, false, false
	switch c.Duplex {
	case "":
	case "write-during-read":
		rcvSock.onRead = func(k int) {
			if k == c.DuplexAt && !reverseWritten {
				reverseWritten = true
				if !write(rcv, 3, 33) {
					nestedFailed = true
				}
			}
		}
	case "read-during-write":
		setUp(snd, c.OrderS, 0)
		setUp(rcv, c.OrderR, 0)
		if !write(rcv, 3, 33) {
			return
		}
		reverseWritten = true
		sndSock.onWrite = func(k int) {
			if k == c.DuplexAt && !reverseRead {
				reverseRead = true
				if !read(snd, 3, 33) {
					nestedFailed = true
				}
			}
		}
	default:
		engine.HarnessError("unknown duplex mode %q", c.Duplex)
	}
	if c.Interleave {
		for k, sz := range c.Sizes {
			setUp(snd, c.OrderS, k)
			if !write(snd, k, sz) || nestedFailed {
				return
			}
			setUp(rcv, c.OrderR, k)
			if !read(rcv, k, sz) || nestedFailed {
				return
			}
		}
		setUp(snd, c.OrderS, n)
		setUp(rcv, c.OrderR, n)
	} else {
		for k, sz := range c.Sizes {
			setUp(snd, c.OrderS, k)
			if !write(snd, k, sz) || nestedFailed {
				return
			}
		}
		setUp(snd, c.OrderS, n)
		wire.eof = c.EOFData
		for k, sz := range c.Sizes {
			setUp(rcv, c.OrderR, k)
			if !read(rcv, k, sz) || nestedFailed {
				return
			}
		}
		setUp(rcv, c.OrderR, n)
	}
	if rest := len(wire.buf) - wire.rpos; rest != 0 {
		fail("conn/ReadPacket/bytes-left-over/"+shape, len(c.Sizes), fmt.Sprintf("%d bytes unread after the last packet", rest))
		return
	}
	// the opposite direction still works (its streams are independent): one packet back, always
	// after both ends have made both calls
	if !reverseWritten && !write(rcv, 3, 33) {
		return
	}
	back.eof = c.EOFData
	if !reverseRead && !read(snd, 3, 33) {
		return
	}
	if rest := len(back.buf) - back.rpos; rest != 0 {
		fail("conn/ReadPacket/bytes-left-over/"+shape, len(c.Sizes)+1, fmt.Sprintf("%d bytes unread in the reverse direction", rest))
	}
	atomic.AddInt64(&connReads, int64(ab.reads+ba.reads))
}

func sum(xs []int) int {
	t := 0
	for _, x := range xs {
		t += x
	}
	return t
}

func connFamily(maxLen int, frags [][]int) {
	var seqs [][]int
	var rec func(cur []int)
	rec = func(cur []int) {
		seqs = append(seqs, append([]int(nil), cur...))
		if len(cur) == maxLen {
			return
		}
		for _, s := range connSizes {
			rec(append(cur, s))
		}
	}
	rec(nil)
	type shard struct {
		t, ks int
		frag  []int
		btoa  bool
	}
	var shards []shard
	for _, t := range thresholds {
		for _, ks := range []int{16, 24, 32} {
			for _, f := range frags {
				for _, d := range []bool{false, true} {
					shards = append(shards, shard{t, ks, f, d})
				}
			}
		}
	}
	engine.ParallelFor(len(shards), func(_, i int) {
		sh := shards[i]
		if pastDeadline() {
			atomic.AddInt64(&skippedShards, 1)
			return
		}
		var n int64
		for _, sq := range seqs {
			for _, il := range []bool{false, true} {
				if il && len(sq) < 2 {
					continue // identical to the batch schedule
				}
				c := Case{Part: "conn", KeySize: sh.ks, Prefix: -1, Threshold: sh.t, Sizes: sq, BtoA: sh.btoa, Frag: sh.frag, Interleave: il}
				runConn(&c)
				n++
			}
		}
		atomic.AddInt64(&connCases, n)
		rep.Eval(n)
	})
	rep.Extra("conn_size_sequences", len(seqs))
}

// ---------------------------------------------------------------------------------------

func selftest() {
	if err := refcfb8.SelfTest(); err != nil {
		engine.HarnessError("%v", err)
	}
	// the carving helper really produces the promised address order
	ar := make([]byte, arenaSize)
	for a := range aliases {
		for _, L := range lens {
			src, dst := carve(ar, L, a)
			if len(src) != L || len(dst) < L {
				engine.HarnessError("carve(%d,%s) lengths", L, aliases[a])
			}
			if L == 0 {
				continue
			}
			so, do, _ := layout(L, a)
			if &ar[so] != &src[0] || &ar[do] != &dst[0] {
				engine.HarnessError("carve/layout disagree")
			}
			okk := false
			switch a {
			case 0:
				okk = so == do
			case 1, 4, 6:
				okk = do+len(dst) <= so
			default:
				okk = so+L <= do
			}
			if !okk || so < guard || do < guard || so+L > arenaSize-guard || do+len(dst) > arenaSize-guard {
				engine.HarnessError("carve(%d,%s): src@%d dst@%d", L, aliases[a], so, do)
			}
		}
	}
	// the pipe: what goes in comes out, fragmented as told
	h := &half{frag: []int{2, 0}}
	e := &pipeEnd{rd: h, wr: h}
	e.Write([]byte("abcdefg"))
	b := make([]byte, 16)
	n1, _ := e.Read(b)
	n2, _ := e.Read(b[n1:])
	_, err := e.Read(b)
	if n1 != 2 || n2 != 5 || string(b[:7]) != "abcdefg" || err != errEmpty {
		engine.HarnessError("pipe self-test failed")
	}
}

func main() {
	rep = engine.NewReport("C10")
	rep.Rule = "stream: every XORKeyStream call sequence of depth <= D over 17 lengths x 4 aliasing layouts from the initial state, plus (prefix p in 0..32) x (every op | every op tuple) x 40-byte probe, x {encrypt,decrypt} x key sizes {16,24,32} x 2 materials; 4096-byte messages divided 12 ways x 7 aliasing layouts; conn: thresholds {-1,0,64} x every size sequence of length <= K over 8 sizes x 2 directions x read-fragmentation patterns x {batch,interleaved} x 3 key sizes. Audit families (menus under coverage.*): every call length 0..4096 x 7 layouts x {no prefix, 17} + probe; 4 histories of the caller's IV slice x every call sequence of depth <= 2 + probe; 16 src address residues x every single operation; conn set-up histories (SetThreshold before packet i x SetCipher before packet j x call orders x {WrapConn, Listener.Accept} x {batch, batch with (n,io.EOF), interleaved}) x size sequences of length <= K2 over 4 sizes; large packets 4 KiB..1 MiB; sizes around thresholds {1,64,256}; full-duplex: a whole WritePacket/ReadPacket of the other direction inside the k-th socket Read/Write. distinct = distinct (configuration, call/packet sequence) tuples; non-trivial = all (every one drives the real cipher and is judged byte for byte)"
	cfgsFor := func(keySizes []int) []*config {
		var out []*config
		for _, d := range []bool{false, true} {
			for _, ks := range keySizes {
				for m := 0; m < 2; m++ {
					out = append(out, newConfig(d, ks, m))
				}
			}
		}
		return out
	}
	if rep.ReplayPath != "" {
		rp, err := engine.LoadReplay(rep.ReplayPath)
		if err != nil {
			engine.HarnessError("cannot load replay: %v", err)
		}
		var c Case
		if err := json.Unmarshal(rp.Case, &c); err != nil {
			engine.HarnessError("bad case: %v", err)
		}
		fmt.Printf("replaying %s\n", string(rp.Case))
		for i := 0; i < 5; i++ {
			if c.Part == "conn" {
				runConn(&c)
			} else {
				if c.Long {
					runStream(&c, newConfigLen(c.Decrypt, c.KeySize, c.Material, longMat), newLongArena())
				} else {
					runStream(&c, newConfig(c.Decrypt, c.KeySize, c.Material), newArena())
				}
			}
		}
		rep.Eval(5)
		rep.Finish()
	}
	selftest()
	cfgs := cfgsFor([]int{16, 24, 32})
	D, D2, K := 3, 2, 3
	frags := fragsQuick
	if rep.Thorough() {
		D, D2, K = 4, 3, 4
		frags = append(append([][]int{}, fragsQuick...), fragsMore...)
	}
	t0 := time.Now()
	cpuBudget = 75 * time.Second * 16
	if rep.Thorough() {
		cpuBudget = 14 * time.Minute * 16
	}
	// (i) all sequences from the initial state
	exploreDepth(cfgs, D, nAliasCore, []int{-1}, false)
	t1 := time.Now()
	// (ii) from every register position: prefix, one op over all 7 layouts, probe
	all := make([]int, 33)
	for i := range all {
		all[i] = i
	}
	exploreDepth(cfgs, 1, len(aliases), all, true)
	// (ii') prefix, every tuple of D2 core ops, probe
	exploreDepth(cfgs, D2, nAliasCore, all, true)
	t2 := time.Now()
	roundTripFamily(cfgs)
	longFamily([]int{16, 24, 32})
	t3 := time.Now()
	connFamily(K, frags)
	t4 := time.Now()
	// audit families (extra.go)
	sweepKeys, sweepPrefixes, sweepMaterials := []int{16, 24, 32}, []int{-1, 17}, []int{1}
	largeSizes := largeSizesQuick
	K2 := 3
	if rep.Thorough() {
		sweepPrefixes, sweepMaterials = []int{-1, 1, 16, 17, 32}, []int{0, 1}
		largeSizes = append(append([]int{}, largeSizesQuick...), largeSizesMore...)
		K2 = 4
	}
	sweepFamily(sweepKeys, sweepPrefixes, sweepMaterials)
	t5 := time.Now()
	ivFamily(cfgs)
	alignFamily(cfgs)
	t6 := time.Now()
	setupFamily(K2)
	t7 := time.Now()
	largeFamily(largeSizes)
	edgeFamily()
	widthFamily()
	duplexFamily()
	t8 := time.Now()

	if skippedShards > 0 {
		rep.Cap("CPU budget used up: %d shards (configuration x prefix x first operation, or conn threshold x key size x fragmentation x direction) not executed", skippedShards)
	}
	var cov, st int64
	for d := range covered {
		for p := range covered[d] {
			for l := range covered[d][p] {
				for a := range covered[d][p][l] {
					cov += int64(covered[d][p][l][a])
				}
			}
		}
	}
	for d := range absStates {
		for p := range absStates[d] {
			for o := range absStates[d][p] {
				st += int64(absStates[d][p][o])
			}
		}
	}
	if atomic.LoadInt32(&ivPosReadable) == 1 {
		rep.Count("(direction,ivPos,length,aliasing)_transitions_taken_of_"+fmt.Sprint(2*33*len(lens)*len(aliases)), cov)
		rep.Count("abstract_states_(direction,ivPos,stream_offset)", st)
		rep.AddStates(st)
		if cov != int64(2*33*len(lens)*len(aliases)) {
			rep.Note("not every (ivPos, operation) transition was taken: %d of %d", cov, 2*33*len(lens)*len(aliases))
		}
	} else {
		rep.Note("field ivPos not readable by reflection: register-position coverage not measured")
	}
	rep.Count("stream_call_sequences_executed", streamSeqs)
	rep.Count("stream_calls_judged", streamCalls)
	rep.Count("round_trip_decryptions", roundTrips)
	rep.Count("conn_cases", connCases)
	rep.Count("conn_packets_delivered", connPackets)
	rep.Count("conn_socket_reads_(decrypter_calls)", connReads)
	rep.Count("calls_that_touched_memory_outside_dst[:len(src)]_(unspecified)", unspecTouched)
	rep.Unspec(unspecTouched)
	rep.AddStates(connCases)
	rep.AddTrans(streamCalls + roundTrips + connPackets)
	rep.AddTraces(rep.Evaluations)
	rep.NonTrivial(rep.Evaluations)
	rep.Extra("depth_from_initial_state", D)
	rep.Extra("depth_between_prefix_and_probe", D2)
	rep.Extra("conn_max_packets", K)
	rep.Extra("read_fragment_patterns", frags)
	rep.Extra("call_lengths", lens)
	rep.Extra("aliasing_layouts", aliases)
	rep.Extra("phase_wall_s", map[string]float64{"depth": t1.Sub(t0).Seconds(), "positions": t2.Sub(t1).Seconds(), "roundtrip": t3.Sub(t2).Seconds(), "conn": t4.Sub(t3).Seconds(),
		"every_length": t5.Sub(t4).Seconds(), "iv_and_alignment": t6.Sub(t5).Seconds(), "conn_setup": t7.Sub(t6).Seconds(), "conn_large_and_edges": t8.Sub(t7).Seconds()})
	rep.Count("every_call_length_cases", sweepCases)
	rep.Count("iv_buffer_history_cases", ivCases)
	rep.Count("src_alignment_cases", alignCases)
	rep.Count("conn_setup_history_cases", setupCases)
	rep.Count("conn_large_packet_cases", largeCases)
	rep.Count("conn_threshold_edge_cases", edgeCases)
	rep.Count("conn_full_duplex_cases", duplexCases)
	rep.Sample(Case{Part: "stream", KeySize: 16, Material: 0, Prefix: 17, Calls: []Call{{33, "dst-high"}, {1, "inplace"}}, Probe: true})
	rep.Sample(Case{Part: "conn", KeySize: 32, Prefix: -1, Threshold: 64, Sizes: []int{5000, 0, 17}, Frag: []int{33, 1}})
	rep.Assume("AES itself (crypto/aes) is shared by implementation and reference: the property is about the mode; the reference mode is pinned to NIST SP 800-38A F.3.7-F.3.12")
	rep.Assume("partial overlap of dst and src is outside cipher.Stream's contract and not exercised")
	rep.Assume("net/packet's sync.Pool buffers are not controlled: with 'whole-reads' fragmentation the decrypter's call sizes inside io.CopyN depend on the pooled buffer's capacity")
	rep.Assume("bytes outside dst[:len(src)] and the contents of src after a call are not fixed by the statement: counted as unspecified when touched")
	rep.Finish()
}
