// Families added by the white-box audit of C10 (state that survives a call, alphabet holes,
// environment answers, entry points). Every family is a plain product of stated menus, executed
// through the same judges (runStream / runConn) as the original families, so every case is
// replayable from its descriptor.
//
// Stream part:
//
//	(iv)  EVERY call length 0..4096 as one call (the statement's message range), after no prefix
//	      or a 17-byte prefix, followed by the 40-byte probe, x 7 aliasing layouts x {encrypt,
//	      decrypt} x key sizes; encrypt cases carry the round-trip clause;
//	(v)   histories of the caller's IV slice (ivModes) x every call sequence of depth <= 2 over the
//	      core alphabet + probe;
//	(vi)  every residue of &src[0] modulo 16 x (no prefix | 5 | 17) x every single operation + probe.
//
// Conn part:
//
//	(b) set-up histories: SetThreshold before packet i, SetCipher before packet j (packets before j
//	    travel in clear - the login sequence of the protocol enables encryption, then compression,
//	    in mid-stream), the order of the two calls on each end when i == j, the B end made by
//	    WrapConn or by Listener.Accept, the socket answering the last bytes with (n, io.EOF);
//	(c) large packets (sizes around 4 KiB .. 1 MiB) alone and next to a small packet;
//	(d) packet sizes around the compression threshold for thresholds {1, 64, 256}.
package main

import (
	"bytes"
	"compress/zlib"
	"fmt"
	"sync/atomic"

	"verif/engine"
)

// ---------------------------------------------------------------------------------------
// stream (iv): every call length

var sweepCases, ivCases, alignCases int64

func sweepFamily(keySizes []int, prefixes []int, materials []int) {
	type shard struct {
		cfg    *config
		prefix int
		alias  int
	}
	var shards []shard
	for _, d := range []bool{false, true} {
		for _, ks := range keySizes {
			for _, m := range materials {
				cfg := newConfigLen(d, ks, m, longMat)
				for _, p := range prefixes {
					for a := range aliases {
						shards = append(shards, shard{cfg, p, a})
					}
				}
			}
		}
	}
	// lengths are dealt to the workers in blocks of 64 so that the long ones spread out
	const block = 64
	nBlocks := (longTotal + 1 + block - 1) / block
	engine.ParallelFor(len(shards)*nBlocks, func(_, i int) {
		sh := shards[i/nBlocks]
		if pastDeadline() {
			atomic.AddInt64(&skippedShards, 1)
			return
		}
		arena := newLongArena()
		lo := (i % nBlocks) * block
		var n int64
		for L := lo; L < lo+block && L <= longTotal; L++ {
			c := Case{Part: "stream", Decrypt: sh.cfg.decrypt, KeySize: sh.cfg.keySize, Material: sh.cfg.material,
				Prefix: sh.prefix, Calls: []Call{{L, aliases[sh.alias]}}, Probe: true, Long: true}
			runStream(&c, sh.cfg, arena)
			n++
		}
		atomic.AddInt64(&sweepCases, n)
		atomic.AddInt64(&streamSeqs, n)
		rep.Eval(n)
	})
	rep.Extra("every_call_length_family", map[string]any{"lengths": "0..4096 (all)", "prefixes_(-1=none)": prefixes, "key_sizes": keySizes, "materials": materials, "layouts": len(aliases), "followed_by": "40-byte in-place probe"})
}

// ---------------------------------------------------------------------------------------
// stream (v): histories of the caller's IV slice

func ivFamily(cfgs []*config) {
	nOps := len(lens) * nAliasCore
	type item struct {
		cfg   *config
		mode  string
		first int
	}
	var items []item
	for _, cfg := range cfgs {
		for _, m := range ivModes {
			for f := 0; f < nOps; f++ {
				items = append(items, item{cfg, m, f})
			}
		}
	}
	engine.ParallelFor(len(items), func(_, i int) {
		it := items[i]
		arena := newArena()
		var n int64
		run := func(ops []int) {
			c := Case{Part: "stream", Decrypt: it.cfg.decrypt, KeySize: it.cfg.keySize, Material: it.cfg.material,
				Prefix: -1, Calls: mkCalls(ops, nAliasCore), Probe: true, IVMode: it.mode}
			runStream(&c, it.cfg, arena)
			n++
		}
		run([]int{it.first})
		for b := 0; b < nOps; b++ {
			run([]int{it.first, b})
		}
		atomic.AddInt64(&ivCases, n)
		atomic.AddInt64(&streamSeqs, n)
		rep.Eval(n)
	})
	rep.Extra("iv_buffer_histories", ivModes)
}

// ---------------------------------------------------------------------------------------
// stream (vi): address alignment of src/dst

var alignPrefixes = []int{-1, 5, 17}

func alignFamily(cfgs []*config) {
	type item struct {
		cfg    *config
		align  int
		prefix int
	}
	var items []item
	for _, cfg := range cfgs {
		for al := 1; al <= 16; al++ {
			for _, p := range alignPrefixes {
				items = append(items, item{cfg, al, p})
			}
		}
	}
	engine.ParallelFor(len(items), func(_, i int) {
		it := items[i]
		arena := newArena()
		var n int64
		for o := 0; o < len(lens)*len(aliases); o++ {
			c := Case{Part: "stream", Decrypt: it.cfg.decrypt, KeySize: it.cfg.keySize, Material: it.cfg.material,
				Prefix: it.prefix, Calls: mkCalls([]int{o}, len(aliases)), Probe: true, Align: it.align}
			runStream(&c, it.cfg, arena)
			n++
		}
		atomic.AddInt64(&alignCases, n)
		atomic.AddInt64(&streamSeqs, n)
		rep.Eval(n)
	})
	rep.Extra("src_address_residues_mod_16", "1..16 (all), prefixes "+fmt.Sprint(alignPrefixes)+", every single operation over 7 layouts + probe")
}

// ---------------------------------------------------------------------------------------
// conn (b): set-up histories

var (
	setupSizes = []int{0, 17, 100, 5000}
	setupFrags = [][]int{{0}, {1, 0}, {17}, {33, 1}, {4096}}
	setupCases int64
	largeCases int64
	edgeCases  int64
)

type placement struct {
	tAt, cAt       int
	orderS, orderR string
}

// placements lists every (SetThreshold position, SetCipher position, call orders) for n packets.
// With threshold -1 SetThreshold changes nothing: only the cipher position varies.
func placements(n, threshold int) []placement {
	var out []placement
	for cAt := 0; cAt <= n; cAt++ {
		if threshold < 0 {
			out = append(out, placement{0, cAt, "TC", "TC"})
			continue
		}
		for tAt := 0; tAt <= n; tAt++ {
			if tAt != cAt {
				out = append(out, placement{tAt, cAt, "TC", "TC"})
				continue
			}
			for _, os := range []string{"TC", "CT"} {
				for _, or := range []string{"TC", "CT"} {
					out = append(out, placement{tAt, cAt, os, or})
				}
			}
		}
	}
	return out
}

func sizeSeqs(menu []int, maxLen int) [][]int {
	var seqs [][]int
	var rec func(cur []int)
	rec = func(cur []int) {
		seqs = append(seqs, append([]int(nil), cur...))
		if len(cur) == maxLen {
			return
		}
		for _, s := range menu {
			rec(append(cur, s))
		}
	}
	rec(nil)
	return seqs
}

func setupFamily(maxLen int) {
	seqs := sizeSeqs(setupSizes, maxLen)
	type shard struct {
		t      int
		frag   []int
		btoa   bool
		accept bool
		sched  int // 0 batch, 1 batch with (n, io.EOF) on the last bytes, 2 interleaved
	}
	var shards []shard
	for _, t := range thresholds {
		for _, f := range setupFrags {
			for _, d := range []bool{false, true} {
				for _, acc := range []bool{false, true} {
					for sc := 0; sc < 3; sc++ {
						shards = append(shards, shard{t, f, d, acc, sc})
					}
				}
			}
		}
	}
	engine.ParallelFor(len(shards), func(_, i int) {
		sh := shards[i]
		if pastDeadline() {
			atomic.AddInt64(&skippedShards, 1)
			return
		}
		var n int64
		for _, sq := range seqs {
			for _, pl := range placements(len(sq), sh.t) {
				if pl.tAt == 0 && pl.cAt == 0 && pl.orderS == "TC" && pl.orderR == "TC" && !sh.accept && sh.sched != 1 && len(sq) > 0 {
					continue // the original family's set-up (both calls first, threshold then cipher)
				}
				c := Case{Part: "conn", KeySize: 16, Prefix: -1, Threshold: sh.t, Sizes: sq, BtoA: sh.btoa, Frag: sh.frag,
					Interleave: sh.sched == 2, EOFData: sh.sched == 1, Accept: sh.accept,
					TAt: pl.tAt, CAt: pl.cAt, OrderS: pl.orderS, OrderR: pl.orderR}
				runConn(&c)
				n++
			}
		}
		atomic.AddInt64(&setupCases, n)
		atomic.AddInt64(&connCases, n)
		rep.Eval(n)
	})
	rep.Extra("conn_setup_histories", map[string]any{
		"packet_sizes": setupSizes, "max_packets": maxLen, "size_sequences": len(seqs), "read_fragment_patterns": setupFrags,
		"set_threshold_position": "before packet 0..n", "set_cipher_position": "before packet 0..n (earlier packets in clear)",
		"call_orders_when_same_position": "{TC,CT} on the sender x {TC,CT} on the receiver",
		"b_end":                          []string{"WrapConn", "Listener.Accept"}, "schedules": []string{"batch", "batch, last bytes answered with (n, io.EOF)", "interleaved"},
		"key_size": 16})
}

// ---------------------------------------------------------------------------------------
// conn (c): large packets

var (
	largeSizesQuick = []int{4095, 4096, 4097, 8191, 8192, 8193, 16383, 16384, 16385, 32767, 32768, 32769, 65535, 65536, 65537, 131073}
	largeSizesMore  = []int{6000, 12288, 24576, 49152, 100000, 262144, 262145, 524288, 1<<20 + 1}
	largeFrags      = [][]int{{0}, {100}, {4096}, {16384, 1}}
)

func largeFamily(sizes []int) {
	var seqs [][]int
	for _, L := range sizes {
		seqs = append(seqs, []int{L}, []int{L, 17}, []int{17, L})
	}
	type item struct {
		t    int
		frag []int
		btoa bool
		sq   []int
		eof  bool
	}
	var items []item
	for _, t := range thresholds {
		for _, f := range largeFrags {
			for _, d := range []bool{false, true} {
				for _, sq := range seqs {
					for _, e := range []bool{false, true} {
						items = append(items, item{t, f, d, sq, e})
					}
				}
			}
		}
	}
	engine.ParallelFor(len(items), func(_, i int) {
		it := items[i]
		if pastDeadline() {
			atomic.AddInt64(&skippedShards, 1)
			return
		}
		c := Case{Part: "conn", KeySize: []int{16, 24, 32}[len(it.sq)%3], Prefix: -1, Threshold: it.t, Sizes: it.sq, BtoA: it.btoa, Frag: it.frag, EOFData: it.eof}
		runConn(&c)
		atomic.AddInt64(&largeCases, 1)
		atomic.AddInt64(&connCases, 1)
		rep.Eval(1)
	})
	rep.Extra("conn_large_packets", map[string]any{"sizes": sizes, "sequences": "[L], [L 17], [17 L]", "read_fragment_patterns": largeFrags,
		"schedules": []string{"batch", "batch, last bytes answered with (n, io.EOF)"}})
}

// ---------------------------------------------------------------------------------------
// conn (d): sizes around the compression threshold

var edgeThresholds = []int{1, 64, 256}

func edgeFamily() {
	type item struct {
		t    int
		frag []int
		btoa bool
		il   bool
	}
	var items []item
	for _, t := range edgeThresholds {
		for _, f := range setupFrags {
			for _, d := range []bool{false, true} {
				for _, il := range []bool{false, true} {
					items = append(items, item{t, f, d, il})
				}
			}
		}
	}
	engine.ParallelFor(len(items), func(_, i int) {
		it := items[i]
		var menu []int
		for d := -3; d <= 2; d++ {
			if it.t+d >= 0 {
				menu = append(menu, it.t+d)
			}
		}
		var n int64
		for _, sq := range sizeSeqs(menu, 2) {
			if it.il && len(sq) < 2 {
				continue
			}
			c := Case{Part: "conn", KeySize: 16, Prefix: -1, Threshold: it.t, Sizes: sq, BtoA: it.btoa, Frag: it.frag, Interleave: it.il}
			runConn(&c)
			n++
		}
		atomic.AddInt64(&edgeCases, n)
		atomic.AddInt64(&connCases, n)
		rep.Eval(n)
	})
	rep.Extra("conn_threshold_edges", map[string]any{"thresholds": edgeThresholds, "packet_sizes": "T-3..T+2 (non-negative), every sequence of length <= 2", "read_fragment_patterns": setupFrags})
}

// ---------------------------------------------------------------------------------------
// conn (d2): frame lengths across the width boundaries of the length prefix
//
// One connection carries every packet size of a window in ascending order, so the length of the frame on the
// wire (with compression: data-length field + zlib stream) moves across 127/128 in small steps; a second window
// is chosen, by compressing the same payloads with compress/zlib here, so that the predicted frame lengths lie
// within 8 bytes of 16383/16384. The prediction only selects inputs; the oracle is the usual one (every packet
// arrives intact and in order, nothing is left over).

var widthCases int64

func widthFamily() {
	small := make([]int, 0, 261)
	for n := 0; n <= 260; n++ {
		small = append(small, n)
	}
	var big []int
	for n, k := 15000, 0; n < 30000 && len(big) < 48; n++ {
		var z bytes.Buffer
		w := zlib.NewWriter(&z)
		w.Write([]byte{byte(packetIDs[k%len(packetIDs)])})
		w.Write(payload(n, k))
		w.Close()
		if l := z.Len() + 3; l >= 16383-8 && l <= 16384+8 {
			big = append(big, n)
			k++
		}
	}
	if len(big) == 0 {
		engine.HarnessError("width family: no payload size with a predicted frame length near 16383")
	}
	type item struct {
		t     int
		sizes []int
		frag  []int
		btoa  bool
	}
	var items []item
	for _, t := range []int{-1, 0, 64} {
		for _, f := range [][]int{{0}, {33, 1}} {
			for _, d := range []bool{false, true} {
				items = append(items, item{t, small, f, d})
				if t >= 0 {
					items = append(items, item{t, big, f, d})
				}
			}
		}
	}
	engine.ParallelFor(len(items), func(_, i int) {
		it := items[i]
		c := Case{Part: "conn", KeySize: 16, Prefix: -1, Threshold: it.t, Sizes: it.sizes, BtoA: it.btoa, Frag: it.frag}
		runConn(&c)
		atomic.AddInt64(&widthCases, 1)
		atomic.AddInt64(&connCases, 1)
		rep.Eval(1)
	})
	rep.Extra("conn_frame_width", map[string]any{"thresholds": []int{-1, 0, 64}, "window_1": "every size 0..260 on one connection", "window_2_sizes": big,
		"window_2": "sizes whose predicted compressed frame length is within 8 of 16383/16384", "read_fragment_patterns": [][]int{{0}, {33, 1}}})
}

// ---------------------------------------------------------------------------------------
// conn (e): full-duplex use at socket-call granularity

var (
	duplexFrags    = [][]int{{0}, {1}, {17}, {33, 1}}
	duplexReadAt   = []int{1, 2, 3, 4, 5, 6, 9, 20}
	duplexWriteAt  = []int{1, 2}
	duplexCases    int64
	duplexMaxPacks = 2
)

func duplexFamily() {
	seqs := sizeSeqs(connSizes, duplexMaxPacks)
	type item struct {
		t    int
		frag []int
		btoa bool
		mode string
		at   int
	}
	var items []item
	for _, t := range thresholds {
		for _, f := range duplexFrags {
			for _, d := range []bool{false, true} {
				for _, at := range duplexReadAt {
					items = append(items, item{t, f, d, "write-during-read", at})
				}
				for _, at := range duplexWriteAt {
					items = append(items, item{t, f, d, "read-during-write", at})
				}
			}
		}
	}
	engine.ParallelFor(len(items), func(_, i int) {
		it := items[i]
		var n int64
		for _, sq := range seqs {
			if len(sq) == 0 || (it.mode == "read-during-write" && it.at > len(sq)) {
				continue
			}
			for _, il := range []bool{false, true} {
				c := Case{Part: "conn", KeySize: 16, Prefix: -1, Threshold: it.t, Sizes: sq, BtoA: it.btoa, Frag: it.frag, Interleave: il,
					Duplex: it.mode, DuplexAt: it.at}
				runConn(&c)
				n++
			}
		}
		atomic.AddInt64(&duplexCases, n)
		atomic.AddInt64(&connCases, n)
		rep.Eval(n)
	})
	rep.Extra("conn_full_duplex", map[string]any{"packet_sizes": connSizes, "max_packets": duplexMaxPacks, "read_fragment_patterns": duplexFrags,
		"write_during_socket_read_number": duplexReadAt, "read_during_socket_write_number": duplexWriteAt,
		"meaning": "the end that is inside a socket Read (Write) of one direction performs a whole WritePacket (ReadPacket) of the other direction before that socket call returns"})
}
