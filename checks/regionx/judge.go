package regionx

import (
	"bytes"
	"fmt"

	"github.com/Tnze/go-mc/save/region"

	"verif/engine"
	"verif/ref/refanvil"
)

// Finding is one oracle violation of one transition.
type Finding struct {
	Class  string
	Detail string
}

// Probe coordinates read back after every transition: the alphabet coordinates plus two that no
// history ever writes (absence must be reported for them at every point).
var NeverWritten = [][2]int{{2, 3}, {31, 0}}

// PreState is captured before operations whose refusal must leave everything unchanged.
type PreState struct {
	Bytes  []byte
	Tables MemTables
}

func (e *Exec) Capture() *PreState { return &PreState{e.Dev.Snapshot(), e.Tables()} }

// TransShape names the kind of transition for failure classes: for writes, how the sector count
// of the written chunk changes.
func TransShape(op Op, preOffsets *[32][32]int32) string {
	switch op.K {
	case "W":
		if op.Size > MaxPayload {
			return "W-over-limit"
		}
		need := int32((op.Size + 4 + 4095) / 4096)
		old := preOffsets[op.Z][op.X]
		switch {
		case old == 0:
			return "W-fresh"
		case old&0xff == need:
			return "W-same-count"
		case old&0xff < need:
			return "W-grow"
		default:
			return "W-shrink"
		}
	case "P":
		return "pad"
	case "L":
		return "reopen"
	case "R":
		return "read"
	case "E":
		return "exist"
	}
	return op.K
}

func sizeShape(n int) string {
	switch need := (n + 4 + 4095) / 4096; {
	case n == MaxPayload:
		return "largest-255-sectors"
	case need <= 3:
		return fmt.Sprintf("%d-sector", need)
	default:
		return "4+-sectors"
	}
}

// diffAt is the index of the first differing byte (or the shorter length).
func diffAt(a, b []byte) int {
	n := len(a)
	if len(b) < n {
		n = len(b)
	}
	for i := 0; i < n; i++ {
		if a[i] != b[i] {
			return i
		}
	}
	return n
}

func clip(b []byte) []byte {
	if len(b) > 16 {
		return b[:16]
	}
	return b
}

// JudgeStep is the C14 oracle, applied after every transition.
//
//	e       the execution after the operation (model already updated)
//	out     what the operation returned
//	pre     state captured before the operation (needed only for over-limit writes; may be nil otherwise)
//	shape   TransShape of the operation
//	coords  coordinates of the alphabet (read back together with NeverWritten)
//
// It returns the findings and the number of oracle clauses that were "unspecified".
func JudgeStep(e *Exec, out *Outcome, pre *PreState, shape string, coords [][2]int) (fs []Finding, unspec int) {
	add := func(class, format string, a ...any) {
		fs = append(fs, Finding{class, fmt.Sprintf(format, a...)})
	}
	op := out.Op
	entry := map[string]string{"W": "WriteSector", "R": "ReadSector", "E": "ExistSector", "P": "PadToFullSector", "L": "Load"}[op.K]
	if out.Panicked {
		add("store/"+entry+"/panic/"+out.PanicFrame+"/"+out.PanicKind, "%s panicked: %s in %s", op, out.PanicKind, out.PanicFrame)
		return
	}
	// 1. the operation's own result
	switch op.K {
	case "W":
		if op.Size > MaxPayload {
			if out.Err == nil {
				add("store/WriteSector/over-limit-accepted/"+overShape(op.Size), "WriteSector(%d,%d) accepted %d bytes (limit %d)", op.X, op.Z, op.Size, MaxPayload)
			} else if pre != nil {
				post := e.Tables()
				switch {
				case !bytes.Equal(pre.Bytes, e.Dev.Snapshot()):
					add("store/WriteSector/refused-but-changed/file-bytes", "refused write of %d bytes changed the file", op.Size)
				case pre.Tables.Offsets != post.Offsets:
					add("store/WriteSector/refused-but-changed/offsets", "refused write of %d bytes changed the in-memory offsets", op.Size)
				case pre.Tables.Timestamps != post.Timestamps:
					add("store/WriteSector/refused-but-changed/timestamps", "refused write of %d bytes changed the in-memory timestamps", op.Size)
				case !eqI32(pre.Tables.Sectors, post.Sectors):
					add("store/WriteSector/refused-but-changed/occupancy", "refused write of %d bytes changed the occupancy map: %v -> %v", op.Size, pre.Tables.Sectors, post.Sectors)
				}
			}
		} else if out.Err != nil {
			add("store/WriteSector/error-on-accepted-size/"+sizeShape(op.Size)+"/"+shape, "WriteSector(%d,%d,%d bytes) failed: %v", op.X, op.Z, op.Size, out.Err)
		}
	case "R":
		judgeRead(add, "op", shape, op.X, op.Z, out.Data, out.Err, e.Model)
	case "E":
		_, want := e.Model[refanvil.Slot(op.X, op.Z)]
		if out.Exist != want {
			add("store/ExistSector/"+existKind(want)+"/op-after-"+shape, "ExistSector(%d,%d)=%v, model says %v", op.X, op.Z, out.Exist, want)
		}
	case "P":
		if out.Err != nil {
			add("store/PadToFullSector/error", "PadToFullSector failed: %v", out.Err)
		} else if e.Dev.Size()%4096 != 0 {
			unspec++ // the statement names padding as an operation but does not say what it must achieve
		}
	case "L":
		if out.Err != nil {
			add("reopen/Load/error/as-operation", "re-opening the file failed: %v", out.Err)
		}
	}
	if e.Dead != "" {
		return
	}
	// 2. the backing bytes are a valid Anvil region holding exactly the model
	img := e.Dev.Snapshot()
	f, probs := refanvil.Parse(img, refanvil.Options{})
	for _, p := range probs {
		add("file/refanvil/"+p.Kind+"/after-"+shape, "independent parser: %s", p)
	}
	if len(probs) == 0 {
		seen := 0
		for _, en := range f.Entries {
			want, ok := e.Model[refanvil.Slot(en.X, en.Z)]
			if !ok {
				add("file/header/entry-for-never-written-chunk/after-"+shape, "header has an entry for (%d,%d) which was never written", en.X, en.Z)
				continue
			}
			seen++
			who := "other"
			if op.K == "W" && en.X == op.X && en.Z == op.Z {
				who = "written"
			}
			if en.Length != len(want) {
				add("file/payload/length-word-differs/"+who+"-chunk-after-"+shape, "chunk (%d,%d): length word %d, last written %d bytes", en.X, en.Z, en.Length, len(want))
			} else if !bytes.Equal(en.Data, want) {
				add("file/payload/content-differs/"+who+"-chunk-after-"+shape, "chunk (%d,%d): run [%d,+%d) holds %x.., last written %x.. (first difference at byte %d of %d)", en.X, en.Z, en.Start, en.Count, clip(en.Data), clip(want), diffAt(en.Data, want), len(want))
			}
		}
		if seen != len(e.Model) {
			add("file/header/entry-missing-for-written-chunk/after-"+shape, "header has %d of the %d written chunks", seen, len(e.Model))
		}
	}
	// 3. a fresh Load of the bytes returns the offsets and timestamps held in memory
	mem := e.Tables()
	var fresh *region.Region
	var lerr error
	kind, frame, p := engine.Guard(func() { fresh, lerr = region.Load(ImageDev(e.Variant, img)) })
	switch {
	case p:
		add("reopen/Load/panic/"+frame+"/"+kind, "Load of the current bytes panicked: %s", kind)
	case lerr != nil:
		add("reopen/Load/error/after-"+shape, "Load of the current bytes failed: %v", lerr)
	default:
		lo := region.VerifOffsets(fresh)
		if lo != mem.Offsets {
			z, x := firstDiff(&lo, &mem.Offsets)
			add("reopen/offsets-differ/after-"+shape, "offsets[z=%d][x=%d]: memory %#x, fresh Load %#x", z, x, mem.Offsets[z][x], lo[z][x])
		}
		if fresh.Timestamps != mem.Timestamps {
			i, j := firstDiff(&fresh.Timestamps, &mem.Timestamps)
			add("reopen/timestamps-differ/"+tsShape(&mem.Timestamps, &fresh.Timestamps, op),
				"Timestamps[%d][%d]: memory %d, fresh Load %d (memory[%d][%d]=%d, fresh[%d][%d]=%d; clock readings in this call: %d)",
				i, j, mem.Timestamps[i][j], fresh.Timestamps[i][j], j, i, mem.Timestamps[j][i], j, i, fresh.Timestamps[j][i], out.ClockCalls)
		}
	}
	// 4. read everything back through the live region; reading must not write
	e.Dev.StartLog()
	for _, c := range append(append([][2]int(nil), coords...), NeverWritten...) {
		x, z := c[0], c[1]
		var data []byte
		var err error
		var ex bool
		e.Dev.BeginOp("ReadSector", false)
		kind, frame, p := engine.Guard(func() { data, err = e.R.ReadSector(x, z); ex = e.R.ExistSector(x, z) })
		if p {
			add("store/ReadSector/panic/"+frame+"/"+kind, "ReadSector/ExistSector(%d,%d) panicked: %s", x, z, kind)
			continue
		}
		who := "other"
		if op.K == "W" && x == op.X && z == op.Z {
			who = "written"
		}
		judgeRead(add, who+"-chunk", shape, x, z, data, err, e.Model)
		if _, want := e.Model[refanvil.Slot(x, z)]; ex != want {
			add("store/ExistSector/"+existKind(want)+"/"+who+"-chunk-after-"+shape, "ExistSector(%d,%d)=%v, model says %v", x, z, ex, want)
		}
	}
	// absence must be reported for every coordinate never written, not only for the probed ones
	if x, z, bad := phantom(e.R, e.Model, -1); bad {
		add("store/ExistSector/true-for-never-written-chunk/unprobed-chunk-after-"+shape, "ExistSector(%d,%d)=true for a chunk never written", x, z)
	}
	if w := e.Dev.TakeLog(); len(w) > 0 {
		add("store/ReadSector/wrote-to-file/after-"+shape, "reading back issued %d physical writes (first at offset %d)", len(w), w[0].Off)
	}
	if after := e.Tables(); after.Offsets != mem.Offsets || after.Timestamps != mem.Timestamps {
		add("store/ReadSector/changed-memory-tables/after-"+shape, "reading back changed the in-memory offsets or timestamps")
	}
	return
}

// phantom scans all 1024 coordinates with ExistSector and returns the first one reported present
// although the model never wrote it (coordinates already covered by the read-back are skipped by
// the callers' classes, not here: a duplicate report is harmless).
func phantom(r *region.Region, model map[int][]byte, skipSlot int) (x, z int, bad bool) {
	engine.Guard(func() {
		for zz := 0; zz < 32 && !bad; zz++ {
			for xx := 0; xx < 32; xx++ {
				if _, ok := model[refanvil.Slot(xx, zz)]; !ok && refanvil.Slot(xx, zz) != skipSlot && r.ExistSector(xx, zz) {
					x, z, bad = xx, zz, true
					break
				}
			}
		}
	})
	return
}

func judgeRead(add func(string, string, ...any), who, shape string, x, z int, data []byte, err error, model map[int][]byte) {
	want, ok := model[refanvil.Slot(x, z)]
	switch {
	case !ok && err == nil:
		add("store/ReadSector/data-for-never-written-chunk/"+who+"-after-"+shape, "ReadSector(%d,%d) returned %d bytes and no error for a chunk never written", x, z, len(data))
	case !ok:
		// absence reported (go-mc: ErrNoSector); which error value is used is not fixed by the statement
	case err != nil:
		add("store/ReadSector/error-on-written-chunk/"+who+"-after-"+shape, "ReadSector(%d,%d) failed: %v (last written %d bytes)", x, z, err, len(want))
	case len(data) != len(want):
		add("store/ReadSector/length-differs/"+who+"-after-"+shape, "ReadSector(%d,%d) returned %d bytes, last written %d", x, z, len(data), len(want))
	case !bytes.Equal(data, want):
		add("store/ReadSector/content-differs/"+who+"-after-"+shape, "ReadSector(%d,%d) returned %x.., last written %x.. (first difference at byte %d of %d)", x, z, clip(data), clip(want), diffAt(data, want), len(want))
	}
}

func existKind(want bool) string {
	if want {
		return "false-for-written-chunk"
	}
	return "true-for-never-written-chunk"
}

func overShape(n int) string {
	if (n+4+4095)/4096 == 256 {
		return "256-sectors"
	}
	return "more-than-256-sectors"
}

func eqI32(a, b []int32) bool {
	if len(a) != len(b) {
		return false
	}
	for i := range a {
		if a[i] != b[i] {
			return false
		}
	}
	return true
}

// firstDiff returns the first index pair [i][j] at which the tables differ.
func firstDiff(a, b *[32][32]int32) (i, j int) {
	for i := 0; i < 32; i++ {
		for j := 0; j < 32; j++ {
			if a[i][j] != b[i][j] {
				return i, j
			}
		}
	}
	return -1, -1
}

// tsShape names the way memory and reloaded timestamps differ (class fragment only; the verdict
// "they differ" is exact). "transposed-slot": every differing entry [i][j] is off the diagonal
// and its value is found at the mirrored position [j][i] of the other table. Otherwise, if the
// clock ticked inside this call: "clock-ticks-between-now-calls"; else "unexplained".
func tsShape(mem, fresh *[32][32]int32, op Op) string {
	mirrored := true
	for i := 0; i < 32 && mirrored; i++ {
		for j := 0; j < 32; j++ {
			if mem[i][j] == fresh[i][j] {
				continue
			}
			if i == j || !(mem[i][j] == fresh[j][i] || mem[j][i] == fresh[i][j]) {
				mirrored = false
				break
			}
		}
	}
	switch {
	case mirrored:
		return "transposed-slot"
	case op.Tick > 0:
		return "clock-ticks-between-now-calls"
	}
	return "unexplained"
}

// JudgeHistory replays hist[:n-1] on a fresh execution of the given variant, applies the last
// operation and judges it with JudgeStep - the same judge the search applies to every transition.
// The caller must Release the returned execution.
func JudgeHistory(variant int, path string, hist []Op, coords [][2]int, logWrites bool) (fs []Finding, unspec int, e *Exec, out *Outcome, shape string) {
	if len(hist) == 0 {
		engine.HarnessError("empty history")
	}
	n := len(hist) - 1
	e = Replay(variant, path, hist[:n])
	if e.Dead != "" {
		return []Finding{{"store/CreateWriter/failed", e.Dead}}, 0, e, nil, ""
	}
	op := hist[n]
	offs := region.VerifOffsets(e.R)
	shape = TransShape(op, &offs)
	var pre *PreState
	if op.K == "W" && op.Size > MaxPayload {
		pre = e.Capture()
	}
	out = e.Apply(op, logWrites)
	if op.K == "W" && op.Size == 0 {
		return nil, 1, e, out, shape // zero-length writes are unspecified
	}
	fs, unspec = JudgeStep(e, out, pre, shape, coords)
	return
}

// AllocatedIntoGap reports whether the run of chunk (x,z) lies before the end of some other run
// (the allocator reused a hole instead of appending).
func AllocatedIntoGap(offs *[32][32]int32, x, z int) bool {
	me := offs[z][x]
	if me == 0 {
		return false
	}
	start := int32(uint32(me) >> 8)
	for i := 0; i < 32; i++ {
		for j := 0; j < 32; j++ {
			if v := offs[i][j]; v != 0 && !(i == z && j == x) && int32(uint32(v)>>8) > start {
				return true
			}
		}
	}
	return false
}
