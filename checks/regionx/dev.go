// Package regionx is the shared machinery of the region-file checks C14 and C15:
// write-recording devices, the operation alphabet and its map model, the explicit-state
// BFS over operation histories on the real region.Region, the C14 oracle and the C15
// crash-image enumerator.
package regionx

import (
	"errors"
	"io"
	"os"
)

// PWrite is one physical write issued to the device.
type PWrite struct {
	Off  int64
	Data []byte
}

// Dev is what the harness needs from a backing device besides io.ReadWriteSeeker
// (which is all go-mc sees, plus io.WriterAt on the variants that have it).
type Dev interface {
	io.ReadWriteSeeker
	Snapshot() []byte             // copy of the backing bytes
	Size() int64                  // current length
	Peek(off int64, p []byte) int // read without touching the position; returns bytes available
	StartLog()                    // start recording physical writes
	TakeLog() []PWrite            // stop recording and return the recorded writes
	BeginOp(name string, positional bool)
	RelAccess() string // "" or the first operation that read/wrote at the inherited position
	Release()
}

// Device variants. mca.go tests its io.ReadWriteSeeker for io.WriterAt (writeAt) and
// io.Closer (Close); the harness never calls Close, so two variants per medium suffice.
const (
	MemWriterAt  = iota // in-memory, implements io.WriterAt
	MemPlain            // in-memory, Read/Write/Seek only
	FileWriterAt        // real *os.File behind a wrapper exposing WriteAt
	FilePlain           // real *os.File behind a wrapper hiding WriteAt
)

var VariantNames = []string{"mem+WriterAt", "mem", "file+WriterAt", "file"}

// Mem is the in-memory device without io.WriterAt.
type Mem struct {
	Buf     []byte
	Pos     int64
	log     []PWrite
	logging bool
	seeked  bool
	opName  string
	rel     string
}

func NewMem(b []byte) *Mem { return &Mem{Buf: b} }

func (m *Mem) BeginOp(name string, positional bool) { m.opName = name; m.seeked = positional }
func (m *Mem) RelAccess() string                    { return m.rel }
func (m *Mem) Release()                             {}
func (m *Mem) noteAccess() {
	if !m.seeked && m.rel == "" {
		m.rel = m.opName
	}
}

func (m *Mem) Read(p []byte) (int, error) {
	m.noteAccess()
	if len(p) == 0 {
		return 0, nil
	}
	if m.Pos >= int64(len(m.Buf)) {
		return 0, io.EOF
	}
	n := copy(p, m.Buf[m.Pos:])
	m.Pos += int64(n)
	return n, nil
}

// DevLimit bounds every device: a write ending beyond it fails like a full disk. No honest
// history comes near it (the largest file of any explored history is < 4 MiB); it only stops a
// broken allocator (garbage sector numbers) from exhausting memory or disk.
const DevLimit = 64 << 20

var errDevFull = errors.New("regionx: device limit exceeded (write beyond 64 MiB)")

func (m *Mem) put(p []byte, off int64) error {
	if off+int64(len(p)) > DevLimit {
		return errDevFull
	}
	if m.logging {
		m.log = append(m.log, PWrite{off, append([]byte(nil), p...)})
	}
	if len(p) == 0 {
		return nil
	}
	end := off + int64(len(p))
	if end > int64(len(m.Buf)) {
		if end > int64(cap(m.Buf)) {
			nb := make([]byte, end, end+end/4+8192)
			copy(nb, m.Buf)
			m.Buf = nb
		} else {
			old := len(m.Buf)
			m.Buf = m.Buf[:end]
			for i := old; int64(i) < off; i++ { // hole between old EOF and off reads as zeros
				m.Buf[i] = 0
			}
		}
	}
	copy(m.Buf[off:], p)
	return nil
}

func (m *Mem) Write(p []byte) (int, error) {
	m.noteAccess()
	if err := m.put(p, m.Pos); err != nil {
		return 0, err
	}
	m.Pos += int64(len(p))
	return len(p), nil
}

func (m *Mem) Seek(off int64, whence int) (int64, error) {
	var np int64
	switch whence {
	case io.SeekStart:
		np = off
		m.seeked = true
	case io.SeekCurrent:
		np = m.Pos + off
	case io.SeekEnd:
		np = int64(len(m.Buf)) + off
		m.seeked = true
	default:
		return 0, errors.New("regionx.Mem: invalid whence")
	}
	if np < 0 {
		return 0, errors.New("regionx.Mem: negative position")
	}
	m.Pos = np
	return np, nil
}

func (m *Mem) Snapshot() []byte { return append([]byte(nil), m.Buf...) }
func (m *Mem) Size() int64      { return int64(len(m.Buf)) }
func (m *Mem) Peek(off int64, p []byte) int {
	if off >= int64(len(m.Buf)) {
		return 0
	}
	return copy(p, m.Buf[off:])
}
func (m *Mem) StartLog() { m.logging = true; m.log = nil }
func (m *Mem) TakeLog() []PWrite {
	l := m.log
	m.log, m.logging = nil, false
	return l
}

// MemAt is Mem plus io.WriterAt (WriteAt does not move the position, as for *os.File).
type MemAt struct{ Mem }

func (m *MemAt) WriteAt(p []byte, off int64) (int, error) {
	if off < 0 {
		return 0, errors.New("regionx.MemAt: negative offset")
	}
	if err := m.put(p, off); err != nil {
		return 0, err
	}
	return len(p), nil
}

var (
	_ io.WriterAt = (*MemAt)(nil)
	_ Dev         = (*Mem)(nil)
	_ Dev         = (*MemAt)(nil)
)

// fileCore is shared by the two real-file wrappers.
type fileCore struct {
	f       *os.File
	path    string
	log     []PWrite
	logging bool
	seeked  bool
	opName  string
	rel     string
}

func (c *fileCore) BeginOp(name string, positional bool) { c.opName = name; c.seeked = positional }
func (c *fileCore) RelAccess() string                    { return c.rel }
func (c *fileCore) noteAccess() {
	if !c.seeked && c.rel == "" {
		c.rel = c.opName
	}
}
func (c *fileCore) Read(p []byte) (int, error) { c.noteAccess(); return c.f.Read(p) }
func (c *fileCore) Write(p []byte) (int, error) {
	c.noteAccess()
	pos, _ := c.f.Seek(0, io.SeekCurrent)
	if pos+int64(len(p)) > DevLimit {
		return 0, errDevFull
	}
	if c.logging {
		c.log = append(c.log, PWrite{pos, append([]byte(nil), p...)})
	}
	return c.f.Write(p)
}
func (c *fileCore) Seek(off int64, whence int) (int64, error) {
	if whence != io.SeekCurrent {
		c.seeked = true
	}
	return c.f.Seek(off, whence)
}
func (c *fileCore) Size() int64 {
	st, err := c.f.Stat()
	if err != nil {
		return -1
	}
	return st.Size()
}
func (c *fileCore) Snapshot() []byte {
	b := make([]byte, c.Size())
	n, _ := c.f.ReadAt(b, 0)
	return b[:n]
}
func (c *fileCore) Peek(off int64, p []byte) int { n, _ := c.f.ReadAt(p, off); return n }
func (c *fileCore) StartLog()                    { c.logging = true; c.log = nil }
func (c *fileCore) TakeLog() []PWrite {
	l := c.log
	c.log, c.logging = nil, false
	return l
}
func (c *fileCore) Release() { c.f.Close() }

// FileP hides WriteAt; FileAt exposes it.
type FileP struct{ fileCore }
type FileAt struct{ fileCore }

func (c *FileAt) WriteAt(p []byte, off int64) (int, error) {
	if off < 0 || off+int64(len(p)) > DevLimit {
		return 0, errDevFull
	}
	if c.logging {
		c.log = append(c.log, PWrite{off, append([]byte(nil), p...)})
	}
	return c.f.WriteAt(p, off)
}

var (
	_ io.WriterAt = (*FileAt)(nil)
	_ Dev         = (*FileP)(nil)
	_ Dev         = (*FileAt)(nil)
)

// NewDev builds an empty device of the given variant (path is used by the file variants:
// the file is created or truncated).
func NewDev(variant int, path string) (Dev, error) {
	switch variant {
	case MemWriterAt:
		return &MemAt{}, nil
	case MemPlain:
		return &Mem{}, nil
	}
	f, err := os.OpenFile(path, os.O_CREATE|os.O_RDWR|os.O_TRUNC, 0o644)
	if err != nil {
		return nil, err
	}
	if variant == FileWriterAt {
		return &FileAt{fileCore{f: f, path: path}}, nil
	}
	return &FileP{fileCore{f: f, path: path}}, nil
}

// Reopen returns a fresh device of the same variant over the same bytes, positioned at 0,
// as closing and opening the file again would give.
func Reopen(d Dev) (Dev, error) {
	switch v := d.(type) {
	case *MemAt:
		return &MemAt{Mem{Buf: v.Snapshot(), rel: v.rel}}, nil
	case *Mem:
		return &Mem{Buf: v.Snapshot(), rel: v.rel}, nil
	case *FileAt:
		v.f.Close()
		f, err := os.OpenFile(v.path, os.O_RDWR, 0o644)
		if err != nil {
			return nil, err
		}
		return &FileAt{fileCore{f: f, path: v.path, rel: v.rel}}, nil
	case *FileP:
		v.f.Close()
		f, err := os.OpenFile(v.path, os.O_RDWR, 0o644)
		if err != nil {
			return nil, err
		}
		return &FileP{fileCore{f: f, path: v.path, rel: v.rel}}, nil
	}
	return nil, errors.New("regionx: unknown device type")
}

// ImageDev builds a read-only-use in-memory device over image bytes (used for crash images and
// for the "fresh Load" of the oracle); the bytes are not copied.
func ImageDev(variant int, b []byte) Dev {
	if variant == MemWriterAt || variant == FileWriterAt {
		return &MemAt{Mem{Buf: b}}
	}
	return &Mem{Buf: b}
}
