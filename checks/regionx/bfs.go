package regionx

import (
	"sync"
	"sync/atomic"
	"time"

	"github.com/Tnze/go-mc/save/region"

	"verif/engine"
)

// Alphabet is the set of operations applied to every explored state.
type Alphabet struct {
	Coords    [][2]int
	Sizes     []int // accepted sizes (state-changing writes)
	OverSizes []int // over-limit sizes: leaf transitions (must be refused, nothing may change)
	ZeroWrite bool  // zero-length write: leaf transition, unspecified (executed, never judged, never expanded)
	Pad       bool
	Reopen    bool
}

// Config of one search.
type Config struct {
	Name     string
	Variant  int
	Alpha    Alphabet
	MaxDepth int // histories of at most MaxDepth state-changing operations; 0 = run to the fixpoint
	Deadline time.Time
	// ReadCtx: every state-changing operation is additionally run from a second representative of
	// the state - its shortest history followed by ReadSector on every alphabet coordinate - so
	// "write after read" (different device position) is explored although reads never change the key.
	ReadCtx bool
	// Ticks: every WriteSector that reads the clock n>1 times is re-run n-1 times with the clock
	// ticking before its k-th reading (k=1..n-1).
	Ticks   bool
	WantPre bool // capture pre-state bytes/model and the physical write log of every transition
	Hook    func(t *Transition)
}

// Transition is one executed (state, operation) pair handed to the hook.
type Transition struct {
	Cfg      *Config
	Prefix   []Op // operations replayed before Op (shortest history of the state, plus context reads)
	Op       Op
	Ctx      string // "plain" or "after-reads"
	Shape    string
	Depth    int   // number of state-changing operations including Op
	E        *Exec // the execution after Op
	Out      *Outcome
	Pre      *PreState      // before Op (over-limit writes, or every transition when WantPre)
	PreModel map[int][]byte // before Op (WantPre only)
}

// History returns Prefix+Op as a fresh slice.
func (t *Transition) History() []Op {
	h := make([]Op, 0, len(t.Prefix)+1)
	return append(append(h, t.Prefix...), t.Op)
}

// Stats of one search.
type Stats struct {
	States      int64
	Transitions int64
	MaxDepth    int
	Fixpoint    bool
	Complete    bool // false when the deadline skipped part of a level
	Levels      []int
	RelAccess   string // non-empty if some operation used the inherited device position
	DeadStarts  int64
}

type stateRec struct {
	parent     int32
	op         Op
	depth      int32
	afterReads bool // the discovering run read every alphabet coordinate before op
}

type succ struct {
	key        string
	op         Op
	afterReads bool
}

// Explore runs the explicit-state BFS: states are canonical keys of real executions, a state is
// expanded by replaying its shortest history on a fresh region and applying one operation; the
// hook (the oracle) sees every transition, not only those that discover a state.
func Explore(cfg *Config) Stats {
	var st Stats
	st.Complete = true
	a := cfg.Alpha
	var changing, leaves []Op
	for _, s := range a.Sizes {
		for _, c := range a.Coords {
			changing = append(changing, Op{K: "W", X: c[0], Z: c[1], Size: s})
		}
	}
	if a.Pad {
		changing = append(changing, Op{K: "P"})
	}
	if a.Reopen {
		changing = append(changing, Op{K: "L"})
	}
	for _, s := range a.OverSizes {
		for _, c := range a.Coords {
			leaves = append(leaves, Op{K: "W", X: c[0], Z: c[1], Size: s})
		}
	}
	var reads []Op
	for _, c := range a.Coords {
		reads = append(reads, Op{K: "R", X: c[0], Z: c[1]})
	}

	states := []stateRec{{parent: -1}}
	root := NewExec(cfg.Variant, "")
	if root.Dead != "" {
		engine.HarnessError("cannot create the initial region: %s", root.Dead)
	}
	visited := map[string]int32{root.Key(): 0}
	frontier := []int32{0}
	st.Levels = append(st.Levels, 1)
	var trans, dead int64
	var relOnce sync.Once

	path := func(id int32) []Op {
		var rev []Op
		for id > 0 {
			rev = append(rev, states[id].op)
			if states[id].afterReads {
				for i := len(reads) - 1; i >= 0; i-- {
					rev = append(rev, reads[i])
				}
			}
			id = states[id].parent
		}
		h := make([]Op, len(rev))
		for i := range rev {
			h[i] = rev[len(rev)-1-i]
		}
		return h
	}

	for depth := 1; len(frontier) > 0; depth++ {
		if cfg.MaxDepth > 0 && depth > cfg.MaxDepth {
			break
		}
		results := make([][]succ, len(frontier))
		var skipped int64
		engine.ParallelFor(len(frontier), func(slot, fi int) {
			if !cfg.Deadline.IsZero() && time.Now().After(cfg.Deadline) {
				atomic.AddInt64(&skipped, 1)
				return
			}
			hist := path(frontier[fi])
			var out []succ
			run := func(prefix []Op, op Op, ctx string, leaf bool) int {
				e := Replay(cfg.Variant, "", prefix)
				if e.Dead != "" {
					atomic.AddInt64(&dead, 1)
					return 0
				}
				t := &Transition{Cfg: cfg, Prefix: prefix, Op: op, Ctx: ctx, Depth: depth, E: e}
				offs := region.VerifOffsets(e.R)
				t.Shape = TransShape(op, &offs)
				if cfg.WantPre || (op.K == "W" && op.Size > MaxPayload) {
					t.Pre = e.Capture()
				}
				if cfg.WantPre {
					t.PreModel = make(map[int][]byte, len(e.Model))
					for k, v := range e.Model {
						t.PreModel[k] = v
					}
				}
				t.Out = e.Apply(op, cfg.WantPre)
				atomic.AddInt64(&trans, 1)
				if cfg.Hook != nil {
					cfg.Hook(t) // zero-length writes included: the hook decides what is specified for them
				}
				if r := e.Dev.RelAccess(); r != "" {
					relOnce.Do(func() { st.RelAccess = r })
				}
				if !leaf && e.Dead == "" {
					out = append(out, succ{e.Key(), op, ctx == "after-reads"})
				}
				return t.Out.ClockCalls
			}
			ctxs := []string{"plain"}
			if cfg.ReadCtx {
				ctxs = append(ctxs, "after-reads")
			}
			for _, ctx := range ctxs {
				prefix := hist
				if ctx == "after-reads" {
					prefix = append(append(make([]Op, 0, len(hist)+len(reads)), hist...), reads...)
				}
				for _, op := range changing {
					calls := run(prefix, op, ctx, false)
					if cfg.Ticks && op.K == "W" {
						for k := 1; k < calls; k++ {
							o := op
							o.Tick = k
							run(prefix, o, ctx, false)
						}
					}
				}
				if ctx == "plain" {
					for _, op := range leaves {
						run(prefix, op, ctx, true)
					}
					if a.ZeroWrite {
						for _, c := range a.Coords {
							run(prefix, Op{K: "W", X: c[0], Z: c[1], Size: 0}, ctx, true)
						}
					}
				}
			}
			results[fi] = out
		})
		if skipped > 0 {
			st.Complete = false
		}
		var next []int32
		for fi, rs := range results {
			for _, s := range rs {
				if _, ok := visited[s.key]; ok {
					continue
				}
				id := int32(len(states))
				states = append(states, stateRec{parent: frontier[fi], op: s.op, depth: int32(depth), afterReads: s.afterReads})
				visited[s.key] = id
				next = append(next, id)
			}
		}
		if len(next) > 0 {
			st.MaxDepth = depth
			st.Levels = append(st.Levels, len(next))
		}
		frontier = next
		if !st.Complete {
			break
		}
	}
	st.Fixpoint = len(frontier) == 0 && st.Complete
	st.States = int64(len(states))
	st.Transitions = trans
	st.DeadStarts = dead
	return st
}
