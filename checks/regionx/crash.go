package regionx

import (
	"bytes"
	"fmt"
	"io"
	"sort"
	"sync"

	"github.com/Tnze/go-mc/save/region"

	"verif/engine"
	"verif/ref/refanvil"
)

// CrashPoint identifies one crash image of a WriteSector call that issued the physical writes
// W[0..k-1]: the file holds the pre-state bytes, W[0..J-1] completely, and the first Cut bytes of
// W[J]. (J=0,Cut=0) is the pre-state itself; Cut==len(W[J]) means W[J] completed.
type CrashPoint struct {
	J   int `json:"write"`
	Cut int `json:"cut"`
}

// Cuts returns the torn-write cut positions of one physical write, ascending, all in (0,len):
// every position where the absolute file offset crosses a 512-byte boundary, every multiple of
// 512 bytes into the write, every byte position if the write has at most 8 bytes (header words,
// length words), else the first and the last byte.
func Cuts(w PWrite) []int {
	l := len(w.Data)
	set := map[int]bool{}
	for c := 1; c < l; c++ {
		if c%512 == 0 || (w.Off+int64(c))%512 == 0 || l <= 8 || c == 1 || c == l-1 {
			set[c] = true
		}
	}
	out := make([]int, 0, len(set))
	for c := range set {
		out = append(out, c)
	}
	sort.Ints(out)
	return out
}

// WriteRole names what a physical write is, from its offset and length (class fragment).
func WriteRole(w PWrite) string {
	switch {
	case w.Off < 4096 && len(w.Data) == 4:
		return "header-location"
	case w.Off >= 4096 && w.Off < 8192 && len(w.Data) == 4:
		return "header-timestamp"
	case w.Off < 8192:
		return "header-other"
	case w.Off%4096 == 0 && len(w.Data) == 4:
		return "length-word"
	}
	return "payload"
}

// roImage is a device over a crash image that refuses to change it and records how far reads
// reached and whether the file size was asked for.
type roImage struct {
	Mem
	wrote     bool
	maxRead   int64
	sizeAsked bool
}

func (r *roImage) Write(p []byte) (int, error) { r.wrote = true; return len(p), nil }
func (r *roImage) Read(p []byte) (int, error) {
	n, err := r.Mem.Read(p)
	if r.Pos > r.maxRead {
		r.maxRead = r.Pos
	}
	return n, err
}
func (r *roImage) Seek(off int64, whence int) (int64, error) {
	if whence == io.SeekEnd {
		r.sizeAsked = true
	}
	return r.Mem.Seek(off, whence)
}

type roImageAt struct{ roImage }

func (r *roImageAt) WriteAt(p []byte, off int64) (int, error) { r.wrote = true; return len(p), nil }

// WrittenOutcome says what the chunk being written looks like in a crash image.
type WrittenOutcome int

const (
	WrittenOld WrittenOutcome = iota
	WrittenNew
	WrittenAbsent
	WrittenUnreadable
	WrittenTornMix // ReadSector succeeded with the new length but only partly new bytes (torn payload; Anvil has no checksum): unspecified
	WrittenStale   // ReadSector succeeded with other bytes (stale sector contents under a new header entry or an old length word): unspecified
	WrittenPanic   // ReadSector of the written chunk panicked: unspecified by the statement ("unreadable")
)

// ImageJudge judges a sequence of crash images. It re-opens every image with region.Load, except
// when that call is provably redundant: the previous Load in this sequence read only bytes
// [0,8192), never asked for the file size, and the first 8192 bytes of this image are identical to
// the ones it read - then Load, being deterministic, would succeed again and build the same
// Region, so the previous Region is pointed at the new image instead (counted in Reused). The
// conditions are measured on the real call, not assumed from the source.
type ImageJudge struct {
	Variant int
	Reused  int64
	Loads   int64
	dev     Dev
	ro      *roImage
	r       *region.Region
	hdr     []byte
}

// JudgeImage judges one image with a fresh Load.
func JudgeImage(variant int, img []byte, preModel map[int][]byte, wx, wz int, newData []byte, coords [][2]int, point string) ([]Finding, WrittenOutcome) {
	j := &ImageJudge{Variant: variant}
	return j.Judge(img, preModel, wx, wz, newData, coords, point)
}

// Judge is the C15 oracle for one crash image: Load succeeds; every probed coordinate other than
// (wx,wz) reads back exactly the pre-state model bytes, absent ones stay absent.
func (j *ImageJudge) Judge(img []byte, preModel map[int][]byte, wx, wz int, newData []byte, coords [][2]int, point string) (fs []Finding, wo WrittenOutcome) {
	add := func(class, format string, a ...any) {
		fs = append(fs, Finding{class, fmt.Sprintf(format, a...)})
	}
	if j.r != nil && !j.ro.wrote && !j.ro.sizeAsked && j.ro.maxRead <= refanvil.HeaderSize && len(img) >= refanvil.HeaderSize &&
		len(j.hdr) == refanvil.HeaderSize && bytes.Equal(img[:refanvil.HeaderSize], j.hdr) {
		j.ro.Buf = img
		j.Reused++
	} else {
		j.r, j.hdr = nil, nil
		if j.Variant == MemWriterAt || j.Variant == FileWriterAt {
			d := &roImageAt{roImage{Mem: Mem{Buf: img}}}
			j.dev, j.ro = d, &d.roImage
		} else {
			d := &roImage{Mem: Mem{Buf: img}}
			j.dev, j.ro = d, d
		}
		var r *region.Region
		var err error
		j.dev.BeginOp("Load", true)
		kind, frame, p := engine.Guard(func() { r, err = region.Load(j.dev) })
		j.Loads++
		if p {
			add("crash/Load/panic/"+frame+"/"+kind, "Load of the crash image panicked: %s", kind)
			return
		}
		if err != nil || r == nil {
			add("crash/Load/error/"+point, "re-opening the crash image (%d bytes) failed: %v", len(img), err)
			return
		}
		j.r = r
		if len(img) >= refanvil.HeaderSize {
			j.hdr = append([]byte(nil), img[:refanvil.HeaderSize]...)
		}
	}
	r, dev, ro := j.r, j.dev, j.ro
	loadExtent, loadSize := ro.maxRead, ro.sizeAsked
	probe := func(x, z int) (data []byte, rerr error, ex bool, panicked bool, kind, frame string) {
		dev.BeginOp("ReadSector", false)
		kind, frame, panicked = engine.Guard(func() { data, rerr = r.ReadSector(x, z); ex = r.ExistSector(x, z) })
		return
	}
	all := append(append([][2]int(nil), coords...), NeverWritten...)
	for _, c := range all {
		x, z := c[0], c[1]
		if x == wx && z == wz {
			continue
		}
		data, rerr, ex, panicked, kind, frame := probe(x, z)
		if panicked {
			add("crash/ReadSector/panic/"+frame+"/"+kind, "ReadSector(%d,%d) on the crash image panicked: %s", x, z, kind)
			continue
		}
		want, present := preModel[refanvil.Slot(x, z)]
		switch {
		case present && rerr != nil:
			add("crash/ReadSector/other-chunk-unreadable/"+point, "chunk (%d,%d) was not being written but ReadSector fails after the crash: %v", x, z, rerr)
		case present && !bytes.Equal(data, want):
			add("crash/ReadSector/other-chunk-damaged/"+point, "chunk (%d,%d) was not being written but reads back %d bytes %x.. instead of its %d bytes %x.. (first difference at byte %d)", x, z, len(data), clip(data), len(want), clip(want), diffAt(data, want))
		case present && !ex:
			add("crash/ExistSector/other-chunk-vanished/"+point, "chunk (%d,%d) was not being written but ExistSector is false after the crash", x, z)
		case !present && (rerr == nil || ex):
			add("crash/ExistSector/absent-chunk-appeared/"+point, "chunk (%d,%d) was never written but after the crash ExistSector=%v, ReadSector err=%v (%d bytes)", x, z, ex, rerr, len(data))
		}
	}
	// absent chunks stay absent: all 1024 coordinates, not only the probed ones
	if len(fs) == 0 {
		if x, z, bad := phantom(r, preModel, refanvil.Slot(wx, wz)); bad { // the written chunk may exist or not
			add("crash/ExistSector/absent-chunk-appeared/"+point, "chunk (%d,%d) was never written but ExistSector is true after the crash", x, z)
		}
	}
	// the chunk being written: anything goes; classify for the evidence counters
	data, rerr, ex, panicked, _, _ := probe(wx, wz)
	old, hadOld := preModel[refanvil.Slot(wx, wz)]
	switch {
	case panicked:
		wo = WrittenPanic
	case !ex:
		wo = WrittenAbsent
	case rerr != nil:
		wo = WrittenUnreadable
	case bytes.Equal(data, newData):
		wo = WrittenNew
	case hadOld && bytes.Equal(data, old):
		wo = WrittenOld
	case len(data) == len(newData):
		wo = WrittenTornMix
	default:
		wo = WrittenStale
	}
	if ro.wrote {
		add("crash/Load-or-ReadSector/wrote-to-file/"+point, "re-opening or reading the crash image issued writes")
	}
	// reads of chunks moved maxRead; what matters for the reuse argument is the extent of Load alone
	ro.maxRead, ro.sizeAsked = loadExtent, loadSize
	return
}

// BuildImage returns the crash image for point cp (a fresh buffer).
func BuildImage(pre []byte, writes []PWrite, cp CrashPoint) []byte {
	m := &Mem{Buf: append(make([]byte, 0, len(pre)), pre...)}
	for j := 0; j < cp.J && j < len(writes); j++ {
		m.put(writes[j].Data, writes[j].Off)
	}
	if cp.J < len(writes) && cp.Cut > 0 {
		m.put(writes[cp.J].Data[:cp.Cut], writes[cp.J].Off)
	}
	return m.Buf
}

// PointShape is the class fragment of a crash point: which write was in flight and how far it got.
func PointShape(writes []PWrite, cp CrashPoint) string {
	if cp.J >= len(writes) || (cp.J == 0 && cp.Cut == 0) {
		return "before-first-write"
	}
	w := writes[cp.J]
	switch {
	case cp.Cut == 0:
		return "complete-" + WriteRole(writes[cp.J-1])
	case cp.Cut >= len(w.Data):
		return "complete-" + WriteRole(w)
	}
	return "torn-" + WriteRole(w)
}

// CrashPoints lists every crash point of one write sequence in order: the pre-state itself,
// then for every non-empty write each of its cuts and its completion.
func CrashPoints(writes []PWrite) []CrashPoint {
	pts := []CrashPoint{{0, 0}}
	for j, w := range writes {
		if len(w.Data) == 0 {
			continue
		}
		for _, c := range append(Cuts(w), len(w.Data)) {
			pts = append(pts, CrashPoint{j, c})
		}
	}
	return pts
}

// EachCrashImage enumerates every crash image of one write sequence. The points are split into
// nseg contiguous segments processed concurrently (nseg<=1: sequentially on the caller's
// goroutine); inside a segment the image is built incrementally in one buffer, so the callback
// must not keep or modify img. It returns the number of images.
func EachCrashImage(pre []byte, writes []PWrite, nseg int, f func(seg int, cp CrashPoint, img []byte)) int {
	pts := CrashPoints(writes)
	max := int64(len(pre))
	for _, w := range writes {
		if e := w.Off + int64(len(w.Data)); e > max {
			max = e
		}
	}
	if nseg < 1 {
		nseg = 1
	}
	if nseg > len(pts) {
		nseg = len(pts)
	}
	runSeg := func(seg, a, b int) {
		m := &Mem{Buf: make([]byte, len(pre), max)}
		copy(m.Buf, pre)
		prev := CrashPoint{0, 0}
		if a > 0 {
			prev = pts[a-1]
			for j := 0; j < prev.J; j++ {
				m.put(writes[j].Data, writes[j].Off)
			}
			m.put(writes[prev.J].Data[:prev.Cut], writes[prev.J].Off)
		}
		for _, cp := range pts[a:b] {
			if cp.Cut > 0 {
				from := 0
				if cp.J == prev.J {
					from = prev.Cut
				}
				w := writes[cp.J]
				m.put(w.Data[from:cp.Cut], w.Off+int64(from))
			}
			prev = cp
			f(seg, cp, m.Buf)
		}
	}
	if nseg == 1 {
		runSeg(0, 0, len(pts))
		return len(pts)
	}
	var wg sync.WaitGroup
	for sgm := 0; sgm < nseg; sgm++ {
		a, b := sgm*len(pts)/nseg, (sgm+1)*len(pts)/nseg
		wg.Add(1)
		go func(sgm, a, b int) {
			defer wg.Done()
			runSeg(sgm, a, b)
		}(sgm, a, b)
	}
	wg.Wait()
	return len(pts)
}

// HandImage is a region image assembled without go-mc: chunk (0,0) = 100 bytes at sector 2,
// chunk (1,0) = 100 bytes at sector 3, unpadded; and its model.
func HandImage() ([]byte, map[int][]byte) {
	img := make([]byte, 3*4096+104)
	a, b := GenData(0, 0, 0, 100), GenData(1, 1, 0, 100)
	put := func(off int, v uint32) {
		img[off], img[off+1], img[off+2], img[off+3] = byte(v>>24), byte(v>>16), byte(v>>8), byte(v)
	}
	put(0, 2<<8|1)
	put(4, 3<<8|1)
	put(4096, clockBase)
	put(4100, clockBase)
	put(2*4096, 100)
	copy(img[2*4096+4:], a)
	put(3*4096, 100)
	copy(img[3*4096+4:], b)
	return img, map[int][]byte{refanvil.Slot(0, 0): a, refanvil.Slot(1, 0): b}
}
