#!/bin/bash
# usage: overlay.sh <workdir>
# Generates <workdir>/overlay.json for the region checks (C14, C15). /repo is never edited.
#  1. mca.go is replaced by a copy of the CURRENT working-tree file with exactly one mechanical
#     rewrite: every `time.Now` becomes `verifNow` (a package-level func variable that defaults to
#     time.Now), so the checks own the clock. Regenerated on every run: edits to mca.go are what is explored.
#  2. mca_verif.go (//go:build verif) is added to package region: the clock seam and read-only
#     accessors for the unexported allocation state named in the property anchors (offsets, sectors).
set -eu
work="$1"
repo="${VERIF_REPO:-/repo}"
src="$repo/save/region/mca.go"
[ -f "$src" ] || { echo "missing $src" >&2; exit 1; }
sed -E 's/\btime\.Now\b/verifNow/g' "$src" > "$work/mca.go"
# keep the "time" import used when the rewrite removed its only use
if grep -q '^[[:space:]]*"time"' "$src" || grep -q '^import "time"' "$src"; then
  printf '\nvar _ = time.Unix // verif: keeps the time import used after the clock rewrite\n' >> "$work/mca.go"
fi
grep -c 'verifNow' "$work/mca.go" > "$work/clock_sites" || true
cat > "$work/mca_verif.go" <<'GO'
//go:build verif

package region

import (
	"sort"
	"time"
)

// verifNow replaces time.Now in the rewritten mca.go.
var verifNow = time.Now

// VerifSetNow installs the clock used by the package.
func VerifSetNow(f func() time.Time) { verifNow = f }

// VerifOffsets returns a copy of the in-memory location table (indexed [z][x]).
func VerifOffsets(r *Region) [32][32]int32 { return r.offsets }

// VerifSectors returns the sorted list of sectors the in-memory occupancy map marks as used.
func VerifSectors(r *Region) []int32 {
	out := make([]int32, 0, len(r.sectors))
	for k, v := range r.sectors {
		if v {
			out = append(out, k)
		}
	}
	sort.Slice(out, func(i, j int) bool { return out[i] < out[j] })
	return out
}

// VerifFreeKeys returns the sorted list of sectors that have an entry in the occupancy map but are
// marked free (a region built by writes has such entries, a region rebuilt by Load has none): part
// of the state key, so that code depending on the shape of the map is explored from both.
func VerifFreeKeys(r *Region) []int32 {
	out := make([]int32, 0, len(r.sectors))
	for k, v := range r.sectors {
		if !v {
			out = append(out, k)
		}
	}
	sort.Slice(out, func(i, j int) bool { return out[i] < out[j] })
	return out
}
GO
cat > "$work/overlay.json" <<JSON
{"Replace": {"$repo/save/region/mca.go": "$work/mca.go", "$repo/save/region/mca_verif.go": "$work/mca_verif.go"}}
JSON
