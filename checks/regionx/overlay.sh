#!/bin/bash
# usage: overlay.sh <workdir>
# Generates <workdir>/overlay.json for the region checks (C14, C15). /repo is never edited.
#  1. mca.go is replaced by a copy of the CURRENT working-tree file with exactly one mechanical
#     rewrite: every `time.Now` becomes `verifNow` (a package-level func variable that defaults to
#     time.Now), so the checks own the clock. Regenerated on every run: edits to mca.go are what is explored.
#  2. mca_verif.go (//go:build verif) is added to package region: the clock seam and read-only
#     accessors for the unexported allocation state named in the property anchors (offsets, sectors).
set -eu
work="$1"
repo="${VERIF_REPO:-/repo}"
src="$repo/save/region/mca.go"
[ -f "$src" ] || { echo "missing $src" >&2; exit 1; }
sed -E 's/\btime\.Now\b/verifNow/g' "$src" > "$work/mca.go"
# keep the "time" import used when the rewrite removed its only use
if grep -q '^[[:space:]]*"time"' "$src" || grep -q '^import "time"' "$src"; then
  printf '\nvar _ = time.Unix // verif: keeps the time import used after the clock rewrite\n' >> "$work/mca.go"
fi
grep -c 'verifNow' "$work/mca.go" > "$work/clock_sites" || true
cat > "$work/mca_verif.go" <<'GO'
//go:build verif

package region

import (
	"fmt"
	"reflect"
	"sort"
	"strings"
	"time"
)

// verifNow replaces time.Now in the rewritten mca.go.
var verifNow = time.Now

// VerifSetNow installs the clock used by the package.
func VerifSetNow(f func() time.Time) { verifNow = f }

// VerifOffsets returns a copy of the in-memory location table (indexed [z][x]).
func VerifOffsets(r *Region) [32][32]int32 { return r.offsets }

// VerifSectors returns the sorted list of sectors the in-memory occupancy map marks as used.
func VerifSectors(r *Region) []int32 {
	out := make([]int32, 0, len(r.sectors))
	for k, v := range r.sectors {
		if v {
			out = append(out, k)
		}
	}
	sort.Slice(out, func(i, j int) bool { return out[i] < out[j] })
	return out
}

// VerifFreeKeys returns the sorted list of sectors that have an entry in the occupancy map but are
// marked free (a region built by writes has such entries, a region rebuilt by Load has none): part
// of the state key, so that code depending on the shape of the map is explored from both.
func VerifFreeKeys(r *Region) []int32 {
	out := make([]int32, 0, len(r.sectors))
	for k, v := range r.sectors {
		if !v {
			out = append(out, k)
		}
	}
	sort.Slice(out, func(i, j int) bool { return out[i] < out[j] })
	return out
}

// VerifExtraState renders, deterministically, every field of Region other than the device handle and the three
// tables the state key already reads (offsets, Timestamps, sectors): bookkeeping an edit adds to the struct (a
// high-water mark, a free count, a cache) then becomes part of the state key by itself, so states that differ only
// in it are not merged. Pointers, interfaces, channels and functions are rendered by kind and nil-ness only.
func VerifExtraState(r *Region) string {
	var b strings.Builder
	v := reflect.ValueOf(r).Elem()
	t := v.Type()
	for i := 0; i < t.NumField(); i++ {
		switch t.Field(i).Name {
		case "f", "offsets", "Timestamps", "sectors":
			continue
		}
		b.WriteString(t.Field(i).Name)
		b.WriteByte('=')
		verifRender(&b, v.Field(i), 0)
		b.WriteByte(';')
	}
	return b.String()
}

func verifRender(b *strings.Builder, v reflect.Value, depth int) {
	if depth > 6 {
		b.WriteString("...")
		return
	}
	switch v.Kind() {
	case reflect.Bool:
		fmt.Fprint(b, v.Bool())
	case reflect.Int, reflect.Int8, reflect.Int16, reflect.Int32, reflect.Int64:
		fmt.Fprint(b, v.Int())
	case reflect.Uint, reflect.Uint8, reflect.Uint16, reflect.Uint32, reflect.Uint64, reflect.Uintptr:
		fmt.Fprint(b, v.Uint())
	case reflect.Float32, reflect.Float64:
		fmt.Fprint(b, v.Float())
	case reflect.String:
		fmt.Fprintf(b, "%q", v.String())
	case reflect.Slice, reflect.Array:
		if v.Kind() == reflect.Slice && v.IsNil() {
			b.WriteString("nil")
			return
		}
		b.WriteByte('[')
		for i := 0; i < v.Len(); i++ {
			verifRender(b, v.Index(i), depth+1)
			b.WriteByte(',')
		}
		b.WriteByte(']')
	case reflect.Map:
		if v.IsNil() {
			b.WriteString("nil")
			return
		}
		var es []string
		it := v.MapRange()
		for it.Next() {
			var e strings.Builder
			verifRender(&e, it.Key(), depth+1)
			e.WriteByte(':')
			verifRender(&e, it.Value(), depth+1)
			es = append(es, e.String())
		}
		sort.Strings(es)
		b.WriteString("{" + strings.Join(es, ",") + "}")
	case reflect.Struct:
		b.WriteByte('(')
		for i := 0; i < v.NumField(); i++ {
			verifRender(b, v.Field(i), depth+1)
			b.WriteByte(',')
		}
		b.WriteByte(')')
	case reflect.Pointer:
		if v.IsNil() {
			b.WriteString("nil")
			return
		}
		b.WriteByte('&')
		verifRender(b, v.Elem(), depth+1)
	case reflect.Interface, reflect.Chan, reflect.Func, reflect.UnsafePointer:
		fmt.Fprintf(b, "%s:%v", v.Kind(), v.IsNil())
	default:
		b.WriteString(v.Kind().String())
	}
}
GO
cat > "$work/overlay.json" <<JSON
{"Replace": {"$repo/save/region/mca.go": "$work/mca.go", "$repo/save/region/mca_verif.go": "$work/mca_verif.go"}}
JSON
