package regionx

import (
	"encoding/binary"
	"fmt"
	"runtime"
	"sync"
	"syscall"
	"time"

	"github.com/Tnze/go-mc/save/region"

	"verif/engine"
	"verif/ref/refanvil"
)

// ---------------------------------------------------------------------------------------
// Logical clock. The overlay rewrites every time.Now in mca.go to verifNow, which the harness
// points at the clock of the execution running on the current goroutine (executions run in
// parallel, each with its own clock; the seam itself is a single package-level variable).

// Clock is a logical clock: T seconds since the epoch. It advances by one second at the start
// of every operation; additionally, if TickAt > 0, it advances by one second immediately before
// the TickAt-th (0-based) reading inside the current operation - "the clock ticks between two
// time.Now() calls of one WriteSector".
type Clock struct {
	T      int64
	Calls  int // readings during the current operation
	TickAt int
	Total  int // readings since creation
}

const clockBase = 1_700_000_000

func (c *Clock) now() time.Time {
	if c.TickAt > 0 && c.Calls == c.TickAt {
		c.T++
	}
	c.Calls++
	c.Total++
	return time.Unix(c.T, 0)
}

// clocks maps an OS thread id to the holder of the clock bound to it. An execution pins its
// goroutine to the OS thread for the duration of one go-mc call (runtime.LockOSThread), so the
// thread id identifies the execution while go-mc code runs; gettid is a cheap raw syscall.
var clocks sync.Map // int (tid) -> *holder

type holder struct{ c *Clock }

// InstallClock binds the package seam; call once before any execution.
func InstallClock() {
	region.VerifSetNow(func() time.Time {
		v, ok := clocks.Load(syscall.Gettid())
		if !ok || v.(*holder).c == nil {
			panic("regionx: region read the clock on a thread without a bound execution")
		}
		return v.(*holder).c.now()
	})
}

// withClock runs f (a call into go-mc) with c bound as the current clock.
func withClock(c *Clock, f func()) {
	runtime.LockOSThread()
	defer runtime.UnlockOSThread()
	tid := syscall.Gettid()
	v, ok := clocks.Load(tid)
	if !ok {
		v, _ = clocks.LoadOrStore(tid, &holder{})
	}
	h := v.(*holder)
	h.c = c
	defer func() { h.c = nil }()
	f()
}

// ---------------------------------------------------------------------------------------
// Operations

// Op is one operation of a history.
//
//	W  WriteSector(X,Z,data of Size bytes)      R  ReadSector(X,Z)      E  ExistSector(X,Z)
//	P  PadToFullSector()                        L  re-open: region.Load on a fresh device over the same bytes
type Op struct {
	K    string `json:"op"`
	X    int    `json:"x,omitempty"`
	Z    int    `json:"z,omitempty"`
	Size int    `json:"size,omitempty"`
	Tick int    `json:"tick,omitempty"` // clock ticks before the Tick-th clock reading of this op (0 = steady)
}

func (o Op) String() string {
	switch o.K {
	case "W":
		if o.Tick > 0 {
			return fmt.Sprintf("W(%d,%d,%d,tick@%d)", o.X, o.Z, o.Size, o.Tick)
		}
		return fmt.Sprintf("W(%d,%d,%d)", o.X, o.Z, o.Size)
	case "R", "E":
		return fmt.Sprintf("%s(%d,%d)", o.K, o.X, o.Z)
	}
	return o.K
}

// HistString renders a history compactly.
func HistString(h []Op) string {
	s := ""
	for i, o := range h {
		if i > 0 {
			s += " "
		}
		s += o.String()
	}
	return s
}

// MaxPayload is the largest size WriteSector must accept (255 sectors minus the length word).
const MaxPayload = refanvil.MaxPayload

// GenData is the payload of the idx-th operation of a history when it writes size bytes to
// (x,z): a splitmix64 stream seeded by (idx, x, z, size). Different operations and coordinates
// give different bytes, and the stream has no 4096-byte period, so stale, shifted or foreign data
// are all detected by comparing contents.
func GenData(idx, x, z, size int) []byte {
	b := make([]byte, size)
	s := uint64(idx+1)*0x9E3779B97F4A7C15 ^ uint64(z*32+x+1)*0xBF58476D1CE4E5B9 ^ uint64(size+1)*0x94D049BB133111EB
	for i := 0; i < size; i += 8 {
		s += 0x9E3779B97F4A7C15
		v := s
		v = (v ^ (v >> 30)) * 0xBF58476D1CE4E5B9
		v = (v ^ (v >> 27)) * 0x94D049BB133111EB
		v ^= v >> 31
		if i+8 <= size {
			binary.LittleEndian.PutUint64(b[i:], v)
			continue
		}
		for k := 0; i+k < size; k++ {
			b[i+k] = byte(v >> (8 * k))
		}
	}
	return b
}

// overBuf backs every over-limit write (its contents must never reach the file).
var overBuf = func() []byte {
	b := make([]byte, 1<<20+8)
	for i := range b {
		b[i] = byte(0xA5 ^ i ^ i>>8)
	}
	return b
}()

// ---------------------------------------------------------------------------------------
// Execution: one real region.Region on one device, plus the map model.

// Exec is one execution of a history on the real code.
type Exec struct {
	Variant int
	Dev     Dev
	R       *region.Region
	Model   map[int][]byte // header slot (z*32+x) -> last written bytes
	Idx     int            // index of the next operation
	Clock   *Clock
	Dead    string // non-empty when the region could not be (re)created; nothing more can run
	Hist    []Op   // operations applied so far
	path    string
}

// Non-termination watchdog: every go-mc call made through Apply is registered while in flight.
type inflight struct {
	start int64
	e     *Exec
	op    Op
}

var inflightTab sync.Map // *Exec -> *inflight

// StartWatchdog calls on (once) when a single operation has been running for more than limit
// (>= 20 s: five orders of magnitude above a legitimate call). on must end the process.
func StartWatchdog(limit time.Duration, on func(variant int, hist []Op)) {
	limit *= 15 // same slack as engine.NewWatchdog: a safety net for non-termination, not a stopwatch
	go func() {
		for {
			time.Sleep(2 * time.Second)
			now := int64(engine.VirtualNow()) // the limit is on the virtual clock (engine/vclock.go), not the wall clock
			var hit *inflight
			inflightTab.Range(func(_, v any) bool {
				if f := v.(*inflight); time.Duration(now-f.start) > limit {
					hit = f
					return false
				}
				return true
			})
			if hit != nil {
				on(hit.e.Variant, append(append([]Op(nil), hit.e.Hist...), hit.op))
				return
			}
		}
	}()
}

// Outcome is what one operation returned.
type Outcome struct {
	Op         Op
	Idx        int
	Err        error
	Data       []byte // ReadSector result
	Exist      bool   // ExistSector result
	Panicked   bool
	PanicKind  string
	PanicFrame string
	ClockCalls int
	Writes     []PWrite // physical writes (when logging was requested)
	Written    []byte   // payload handed to WriteSector
}

// NewExec creates the device and calls region.CreateWriter on it.
func NewExec(variant int, path string) *Exec {
	d, err := NewDev(variant, path)
	if err != nil {
		engine.HarnessError("cannot create device %s: %v", VariantNames[variant], err)
	}
	e := &Exec{Variant: variant, Dev: d, Model: map[int][]byte{}, Clock: &Clock{T: clockBase}, path: path}
	d.BeginOp("CreateWriter", true)
	var cerr error
	var kind, frame string
	var p bool
	withClock(e.Clock, func() { kind, frame, p = engine.Guard(func() { e.R, cerr = region.CreateWriter(d) }) })
	if p {
		e.Dead = "CreateWriter panicked: " + kind + " in " + frame
	} else if cerr != nil {
		e.Dead = "CreateWriter failed: " + cerr.Error()
	}
	return e
}

// Release frees device resources (closes real files).
func (e *Exec) Release() { e.Dev.Release() }

// Apply runs one operation on the real region and updates the model as the property statement
// prescribes (accepted writes replace the chunk; everything else leaves the model alone).
func (e *Exec) Apply(op Op, logWrites bool) *Outcome {
	out := &Outcome{Op: op, Idx: e.Idx}
	if e.Dead != "" {
		engine.HarnessError("Apply on a dead execution: %s", e.Dead)
	}
	e.Clock.T++
	e.Clock.Calls = 0
	e.Clock.TickAt = op.Tick
	if logWrites {
		e.Dev.StartLog()
	}
	inflightTab.Store(e, &inflight{int64(engine.VirtualNow()), e, op})
	withClock(e.Clock, func() { e.apply(op, out) })
	inflightTab.Delete(e)
	e.Hist = append(e.Hist, op)
	out.ClockCalls = e.Clock.Calls
	if logWrites {
		out.Writes = e.Dev.TakeLog()
	}
	e.Idx++
	return out
}

func (e *Exec) apply(op Op, out *Outcome) {
	switch op.K {
	case "W":
		var data []byte
		if op.Size > MaxPayload {
			if op.Size > len(overBuf) {
				engine.HarnessError("over-limit size %d larger than the shared buffer", op.Size)
			}
			data = overBuf[:op.Size]
		} else {
			data = GenData(e.Idx, op.X, op.Z, op.Size)
		}
		out.Written = data
		e.Dev.BeginOp("WriteSector", false)
		out.PanicKind, out.PanicFrame, out.Panicked = engine.Guard(func() { out.Err = e.R.WriteSector(op.X, op.Z, data) })
		if op.Size <= MaxPayload && op.Size > 0 {
			e.Model[refanvil.Slot(op.X, op.Z)] = data
		}
	case "R":
		e.Dev.BeginOp("ReadSector", false)
		out.PanicKind, out.PanicFrame, out.Panicked = engine.Guard(func() { out.Data, out.Err = e.R.ReadSector(op.X, op.Z) })
	case "E":
		e.Dev.BeginOp("ExistSector", false)
		out.PanicKind, out.PanicFrame, out.Panicked = engine.Guard(func() { out.Exist = e.R.ExistSector(op.X, op.Z) })
	case "P":
		e.Dev.BeginOp("PadToFullSector", false)
		out.PanicKind, out.PanicFrame, out.Panicked = engine.Guard(func() { out.Err = e.R.PadToFullSector() })
	case "L":
		nd, err := Reopen(e.Dev)
		if err != nil {
			engine.HarnessError("re-open of the device failed: %v", err)
		}
		nd.BeginOp("Load", true)
		var nr *region.Region
		out.PanicKind, out.PanicFrame, out.Panicked = engine.Guard(func() { nr, out.Err = region.Load(nd) })
		e.Dev = nd
		if out.Panicked || out.Err != nil || nr == nil {
			e.Dead = "re-open failed"
		} else {
			e.R = nr
		}
	default:
		engine.HarnessError("unknown operation %q", op.K)
	}
}

// Replay runs a whole history on a fresh execution and returns it (outcomes are not judged:
// every prefix was judged when the search explored it).
func Replay(variant int, path string, hist []Op) *Exec {
	e := NewExec(variant, path)
	for _, op := range hist {
		if e.Dead != "" {
			break
		}
		e.Apply(op, false)
	}
	return e
}

// MemTables is the part of the in-memory state the statement talks about plus the occupancy map.
type MemTables struct {
	Offsets    [32][32]int32
	Timestamps [32][32]int32
	Sectors    []int32
}

func (e *Exec) Tables() MemTables {
	return MemTables{region.VerifOffsets(e.R), e.R.Timestamps, region.VerifSectors(e.R)}
}

// Key is the canonical state key: for every occupied header slot (slot, location word, on-disk
// length word), the occupancy map, the file length, and a rendering of every further field of Region. Chunk contents and timestamps are not part
// of it: no branch of mca.go depends on payload bytes or on timestamp values (they are only
// stored), and every operation addresses the device absolutely (asserted dynamically through
// Dev.RelAccess), so two executions with equal keys have the same futures up to those values.
func (e *Exec) Key() string {
	offs := region.VerifOffsets(e.R)
	b := make([]byte, 0, 96)
	var w [4]byte
	for z := 0; z < 32; z++ {
		for x := 0; x < 32; x++ {
			v := offs[z][x]
			if v == 0 {
				continue
			}
			s := z*32 + x
			b = append(b, byte(s>>8), byte(s), byte(v>>24), byte(v>>16), byte(v>>8), byte(v))
			n := e.Dev.Peek(4096*int64(uint32(v)>>8), w[:])
			if n < 4 {
				w = [4]byte{0xff, 0xff, 0xff, byte(n)}
			}
			b = append(b, w[:]...)
		}
	}
	b = append(b, 0xff, 0xff)
	for _, s := range region.VerifSectors(e.R) {
		b = append(b, byte(s>>16), byte(s>>8), byte(s))
	}
	b = append(b, 0xff, 0xff, 0xfe)
	// entries present but marked free: dropped sectors behave like absent ones in today's mca.go,
	// but the key keeps them so that the abstraction does not depend on that
	for _, s := range region.VerifFreeKeys(e.R) {
		b = append(b, byte(s>>16), byte(s>>8), byte(s))
	}
	b = append(b, 0xff, 0xff, 0xff)
	n := e.Dev.Size()
	b = append(b, byte(n>>32), byte(n>>24), byte(n>>16), byte(n>>8), byte(n))
	// every other field the Region struct has (none today): see VerifExtraState
	b = append(b, region.VerifExtraState(e.R)...)
	return string(b)
}
