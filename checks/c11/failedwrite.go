package main

// Part "failedwrite": a WriteTo whose writer fails, then a WriteTo of ANOTHER storage in the same process, on one
// goroutine with one processor (so that an object a routine gives back to a pool is what the next caller takes). The
// second storage's bytes must be the reference encoding: an encoder that stages its output in a pooled or package-level
// buffer must not leave the unsent rest of a failed write for the next caller. For a menu of storages A and B, every
// offset k at which A's writer stops accepting bytes, in three styles (refuses the write that crosses k; takes the
// bytes up to k and reports an error with them; takes everything and reports an error).

import (
	"bytes"
	"errors"
	"fmt"
	"runtime"

	"github.com/Tnze/go-mc/level"

	"verif/engine"
	"verif/ref/refpal"
)

var errWriterGone = errors.New("verif: writer failed")

type stopWriter struct {
	k, style int
	n        int
}

func (s *stopWriter) Write(p []byte) (int, error) {
	if s.n+len(p) <= s.k {
		s.n += len(p)
		return len(p), nil
	}
	switch s.style {
	case 0:
		return 0, errWriterGone
	case 1:
		take := s.k - s.n
		if take < 0 {
			take = 0
		}
		s.n += take
		return take, errWriterGone
	}
	s.n += len(p)
	return len(p), errWriterGone
}

var failedWriteCases int64

func failedWriteFamily() {
	prev := runtime.GOMAXPROCS(1)
	runtime.LockOSThread()
	defer func() { runtime.UnlockOSThread(); runtime.GOMAXPROCS(prev) }()
	type bn struct{ b, n int }
	as := []bn{{5, 24}, {32, 40}, {1, 130}, {15, 256}}
	bs := []bn{{4, 16}, {32, 2}, {7, 100}}
	for _, a := range as {
		amodel := background("count", a.b, a.n, nil)
		aenc := refpal.PackedLen(a.b, a.n)*8 + 2
		for _, bb := range bs {
			bmodel := background("mask", bb.b, bb.n, nil)
			want := refpal.AppendLongArray(nil, refpal.Pack(bb.b, bmodel))
			for k := 0; k <= aenc; k++ {
				for style := 0; style <= 2; style++ {
					c := Case{Part: "failedwrite", B: a.b, N: a.n, B2: bb.b, Delta: k, Frag: style, Chain: []int{bb.n}}
					var got bytes.Buffer
					var werr error
					pk, frame, p := engine.Guard(func() {
						sa := level.NewBitStorage(a.b, a.n, refpal.Pack(a.b, amodel))
						sb := level.NewBitStorage(bb.b, bb.n, refpal.Pack(bb.b, bmodel))
						sa.WriteTo(&stopWriter{k: k, style: style})
						_, werr = sb.WriteTo(&got)
					})
					failedWriteCases++
					switch {
					case p:
						failCase("failedwrite/panic/"+frame+"/"+pk, k, c, "panic "+pk)
					case werr != nil:
						failCase("failedwrite/second-WriteTo/error", k, c, fmt.Sprintf("after a WriteTo of a (b=%d,n=%d) storage whose writer failed at byte %d (style %d), WriteTo of a (b=%d,n=%d) storage to a good writer failed: %v", a.b, a.n, k, style, bb.b, bb.n, werr))
					case !bytes.Equal(got.Bytes(), want):
						failCase("failedwrite/second-WriteTo/bytes-differ-from-reference", k, c, fmt.Sprintf("after a WriteTo of a (b=%d,n=%d) storage whose writer failed at byte %d (style %d), WriteTo of a (b=%d,n=%d) storage wrote %d bytes (first %x), reference encoding has %d bytes", a.b, a.n, k, style, bb.b, bb.n, got.Len(), clipBytes(got.Bytes()), len(want)))
					}
				}
			}
		}
	}
	rep.Eval(failedWriteCases)
	rep.Count("failed_write_then_write_cases", failedWriteCases)
}

func clipBytes(b []byte) []byte {
	if len(b) > 16 {
		return b[:16]
	}
	return b
}
