// C11 — families added by the white-box audit.
//
//	(iv)   wrong raw lengths: not only want-1/+1/+2 but a menu of "meaningful" wrong lengths (empty
//	       non-nil array, one long, half, double, the pre-1.16 tight packing ceil(n*b/64), the
//	       section constant b*64, the length of the neighbouring widths, one long per value), both
//	       for the constructor and for ReadFrom -> Fix;
//	(v)    wire operations inside histories on ONE object: WriteTo / Reload (WriteTo -> ReadFrom into
//	       itself -> Fix) / Fix as operations next to Set/Swap/Get/rejected calls, all ordered pairs
//	       of a menu with a judged WriteTo before, between and after (anything an object remembers
//	       about its encoded form shows as a stale encoding);
//	(vi)   the object that comes out of ReadFrom+Fix is used as an array again: the whole
//	       single-operation menu (boundary values at index classes, every rejected call);
//	(vii)  reader environments of ReadFrom: fragment sizes {1,7,8,9,511,512,513}, io.EOF delivered
//	       together with the last bytes, readers that are io.ByteReaders;
//	(viii) raw longs with garbage in the bits that encode nothing: Set/Swap on every index (Swap
//	       must return what Get returned), and as the source of a wire round trip;
//	(ix)   chains of ReadFrom+Fix on ONE destination (recycled capacity, len < cap): every ordered
//	       pair of previous widths/length classes before the judged one.
package main

import (
	"bytes"
	"fmt"
	"io"
	"sync/atomic"

	"github.com/Tnze/go-mc/level"

	"verif/engine"
	"verif/ref/refpal"
)

var (
	postOpsApplied                             int64
	wrongLenCases, wireEnvCases, wireHistCount int64
	garbageSingles, garbageWires, chainCases   int64
	maxWrongLenMenu                            int64
)

// ---------------------------------------------------------------------------------------
// wire operations inside a history

func (x *opCtx) wireOp(bs *level.BitStorage, model []uint64, op Op, oi int, pfx string, size int) bool {
	b, n, sc := x.b, x.n, x.sc
	shp := x.tag + shape(b, n, -1)
	encode := func() (wire []byte, ok bool) {
		sc.wbuf.Reset()
		var wn int64
		var werr error
		if pk, frame, p := engine.Guard(func() { wn, werr = bs.WriteTo(&sc.wbuf) }); p {
			x.fail(pfx+"WriteTo-panic/"+frame+"/"+pk+"/"+shp, size, fmt.Sprintf("WriteTo panicked (op %d): %s", oi, pk))
			return nil, false
		}
		wire = sc.wbuf.Bytes()
		if werr != nil || wn != int64(len(wire)) {
			x.fail(pfx+"WriteTo-count-or-error/"+shp, size, fmt.Sprintf("WriteTo returned (%d,%v) for %d bytes written (op %d)", wn, werr, len(wire), oi))
			return nil, false
		}
		// the encoding must describe the CURRENT contents
		longs, used, err := refpal.ReadLongArray(wire)
		var vals []uint64
		if err == nil && used == len(wire) {
			vals, err = refpal.Unpack(b, n, longs)
		}
		if err != nil || used != len(wire) {
			x.fail(pfx+"WriteTo-not-a-long-array-of-the-packing's-length/"+shp, size, fmt.Sprintf("op %d: independent reader: err=%v, used %d of %d bytes", oi, err, used, len(wire)))
			return nil, false
		}
		for i, v := range vals {
			if v != model[i] {
				x.fail(pfx+"WriteTo-encodes-other-contents/"+x.tag+shape(b, n, i), size, fmt.Sprintf("op %d: the encoding holds %d at index %d, the array holds %d", oi, v, i, model[i]))
				return nil, false
			}
		}
		if x.rawCheck {
			sc.raw = refpal.PackInto(sc.raw, b, model)
			sc.wire = refpal.AppendLongArray(sc.wire[:0], sc.raw)
			if !bytes.Equal(wire, sc.wire) {
				x.fail(pfx+"WriteTo-padding-bits-not-zero/"+shp, size, fmt.Sprintf("op %d: encoding differs from the reference packing in bits that hold no value", oi))
				return nil, false
			}
		}
		return wire, true
	}
	var what string
	switch op.Kind {
	case "WriteTo":
		if _, ok := encode(); !ok {
			return false
		}
		what = "WriteTo"
	case "Reload":
		wire, ok := encode()
		if !ok {
			return false
		}
		rd := &engine.PlainReader{Data: append(append([]byte(nil), wire...), 0xA5, 0x5A, 0xA5)}
		var rn int64
		var rerr, ferr error
		if pk, frame, p := engine.Guard(func() {
			rn, rerr = bs.ReadFrom(rd)
			if rerr == nil {
				ferr = bs.Fix(b)
			}
		}); p {
			x.fail(pfx+"panic/"+frame+"/"+pk+"/"+shp, size, fmt.Sprintf("ReadFrom(own encoding)+Fix panicked (op %d): %s", oi, pk))
			return false
		}
		if rerr != nil || ferr != nil {
			x.fail(pfx+"error-on-own-output/"+shp, size, fmt.Sprintf("op %d: ReadFrom err=%v Fix err=%v", oi, rerr, ferr))
			return false
		}
		if rn != int64(len(wire)) || rd.Pos != len(wire) {
			x.fail(pfx+"consumed-count/"+shp, size, fmt.Sprintf("op %d: returned n=%d, took %d bytes, wire has %d", oi, rn, rd.Pos, len(wire)))
			return false
		}
		what = "reading its own encoding back + Fix"
	case "Fix":
		var ferr error
		if pk, frame, p := engine.Guard(func() { ferr = bs.Fix(b) }); p {
			x.fail(pfx+"panic/"+frame+"/"+pk+"/"+shp, size, fmt.Sprintf("Fix(%d) panicked (op %d): %s", b, oi, pk))
			return false
		}
		if ferr != nil {
			x.fail(pfx+"error-on-correct-length/"+shp, size, fmt.Sprintf("op %d: Fix(%d) = %v on an intact storage", oi, b, ferr))
			return false
		}
		what = "Fix with the unchanged width"
	default:
		engine.HarnessError("unknown op %q", op.Kind)
	}
	if k, d, at := compareAll(bs, b, model, x.rawCheck, sc); k != "" {
		x.fail(pfx+"contents-changed/"+k+"/"+x.tag+shape(b, n, at), size, fmt.Sprintf("after %s (op %d): %s", what, oi, d))
		return false
	}
	return true
}

// wireHistMenu is the operation menu of family (v).
func wireHistMenu(b, n int) []Op {
	mask := int(refpal.Mask(b))
	vpl := 64 / b
	var ops []Op
	for _, i := range dedupInts([]int{0, vpl - 1, n - 1}, 0, n) {
		for _, v := range dedupInts([]int{0, mask}, 0, mask+1) {
			ops = append(ops, Op{"Set", i, v}, Op{"Swap", i, v})
		}
		ops = append(ops, Op{"Get", i, 0})
	}
	if n > 0 {
		ops = append(ops, Op{"Set", 0, mask + 1}, Op{"Swap", n - 1, -1})
	}
	ops = append(ops, Op{"Set", n, 0}, Op{"Swap", -1, mask}, Op{"Get", n, 0}, Op{Kind: "Reload"}, Op{Kind: "Fix"})
	return ops
}

// wireHistCount runs W m1 W m2 W for every ordered pair (m1, m2) of the menu, every step judged.
func wireHistories(b, n int) int64 {
	menu := wireHistMenu(b, n)
	tm := &tmpl{model: background("count", b, n, nil)}
	tm.packed = refpal.Pack(b, tm.model)
	var ops [5]Op
	ops[0], ops[2], ops[4] = Op{Kind: "WriteTo"}, Op{Kind: "WriteTo"}, Op{Kind: "WriteTo"}
	var cnt int64
	for i1, m1 := range menu {
		for i2, m2 := range menu {
			ops[1], ops[3] = m1, m2
			c := Case{Part: "history", B: b, N: n, Init: "count", ViaCtor: (i1+i2)%2 == 0, Ops: ops[:], t: tm}
			runHistory(&c, 0)
			cnt++
		}
	}
	atomic.AddInt64(&wireHistCount, cnt)
	return cnt
}

// postOps is the menu of family (vi), applied in this order to the one object under test.
func postOps(b, n int) []Op {
	ops := rejectedOps(b, n, []string{"Set", "Swap", "Get"})
	vals := values(b)
	for _, i := range indexClasses(b, n) {
		for _, v := range vals {
			ops = append(ops, Op{"Set", i, v})
		}
		for k := len(vals) - 1; k >= 0; k-- {
			ops = append(ops, Op{"Swap", i, vals[k]})
		}
		ops = append(ops, Op{"Get", i, 0})
	}
	ops = append(ops, Op{Kind: "WriteTo"})
	ops = append(ops, rejectedOps(b, n, []string{"Set", "Swap"})...)
	return ops
}

// shortPostOps: the few operations applied to the destination of a chain (family (ix)).
func shortPostOps(b, n int) []Op {
	mask := int(refpal.Mask(b))
	ops := []Op{{Kind: "WriteTo"}, {"Set", n, 0}, {"Swap", -1, 0}, {"Get", n, 0}}
	if n > 0 {
		ops = append(ops, Op{"Set", 0, mask + 1}, Op{"Swap", n - 1, mask + 1}, Op{"Swap", n - 1, mask}, Op{"Set", 0, mask}, Op{"Swap", 0, 0}, Op{"Set", n - 1, 0})
	}
	return append(ops, Op{Kind: "WriteTo"})
}

// ---------------------------------------------------------------------------------------
// reader environments

type envReader struct {
	data    []byte
	at      int
	frag    int
	eofData bool
}

func (r *envReader) Read(p []byte) (int, error) {
	if len(p) == 0 {
		return 0, nil
	}
	if r.at >= len(r.data) {
		return 0, io.EOF
	}
	n := len(p)
	if r.frag > 0 && n > r.frag {
		n = r.frag
	}
	n = copy(p[:n], r.data[r.at:])
	r.at += n
	if r.eofData && r.at == len(r.data) {
		return n, io.EOF
	}
	return n, nil
}

func (r *envReader) pos() int { return r.at }

type envByteReader struct{ envReader }

func (r *envByteReader) ReadByte() (byte, error) {
	if r.at >= len(r.data) {
		return 0, io.EOF
	}
	r.at++
	return r.data[r.at-1], nil
}

type posReader interface {
	io.Reader
	pos() int
}

// newEnvReader: the wire bytes behind the reader the case describes. Readers that do not report
// io.EOF with the last bytes get three more bytes behind the encoding, so that reading ahead shows.
func newEnvReader(wire []byte, c Case) posReader {
	data := append([]byte(nil), wire...)
	if !c.EOFData {
		data = append(data, 0xA5, 0x5A, 0xA5)
	}
	er := envReader{data: data, frag: c.Frag, eofData: c.EOFData}
	if c.ByteRd {
		return &envByteReader{er}
	}
	return &er
}

func envName(c Case) string {
	s := ""
	if c.Frag > 0 {
		s = "fragmented-reads"
	}
	if c.EOFData {
		if s != "" {
			s += "+"
		}
		s += "eof-with-last-bytes"
	}
	if c.ByteRd {
		if s != "" {
			s += "+"
		}
		s += "byte-reader"
	}
	return s
}

var fragMenu = []int{1, 7, 8, 9, 511, 512, 513}

// wireEnvs runs the wire round trip through every reader environment.
func wireEnvs(b, n int) int64 {
	var cnt int64
	for _, b2 := range dedupInts([]int{-1, b}, -1, 33) {
		for _, eof := range []bool{false, true} {
			for _, br := range []bool{false, true} {
				for _, fr := range append([]int{0}, fragMenu...) {
					if fr == 0 && !eof && !br {
						continue // the plain reader of family (iii)
					}
					if l := 8*refpal.PackedLen(b, n) + 5; fr > l {
						continue // same behaviour as "all"
					}
					runWire(Case{Part: "wire", B: b, N: n, Init: "count", B2: b2, Frag: fr, EOFData: eof, ByteRd: br})
					cnt++
				}
			}
		}
	}
	atomic.AddInt64(&wireEnvCases, cnt)
	return cnt
}

// ---------------------------------------------------------------------------------------
// wrong raw lengths

// wrongLenDeltas: offsets from the packing's length of every wrong length in the menu.
func wrongLenDeltas(b, n int) []int {
	want := refpal.PackedLen(b, n)
	cands := []int{0, 1, want / 2, want - 2, want - 1, want + 1, want + 2, 2 * want,
		(n*b + 63) / 64, // values packed tightly, spanning longs (before 1.16)
		b * 64,          // ... of a 4096-value section
		refpal.PackedLen(b-1, n), refpal.PackedLen(b+1, n), n}
	var out []int
	seen := map[int]bool{}
	for _, l := range cands {
		if l < 0 || l == want || seen[l] {
			continue
		}
		seen[l] = true
		out = append(out, l-want)
	}
	for {
		o := atomic.LoadInt64(&maxWrongLenMenu)
		if int64(len(out)) <= o || atomic.CompareAndSwapInt64(&maxWrongLenMenu, o, int64(len(out))) {
			break
		}
	}
	return out
}

// ---------------------------------------------------------------------------------------
// chains of ReadFrom+Fix on one destination

// chainStep is one previous use of the destination: the reference encoding of N values of width B
// (all mask), Cut bytes cut off its end, read by ReadFrom, then (if that returned nil) Fix(B).
type chainStep struct{ B, N, Cut int }

func chainMenu(b, n int) []chainStep {
	cands := []chainStep{{0, n, 0}, {1, n, 0}, {b - 1, n, 0}, {b, n, 0}, {b + 1, n, 0}, {32, n, 0}, {b, 0, 0}, {b, n + 64, 0}, {b, n, 1}, {b, n + 64, 9}}
	var out []chainStep
	seen := map[chainStep]bool{}
	for _, s := range cands {
		if s.B < 0 || s.B > 32 || seen[s] || (s.Cut > 0 && refpal.PackedLen(s.B, s.N) == 0) {
			continue
		}
		seen[s] = true
		out = append(out, s)
	}
	return out
}

// touch reads and encodes the object the way a user between two ReadFrom calls would; nothing
// is judged here (after a refused Fix the object is in no specified state), panics are swallowed.
func touch(bs *level.BitStorage, n int) {
	engine.Guard(func() { bs.WriteTo(io.Discard) })
	for _, i := range []int{0, n - 1} {
		engine.Guard(func() { bs.Get(i) })
	}
}

// runChain: one destination object (fresh, width b, n values) reads a chain of other encodings
// — each a long array of some other width/length class; whether Fix accepts those is not judged —
// (some cut short, so that ReadFrom fails in the middle), is read and encoded in between,
// and finally reads its own (b, n) encoding followed by Fix(b): then it must be that array. The
// destination's length n is fixed at construction, so previous steps only vary the number of
// longs (recycled capacity) and the width given to Fix.
func runChain(c Case) {
	sc := scratchPool.Get().(*scratch)
	defer scratchPool.Put(sc)
	b, n := c.B, c.N
	model := background(c.Init, b, n, nil)
	wire := refpal.AppendLongArray(nil, refpal.Pack(b, model))
	var dst *level.BitStorage
	var rn int64
	var rerr, ferr error
	rd := &engine.PlainReader{Data: append(append([]byte(nil), wire...), 0xA5, 0x5A, 0xA5)}
	if pk, frame, p := engine.Guard(func() {
		dst = level.NewBitStorage(b, n, nil)
		for k := 0; k+2 < len(c.Chain); k += 3 {
			pb, pn, cut := c.Chain[k], c.Chain[k+1], c.Chain[k+2]
			pw := refpal.AppendLongArray(nil, refpal.Pack(pb, background("mask", pb, pn, nil)))
			if _, err := dst.ReadFrom(bytes.NewReader(pw[:len(pw)-cut])); err == nil {
				_ = dst.Fix(pb)
			}
			touch(dst, n)
		}
		rn, rerr = dst.ReadFrom(rd)
		if rerr == nil {
			ferr = dst.Fix(b)
		}
	}); p {
		failCase("chain/ReadFrom+Fix/panic/"+frame+"/"+pk, n, c, "panicked: "+pk)
		return
	}
	sh := fmt.Sprintf("after-%d-previous-reads,", len(c.Chain)/3) + shape(b, n, -1)
	if rerr != nil || ferr != nil {
		failCase("chain/ReadFrom+Fix/error-on-reference-encoding/"+sh, n, c, fmt.Sprintf("ReadFrom err=%v Fix err=%v", rerr, ferr))
		return
	}
	if rn != int64(len(wire)) || rd.Pos != len(wire) {
		failCase("chain/ReadFrom/consumed-count/"+sh, n, c, fmt.Sprintf("returned n=%d, took %d bytes, wire has %d", rn, rd.Pos, len(wire)))
		return
	}
	if k, d, at := compareAll(dst, b, model, true, sc); k != "" {
		failCase("chain/ReadFrom+Fix/"+k+"/"+fmt.Sprintf("after-%d-previous-reads,", len(c.Chain)/3)+shape(b, n, at), n, c, d)
		return
	}
	po := shortPostOps(b, n)
	x := opCtx{b: b, n: n, pfx: "chain/after-Fix/", rawCheck: true, sc: sc,
		fail: func(class string, size int, detail string) { failCase(class, size, c, detail) }}
	x.apply(dst, model, po, 0)
	atomic.AddInt64(&postOpsApplied, int64(len(po)))
}

func chains(b, n int) int64 {
	menu := chainMenu(b, n)
	var cnt int64
	for _, s1 := range menu {
		for _, s2 := range menu {
			runChain(Case{Part: "chain", B: b, N: n, Init: "count", Chain: []int{s1.B, s1.N, s1.Cut, s2.B, s2.N, s2.Cut}})
			cnt++
		}
	}
	atomic.AddInt64(&chainCases, cnt)
	return cnt
}

// ---------------------------------------------------------------------------------------

// stateN: is n one of the sizes on which the families about state that survives a call — (v),
// (vii), (ix) — run? thorough: every n; quick: the size classes relative to the values per long.
func stateN(b, n int) bool {
	if rep.Thorough() || n <= 2 || n >= 127 {
		return true
	}
	vpl := 64 / b
	for _, k := range []int{1, 2} {
		if d := n - k*vpl; d >= -1 && d <= 1 {
			return true
		}
	}
	return n == 63 || n == 64 || n == 65 || n == 100
}

// hasPadding: does the packing of (b, n) leave bits that encode nothing?
func hasPadding(b, n int) bool {
	if b <= 0 || n <= 0 {
		return false
	}
	vpl := 64 / b
	return 64%b != 0 || n%vpl != 0
}

func reportExtensions() {
	rep.Count("wrong_raw_length_cases_(constructor_and_ReadFrom+Fix)", wrongLenCases)
	rep.Count("wire_histories_W_m1_W_m2_W_on_one_object", wireHistCount)
	rep.Count("operations_applied_to_objects_that_came_out_of_ReadFrom+Fix", postOpsApplied)
	rep.Count("wire_round_trips_through_reader_environments", wireEnvCases)
	rep.Count("garbage_padding_single_operation_cases", garbageSingles)
	rep.Count("garbage_padding_wire_round_trips", garbageWires)
	rep.Count("ReadFrom+Fix_chains_on_one_destination", chainCases)
	rep.Extra("wrong_length_menu", "0 (non-nil), 1, want/2, want-2, want-1, want+1, want+2, 2*want, ceil(n*b/64) (tight pre-1.16 packing), b*64, PackedLen(b-1,n), PackedLen(b+1,n), n; those equal to the packing's length dropped")
	rep.Extra("wrong_length_menu_max_size", maxWrongLenMenu)
	rep.Extra("wire_history_menu", "Set/Swap x i in {0, vpl-1, n-1} x v in {0, mask}; Get(i); rejected Set(0,mask+1), Swap(n-1,-1), Set(n,0), Swap(-1,mask), Get(n); Reload (WriteTo -> ReadFrom into itself -> Fix(b)); Fix(b); all ordered pairs, WriteTo judged before/between/after")
	rep.Extra("after_Fix_menu", "every rejected call; Set and Swap of {0,1,mask-1,mask} and Get at every index class; WriteTo; rejected Set/Swap again")
	rep.Extra("reader_environments", "fragment sizes {all,1,7,8,9,511,512,513} x {io.EOF after | with the last bytes} x {plain io.Reader | io.ByteReader} x destination {fresh, used same width}")
	rep.Extra("chain_after_Fix_menu", "WriteTo; rejected Set(n,0) Swap(-1,0) Get(n) Set(0,mask+1) Swap(n-1,mask+1); Swap(n-1,mask) Set(0,mask) Swap(0,0) Set(n-1,0); WriteTo")
	rep.Extra("n_of_families_(v)(vii)(ix)", map[bool]string{true: "every n", false: "0,1,2, vpl-1..vpl+1, 2vpl-1..2vpl+1, 63,64,65, 100, 127..130, 256, 4096 (thorough: every n)"}[rep.Thorough()])
	rep.Extra("chain_menu", "previous (width, values) of the encodings read before the judged one: (0,n) (1,n) (b-1,n) (b,n) (b+1,n) (32,n) (b,0) (b,n+64), (b,n) cut by 1 byte, (b,n+64) cut by 9 bytes; all ordered pairs; WriteTo and Get(0), Get(n-1) after each")
}
