// C11 — BitStorage is an array of n b-bit integers in Minecraft 1.16+ packing.
//
// Everything is enumerated, nothing sampled:
//
//	(i)   explicit-state search (BFS with replay, to fixpoint) for every (b, n) with b*n <= 8:
//	      all 2^(b*n) array contents, every Set/Swap/Get (all i, all v) and every rejected call
//	      from every state, the real object rebuilt by replaying the shortest history;
//	(ii)  for every b in 1..32 x n in {0..130, 256, 4096}: 4 backgrounds x index classes x
//	      boundary values: Set and Swap on a fresh object, ordered pairs of operations on
//	      same-long / adjacent-long indices, rejected calls (index/value out of range);
//	(iii) constructor from reference-packed longs (also with garbage in the padding bits),
//	      refusal of len+-1, WriteTo -> ReadFrom into fresh/used storages -> Fix(b), Fix refusing a
//	      wrong long count, size rules; b == 0: every Get is 0;
//	(iv)-(ix) in extend.go: wrong-raw-length menu, wire operations inside histories on one object,
//	      the operation menu on objects that came out of ReadFrom+Fix, reader environments,
//	      garbage-padding operations, chains of ReadFrom+Fix on one destination.
//
// Oracle: a []uint64 model; after EVERY operation every index is read back and every raw long
// is compared with refpal's packer (floor(64/b) values per long from the low bits, none
// spanning, padding zero).
package main

import (
	"bytes"
	"encoding/json"
	"fmt"
	"math"
	"sort"
	"sync"
	"sync/atomic"
	"time"

	"github.com/Tnze/go-mc/level"

	"verif/engine"
	"verif/ref/refpal"
)

// Op is one call on the storage.
type Op struct {
	Kind string `json:"op"` // Set | Swap | Get | WriteTo | Reload | Fix
	I    int    `json:"i"`
	V    int    `json:"v,omitempty"`
}

// Case re-executes one judged history / construction.
type Case struct {
	Part    string   `json:"part"` // history | ctor | refuse | wire | wirefix | zero | chain
	B       int      `json:"b"`
	N       int      `json:"n"`
	Init    string   `json:"init,omitempty"` // zero | mask | alt | count | values
	Vals    []uint64 `json:"vals,omitempty"` // Init == values
	ViaCtor bool     `json:"via_ctor,omitempty"`
	Garbage bool     `json:"garbage_padding,omitempty"`
	Ops     []Op     `json:"ops,omitempty"`
	B2      int      `json:"b2,omitempty"`            // wire: width of the previously used destination (-1 fresh)
	Delta   int      `json:"delta,omitempty"`         // refuse / wirefix: length offset
	Frag    int      `json:"frag,omitempty"`          // wire: the reader hands out at most this many bytes per Read (0: all)
	EOFData bool     `json:"eof_with_data,omitempty"` // wire: the reader returns io.EOF together with the last bytes
	ByteRd  bool     `json:"byte_reader,omitempty"`   // wire: the reader also implements io.ByteReader
	Chain   []int    `json:"chain,omitempty"`         // chain: (width, values, bytes cut off the end) of the encodings the destination read before

	t *tmpl // precomputed background (not serialised; recomputed from Init when nil)
}

var rep *engine.Report

// ---------------------------------------------------------------------------------------
// model helpers

func background(name string, b, n int, vals []uint64) []uint64 {
	m := refpal.Mask(b)
	out := make([]uint64, n)
	switch name {
	case "zero":
	case "mask":
		for i := range out {
			out[i] = m
		}
	case "alt":
		for i := range out {
			if i%2 == 0 {
				out[i] = m
			}
		}
	case "count":
		for i := range out {
			out[i] = (uint64(i)*0x9E3779B97F4A7C15>>17 + uint64(i)) & m
		}
	case "values":
		copy(out, vals)
	default:
		engine.HarnessError("unknown background %q", name)
	}
	return out
}

// garbage sets every bit of longs that encodes nothing (padding above the last slot of each
// long, unused slots of the last long).
func garbage(b, n int, longs []uint64) bool {
	vpl := 64 / b
	any := false
	for li := range longs {
		used := vpl
		if rest := n - li*vpl; rest < vpl {
			used = rest
		}
		if used*b < 64 {
			longs[li] |= ^uint64(0) << uint(used*b)
			any = true
		}
	}
	return any
}

func shape(b, n, i int) string {
	s := "b-divides-64"
	if 64%b != 0 {
		s = "b-not-dividing-64"
	}
	if i < 0 || i >= n {
		return s
	}
	vpl := 64 / b
	switch {
	case vpl == 1:
		s += ",one-value-per-long"
	case i%vpl == vpl-1:
		s += ",top-slot"
	case i%vpl == 0:
		s += ",slot0"
	default:
		s += ",mid-slot"
	}
	if n%vpl != 0 && i/vpl == (n-1)/vpl {
		s += ",partial-last-long"
	}
	return s
}

type scratch struct {
	raw   []uint64
	model []uint64
	pack  []uint64
	wire  []byte
	wbuf  bytes.Buffer
}

// transitions executed (operations applied to a real object); added to the report in batches
var transTotal, abandoned int64

type tmpl struct{ model, packed []uint64 }

var scratchPool = sync.Pool{New: func() any { return &scratch{} }}

// compareAll reads every index and every raw long. Returns "" or a failure kind and detail.
func compareAll(bs *level.BitStorage, b int, model []uint64, rawToo bool, sc *scratch) (kind, detail string, at int) {
	var got int
	at = -1
	pk, frame, panicked := engine.Guard(func() {
		for i, want := range model {
			got = bs.Get(i)
			if uint64(got) != want || got < 0 {
				kind, detail, at = "get-mismatch", fmt.Sprintf("Get(%d)=%d, model has %d", i, got, want), i
				return
			}
		}
		if bs.Len() != len(model) {
			kind, detail = "len-mismatch", fmt.Sprintf("Len()=%d, want %d", bs.Len(), len(model))
			return
		}
		if rawToo {
			sc.raw = refpal.PackInto(sc.raw, b, model)
			raw := bs.Raw()
			if len(raw) != len(sc.raw) {
				kind, detail = "raw-length", fmt.Sprintf("len(Raw())=%d, packing needs %d", len(raw), len(sc.raw))
				return
			}
			for li, w := range sc.raw {
				if raw[li] != w {
					kind, detail, at = "raw-long-mismatch", fmt.Sprintf("Raw()[%d]=%016x, reference packing gives %016x", li, raw[li], w), li*(64/b)
					return
				}
			}
		}
	})
	if panicked {
		return "panic-on-valid-Get/" + frame + "/" + pk, "Get/Raw panicked on an in-range read: " + pk, -1
	}
	return
}

// compareNear reads the indices around i (and the first and last one) only.
func compareNear(bs *level.BitStorage, b, n int, model []uint64, i int) (kind, detail string, at int) {
	at = -1
	if n == 0 {
		return
	}
	var near []int
	if i >= 0 && i < n {
		near = neighbours(b, n, i)
	}
	near = append(near, 0, n-1)
	pk, frame, panicked := engine.Guard(func() {
		for _, j := range near {
			if got := bs.Get(j); uint64(got) != model[j] || got < 0 {
				kind, detail, at = "get-mismatch", fmt.Sprintf("Get(%d)=%d, model has %d", j, got, model[j]), j
				return
			}
		}
	})
	if panicked {
		return "panic-on-valid-Get/" + frame + "/" + pk, "Get panicked on an in-range read: " + pk, -1
	}
	return
}

// build makes the real object for a case start.
func build(c *Case, model []uint64, sc *scratch) (bs *level.BitStorage, rawCheck bool, perr string) {
	rawCheck = true
	pk, _, panicked := engine.Guard(func() {
		if c.ViaCtor {
			var longs []uint64
			if c.t != nil && !c.Garbage {
				longs = c.t.packed // NewBitStorage copies; compareAll would notice if it did not
			} else {
				sc.pack = refpal.PackInto(sc.pack, c.B, model)
				longs = sc.pack
			}
			if c.Garbage {
				if garbage(c.B, c.N, longs) {
					rawCheck = false
				}
			}
			bs = level.NewBitStorage(c.B, c.N, longs)
		} else {
			bs = level.NewBitStorage(c.B, c.N, nil)
			for i, v := range model {
				if v != 0 {
					bs.Set(i, int(v))
				}
			}
		}
	})
	if panicked {
		perr = pk
	}
	return
}

// runHistory is the judge of parts (i), (ii) and (v): build the start state, apply the
// operations, compare everything after every operation. checkFrom: operations before that index
// are a replayed prefix (already judged when their state was discovered) and are applied unjudged.
func runHistory(c *Case, checkFrom int) {
	sc := scratchPool.Get().(*scratch)
	defer scratchPool.Put(sc)
	b, n := c.B, c.N
	var model []uint64
	if c.t != nil {
		if cap(sc.model) < n {
			sc.model = make([]uint64, n)
		}
		model = sc.model[:n]
		copy(model, c.t.model)
	} else {
		model = background(c.Init, b, n, c.Vals)
	}
	fail := func(class string, size int, detail string) {
		rep.FailLazy(class, size, func() engine.Failure {
			return engine.Failure{Detail: fmt.Sprintf("b=%d n=%d init=%s: %s", b, n, c.Init, detail), Case: cloneCase(c)}
		})
	}
	bs, rawCheck, perr := build(c, model, sc)
	if perr != "" {
		fail("history/NewBitStorage/panic-on-valid-construction/"+shape(b, n, -1), n, "constructing the start state panicked: "+perr)
		return
	}
	if checkFrom == 0 {
		if k, d, at := compareAll(bs, b, model, rawCheck, sc); k != "" {
			fail("history/start/"+k+"/"+shape(b, n, at), n, "after construction: "+d)
			return
		}
	}
	x := opCtx{b: b, n: n, pfx: "history/", rawCheck: rawCheck, sc: sc, fail: fail}
	x.apply(bs, model, c.Ops, checkFrom)
}

// opCtx applies operations to one real object next to the model and judges each of them.
// Classes are pfx + <op kind> + "/" + <failure kind> + "/" + tag + shape.
type opCtx struct {
	b, n     int
	pfx, tag string
	rawCheck bool
	// sparse: every index and every raw long is compared after the first operation, after the last
	// one and whenever the operation's index differs from the previous operation's; in between
	// only the target index and its neighbours (same long, adjacent longs, first, last) are read.
	sparse bool
	sc     *scratch
	fail   func(class string, size int, detail string)
}

func isAccess(kind string) bool { return kind == "Set" || kind == "Swap" || kind == "Get" }

// apply returns false when a failure was recorded (or the history was abandoned).
func (x *opCtx) apply(bs *level.BitStorage, model []uint64, ops []Op, checkFrom int) bool {
	b, n, sc, fail := x.b, x.n, x.sc, x.fail
	mask := refpal.Mask(b)
	var nt int64
	defer func() { atomic.AddInt64(&transTotal, nt) }()
	shp := func(i int) string { return x.tag + shape(b, n, i) }
	compare := func(oi int) (string, string, int) {
		if x.sparse && oi > 0 && oi < len(ops)-1 && ops[oi-1].I == ops[oi].I && isAccess(ops[oi-1].Kind) {
			return compareNear(bs, b, n, model, ops[oi].I)
		}
		return compareAll(bs, b, model, x.rawCheck, sc)
	}
	for oi, op := range ops {
		judged := oi >= checkFrom
		size := n*8 + len(ops)
		pfx := x.pfx + op.Kind + "/"
		if !isAccess(op.Kind) {
			// WriteTo / Reload / Fix: operations of the wire half of the statement on a live object
			nt++
			if !x.wireOp(bs, model, op, oi, pfx, size) {
				return false
			}
			continue
		}
		badI := op.I < 0 || op.I >= n
		badV := op.Kind != "Get" && (op.V < 0 || uint64(op.V) > mask)
		var ret int
		pk, frame, panicked := engine.Guard(func() {
			switch op.Kind {
			case "Set":
				bs.Set(op.I, op.V)
			case "Swap":
				ret = bs.Swap(op.I, op.V)
			case "Get":
				ret = bs.Get(op.I)
			}
		})
		nt++
		if badI || badV {
			// "an out-of-range index or value panics without modifying anything"
			if judged && !panicked {
				what := "index"
				if !badI {
					what = "value"
				}
				fail(pfx+"no-panic-on-out-of-range-"+what+"/"+shp(op.I), size, fmt.Sprintf("%s(%d,%d) returned normally (op %d)", op.Kind, op.I, op.V, oi))
				return false
			}
			if judged {
				if k, d, at := compare(oi); k != "" {
					fail(pfx+"modified-by-rejected-call/"+k+"/"+shp(at), size, fmt.Sprintf("after rejected %s(%d,%d): %s", op.Kind, op.I, op.V, d))
					return false
				}
			}
			continue
		}
		if panicked {
			fail(pfx+"panic-on-valid-call/"+frame+"/"+pk+"/"+shp(op.I), size, fmt.Sprintf("%s(%d,%d) panicked: %s (op %d)", op.Kind, op.I, op.V, pk, oi))
			return false
		}
		old := model[op.I]
		if op.Kind != "Get" {
			model[op.I] = uint64(op.V)
		}
		if !judged {
			// replayed prefix (judged where it was the last operation): if it already broke the
			// target the history is abandoned silently instead of blaming the next operation
			var g int
			if _, _, p := engine.Guard(func() { g = bs.Get(op.I) }); p || uint64(g) != model[op.I] {
				atomic.AddInt64(&abandoned, 1)
				return false
			}
			continue
		}
		if op.Kind != "Set" && uint64(ret) != old {
			fail(pfx+"wrong-result/"+shp(op.I), size, fmt.Sprintf("%s(%d,%d) returned %d, previous value was %d (op %d)", op.Kind, op.I, op.V, ret, old, oi))
			return false
		}
		if k, d, at := compare(oi); k != "" {
			where := "other-index"
			if at == op.I {
				where = "target-index"
			}
			if k != "get-mismatch" {
				where = "raw"
			}
			fail(pfx+k+"/"+where+"/"+shp(op.I), size, fmt.Sprintf("after %s(%d,%d) (op %d): %s", op.Kind, op.I, op.V, oi, d))
			return false
		}
	}
	return true
}

func cloneCase(c *Case) Case {
	cc := *c
	cc.t = nil
	cc.Ops = append([]Op(nil), c.Ops...)
	cc.Vals = append([]uint64(nil), c.Vals...)
	cc.Chain = append([]int(nil), c.Chain...)
	return cc
}

// ---------------------------------------------------------------------------------------
// part (i): explicit-state search to fixpoint

var (
	bfsStates, bfsTrans, bfsSpaces int64
	bfsMaxDepth                    int64
)

func rejectedOps(b, n int, kinds []string) []Op {
	mask := int(refpal.Mask(b))
	badI := []int{-1, n, n + 1, math.MaxInt64, math.MinInt64}
	badV := []int{-1, mask + 1, math.MinInt64, math.MaxInt64}
	goodV := []int{0, mask}
	goodI := []int{}
	if n > 0 {
		goodI = append(goodI, 0)
		if n > 1 {
			goodI = append(goodI, n-1)
		}
	}
	var out []Op
	for _, k := range kinds {
		if k == "Get" {
			for _, i := range badI {
				out = append(out, Op{"Get", i, 0})
			}
			continue
		}
		for _, i := range badI {
			for _, v := range goodV {
				out = append(out, Op{k, i, v})
			}
			out = append(out, Op{k, i, -1}, Op{k, i, mask + 1})
		}
		for _, i := range goodI {
			for _, v := range badV {
				out = append(out, Op{k, i, v})
			}
		}
	}
	return out
}

func bfs(b, n int) {
	type node struct {
		hist  []Op
		depth int
	}
	key := func(m []uint64) uint64 {
		var k uint64
		for i, v := range m {
			k |= v << uint(i*b)
		}
		return k
	}
	mask := int(refpal.Mask(b))
	var ops []Op
	for i := 0; i < n; i++ {
		for v := 0; v <= mask; v++ {
			ops = append(ops, Op{"Set", i, v}, Op{"Swap", i, v})
		}
		ops = append(ops, Op{"Get", i, 0})
	}
	ops = append(ops, rejectedOps(b, n, []string{"Set", "Swap", "Get"})...)
	seen := map[uint64]bool{0: true}
	queue := []node{{nil, 0}}
	states, trans, maxd := int64(0), int64(0), 0
	for len(queue) > 0 {
		cur := queue[0]
		queue = queue[1:]
		states++
		if cur.depth > maxd {
			maxd = cur.depth
		}
		// the model state reached by cur.hist
		model := make([]uint64, n)
		for _, o := range cur.hist {
			model[o.I] = uint64(o.V)
		}
		// the same state through the constructor: every index must read what the longs encode
		cc := Case{Part: "history", B: b, N: n, Init: "values", Vals: model, ViaCtor: true}
		runHistory(&cc, 0)
		rep.Eval(1)
		for _, op := range ops {
			h := make([]Op, len(cur.hist)+1)
			copy(h, cur.hist)
			h[len(cur.hist)] = op
			c := Case{Part: "history", B: b, N: n, Init: "zero", Ops: h}
			runHistory(&c, len(cur.hist))
			trans++
			// successor in the model
			if op.Kind != "Get" && op.I >= 0 && op.I < n && op.V >= 0 && op.V <= mask {
				nm := append([]uint64(nil), model...)
				nm[op.I] = uint64(op.V)
				if k := key(nm); !seen[k] {
					seen[k] = true
					queue = append(queue, node{h, cur.depth + 1})
				}
			}
		}
		rep.Eval(int64(len(ops)))
	}
	if want := int64(1) << uint(b*n); states != want {
		engine.HarnessError("BFS b=%d n=%d reached %d states, expected %d", b, n, states, want)
	}
	atomic.AddInt64(&bfsStates, states)
	atomic.AddInt64(&bfsTrans, trans)
	atomic.AddInt64(&bfsSpaces, 1)
	for {
		o := atomic.LoadInt64(&bfsMaxDepth)
		if int64(maxd) <= o || atomic.CompareAndSwapInt64(&bfsMaxDepth, o, int64(maxd)) {
			break
		}
	}
}

// ---------------------------------------------------------------------------------------
// part (ii): boundary product for every (b, n)

var backgrounds = []string{"zero", "mask", "alt", "count"}

func dedupInts(xs []int, lo, hi int) []int {
	m := map[int]bool{}
	var out []int
	for _, x := range xs {
		if x >= lo && x < hi && !m[x] {
			m[x] = true
			out = append(out, x)
		}
	}
	sort.Ints(out)
	return out
}

func indexClasses(b, n int) []int {
	vpl := 64 / b
	last := (n - 1) / vpl * vpl
	return dedupInts([]int{0, 1, vpl - 1, vpl, vpl + 1, 2*vpl - 1, 2 * vpl, n - vpl - 1, n - vpl, n - vpl + 1, last - 1, last, last + 1, n - 2, n - 1, n / 2}, 0, n)
}

func neighbours(b, n, i int) []int {
	vpl := 64 / b
	first := i / vpl * vpl
	return dedupInts([]int{i - vpl, i - 1, i, i + 1, i + vpl, first, first + vpl - 1, first - 1, first - vpl, first + vpl, first + 2*vpl - 1}, 0, n)
}

func values(b int) []int {
	m := int(refpal.Mask(b))
	return dedupInts([]int{0, 1, m - 1, m}, 0, m+1)
}

var (
	prodSingles, prodPairs, prodRejects int64
)

func product(b, n int, allPairs bool) {
	if n == 0 {
		for _, op := range rejectedOps(b, 0, []string{"Set", "Swap", "Get"}) {
			c := Case{Part: "history", B: b, N: 0, Init: "zero", ViaCtor: true, Ops: []Op{op}}
			runHistory(&c, 0)
			atomic.AddInt64(&prodRejects, 1)
		}
		rep.Eval(int64(len(rejectedOps(b, 0, []string{"Set", "Swap", "Get"}))))
		return
	}
	var idx []int
	if n <= 130 {
		idx = make([]int, n)
		for i := range idx {
			idx[i] = i
		}
	} else {
		idx = indexClasses(b, n)
	}
	vals := values(b)
	kinds := []string{"Set", "Swap"}
	var evals int64
	for bi, bg := range backgrounds {
		tm := &tmpl{model: background(bg, b, n, nil)}
		tm.packed = refpal.Pack(b, tm.model)
		// single operations: every index (class) x every boundary value x {Set, Swap}; the start
		// state alternates between "constructor from packed longs" and "built by Set calls"
		for _, i := range idx {
			for _, v := range vals {
				for ki, k := range kinds {
					c := Case{Part: "history", B: b, N: n, Init: bg, ViaCtor: (i+ki+bi)%2 == 0, Ops: []Op{{k, i, v}}, t: tm}
					runHistory(&c, 0)
					evals++
				}
			}
		}
		atomic.AddInt64(&prodSingles, int64(len(idx)*len(vals)*2))
		// the same single operations on a storage built from longs with garbage in the bits that
		// encode nothing (judged on Get and on the results only)
		if (bg == "zero" || bg == "count") && hasPadding(b, n) {
			for _, i := range idx {
				for _, v := range vals {
					for _, k := range kinds {
						c := Case{Part: "history", B: b, N: n, Init: bg, ViaCtor: true, Garbage: true, Ops: []Op{{k, i, v}}, t: tm}
						runHistory(&c, 0)
						evals++
					}
				}
			}
			atomic.AddInt64(&garbageSingles, int64(len(idx)*len(vals)*2))
		}
		// ordered pairs on same-long / adjacent-long indices
		first := idx
		if !allPairs || n > 130 {
			first = indexClasses(b, n)
		}
		pv := vals
		if n > 130 {
			pv = dedupInts([]int{0, int(refpal.Mask(b))}, 0, int(refpal.Mask(b))+1)
		}
		var np int64
		var ops2 [2]Op
		for _, i1 := range first {
			for _, i2 := range neighbours(b, n, i1) {
				for _, v1 := range pv {
					for _, v2 := range pv {
						for _, k1 := range kinds {
							for _, k2 := range kinds {
								ops2[0], ops2[1] = Op{k1, i1, v1}, Op{k2, i2, v2}
								c := Case{Part: "history", B: b, N: n, Init: bg, ViaCtor: true, Ops: ops2[:], t: tm}
								runHistory(&c, 1) // the first operation alone was judged above
								np++
							}
						}
					}
				}
			}
		}
		evals += np
		atomic.AddInt64(&prodPairs, np)
		// rejected calls
		if bg == "zero" || bg == "count" {
			rj := rejectedOps(b, n, []string{"Set", "Swap", "Get"})
			for _, op := range rj {
				c := Case{Part: "history", B: b, N: n, Init: bg, ViaCtor: true, Ops: []Op{op}}
				runHistory(&c, 0)
			}
			// a rejected call after an accepted one
			for _, op := range rejectedOps(b, n, []string{"Set"}) {
				c := Case{Part: "history", B: b, N: n, Init: bg, ViaCtor: false, Ops: []Op{{"Swap", n - 1, int(refpal.Mask(b))}, op}}
				runHistory(&c, 0)
				evals++
			}
			evals += int64(len(rj))
			atomic.AddInt64(&prodRejects, int64(len(rj)))
		}
	}
	rep.Eval(evals)
}

// ---------------------------------------------------------------------------------------
// part (iii): constructor, refusal, wire, Fix

func failCase(class string, size int, c Case, detail string) {
	rep.FailLazy(class, size, func() engine.Failure {
		return engine.Failure{Detail: fmt.Sprintf("b=%d n=%d: %s", c.B, c.N, detail), Case: c}
	})
}

// runCtor: NewBitStorage(b, n, packed) reads back what the longs encode (also with garbage
// padding); NewBitStorage(b, n, nil) has the packing's length and reads 0 everywhere.
func runCtor(c Case) {
	sc := scratchPool.Get().(*scratch)
	defer scratchPool.Put(sc)
	model := background(c.Init, c.B, c.N, c.Vals)
	cc := c
	cc.ViaCtor = true
	bs, rawCheck, perr := build(&cc, model, sc)
	if perr != "" {
		failCase("ctor/NewBitStorage/panic-on-reference-packed-longs/"+shape(c.B, c.N, -1), c.N, c, "constructor panicked on exactly PackedLen longs: "+perr)
		return
	}
	if k, d, at := compareAll(bs, c.B, model, rawCheck, sc); k != "" {
		g := ""
		if c.Garbage {
			g = "garbage-padding,"
		}
		failCase("ctor/NewBitStorage/"+k+"/"+g+shape(c.B, c.N, at), c.N, c, d)
		return
	}
	if c.B == 0 || c.N == 0 || c.Garbage {
		return
	}
	// The storage owns its values: what the caller does with the slice it supplied, and what another storage built
	// from the same slice does, is not a Set or Swap on this storage.
	mine := refpal.Pack(c.B, model)
	orig := append([]uint64(nil), mine...)
	var a, b2 *level.BitStorage
	if _, _, p := engine.Guard(func() { a = level.NewBitStorage(c.B, c.N, mine); b2 = level.NewBitStorage(c.B, c.N, mine) }); p {
		return
	}
	for i := range mine {
		mine[i] = ^mine[i]
	}
	if k, d, at := compareAll(a, c.B, model, true, sc); k != "" {
		failCase("ctor/NewBitStorage/storage-follows-the-callers-slice/"+k+"/"+shape(c.B, c.N, at), c.N, c, "after the caller overwrote the slice it had passed to the constructor: "+d)
		return
	}
	copy(mine, orig)
	mask := uint64(1)<<uint(c.B) - 1
	nv := (model[0] + 1) & mask
	if _, _, p := engine.Guard(func() { a.Set(0, int(nv)) }); p {
		return
	}
	if k, d, at := compareAll(b2, c.B, model, true, sc); k != "" {
		failCase("ctor/NewBitStorage/two-storages-share-one-array/"+k+"/"+shape(c.B, c.N, at), c.N, c, "after Set(0) on ANOTHER storage built from the same raw slice: "+d)
		return
	}
	for i := range mine {
		if mine[i] != orig[i] {
			failCase("ctor/NewBitStorage/set-writes-into-the-callers-slice/"+shape(c.B, c.N, 0), c.N, c, fmt.Sprintf("Set(0,%d) on the storage changed long %d of the slice the caller had passed to the constructor", nv, i))
			return
		}
	}
}

// runRefuse: a raw array one long too long / too short must be refused (panic).
func runRefuse(c Case) {
	want := refpal.PackedLen(c.B, c.N)
	l := want + c.Delta
	if l < 0 {
		return
	}
	_, _, panicked := engine.Guard(func() { level.NewBitStorage(c.B, c.N, make([]uint64, l)) })
	if !panicked {
		failCase(fmt.Sprintf("ctor/NewBitStorage/wrong-raw-length-accepted/delta=%+d,%s", c.Delta, shape(c.B, c.N, -1)), c.N, c,
			fmt.Sprintf("%d longs accepted where the packing needs %d", l, want))
	}
}

// runWire: WriteTo -> independent reader -> ReadFrom into fresh / used storage -> Fix(b).
func runWire(c Case) {
	sc := scratchPool.Get().(*scratch)
	defer scratchPool.Put(sc)
	b, n := c.B, c.N
	model := background(c.Init, b, n, c.Vals)
	src := Case{B: b, N: n, ViaCtor: c.Garbage, Garbage: c.Garbage}
	bs, exact, perr := build(&src, model, sc)
	if perr != "" {
		failCase("wire/build/panic/"+shape(b, n, -1), n, c, perr)
		return
	}
	var buf bytes.Buffer
	var wn int64
	var werr error
	if pk, frame, p := engine.Guard(func() { wn, werr = bs.WriteTo(&buf) }); p {
		failCase("wire/WriteTo/panic/"+frame+"/"+pk, n, c, "WriteTo panicked: "+pk)
		return
	}
	wire := append([]byte(nil), buf.Bytes()...)
	if werr != nil || wn != int64(len(wire)) {
		failCase("wire/WriteTo/count-or-error/"+shape(b, n, -1), n, c, fmt.Sprintf("WriteTo returned (%d,%v) for %d bytes written", wn, werr, len(wire)))
		return
	}
	longs, used, err := refpal.ReadLongArray(wire)
	want := refpal.Pack(b, model)
	ok := err == nil && used == len(wire) && len(longs) == len(want)
	if ok && exact {
		for i := range want {
			if longs[i] != want[i] {
				ok = false
			}
		}
	} else if ok {
		// source built from longs with garbage in the padding: only the value bits are specified
		vals, uerr := refpal.Unpack(b, n, longs)
		ok = uerr == nil
		for i := 0; ok && i < n; i++ {
			ok = vals[i] == model[i]
		}
	}
	if !ok {
		failCase("wire/WriteTo/not-varint-count-plus-big-endian-longs/"+shape(b, n, -1), n, c, fmt.Sprintf("independent reader: err=%v used=%d of %d, %d longs (want %d)", err, used, len(wire), len(longs), len(want)))
		return
	}
	// destination
	var dst *level.BitStorage
	if pk, _, p := engine.Guard(func() {
		if c.B2 < 0 {
			dst = level.NewBitStorage(b, n, nil)
		} else {
			dst = level.NewBitStorage(c.B2, n, nil)
			m2 := int(refpal.Mask(c.B2))
			for i := 0; i < n && c.B2 > 0; i++ {
				dst.Set(i, (i*7+3)&m2|1&m2)
			}
		}
	}); p {
		failCase("wire/build-destination/panic", n, c, pk)
		return
	}
	rd := newEnvReader(wire, c)
	var rn int64
	var rerr, ferr error
	if pk, frame, p := engine.Guard(func() {
		if c.B2 >= 0 && c.Init == "count" {
			touch(dst, n) // the used destination has also been read and encoded before
		}
		rn, rerr = dst.ReadFrom(rd)
		if rerr == nil {
			ferr = dst.Fix(b)
		}
	}); p {
		failCase("wire/ReadFrom+Fix/panic/"+frame+"/"+pk, n, c, "panicked: "+pk)
		return
	}
	used2 := "fresh"
	if c.B2 >= 0 {
		used2 = "used-wider"
		if c.B2 < b {
			used2 = "used-narrower"
		} else if c.B2 == b {
			used2 = "used-same-width"
		}
	}
	if env := envName(c); env != "" {
		used2 += "," + env
	}
	if rerr != nil || ferr != nil {
		failCase("wire/ReadFrom+Fix/error-on-own-output/"+used2+","+shape(b, n, -1), n, c, fmt.Sprintf("ReadFrom err=%v Fix err=%v", rerr, ferr))
		return
	}
	if rn != int64(len(wire)) || rd.pos() != len(wire) {
		failCase("wire/ReadFrom/consumed-count/"+used2+","+shape(b, n, -1), n, c, fmt.Sprintf("returned n=%d, took %d bytes from the reader, wire has %d", rn, rd.pos(), len(wire)))
		return
	}
	if k, d, at := compareAll(dst, b, model, exact, sc); k != "" {
		failCase("wire/ReadFrom+Fix/"+k+"/"+used2+","+shape(b, n, at), n, c, d)
		return
	}
	x := opCtx{b: b, n: n, pfx: "wire/after-Fix/", tag: used2 + ",", rawCheck: exact, sc: sc, sparse: true,
		fail: func(class string, size int, detail string) { failCase(class, size, c, detail) }}
	// its encoding is the encoding of what it read (whatever it was asked to encode before)
	if b > 0 && !x.apply(dst, model, []Op{{Kind: "WriteTo"}}, 0) {
		return
	}
	// keep using it: one Swap at the last index
	if n > 0 && b > 0 {
		var old int
		v := int(refpal.Mask(b)) ^ int(model[n-1])
		if pk, frame, p := engine.Guard(func() { old = dst.Swap(n-1, v) }); p {
			failCase("wire/Swap-after-ReadFrom/panic/"+frame+"/"+pk, n, c, pk)
			return
		}
		if uint64(old) != model[n-1] {
			failCase("wire/Swap-after-ReadFrom/wrong-result/"+used2+","+shape(b, n, n-1), n, c, fmt.Sprintf("Swap returned %d want %d", old, model[n-1]))
			return
		}
		model[n-1] = uint64(v)
		if k, d, at := compareAll(dst, b, model, exact, sc); k != "" {
			failCase("wire/Swap-after-ReadFrom/"+k+"/"+used2+","+shape(b, n, at), n, c, d)
			return
		}
	}
	// ... and keep using it as an array: the whole single-operation menu (boundary values, rejected
	// calls, WriteTo) on the object that came out of ReadFrom+Fix
	// (the reader-environment cases end here: the reader is gone by now)
	if b > 0 && envName(c) == "" && c.Init == "count" {
		po := postOps(b, n)
		x.apply(dst, model, po, 0)
		atomic.AddInt64(&postOpsApplied, int64(len(po)))
	}
}

// runWireFix: a long array of the wrong count read from the wire must be refused by Fix.
func runWireFix(c Case) {
	want := refpal.PackedLen(c.B, c.N)
	l := want + c.Delta
	if l < 0 {
		return
	}
	wire := refpal.AppendLongArray(nil, make([]uint64, l))
	var rerr, ferr error
	var dst *level.BitStorage
	if pk, frame, p := engine.Guard(func() {
		dst = level.NewBitStorage(c.B, c.N, nil)
		_, rerr = dst.ReadFrom(bytes.NewReader(wire))
		if rerr == nil {
			ferr = dst.Fix(c.B)
		}
	}); p {
		failCase("wirefix/ReadFrom+Fix/panic/"+frame+"/"+pk, c.N, c, pk)
		return
	}
	if rerr == nil && ferr == nil {
		failCase(fmt.Sprintf("wirefix/Fix/wrong-raw-length-accepted/delta=%+d,%s", c.Delta, shape(c.B, c.N, -1)), c.N, c,
			fmt.Sprintf("%d longs read from the wire and Fix(%d) returned nil; the packing needs %d", l, c.B, want))
	}
}

var zeroUnspec int64

// runZero: b == 0 — every Get is 0, whatever was called before; the statement fixes nothing
// else for b == 0 (whether Set(i, v != 0) or an out-of-range index panics is unspecified).
func runZero(c Case) {
	n := c.N
	var bs *level.BitStorage
	if pk, _, p := engine.Guard(func() { bs = level.NewBitStorage(0, n, nil) }); p {
		failCase("zero/NewBitStorage/panic", n, c, pk)
		return
	}
	check := func(after string) bool {
		var bad int = -1
		var got int
		if pk, frame, p := engine.Guard(func() {
			for i := 0; i < n; i++ {
				if got = bs.Get(i); got != 0 {
					bad = i
					return
				}
			}
		}); p {
			failCase("zero/Get/panic-on-in-range-index/"+frame+"/"+pk, n, c, "after "+after+": "+pk)
			return false
		}
		if bad >= 0 {
			failCase("zero/Get/non-zero-with-b=0/after-"+after, n, c, fmt.Sprintf("Get(%d)=%d", bad, got))
			return false
		}
		return true
	}
	if !check("construction") {
		return
	}
	for _, op := range c.Ops {
		var ret int
		_, _, p := engine.Guard(func() {
			switch op.Kind {
			case "Set":
				bs.Set(op.I, op.V)
			case "Swap":
				ret = bs.Swap(op.I, op.V)
			case "Get":
				ret = bs.Get(op.I)
			}
		})
		atomic.AddInt64(&transTotal, 1)
		inRange := op.I >= 0 && op.I < n
		if !inRange || op.V != 0 {
			atomic.AddInt64(&zeroUnspec, 1) // panic or not: the statement is silent for b == 0
		} else {
			if p {
				failCase("zero/"+op.Kind+"/panic-on-valid-call", n, c, fmt.Sprintf("%s(%d,0) panicked", op.Kind, op.I))
				return
			}
			if op.Kind != "Set" && ret != 0 {
				failCase("zero/"+op.Kind+"/non-zero-result", n, c, fmt.Sprintf("%s(%d,0)=%d", op.Kind, op.I, ret))
				return
			}
		}
		if !check(op.Kind) {
			return
		}
	}
	// wire: b == 0 storage round-trips into a used storage and stays all-zero after Fix(0)
	var buf bytes.Buffer
	var dst *level.BitStorage
	var rerr, ferr error
	if pk, frame, p := engine.Guard(func() {
		bs.WriteTo(&buf)
		dst = level.NewBitStorage(5, n, nil)
		for i := 0; i < n; i++ {
			dst.Set(i, 21)
		}
		_, rerr = dst.ReadFrom(bytes.NewReader(buf.Bytes()))
		if rerr == nil {
			ferr = dst.Fix(0)
		}
	}); p {
		failCase("zero/wire/panic/"+frame+"/"+pk, n, c, pk)
		return
	}
	if rerr != nil || ferr != nil {
		failCase("zero/wire/error-on-own-output", n, c, fmt.Sprintf("ReadFrom err=%v Fix err=%v", rerr, ferr))
		return
	}
	bs = dst
	check("wire-round-trip-into-used-storage")
}

func part3(b, n int) {
	if b == 0 {
		ops := []Op{}
		for _, i := range dedupInts([]int{0, 1, n / 2, n - 1}, 0, n) {
			ops = append(ops, Op{"Set", i, 0}, Op{"Swap", i, 0}, Op{"Get", i, 0}, Op{"Set", i, 1}, Op{"Swap", i, 1})
		}
		ops = append(ops, Op{"Get", -1, 0}, Op{"Get", n, 0}, Op{"Set", n, 0}, Op{"Swap", -1, 0})
		runZero(Case{Part: "zero", B: 0, N: n, Ops: ops})
		rep.Eval(1)
		return
	}
	var ev int64
	for _, bg := range []string{"zero", "mask", "alt", "count"} {
		runCtor(Case{Part: "ctor", B: b, N: n, Init: bg})
		runCtor(Case{Part: "ctor", B: b, N: n, Init: bg, Garbage: true})
		ev += 2
	}
	for _, d := range wrongLenDeltas(b, n) {
		runRefuse(Case{Part: "refuse", B: b, N: n, Delta: d})
		runWireFix(Case{Part: "wirefix", B: b, N: n, Delta: d})
		ev += 2
		atomic.AddInt64(&wrongLenCases, 2)
	}
	for _, b2 := range dedupInts([]int{-1, 0, 1, b - 1, b, b + 1, 32}, -1, 33) {
		for _, bg := range []string{"count", "mask"} {
			runWire(Case{Part: "wire", B: b, N: n, Init: bg, B2: b2})
			ev++
		}
		if hasPadding(b, n) {
			runWire(Case{Part: "wire", B: b, N: n, Init: "count", B2: b2, Garbage: true})
			ev++
			atomic.AddInt64(&garbageWires, 1)
		}
	}
	if !stateN(b, n) {
		rep.Eval(ev)
		return
	}
	ev += wireEnvs(b, n)
	ev += wireHistories(b, n)
	ev += chains(b, n)
	rep.Eval(ev)
}

// ---------------------------------------------------------------------------------------

func nList() []int {
	var ns []int
	for n := 0; n <= 130; n++ {
		ns = append(ns, n)
	}
	return append(ns, 256, 4096)
}

func judge(c Case) {
	switch c.Part {
	case "history":
		runHistory(&c, 0)
	case "ctor":
		runCtor(c)
	case "refuse":
		runRefuse(c)
	case "wire":
		runWire(c)
	case "failedwrite":
		failedWriteFamily()
	case "wirefix":
		runWireFix(c)
	case "zero":
		runZero(c)
	case "chain":
		runChain(c)
	default:
		engine.HarnessError("unknown case part %q", c.Part)
	}
}

func selftest() {
	if err := refpal.SelfTest(); err != nil {
		engine.HarnessError("%v", err)
	}
	// the harness's own garbage-padding helper: 5 bits, 13 values -> 12 per long, long 1 holds 1 value
	l := []uint64{0, 0}
	garbage(5, 13, l)
	if l[0] != 0xF000000000000000 || l[1] != 0xFFFFFFFFFFFFFFE0 {
		engine.HarnessError("garbage helper wrong: %016x", l)
	}
}

func main() {
	rep = engine.NewReport("C11")
	rep.Rule = "(i) BFS to fixpoint over all array contents for b*n<=8 x every Set/Swap/Get/rejected call; (ii) every b in 1..32 x n in {0..130,256,4096} x 4 backgrounds x index classes (all indices for n<=130) x boundary values x {Set,Swap}, ordered pairs on same/adjacent-long indices, rejected calls; (iii) constructor/refusal/wire/Fix per (b,n); b=0 family; (iv) wrong-raw-length menu; (v) W m1 W m2 W wire histories on one object for all ordered menu pairs; (vi) the single-operation and rejected-call menu on every object that came out of ReadFrom+Fix; (vii) reader environments; (viii) garbage-padding single operations and wire sources; (ix) ReadFrom+Fix chains on one destination. distinct = distinct (b,n,background,operation list) tuples (the loops never repeat one); non-trivial = every case reads back all n indices and all longs"
	if rep.ReplayPath != "" {
		rp, err := engine.LoadReplay(rep.ReplayPath)
		if err != nil {
			engine.HarnessError("cannot load replay: %v", err)
		}
		var c Case
		if err := json.Unmarshal(rp.Case, &c); err != nil {
			engine.HarnessError("bad case: %v", err)
		}
		fmt.Printf("replaying %s\n", string(rp.Case))
		for i := 0; i < 5; i++ {
			judge(c)
		}
		rep.Eval(5)
		rep.Finish()
	}
	selftest()
	start := time.Now()
	// (i)
	type bn struct{ b, n int }
	var small []bn
	for b := 1; b <= 32; b++ {
		for n := 0; b*n <= 8; n++ {
			small = append(small, bn{b, n})
		}
	}
	engine.ParallelFor(len(small), func(_, i int) { bfs(small[i].b, small[i].n) })
	tBFS := time.Since(start)
	// (ii) + (iii)
	ns := nList()
	var tasks []bn
	for _, n := range []int{4096, 256} {
		for b := 32; b >= 0; b-- {
			tasks = append(tasks, bn{b, n})
		}
	}
	for n := 130; n >= 0; n-- {
		for b := 32; b >= 0; b-- {
			tasks = append(tasks, bn{b, n})
		}
	}
	allPairs := rep.Thorough()
	deadline := start.Add(75 * time.Second)
	if rep.Thorough() {
		deadline = start.Add(14 * time.Minute)
	}
	var skipped int64
	engine.ParallelFor(len(tasks), func(_, i int) {
		t := tasks[i]
		if time.Now().After(deadline) {
			atomic.AddInt64(&skipped, 1)
			return
		}
		if t.b > 0 {
			product(t.b, t.n, allPairs)
		}
		part3(t.b, t.n)
	})
	if skipped > 0 {
		rep.Cap("deadline reached: %d of %d (b,n) product/constructor/wire tasks not executed (order: n=4096, 256, then 130 down to 0, b from 32 down)", skipped, len(tasks))
	}
	failedWriteFamily()
	// (x) every raw long count: the (b,n) menu above reaches long counts 0..65, 128, 256, ... only; a wire routine
	// working in blocks of k longs has its boundary at multiples of k, whatever k is. For three widths, every
	// count of raw longs 0..600, with the last long full and with one value missing from it: constructor and wire.
	var everyLongs int64
	var lt [][2]int
	for _, b := range []int{1, 7, 32} {
		per := 64 / b
		for l := 0; l <= 600; l++ {
			lt = append(lt, [2]int{b, l * per})
			if l > 0 {
				lt = append(lt, [2]int{b, l*per - 1})
			}
		}
	}
	engine.ParallelFor(len(lt), func(_, i int) {
		b, n := lt[i][0], lt[i][1]
		runCtor(Case{Part: "ctor", B: b, N: n, Init: "count"})
		runWire(Case{Part: "wire", B: b, N: n, Init: "count", B2: b})
		runWire(Case{Part: "wire", B: b, N: n, Init: "mask", B2: 32})
		atomic.AddInt64(&everyLongs, 3)
		rep.Eval(3)
	})
	rep.Count("every_raw_long_count_0..600_cases", everyLongs)
	rep.Count("bfs_spaces_(b,n)_with_b*n<=8", bfsSpaces)
	rep.Count("bfs_states", bfsStates)
	rep.Count("bfs_transitions", bfsTrans)
	rep.Count("single_operation_cases", prodSingles)
	rep.Count("ordered_pair_cases", prodPairs)
	rep.Count("rejected_call_cases", prodRejects)
	rep.Count("b0_calls_with_unspecified_panic_behaviour", zeroUnspec)
	rep.Count("histories_abandoned_silently_because_a_replayed_(already_judged)_operation_broke_its_target", abandoned)
	rep.Unspec(zeroUnspec)
	reportExtensions()
	rep.Extra("bfs_fixpoint", true)
	rep.Extra("bfs_max_depth", bfsMaxDepth)
	rep.Extra("b_range", "0..32")
	rep.Extra("n_values", len(ns))
	rep.Extra("pairs_first_index", map[bool]string{true: "all indices (n<=130), index classes (n=256,4096)", false: "index classes"}[allPairs])
	rep.Extra("bfs_wall_s", tBFS.Seconds())
	rep.AddTrans(transTotal)
	rep.AddStates(bfsStates + prodSingles + prodPairs + prodRejects + garbageSingles + wireHistCount + wireEnvCases + chainCases + wrongLenCases)
	rep.NonTrivial(rep.Evaluations)
	rep.AddTraces(rep.Evaluations)
	rep.Sample(Case{Part: "history", B: 5, N: 13, Init: "count", ViaCtor: true, Ops: []Op{{"Set", 11, 31}, {"Swap", 12, 0}}})
	rep.Sample(Case{Part: "wire", B: 15, N: 4096, Init: "count", B2: 32})
	rep.Assume("reference packer (ref/refpal) is trusted; it is pinned to the published wiki.vg 5-bit example and hand-computed sizes by its self-test")
	rep.Assume("for b == 0 only 'every Get is 0' is judged; whether out-of-range or non-zero-value calls panic with b == 0 is unspecified by the statement and only counted")
	rep.Assume("garbage-padding constructor inputs are judged on Get only (the statement does not say what Raw() shows for bits that encode nothing)")
	rep.Finish()
}
