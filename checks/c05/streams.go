package main

// Part "stream": several numbers, one after the other, through ONE buffered reader. Every other decode case hands the
// decoder a freshly opened source, so the decoder never meets a bufio.Reader that already holds data — and in
// particular never one whose buffered data ends in the middle of a number (a number crossing the buffer boundary of a
// long stream, or a TCP segment ending inside it). Menu (complete): value-length patterns x bufio buffer sizes
// 16, 17, 19, 23 over a source that fills every Read. Each number must come back with its value, n == Len(), and the
// reader must stand exactly behind it.

import (
	"bufio"
	"fmt"

	pk "github.com/Tnze/go-mc/net/packet"

	"verif/engine"
	"verif/ref/refwire"
)

type streamCase struct {
	Part    string  `json:"part"` // stream
	Type    string  `json:"type"`
	Values  []int64 `json:"values"`
	BufSize int     `json:"bufio_size"`
}

// a value whose encoding has exactly k bytes
func varOfLen(k int, long bool, salt int) int64 {
	if k == 1 {
		return int64(salt % 128)
	}
	if !long && k == 5 {
		return -int64(1 + salt) // negative ints: 5 bytes
	}
	if long && k == 10 {
		return -int64(1 + salt)
	}
	return int64(1)<<uint(7*(k-1)) + int64(salt)
}

func streamPatterns(long bool) [][]int64 {
	max := 5
	if long {
		max = 10
	}
	var out [][]int64
	// all numbers of the maximum length; of every single length; lengths cycling up and down
	for k := 1; k <= max; k++ {
		var vs []int64
		for i := 0; i < 12; i++ {
			vs = append(vs, varOfLen(k, long, i))
		}
		out = append(out, vs)
	}
	var up, down []int64
	for i := 0; i < 30; i++ {
		up = append(up, varOfLen(1+i%max, long, i))
		down = append(down, varOfLen(max-i%max, long, i))
	}
	return append(out, up, down)
}

func judgeStream(c streamCase) []fail {
	long := c.Type == "VarLong"
	var stream []byte
	for _, v := range c.Values {
		if long {
			stream = refwire.AppendVarLong(stream, v)
		} else {
			stream = refwire.AppendVarInt(stream, int32(v))
		}
	}
	stream = append(stream, 0xa5, 0x5a)
	pr := &engine.PlainReader{Data: stream}
	br := bufio.NewReaderSize(pr, c.BufSize)
	pos := 0
	for i, v := range c.Values {
		var got int64
		var n int64
		var err error
		var ln int
		kind, frame, p := engine.Guard(func() {
			if long {
				var x pk.VarLong
				n, err = x.ReadFrom(br)
				got, ln = int64(x), pk.VarLong(v).Len()
			} else {
				var x pk.VarInt
				n, err = x.ReadFrom(br)
				got, ln = int64(x), pk.VarInt(v).Len()
			}
		})
		pre := fmt.Sprintf("stream/%s.ReadFrom/bufio.Reader(%d)/", c.Type, c.BufSize)
		what := fmt.Sprintf("number %d of %d (value %d, %d bytes at stream offset %d) through one bufio.Reader of %d bytes", i, len(c.Values), v, ln, pos, c.BufSize)
		switch {
		case p:
			return []fail{{pre + "panic/" + frame + "/" + kind, what + ": panic " + kind}}
		case err != nil:
			return []fail{{pre + "error-on-own-encoding", fmt.Sprintf("%s: %v", what, err)}}
		case got != v:
			return []fail{{pre + "wrong-value", fmt.Sprintf("%s: decoded %d", what, got)}}
		case int(n) != ln:
			return []fail{{pre + "n-differs-from-Len", fmt.Sprintf("%s: ReadFrom reported n=%d, Len() = %d", what, n, ln)}}
		}
		pos += ln
		if at := pr.Pos - br.Buffered(); at != pos {
			return []fail{{pre + "reader-not-behind-the-number", fmt.Sprintf("%s: the reader stands at offset %d, the number ends at %d", what, at, pos)}}
		}
	}
	return nil
}

func runStreams() int64 {
	var n int64
	for _, long := range []bool{false, true} {
		typ := "VarInt"
		if long {
			typ = "VarLong"
		}
		for _, vs := range streamPatterns(long) {
			for _, bs := range []int{16, 17, 19, 23} {
				c := streamCase{Part: "stream", Type: typ, Values: vs, BufSize: bs}
				for _, f := range judgeStream(c) {
					f := f
					rep.FailLazy(f.class, len(vs), func() engine.Failure { return engine.Failure{Detail: f.detail, Case: c} })
				}
				n++
			}
		}
	}
	rep.Eval(n)
	rep.Count("stream_cases_through_one_buffered_reader", n)
	rep.Extra("stream_part", "value-length patterns (12 numbers of each length; lengths cycling up and down, 30 numbers) x bufio sizes 16,17,19,23: every number read from ONE bufio.Reader")
	return n
}
