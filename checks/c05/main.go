// C05 — VarInt/VarLong: minimal LEB128 bijection, exact Len(), bounded decode.
//
// Part "enc" enumerates integer values (thorough: all 2^32 VarInt values; VarLong over a 7-bit
// group alphabet plus boundary neighbours, 2^64 cannot be enumerated) and judges, against the
// reference LEB128 of ref/refwire: WriteToBytes bytes, Len() == WriteToBytes count == WriteTo
// count, WriteTo bytes, and decoding of those bytes followed by a sentinel tail (value, n, bytes
// consumed). The environment of each call is enumerated from stated menus (devices.go):
//   - WriteToBytes buffers: a pre-filled 16-byte buffer (nothing beyond the returned count may
//     change) and a window of exactly the encoding's length inside a larger array (no panic, the
//     neighbouring bytes stay untouched);
//   - WriteTo writer kinds: Write-only sink, *bytes.Buffer, *bufio.Writer (io.ByteWriter paths);
//   - ReadFrom source kinds: *bytes.Reader, Read-only reader, *bytes.Buffer, *bufio.Reader,
//     Read-only reader that interleaves (0, nil) answers, Read-only reader that reports io.EOF
//     together with the last byte.
//
// Part "dec" enumerates byte streams: every byte string of length <= 3 over all 256 byte values
// and every string of length <= L over {00,01,7f,80,81,ff}, each alone and followed by a tail of
// terminator bytes / of continuation bytes, plus "run" streams (k continuation bytes, then every
// pair of bytes). Oracle: never more than 5/10 bytes consumed; the first 5/10 bytes all carrying
// the continuation bit => error; a canonical encoding (terminated within the cap, minimal, no
// bits beyond 32/64) => the reference value, n and consumption.
//
// Unspecified (executed, counted, never a violation):
//   - non-minimal encodings (a shorter encoding exists) and encodings whose last group carries
//     bits beyond bit 31/63: the statement fixes neither acceptance nor value;
//   - streams that end before a terminator (truncation): whether/what error is returned is the
//     business of C08/C09, the C05 statement is silent; byte counts returned with an error.
package main

import (
	"bytes"
	"encoding/hex"
	"encoding/json"
	"fmt"
	"math"
	"os"
	"strconv"
	"sync/atomic"

	pk "github.com/Tnze/go-mc/net/packet"

	"verif/engine"
	"verif/ref/refwire"
)

type Case struct {
	Part  string `json:"part"`            // enc | dec
	Type  string `json:"type"`            // VarInt | VarLong
	Value string `json:"value,omitempty"` // enc: decimal value
	Hex   string `json:"hex,omitempty"`   // dec: the whole stream
	Src   string `json:"src,omitempty"`   // dec: source kind (srcNames)
}

var rep *engine.Report

// tail that follows an encoding in part enc: starts with a continuation-type byte so that a
// decoder reading one byte too many also computes a different value.
var encTail = []byte{0xa5, 0x5a, 0xa5, 0x5a}

type fail struct {
	class  string
	detail string
}

// state is per-worker scratch, so the hot loops do not allocate.
type state struct {
	buf    [16]byte
	win    [24]byte
	ref    [16]byte
	stream [32]byte
	wr     writers
	src    sources
	fails  []fail
	unspec int64
	evals  int64
	trans  int64
}

func (st *state) failf(class, format string, a ...any) {
	st.fails = append(st.fails, fail{class, fmt.Sprintf(format, a...)})
}

// decodeFrom runs the real decoder on stream from the chosen source kind and returns
// (value as uint64 bit pattern, n, err, bytes consumed from the source).
func (st *state) decodeFrom(long bool, stream []byte, src int) (val uint64, n int64, err error, consumed int) {
	r := st.src.open(src, stream)
	if long {
		out := pk.VarLong(0x5aa55aa55aa55aa5) // prior content of the destination
		n, err = out.ReadFrom(r)
		val = uint64(out)
	} else {
		out := pk.VarInt(0x5aa55aa5)
		n, err = out.ReadFrom(r)
		val = uint64(uint32(out))
	}
	consumed = st.src.consumed(src, stream)
	st.trans++
	return
}

var (
	rtPrefix, decPrefix [2][nSrc]string
	wrPrefix, lenPrefix [2][nWr]string // class prefixes per writer kind (the Write-only sink keeps the short names)
)

func init() {
	for l, tn := range []string{"VarInt", "VarLong"} {
		for wk := 0; wk < nWr; wk++ {
			wrPrefix[l][wk] = "enc/" + tn + ".WriteTo/"
			lenPrefix[l][wk] = "enc/" + tn + ".Len/"
			if wk != wrPlain {
				wrPrefix[l][wk] += "writer=" + wrNames[wk] + "/"
				lenPrefix[l][wk] += "writer=" + wrNames[wk] + "/"
			}
		}
		for src := 0; src < nSrc; src++ {
			rtPrefix[l][src] = "roundtrip/" + tn + ".ReadFrom/" + srcNames[src] + "/"
			decPrefix[l][src] = "dec/" + tn + ".ReadFrom/" + srcNames[src] + "/"
		}
	}
}

func b2i(b bool) int {
	if b {
		return 1
	}
	return 0
}

func typeName(long bool) string {
	if long {
		return "VarLong"
	}
	return "VarInt"
}

// checkEnc judges one value (v is the int64 value; for VarInt it is a sign-extended int32).
func (st *state) checkEnc(long bool, v int64) {
	tn := typeName(long)
	st.evals++
	var ref []byte
	if long {
		ref = refwire.AppendVarLong(st.ref[:0], v)
	} else {
		ref = refwire.AppendVarInt(st.ref[:0], int32(v))
	}
	xl, xi := pk.VarLong(v), pk.VarInt(int32(v))

	// --- WriteToBytes into a roomy buffer (16 bytes, pre-filled) and Len()
	for i := range st.buf {
		st.buf[i] = 0xaa
	}
	var nb, ln int
	if long {
		nb = xl.WriteToBytes(st.buf[:])
		ln = xl.Len()
	} else {
		nb = xi.WriteToBytes(st.buf[:])
		ln = xi.Len()
	}
	st.trans += 2
	if nb < 0 || nb > len(st.buf) || !bytes.Equal(st.buf[:nb], ref) {
		c := nb
		if c < 0 || c > len(st.buf) {
			c = len(st.buf)
		}
		st.failf("enc/"+tn+".WriteToBytes/bytes-differ-from-minimal-LEB128", "%s(%d).WriteToBytes wrote %x (count %d); reference minimal LEB128 is %x", tn, v, st.buf[:c], nb, ref)
	} else {
		// the bytes emitted into the caller's buffer are exactly the nb reported ones
		for i := nb; i < len(st.buf); i++ {
			if st.buf[i] != 0xaa {
				st.failf("enc/"+tn+".WriteToBytes/stored-bytes-beyond-the-returned-count", "%s(%d).WriteToBytes returned %d (Len() = %d) but changed byte %d of the caller's 16-byte buffer: %x (was filled with aa)", tn, v, nb, ln, i, st.buf[:])
				break
			}
		}
	}
	if ln != nb {
		st.failf("enc/"+tn+".Len/differs-from-WriteToBytes-count", "%s(%d).Len() = %d but WriteToBytes emitted %d bytes", tn, v, ln, nb)
	}

	// --- WriteToBytes into a window of exactly the encoding's length inside a larger array (how
	// packWithCompression patches the packet length in front of a finished body): a panic here is
	// reported by guardedEnc under the WriteToBytes frame; the neighbours must stay untouched.
	{
		const off = 3
		for i := range st.win {
			st.win[i] = 0x55
		}
		w := st.win[off : off+len(ref)]
		var nw int
		if long {
			nw = xl.WriteToBytes(w)
		} else {
			nw = xi.WriteToBytes(w)
		}
		st.trans++
		if nw != len(ref) || !bytes.Equal(w, ref) {
			st.failf("enc/"+tn+".WriteToBytes/exact-length-buffer/bytes-differ-from-minimal-LEB128", "%s(%d).WriteToBytes into a buffer of exactly %d bytes returned %d and left %x; reference minimal LEB128 is %x", tn, v, len(ref), nw, w, ref)
		}
		for i := range st.win {
			if (i < off || i >= off+len(ref)) && st.win[i] != 0x55 {
				st.failf("enc/"+tn+".WriteToBytes/exact-length-buffer/neighbouring-bytes-changed", "%s(%d).WriteToBytes(buf[%d:%d]) changed byte %d of the underlying array: %x (was filled with 55)", tn, v, off, off+len(ref), i, st.win[:])
				break
			}
		}
	}

	// --- WriteTo, on every writer kind
	for wk := 0; wk < nWr; wk++ {
		w := st.wr.open(wk)
		var wn int64
		var werr error
		if long {
			wn, werr = xl.WriteTo(w)
		} else {
			wn, werr = xi.WriteTo(w)
		}
		st.trans++
		pre, preLen := wrPrefix[b2i(long)][wk], lenPrefix[b2i(long)][wk]
		if werr != nil {
			st.failf(pre+"error-on-accepting-writer", "%s(%d).WriteTo(%s writer) returned %v", tn, v, wrNames[wk], werr)
			continue
		}
		got := st.wr.received(wk)
		if wn != int64(len(got)) {
			st.failf(pre+"count-differs-from-bytes-written", "%s(%d).WriteTo(%s writer) returned n=%d but the writer received %d bytes", tn, v, wrNames[wk], wn, len(got))
		}
		if ln != len(got) {
			st.failf(preLen+"differs-from-WriteTo-count", "%s(%d).Len() = %d but WriteTo(%s writer) emitted %d bytes (reported n=%d)", tn, v, ln, wrNames[wk], len(got), wn)
		}
		if !bytes.Equal(got, ref) {
			st.failf(pre+"bytes-differ-from-minimal-LEB128", "%s(%d).WriteTo(%s writer) wrote %x; reference minimal LEB128 is %x", tn, v, wrNames[wk], got, ref)
		}
	}

	// --- WriteTo into a writer with room for k < Len() bytes: the count is what reached the writer
	for k := 0; k < len(ref); k++ {
		st.wr.lim.sink.n, st.wr.lim.sink.calls, st.wr.lim.room = 0, 0, k
		var wn int64
		var werr error
		if long {
			wn, werr = xl.WriteTo(&st.wr.lim)
		} else {
			wn, werr = xi.WriteTo(&st.wr.lim)
		}
		st.trans++
		got := st.wr.lim.sink.n
		if wn != int64(got) {
			st.failf("enc/"+tn+".WriteTo/writer=full-after-k-bytes/count-differs-from-bytes-written", "%s(%d).WriteTo(writer with room for %d of %d bytes) returned n=%d, err=%v but the writer received %d bytes", tn, v, k, len(ref), wn, werr, got)
		}
		if werr == nil {
			st.failf("enc/"+tn+".WriteTo/writer=full-after-k-bytes/success-with-a-truncated-encoding", "%s(%d).WriteTo(writer with room for %d of %d bytes) returned a nil error; the writer received %d bytes", tn, v, k, len(ref), got)
		}
	}

	// --- decode the reference bytes (== the emitted bytes unless a failure was already recorded),
	// followed by a tail, from every source kind. The eof-with-last-byte source gets no tail: it
	// ends exactly at the end of the encoding and reports io.EOF together with the last byte
	// (legal io.Reader behaviour; decompressors do it) — the value is complete.
	stream := append(append(st.stream[:0], ref...), encTail...)
	want := uint64(v)
	if !long {
		want = uint64(uint32(int32(v)))
	}
	for src := 0; src < nSrc; src++ {
		in, tail := stream, encTail
		if src == srcEOFLast {
			in, tail = stream[:len(ref)], nil
		}
		got, n, err, consumed := st.decodeFrom(long, in, src)
		pre := rtPrefix[b2i(long)][src]
		if err != nil {
			st.failf(pre+"error-on-encoder-output", "decoding %x (the encoding of %d, followed by tail %x) from source %s returned error %v", ref, v, tail, srcNames[src], err)
			continue
		}
		if got != want {
			st.failf(pre+"wrong-value", "decoding %x (the encoding of %d) from source %s returned bit pattern %#x, want %#x", ref, v, srcNames[src], got, want)
		}
		if n != int64(len(ref)) {
			st.failf(pre+"n-differs-from-encoding-length", "decoding %x (the encoding of %d) from source %s reported n=%d, the encoding has %d bytes", ref, v, srcNames[src], n, len(ref))
		}
		if consumed != len(ref) {
			st.failf(pre+"touched-the-rest-of-the-stream", "decoding %x followed by tail %x consumed %d bytes from source %s, the encoding has %d", ref, tail, consumed, srcNames[src], len(ref))
		}
	}
}

// checkDec judges one arbitrary stream from one source kind.
func (st *state) checkDec(long bool, stream []byte, src int) {
	tn := typeName(long)
	st.evals++
	var d refwire.Decoded
	maxLen := refwire.MaxVarIntLen
	if long {
		d = refwire.DecodeVarLong(stream)
		maxLen = refwire.MaxVarLongLen
	} else {
		d = refwire.DecodeVarInt(stream)
	}
	got, n, err, consumed := st.decodeFrom(long, stream, src)
	pre := decPrefix[b2i(long)][src]
	if src == srcLimited && consumed > len(stream) {
		st.failf(pre+"read-past-the-limit-of-the-LimitedReader", "stream %x behind an io.LimitedReader with N=%d: decoding took %d bytes from the underlying reader (value %#x, n=%d, err=%v)", stream, len(stream), consumed, got, n, err)
	}
	if consumed > maxLen {
		st.failf(pre+"consumed-more-than-cap", "decoding stream %x consumed %d bytes (err=%v); a %s decoder may consume at most %d", stream, consumed, err, tn, maxLen)
	}
	switch {
	case d.TooLong:
		if err == nil {
			st.failf(pre+"no-error-for-continuation-run-of-cap-length", "stream %x starts with %d bytes that all carry the continuation bit, yet ReadFrom returned nil error (value %#x, n=%d)", stream, maxLen, got, n)
		}
	case d.Truncated:
		st.unspec++ // stream ends inside the number: statement silent (C08/C09) on the verdict ...
		// ... but whatever count comes back is a count of bytes read: it cannot name more bytes than the decoder took
		// from the source (framing layers add these counts up, also on the error path)
		if n > int64(consumed) {
			st.failf(pre+"n-exceeds-bytes-consumed/stream-ends-inside-the-number", "stream %x ends inside the number: ReadFrom reported n=%d (err=%v) but took only %d bytes from the source", stream, n, err, consumed)
		}
	case d.Overflow || d.NonMinimal:
		st.unspec++ // acceptance and value not fixed by the statement
		// ... but a decoder that does accept the bytes still "reports exactly that many bytes consumed": the count
		// it returns with a nil error is the number of bytes it took (framing is built on it)
		if err == nil && n != int64(consumed) {
			st.failf(pre+"n-differs-from-bytes-consumed/accepted-non-minimal-encoding", "stream %x: ReadFrom accepted a non-minimal encoding, reported n=%d and consumed %d bytes of the source", stream, n, consumed)
		}
	default:
		if err != nil {
			st.failf(pre+"error-on-canonical-encoding", "stream %x starts with the canonical %d-byte encoding of %#x but ReadFrom returned %v", stream, d.N, d.Value, err)
			return
		}
		if got != d.Value {
			st.failf(pre+"wrong-value", "stream %x decodes to %#x by the reference, ReadFrom produced %#x", stream, d.Value, got)
		}
		if n != int64(d.N) {
			st.failf(pre+"n-differs-from-encoding-length", "stream %x: encoding is %d bytes long, ReadFrom reported n=%d", stream, d.N, n)
		}
		if consumed != d.N {
			st.failf(pre+"touched-the-rest-of-the-stream", "stream %x: encoding is %d bytes long, ReadFrom consumed %d bytes of the source", stream, d.N, consumed)
		}
	}
}

// flush moves worker-local results into the report.
func (st *state) flush(mk func(f fail) (Case, int)) {
	for _, f := range st.fails {
		c, size := mk(f)
		f := f
		rep.FailLazy(f.class, size, func() engine.Failure { return engine.Failure{Detail: f.detail, Case: c} })
	}
	st.fails = st.fails[:0]
}

func (st *state) done() {
	rep.Eval(st.evals)
	rep.Unspec(st.unspec)
	rep.AddTrans(st.trans)
	st.evals, st.unspec, st.trans = 0, 0, 0
}

// guardedEnc runs checkEnc over a batch; a panic is pinned to its value by re-running singly.
func (st *state) guardedEnc(long bool, n int, value func(i int) int64) {
	run := func(lo, hi int) (string, string, bool) {
		return engine.Guard(func() {
			for i := lo; i < hi; i++ {
				v := value(i)
				st.checkEnc(long, v)
				if len(st.fails) > 0 {
					st.flush(func(f fail) (Case, int) {
						return Case{Part: "enc", Type: typeName(long), Value: strconv.FormatInt(v, 10)}, encSize(v)
					})
				}
			}
		})
	}
	if _, _, p := run(0, n); !p {
		return
	}
	st.fails = st.fails[:0]
	for i := 0; i < n; i++ {
		if kind, frame, p := run(i, i+1); p {
			v := value(i)
			st.fails = st.fails[:0]
			rep.FailLazy("enc/"+typeName(long)+"/panic/"+frame+"/"+kind, encSize(v), func() engine.Failure {
				return engine.Failure{Detail: fmt.Sprintf("panic %s in %s while encoding/decoding %s(%d)", kind, frame, typeName(long), v),
					Case: Case{Part: "enc", Type: typeName(long), Value: strconv.FormatInt(v, 10)}}
			})
		}
	}
}

// encSize orders witnesses: small magnitudes first.
func encSize(v int64) int {
	u := uint64(v)
	if v < 0 {
		u = uint64(-(v + 1))
	}
	return 64 - leadingZeros(u)
}

func leadingZeros(u uint64) int {
	n := 0
	for i := 63; i >= 0 && u&(1<<uint(i)) == 0; i-- {
		n++
	}
	return n
}

// runDec judges one stream from every source kind for both types. The (type, source) cases of one
// stream run under one panic guard; when a case panics it and the ones after it are re-run under
// a guard each, so the panic is pinned to its case and the rest is still judged.
func (st *state) runDec(stream []byte) {
	mkCase := func(idx int) Case {
		return Case{Part: "dec", Type: typeName(idx/nSrc == 1), Hex: hex.EncodeToString(stream), Src: srcNames[idx%nSrc]}
	}
	one := func(idx int) {
		st.checkDec(idx/nSrc == 1, stream, idx%nSrc)
		if len(st.fails) > 0 {
			c := mkCase(idx)
			st.flush(func(f fail) (Case, int) { return c, streamSize(stream) })
		}
	}
	cur := 0
	if _, _, p := engine.Guard(func() {
		for ; cur < 2*nSrc; cur++ {
			one(cur)
		}
	}); !p {
		return
	}
	st.evals-- // the case that panicked is executed again below
	for ; cur < 2*nSrc; cur++ {
		idx := cur
		kind, frame, p := engine.Guard(func() { one(idx) })
		if p {
			st.fails = st.fails[:0]
			c := mkCase(idx)
			rep.FailLazy("dec/"+c.Type+".ReadFrom/"+c.Src+"/panic/"+frame+"/"+kind, streamSize(stream), func() engine.Failure {
				return engine.Failure{Detail: fmt.Sprintf("panic %s in %s decoding stream %x from source %s", kind, frame, stream, c.Src), Case: c}
			})
		}
	}
}

// streamSize orders dec witnesses: shorter first, then fewer payload bits set.
func streamSize(s []byte) int {
	bits := 0
	for _, b := range s {
		for j := uint(0); j < 7; j++ {
			bits += int(b >> j & 1)
		}
	}
	return len(s)*1024 + bits
}

// ---------------------------------------------------------------------------------------------
// enumerations, part enc

func pow(b, e int) int {
	r := 1
	for i := 0; i < e; i++ {
		r *= b
	}
	return r
}

var (
	vintGroups     = []uint32{0, 1, 0x3f, 0x40, 0x7e, 0x7f}
	vintTopGroups  = []uint32{0, 1, 0x7, 0x8, 0xe, 0xf} // the 4-bit top group
	vlongGroupsQ   = []uint64{0, 1, 0x40, 0x7f}
	vlongGroupsT   = []uint64{0, 1, 0x3f, 0x40, 0x7e, 0x7f}
	vlongTopGroups = []uint64{0, 1} // the 1-bit top group
)

func vintFromGroups(i int) int64 {
	var u uint32
	for g := 0; g < 4; g++ {
		u |= vintGroups[i%6] << uint(7*g)
		i /= 6
	}
	u |= vintTopGroups[i%6] << 28
	return int64(int32(u))
}

func vlongFromGroups(i int, alpha []uint64) int64 {
	var u uint64
	k := len(alpha)
	for g := 0; g < 9; g++ {
		u |= alpha[i%k] << uint(7*g)
		i /= k
	}
	u |= vlongTopGroups[i%2] << 63
	return int64(u)
}

func inGroupAlphabet(u uint64, groups int, alpha []uint64, top []uint64, topShift uint) bool {
	has := func(set []uint64, x uint64) bool {
		for _, s := range set {
			if s == x {
				return true
			}
		}
		return false
	}
	for g := 0; g < groups; g++ {
		if !has(alpha, (u>>uint(7*g))&0x7f) {
			return false
		}
	}
	return has(top, u>>topShift)
}

// boundaryValues: 2^k, 2^k±1, their negations, and m*2^(7j)+d neighbours, within `bits` bits.
func boundaryValues(bits uint) []int64 {
	set := map[int64]bool{}
	add := func(v int64) {
		if bits == 32 {
			v = int64(int32(v))
		}
		set[v] = true
	}
	for k := uint(0); k < bits; k++ {
		p := int64(1) << k // for k = bits-1 this is the minimum value after truncation
		for d := int64(-2); d <= 2; d++ {
			add(p + d)
			add(-p + d)
		}
	}
	for j := uint(1); 7*j < bits; j++ {
		for m := int64(1); m <= 3; m++ {
			for d := int64(-2); d <= 2; d++ {
				add(m<<(7*j) + d)
				add(-(m << (7 * j)) + d)
			}
		}
	}
	for _, v := range []int64{0, math.MaxInt32, math.MinInt32, math.MaxInt64, math.MinInt64, math.MaxUint32, math.MaxInt32 + 1, math.MinInt32 - 1, 25565} {
		add(v)
	}
	out := make([]int64, 0, len(set))
	for v := range set {
		out = append(out, v)
	}
	sortInt64(out) // map order must not leak into the enumeration order
	return out
}

func sortInt64(a []int64) {
	// insertion-free simple sort (sizes are a few thousand)
	for i := 1; i < len(a); i++ {
		for j := i; j > 0 && a[j] < a[j-1]; j-- {
			a[j], a[j-1] = a[j-1], a[j]
		}
	}
}

func partEnc() {
	workers := engine.Workers()
	states := make([]state, workers+1)
	var distinct int64

	// --- VarInt
	if rep.Thorough() {
		const chunk = 1 << 16
		engine.ParallelFor(1<<32/chunk, func(slot, i int) {
			st := &states[slot]
			base := int64(i)*chunk + math.MinInt32
			// order: simplest first is irrelevant for witnesses (size decides); plain ascending order
			st.guardedEnc(false, chunk, func(k int) int64 { return base + int64(k) })
			st.done()
		})
		distinct += 1 << 32
		rep.Count("enc_VarInt_values", 1<<32)
		rep.Extra("enc_VarInt", "all 2^32 values")
	} else {
		const R = 1 << 22
		const chunk = 1 << 14
		total := 2*R + 1
		engine.ParallelFor((total+chunk-1)/chunk, func(slot, i int) {
			st := &states[slot]
			lo := i * chunk
			n := chunk
			if lo+n > total {
				n = total - lo
			}
			st.guardedEnc(false, n, func(k int) int64 { return int64(lo+k) - R })
			st.done()
		})
		cnt := int64(total)
		inRange := func(v int64) bool { return v >= -R && v <= R }
		// group alphabet family
		ng := pow(6, 5)
		var extra int64
		st := &states[0]
		st.guardedEnc(false, ng, vintFromGroups)
		for i := 0; i < ng; i++ {
			if !inRange(vintFromGroups(i)) {
				extra++
			}
		}
		a64 := make([]uint64, len(vintGroups))
		for i, g := range vintGroups {
			a64[i] = uint64(g)
		}
		t64 := make([]uint64, len(vintTopGroups))
		for i, g := range vintTopGroups {
			t64[i] = uint64(g)
		}
		bv := boundaryValues(32)
		st.guardedEnc(false, len(bv), func(k int) int64 { return bv[k] })
		for _, v := range bv {
			if !inRange(v) && !inGroupAlphabet(uint64(uint32(int32(v))), 4, a64, t64, 28) {
				extra++
			}
		}
		st.done()
		cnt += extra
		distinct += cnt
		rep.Count("enc_VarInt_values", cnt)
		rep.Extra("enc_VarInt", "[-2^22,2^22] + all values with 7-bit groups in {0,1,3f,40,7e,7f} (top group {0,1,7,8,e,f}) + 2^k/m*2^(7j) neighbours")
	}

	// --- VarLong
	alpha := vlongGroupsQ
	R := int64(1) << 20
	if rep.Thorough() {
		alpha = vlongGroupsT
		R = 1 << 26
	}
	{
		const chunk = 1 << 14
		total := int(2*R + 1)
		engine.ParallelFor((total+chunk-1)/chunk, func(slot, i int) {
			st := &states[slot]
			lo := i * chunk
			n := chunk
			if lo+n > total {
				n = total - lo
			}
			st.guardedEnc(true, n, func(k int) int64 { return int64(lo+k) - R })
			st.done()
		})
		cnt := int64(total)
		inRange := func(v int64) bool { return v >= -R && v <= R }
		ng := pow(len(alpha), 9) * 2
		var extra int64
		engine.ParallelFor((ng+chunk-1)/chunk, func(slot, i int) {
			st := &states[slot]
			lo := i * chunk
			n := chunk
			if lo+n > ng {
				n = ng - lo
			}
			st.guardedEnc(true, n, func(k int) int64 { return vlongFromGroups(lo+k, alpha) })
			var e int64
			for k := 0; k < n; k++ {
				if !inRange(vlongFromGroups(lo+k, alpha)) {
					e++
				}
			}
			atomic.AddInt64(&extra, e)
			st.done()
		})
		bv := boundaryValues(64)
		st := &states[0]
		st.guardedEnc(true, len(bv), func(k int) int64 { return bv[k] })
		st.done()
		for _, v := range bv {
			if !inRange(v) && !inGroupAlphabet(uint64(v), 9, alpha, vlongTopGroups, 63) {
				extra++
			}
		}
		cnt += extra
		distinct += cnt
		rep.Count("enc_VarLong_values", cnt)
		rep.Extra("enc_VarLong", fmt.Sprintf("[-%d,%d] + all values whose nine low 7-bit groups are in %x and top bit in {0,1} + 2^k/m*2^(7j) neighbours", R, R, alpha))
	}
	rep.NonTrivial(distinct)
	rep.AddStates(distinct)
}

// ---------------------------------------------------------------------------------------------
// enumerations, part dec

var (
	tailNone = []byte{}
	tailTerm = bytes.Repeat([]byte{0x5a}, 12) // bytes without continuation bit
	tailCont = bytes.Repeat([]byte{0xa5}, 12) // bytes with continuation bit
	tails    = [][]byte{tailNone, tailTerm, tailCont}
	decAlpha = []byte{0x00, 0x01, 0x7f, 0x80, 0x81, 0xff}
)

func partDec() {
	workers := engine.Workers()
	states := make([]state, workers+1)
	var streams int64

	// family F256: all byte strings of length <= 3 over all byte values, x 3 tails
	engine.ParallelFor(256, func(slot, b0 int) {
		st := &states[slot]
		buf := make([]byte, 0, 32)
		var n int64
		emit := func(s []byte) {
			for _, t := range tails {
				buf = append(append(buf[:0], s...), t...)
				st.runDec(buf)
				n++
			}
		}
		s := make([]byte, 3)
		s[0] = byte(b0)
		if b0 == 0 {
			emit(s[:0])
		}
		emit(s[:1])
		for b1 := 0; b1 < 256; b1++ {
			s[1] = byte(b1)
			emit(s[:2])
			for b2 := 0; b2 < 256; b2++ {
				s[2] = byte(b2)
				emit(s[:3])
			}
		}
		atomic.AddInt64(&streams, n)
		st.done()
	})
	f256 := streams
	rep.Count("dec_streams_len<=3_all_bytes_x3_tails", f256)

	// family F6: all strings of length 4..L over the 6-symbol alphabet (shorter ones are in F256), x 3 tails
	// With the two 12-byte tails every string of length L is also read with 12 more terminator /
	// continuation bytes behind it, so L = 10 already yields "10 continuation bytes + terminator"
	// (the VarLong cap) and L = 5 the VarInt cap; the RUN family adds every byte pair after runs of 0..11.
	L := 8
	if rep.Thorough() {
		L = 10
	}
	k := len(decAlpha)
	engine.ParallelFor(k*k*k, func(slot, i int) {
		st := &states[slot]
		s := make([]byte, 0, L)
		s = append(s, decAlpha[i/(k*k)], decAlpha[i/k%k], decAlpha[i%k])
		buf := make([]byte, 0, 32)
		var n int64
		var rec func()
		rec = func() {
			if len(s) >= 4 {
				for _, t := range tails {
					buf = append(append(buf[:0], s...), t...)
					st.runDec(buf)
					n++
				}
			}
			if len(s) == L {
				return
			}
			for _, a := range decAlpha {
				s = append(s, a)
				rec()
				s = s[:len(s)-1]
			}
		}
		rec()
		atomic.AddInt64(&streams, n)
		st.done()
	})
	rep.Count("dec_streams_len4..L_6symbols_x3_tails", streams-f256)

	// family RUN: k continuation bytes (k = 0..11; all 80 / all ff / alternating), then every pair of bytes; x tails {none, term}.
	// Members that F256/F6 already contain are executed again but not counted as distinct.
	inAlpha := func(b byte) bool { return bytes.IndexByte(decAlpha, b) >= 0 }
	var runStreams int64
	type runJob struct {
		k    int
		mask int
	}
	var jobs []runJob
	for kk := 0; kk <= 11; kk++ {
		// byte patterns of the run: all 80, all ff, alternating 80/ff and ff/80 (bit i of mask: byte i is ff)
		seen := map[int]bool{}
		for _, m := range []int{0, 1<<uint(kk) - 1, 0xaaa & (1<<uint(kk) - 1), 0x555 & (1<<uint(kk) - 1)} {
			if !seen[m] {
				seen[m] = true
				jobs = append(jobs, runJob{kk, m})
			}
		}
	}
	engine.ParallelFor(len(jobs), func(slot, ji int) {
		st := &states[slot]
		j := jobs[ji]
		s := make([]byte, 0, 16)
		for i := 0; i < j.k; i++ {
			if j.mask>>uint(i)&1 == 1 {
				s = append(s, 0xff)
			} else {
				s = append(s, 0x80)
			}
		}
		buf := make([]byte, 0, 32)
		var n int64
		for b := 0; b < 256; b++ {
			for c := 0; c < 256; c++ {
				for ti := 0; ti < 2; ti++ {
					buf = append(append(append(buf[:0], s...), byte(b), byte(c)), tails[ti]...)
					st.runDec(buf)
					// already a member of F256 (string of length <= 3) or of F6 (length <= L, all bytes in the alphabet)
					dup := j.k <= 1 || (j.k+2 <= L && inAlpha(byte(b)) && inAlpha(byte(c)))
					if !dup {
						n++
					}
				}
			}
		}
		atomic.AddInt64(&runStreams, n)
		st.done()
	})
	rep.Count("dec_streams_continuation_runs_then_all_byte_pairs", runStreams)
	streams += runStreams
	rep.NonTrivial(streams)
	rep.AddStates(streams)
	rep.Extra("dec_L_6symbol_alphabet", L)
}

// ---------------------------------------------------------------------------------------------

func selftest() {
	if msg := refwire.SelfTest(); msg != "" {
		engine.HarnessError("refwire self-test failed: %s", msg)
	}
	// reference encoder/decoder agree with each other on a boundary family
	for _, v := range boundaryValues(64) {
		e := refwire.AppendVarLong(nil, v)
		d := refwire.DecodeVarLong(e)
		if !d.Terminated || d.N != len(e) || int64(d.Value) != v || d.Overflow || d.NonMinimal {
			engine.HarnessError("refwire self-test: VarLong %d does not round-trip in the reference", v)
		}
	}
	for _, v := range boundaryValues(32) {
		e := refwire.AppendVarInt(nil, int32(v))
		d := refwire.DecodeVarInt(e)
		if !d.Terminated || d.N != len(e) || int32(uint32(d.Value)) != int32(v) || d.Overflow || d.NonMinimal {
			engine.HarnessError("refwire self-test: VarInt %d does not round-trip in the reference", v)
		}
	}
}

func replay() {
	rp, err := engine.LoadReplay(rep.ReplayPath)
	if err != nil {
		engine.HarnessError("cannot load replay: %v", err)
	}
	var sc streamCase
	if json.Unmarshal(rp.Case, &sc) == nil && sc.Part == "stream" {
		for i := 0; i < 5; i++ {
			for _, f := range judgeStream(sc) {
				rep.Fail(engine.Failure{Class: f.class, Detail: f.detail, Case: sc}, 0)
			}
			rep.Eval(1)
		}
		rep.Finish()
	}
	var c Case
	if err := json.Unmarshal(rp.Case, &c); err != nil {
		engine.HarnessError("bad case: %v", err)
	}
	long := c.Type == "VarLong"
	if c.Type != "VarInt" && c.Type != "VarLong" {
		engine.HarnessError("bad case type %q", c.Type)
	}
	st := &state{}
	for i := 0; i < 5; i++ {
		switch c.Part {
		case "enc":
			v, err := strconv.ParseInt(c.Value, 10, 64)
			if err != nil {
				engine.HarnessError("bad value: %v", err)
			}
			if i == 0 {
				fmt.Printf("replaying enc %s(%d); reference encoding %x\n", c.Type, v, refwire.AppendVarLong(nil, v))
			}
			st.guardedEnc(long, 1, func(int) int64 { return v })
		case "dec":
			stream, err := hex.DecodeString(c.Hex)
			if err != nil {
				engine.HarnessError("bad hex: %v", err)
			}
			src := srcIndex(c.Src)
			if src < 0 {
				engine.HarnessError("bad source kind %q", c.Src)
			}
			if i == 0 {
				d := refwire.DecodeVar(stream, map[bool]int{false: 5, true: 10}[long], map[bool]uint{false: 32, true: 64}[long])
				fmt.Printf("replaying dec %s on stream %x from %s; reference reading %+v\n", c.Type, stream, srcNames[src], d)
			}
			kind, frame, p := engine.Guard(func() { st.checkDec(long, stream, src) })
			if p {
				st.fails = st.fails[:0]
				rep.Fail(engine.Failure{Class: "dec/" + c.Type + ".ReadFrom/" + srcNames[src] + "/panic/" + frame + "/" + kind, Detail: "panic " + kind + " in " + frame, Case: c}, len(stream))
			}
			st.flush(func(f fail) (Case, int) { return c, len(stream) })
		default:
			engine.HarnessError("bad case part %q", c.Part)
		}
	}
	st.done()
	rep.Finish()
}

func main() {
	rep = engine.NewReport("C05")
	rep.Rule = "part enc: one case per integer value (families are de-duplicated against each other, so the count is of distinct values); part dec: one case per distinct byte stream (string x tail variant; run-family members already present in the other families are not counted); every case reaches the codec, so every distinct case is non-trivial. each enc value is written to every writer kind and both WriteToBytes buffer shapes and decoded from every source kind; each dec stream is decoded for both types from every source kind. evaluations = enc values + dec (stream x type x source kind) executions"
	if rep.ReplayPath != "" {
		replay()
		return
	}
	selftest()
	partEnc()
	partDec()
	runStreams()
	rep.Extra("source_kinds", srcNames[:])
	rep.Extra("writer_kinds", wrNames[:])
	rep.Extra("WriteToBytes_buffers", []string{"16 bytes pre-filled (bytes beyond the returned count must not change)", "window of exactly the encoding's length at offset 3 of a 24-byte array (no panic, neighbours unchanged)"})
	rep.Count("source_kinds_per_decode_case", nSrc)
	rep.Count("writer_kinds_per_value", nWr)
	rep.AddTraces(atomic.LoadInt64(&rep.Evaluations))
	rep.Sample(Case{Part: "enc", Type: "VarInt", Value: "-1"})
	rep.Sample(Case{Part: "enc", Type: "VarLong", Value: "34359738368"})
	rep.Sample(Case{Part: "dec", Type: "VarInt", Hex: "808080808000", Src: "plain"})
	rep.Sample(Case{Part: "dec", Type: "VarLong", Hex: "ffffffffffffffffff01a5a5", Src: "bytereader"})
	rep.Assume("ref/refwire (bit-at-a-time LEB128) is trusted and pinned to the protocol documentation's VarInt/VarLong tables by its self-test; VarLong is covered over a 7-bit group alphabet and boundary neighbours, not over all 2^64 values")
	_ = os.Stdout
	rep.Finish()
}
