package main

import (
	"bufio"
	"bytes"
	"errors"
	"io"

	pk "github.com/Tnze/go-mc/net/packet"

	"verif/engine"
)

// Source kinds: the menu of io.Reader implementations every decode case is read from. The
// decoder picks its byte source by a type test (CreateByteReader), so the dynamic type of the
// reader and the way a Read-only reader answers are dimensions of the property's quantifier.
const (
	srcByteReader  = iota // *bytes.Reader: io.ByteReader (what Packet.Scan hands to fields)
	srcPlain              // engine.PlainReader: Read only, hands out everything asked for (a net.Conn)
	srcBytesBuffer        // *bytes.Buffer: io.ByteReader with an exposed window (Bytes/Next)
	srcBufio              // *bufio.Reader (16-byte buffer) over a PlainReader: ByteReader, Peek/Discard
	srcStutter            // Read only; every other call answers (0, nil) before handing out data
	srcEOFLast            // Read only; reports io.EOF together with the final bytes of the stream
	srcLimited            // *io.LimitedReader over a *bytes.Reader that holds three more bytes behind the limit
	srcReentrant          // Read only, one byte per call; after filling p it decodes a VarLong and a VarInt from a stream of its own
	nSrc
)

var srcNames = [nSrc]string{"bytereader", "plain", "bytes.Buffer", "bufio.Reader", "plain-zero-reads", "plain-eof-with-last-byte", "io.LimitedReader", "reentrant-one-byte-reader"}

func srcIndex(name string) int {
	for i, n := range srcNames {
		if n == name {
			return i
		}
	}
	return -1
}

// Writer kinds: the menu of io.Writer implementations every value is written to.
const (
	wrPlain       = iota // sinkWriter: Write only
	wrBytesBuffer        // *bytes.Buffer: io.ByteWriter, io.StringWriter, io.ReaderFrom
	wrBufio              // *bufio.Writer (16-byte buffer) over a sinkWriter: io.ByteWriter; flushed before judging
	wrReentrant          // a framing writer: its Write encodes a VarLong and a VarInt of its own (to another sink) BEFORE it consumes p
	nWr
)

var wrNames = [nWr]string{"plain", "bytes.Buffer", "bufio.Writer", "reentrant-framing-writer"}

// eofReader hands out everything asked for and reports io.EOF together with the final bytes.
type eofReader struct {
	data []byte
	pos  int
}

func (e *eofReader) Read(p []byte) (int, error) {
	if len(p) == 0 {
		return 0, nil
	}
	n := copy(p, e.data[e.pos:])
	e.pos += n
	if e.pos >= len(e.data) {
		return n, io.EOF
	}
	return n, nil
}

// stutterReader answers every other Read with (0, nil) — legal for an io.Reader ("nothing
// happened"), callers must simply read again — and otherwise behaves like PlainReader.
type stutterReader struct {
	data  []byte
	pos   int
	calls int
}

func (s *stutterReader) Read(p []byte) (int, error) {
	if len(p) == 0 {
		return 0, nil
	}
	s.calls++
	if s.calls&1 == 1 {
		return 0, nil
	}
	if s.pos >= len(s.data) {
		return 0, io.EOF
	}
	n := copy(p, s.data[s.pos:])
	s.pos += n
	return n, nil
}

// sources is the per-worker set of reusable reader objects.
type sources struct {
	br  bytes.Reader
	pr  engine.PlainReader
	bb  bytes.Buffer
	bio *bufio.Reader
	sr  stutterReader
	er  eofReader

	// srcLimited: the stream followed by three guard bytes in lbuf, lbr over all of it, lr fencing it at len(stream)
	lbuf []byte
	lbr  bytes.Reader
	lr   io.LimitedReader

	rr reentrantReader
}

// reentrantReader is a legal io.Reader (it fills p and does not retain it) that uses the decoder under test itself, on a
// stream of its own, before it returns: a multiplexing layer that looks at the next frame header while it hands out a
// byte. A decoder that parks the byte it just read in package-level or pooled scratch space has it overwritten in that
// window - deterministically, where two goroutines decoding at once would need the right interleaving.
type reentrantReader struct {
	data  []byte
	pos   int
	inner engine.PlainReader
	busy  bool
}

var reentrantInner = []byte{0xff, 0xff, 0xff, 0xff, 0xff, 0xff, 0xff, 0xff, 0xff, 0x01, 0xac, 0x02}

func (r *reentrantReader) Read(p []byte) (int, error) {
	if len(p) == 0 {
		return 0, nil
	}
	if r.pos >= len(r.data) {
		return 0, io.EOF
	}
	p[0] = r.data[r.pos]
	r.pos++
	if !r.busy {
		r.busy = true
		r.inner.Data, r.inner.Pos = reentrantInner, 0
		var l pk.VarLong
		var i pk.VarInt
		l.ReadFrom(&r.inner)
		i.ReadFrom(&r.inner)
		r.busy = false
	}
	return 1, nil
}

// open points source kind src at stream and returns the reader to hand to go-mc.
func (s *sources) open(src int, stream []byte) io.Reader {
	switch src {
	case srcByteReader:
		s.br.Reset(stream)
		return &s.br
	case srcPlain:
		s.pr.Data, s.pr.Pos = stream, 0
		return &s.pr
	case srcBytesBuffer:
		s.bb.Reset()
		s.bb.Write(stream)
		return &s.bb
	case srcBufio:
		s.pr.Data, s.pr.Pos = stream, 0
		if s.bio == nil {
			s.bio = bufio.NewReaderSize(&s.pr, 16)
		} else {
			s.bio.Reset(&s.pr)
		}
		return s.bio
	case srcStutter:
		s.sr = stutterReader{data: stream}
		return &s.sr
	case srcEOFLast:
		s.er = eofReader{data: stream}
		return &s.er
	case srcReentrant:
		s.rr = reentrantReader{data: stream}
		return &s.rr
	case srcLimited:
		s.lbuf = append(append(s.lbuf[:0], stream...), 0x01, 0x02, 0x03)
		s.lbr.Reset(s.lbuf)
		s.lr = io.LimitedReader{R: &s.lbr, N: int64(len(stream))}
		return &s.lr
	}
	panic("bad source kind")
}

// consumed is the number of bytes of the stream that are gone for the next reader of the same
// source (for bufio: bytes taken from below minus bytes still buffered).
func (s *sources) consumed(src int, stream []byte) int {
	switch src {
	case srcByteReader:
		return len(stream) - s.br.Len()
	case srcPlain:
		return s.pr.Pos
	case srcBytesBuffer:
		return len(stream) - s.bb.Len()
	case srcBufio:
		return s.pr.Pos - s.bio.Buffered()
	case srcStutter:
		return s.sr.pos
	case srcEOFLast:
		return s.er.pos
	case srcReentrant:
		return s.rr.pos
	case srcLimited:
		return len(s.lbuf) - s.lbr.Len() // counts guard bytes taken from behind the limit too
	}
	panic("bad source kind")
}

type sinkWriter struct {
	b     [16]byte
	n     int
	calls int
}

func (s *sinkWriter) Write(p []byte) (int, error) {
	s.calls++
	s.n += copy(s.b[s.n:], p)
	return len(p), nil
}

// reentrantWriter is a legal io.Writer (it neither modifies nor retains p) that uses the codec under test itself
// while p is still unconsumed, as a length-prefixing framing layer does. An encoder that hands its writer a scratch
// buffer it no longer owns (returned to a pool before Write, package-level scratch) is overwritten in that window.
type reentrantWriter struct {
	sink  sinkWriter
	inner sinkWriter
}

func (r *reentrantWriter) Write(p []byte) (int, error) {
	r.inner.n = 0
	if _, err := pk.VarLong(-1).WriteTo(&r.inner); err != nil {
		return 0, err
	}
	if _, err := pk.VarInt(300).WriteTo(&r.inner); err != nil {
		return 0, err
	}
	return r.sink.Write(p)
}

// limitedWriter accepts room bytes in all and answers the Write that does not fit with (what fitted, errFull):
// a full disk, a closed pipe, a bufio.Writer whose flush fails. The count an encoder reports must be the
// number of bytes that reached the writer.
type limitedWriter struct {
	sink sinkWriter
	room int
}

var errFull = errors.New("verif: writer is full")

func (l *limitedWriter) Write(p []byte) (int, error) {
	k := len(p)
	if k > l.room {
		k = l.room
	}
	l.sink.Write(p[:k])
	l.room -= k
	if k < len(p) {
		return k, errFull
	}
	return k, nil
}

// writers is the per-worker set of reusable writer objects.
type writers struct {
	sink sinkWriter
	bb   bytes.Buffer
	bw   *bufio.Writer
	re   reentrantWriter
	lim  limitedWriter
}

func (w *writers) open(kind int) io.Writer {
	switch kind {
	case wrPlain:
		w.sink.n, w.sink.calls = 0, 0
		return &w.sink
	case wrBytesBuffer:
		w.bb.Reset()
		return &w.bb
	case wrBufio:
		w.sink.n, w.sink.calls = 0, 0
		if w.bw == nil {
			w.bw = bufio.NewWriterSize(&w.sink, 16)
		} else {
			w.bw.Reset(&w.sink)
		}
		return w.bw
	case wrReentrant:
		w.re.sink.n, w.re.sink.calls = 0, 0
		return &w.re
	}
	panic("bad writer kind")
}

// received returns what arrived at the destination (after flushing a buffered writer).
func (w *writers) received(kind int) []byte {
	switch kind {
	case wrPlain:
		return w.sink.b[:w.sink.n]
	case wrBytesBuffer:
		return w.bb.Bytes()
	case wrBufio:
		if err := w.bw.Flush(); err != nil {
			panic("harness: flush of bufio.Writer over an accepting sink failed: " + err.Error())
		}
		return w.sink.b[:w.sink.n]
	case wrReentrant:
		return w.re.sink.b[:w.re.sink.n]
	}
	panic("bad writer kind")
}
