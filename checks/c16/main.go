// C16 — RCON frames round-trip and self-delimit; login succeeds iff the password matches.
//
// Everything is enumerated, nothing sampled:
//
//	frame     (id, type, payload) products: WritePacket bytes == refrcon layout, ReadPacket of the reference
//	          bytes gives the triple back and consumes exactly the frame (whole reads and 1/5-byte fragments)
//	concat    every sequence of <= N frames over a 6-frame alphabet plus one 20-frame chain, written by
//	          WritePacket into one stream and read back frame by frame from the reference stream
//	declared  length fields around both bounds written by refrcon: out-of-range must be rejected (an error,
//	          not a panic), in-range with a complete body must be accepted
//	login     every ordered password pair over a 6-word alphabet: real DialRCON against real
//	          ListenRCON/AcceptLogin over loopback TCP, and AcceptLogin against a refrcon-scripted client in memory
//	script    every command/response script of <= S steps: real client against real server (TCP and in memory)
//	adversary every script of <= S steps in which a scripted peer answers under {right id, id+1, -1, 0} x
//	          {type 0, 2}; DialRCON against a scripted TCP server answering the login the same way
//	advclient login / command frames of the wrong type sent to the real server side
//
// Added by the white-box audit (see ext.go for the login families):
//
//	frame     every payload length 0..limit+1 (not only the boundary lengths), a white-space payload kind, and
//	          reader devices: the frame's last bytes arriving together with io.EOF, a reader answering (0, nil)
//	          every other call; concat and the two-step scripts run under the same devices
//	concat    every payload handed out is compared again after the later frames were read (script: commands and
//	          responses likewise)
//	login     a 21-word password alphabet (line ends, blanks, suffix, invalid UTF-8, NUL runs, ...), all ordered
//	          pairs in memory and over TCP; long passwords of every length 1..limit that are equal / differ in one
//	          byte (first, middle, last) / lack the last byte, on either side; login histories of <= 4 attempts on
//	          one connection; session histories of <= 3 sessions on one listener
//	script    "verbatim" menu of 25 texts (blanks, line ends, leading slash, case, NUL, invalid UTF-8, ...): every
//	          ordered pair as a two-step script, each text over TCP; request-id histories (scripted login under one
//	          id, then each command under an id from a 4-id menu)
//	adversary three more foreign-id kinds (id-1, equal in the low 16 bits, sign flipped)
//
// The in-memory connection never blocks: a Read on an empty stream returns io.EOF, so a peer that waits for
// bytes which were never written shows up as a deterministic error, not as a hang. A TCP session whose peers wait
// for each other for good is recognised by engine.WaitDone (the whole process is stalled: no thread running or
// runnable, no CPU burnt, for several consecutive seconds; slowness on a loaded machine never counts): its
// listener and server-side connection are then closed, which unblocks both peers, and the session is a harness
// error (exit 2), never a verdict. The 10-minute I/O deadline on the sockets is only a backstop for the same.
package main

import (
	"bytes"
	"encoding/hex"
	"encoding/json"
	"errors"
	"fmt"
	"io"
	"math"
	"net"
	"os"
	"strings"
	"sync"
	"sync/atomic"
	"time"

	mcnet "github.com/Tnze/go-mc/net"

	"verif/engine"
	"verif/ref/refrcon"
)

var rep *engine.Report

// ioDeadline is a backstop only (see sessionGuard); it can end in a harness error, never in a verdict.
var ioDeadline = 10 * time.Minute

// stallQuiet is the number of consecutive seconds the process must be stalled before a TCP session is given up.
var stallQuiet = 10

// sessionGuard unblocks a TCP session whose peers are blocked for good. Everything that a blocked peer could be
// waiting on from the server side (listener, accepted connection) is registered; when the process is found
// stalled while the session is still open, they are closed: Accept and the server's reads fail, the client's
// read sees the connection go away. There is no wall-clock limit: a slow session on a loaded machine keeps going.
//
// One monitor goroutine serves all sessions (one observer per session would keep the process busy with the
// observers themselves): a stalled process means that every open session is blocked for good, so all are broken up.
type sessionGuard struct {
	mu      sync.Mutex
	closers []io.Closer
	stalled bool
}

var (
	guardMu     sync.Mutex
	openGuards  = map[*sessionGuard]struct{}{}
	guardOnce   sync.Once
	neverClosed = make(chan struct{})
)

func stallMonitor() {
	for {
		if engine.WaitDone(neverClosed, stallQuiet) {
			return
		}
		guardMu.Lock()
		gs := make([]*sessionGuard, 0, len(openGuards))
		for g := range openGuards {
			gs = append(gs, g)
		}
		guardMu.Unlock()
		for _, g := range gs {
			g.mu.Lock()
			g.stalled = true
			for _, c := range g.closers {
				c.Close()
			}
			g.mu.Unlock()
		}
	}
}

func newSessionGuard() *sessionGuard {
	guardOnce.Do(func() { go stallMonitor() })
	g := &sessionGuard{}
	guardMu.Lock()
	openGuards[g] = struct{}{}
	guardMu.Unlock()
	return g
}

func (g *sessionGuard) add(c io.Closer) {
	g.mu.Lock()
	if g.stalled {
		c.Close()
	} else {
		g.closers = append(g.closers, c)
	}
	g.mu.Unlock()
}

// broken tells whether the session had to be broken up so far.
func (g *sessionGuard) broken() bool {
	g.mu.Lock()
	defer g.mu.Unlock()
	return g.stalled
}

// finish ends the watch and tells whether the session had to be broken up.
func (g *sessionGuard) finish() bool {
	guardMu.Lock()
	delete(openGuards, g)
	guardMu.Unlock()
	return g.broken()
}

// ---------------------------------------------------------------------------------------------
// in-memory, non-blocking connection

type stream struct {
	mu  sync.Mutex
	buf []byte
	pos int
}

type memConn struct {
	in    *stream // bytes the owner of this end reads
	out   *stream // bytes the owner of this end writes
	chunk int     // >0: at most chunk bytes per Read
	eof   bool    // the Read that hands out the last buffered byte returns (n>0, io.EOF), as io.Reader permits
	// stutter: every other Read returns (0, nil) without consuming anything, which io.Reader permits ("nothing happened")
	stutter bool
	tick    int

	// full-duplex model: onRead / onWrite run at the start of the k-th Read / Write call on this end (k from 0),
	// before the call touches the stream - the point at which another goroutine using the other direction of the
	// same connection may have run
	onRead, onWrite func(k int)
	nRead, nWrite   int
}

func (m *memConn) Read(p []byte) (int, error) {
	if len(p) == 0 {
		return 0, nil
	}
	if m.onRead != nil {
		k := m.nRead
		m.nRead++
		m.onRead(k)
	}
	m.in.mu.Lock()
	defer m.in.mu.Unlock()
	rest := len(m.in.buf) - m.in.pos
	if rest <= 0 {
		return 0, io.EOF
	}
	if m.stutter {
		m.tick++
		if m.tick%2 == 1 {
			return 0, nil
		}
	}
	n := len(p)
	if n > rest {
		n = rest
	}
	if m.chunk > 0 && n > m.chunk {
		n = m.chunk
	}
	copy(p[:n], m.in.buf[m.in.pos:])
	m.in.pos += n
	if m.eof && n == rest {
		return n, io.EOF
	}
	return n, nil
}

func (m *memConn) Write(p []byte) (int, error) {
	if m.onWrite != nil {
		k := m.nWrite
		m.nWrite++
		m.onWrite(k)
	}
	m.out.mu.Lock()
	m.out.buf = append(m.out.buf, p...)
	m.out.mu.Unlock()
	return len(p), nil
}

type memAddr struct{}

func (memAddr) Network() string { return "mem" }
func (memAddr) String() string  { return "mem" }

func (m *memConn) Close() error                     { return nil }
func (m *memConn) LocalAddr() net.Addr              { return memAddr{} }
func (m *memConn) RemoteAddr() net.Addr             { return memAddr{} }
func (m *memConn) SetDeadline(time.Time) error      { return nil }
func (m *memConn) SetReadDeadline(time.Time) error  { return nil }
func (m *memConn) SetWriteDeadline(time.Time) error { return nil }

// duplex returns two connected ends.
func duplex() (a, b *memConn) {
	x, y := &stream{}, &stream{}
	return &memConn{in: x, out: y}, &memConn{in: y, out: x}
}

// take returns and removes everything written to s but not yet read.
func (s *stream) take() []byte {
	s.mu.Lock()
	defer s.mu.Unlock()
	b := append([]byte(nil), s.buf[s.pos:]...)
	s.pos = len(s.buf)
	return b
}

func (s *stream) put(b []byte) {
	s.mu.Lock()
	s.buf = append(s.buf, b...)
	s.mu.Unlock()
}

func (s *stream) unread() int {
	s.mu.Lock()
	defer s.mu.Unlock()
	return len(s.buf) - s.pos
}

// ---------------------------------------------------------------------------------------------
// alphabets

func payload(kind string, n int) []byte {
	b := make([]byte, n)
	switch kind {
	case "ascii":
		for i := range b {
			b[i] = 'a' + byte(i%26)
		}
	case "nul": // 0x00 at the first, the last and every third position
		for i := range b {
			if i%3 == 0 || i == n-1 {
				b[i] = 0
			} else {
				b[i] = 'A' + byte(i%26)
			}
		}
	case "nonutf8":
		pat := []byte{0xff, 0xfe, 0x80, 0xc0, 0xc3}
		for i := range b {
			b[i] = pat[i%len(pat)]
		}
	case "space": // white space at both ends (and nothing else below 5 bytes): what a trimming reader would eat
		pat := []byte{' ', '\n', '\t', '\r'}
		for i := range b {
			if i < 2 || i >= n-2 {
				b[i] = pat[i%len(pat)]
			} else {
				b[i] = '/' + byte(i%11)
			}
		}
	default:
		engine.HarnessError("unknown payload kind %q", kind)
	}
	return b
}

func lenShape(n int) string {
	switch {
	case n == 0:
		return "empty"
	case n == refrcon.MaxPayload:
		return "limit"
	case n == refrcon.MaxPayload-1:
		return "limit-1"
	case n > refrcon.MaxPayload:
		return "over-limit"
	case n <= 2:
		return "short"
	}
	return "mid"
}

func idShape(id int32) string {
	switch id {
	case 0:
		return "id0"
	case -1:
		return "id-1"
	case math.MaxInt32:
		return "idMax"
	case math.MinInt32:
		return "idMin"
	}
	if id < 0 {
		return "idNeg"
	}
	return "idPos"
}

// The first six passwords are the original alphabet (equal / prefix / case / empty / NUL-padded / limit-sized); the
// rest are one representative per character class a "tolerant" comparison would fold away: line ends, surrounding
// white space (ASCII and U+00A0), a proper suffix, invalid UTF-8 against other invalid UTF-8 and against U+FFFD,
// several trailing NULs, a lone NUL, case differing past the first byte, a precomposed against a decomposed letter.
var passwords = []string{"", "a", "A", "ab", "a\x00", strings.Repeat("p", refrcon.MaxPayload),
	"a\n", "a\r\n", " a", "a ", "\ta", "b", "\xff", "\xfe", "\ufffd", "a\x00\x00", "\x00", "aB", "\u00e9", "e\u0301", "a\u00a0"}
var pwNames = []string{"empty", "a", "A", "ab", "a-nul", "limit",
	"a-lf", "a-crlf", "sp-a", "a-sp", "tab-a", "b", "xff", "xfe", "ufffd", "a-nul-nul", "nul", "aB", "e-acute", "e-combining-acute", "a-nbsp"}

// histCmds commands and histResps responses form the alphabet of the exhaustive script histories. The texts after
// them (shared by both lists) are the character-class menu of the "verbatim" family: each is one shape a server
// front-end might be tempted to normalise (surrounding blanks, line ends, the chat-style leading slash, letter
// case, runs of blanks, NULs, invalid UTF-8, formatting codes, BOM, quotes, backslashes).
const histCmds, histResps = 4, 4

var texts = []string{" x", "x ", " x ", "x\n", "x\r\n", "\tx\t", "\n", " ", "/list", "//", "/", "LIST All", "say  two  spaces",
	"x\x00", "\x00", "x\x00y", "\xff\xfe\x80", "\u00a7cred", "\u00e9", "\ufeffx", "\"quoted\"", "a\\b", "\u00a0x\u00a0", "x\u2028", "0"}
var textNames = []string{"leading-space", "trailing-space", "spaces-around", "trailing-lf", "trailing-crlf", "tabs-around", "lone-lf", "lone-space", "leading-slash", "two-slashes", "lone-slash", "mixed-case", "inner-space-run",
	"trailing-nul", "lone-nul", "inner-nul", "invalid-utf8", "section-sign-code", "non-ascii", "leading-bom", "quoted", "backslash", "nbsp-around", "trailing-line-separator", "digit"}

// pairTexts: the texts above form the all-ordered-pairs family; the ones appended by init below (format verbs and every
// single byte value between two letters) are each sent once as a command and once as a response.
const pairTexts = 25

func init() {
	if len(texts) != pairTexts || len(textNames) != pairTexts {
		panic("c16: text menu out of step")
	}
	for _, t := range [][2]string{{"%", "percent"}, {"say 100% done", "percent-inside"}, {"%d", "verb-d"}, {"%s%s", "verb-s-s"}, {"%%", "percent-percent"},
		{"%!d(MISSING)", "missing-marker"}, {"%v %[1]d %*d", "verb-indexed"}, {"%x", "verb-x"}, {"$1 ${a} `b`", "shell-marks"}, {"{0} {} {{", "braces"}} {
		texts = append(texts, t[0])
		textNames = append(textNames, t[1])
	}
	for b := 0; b < 256; b++ {
		texts = append(texts, "x"+string([]byte{byte(b)})+"y")
		textNames = append(textNames, fmt.Sprintf("byte-%02x", b))
	}
	commands = append(commands, texts[pairTexts:]...)
	responses = append(responses, texts[pairTexts:]...)
}

var commands = append([]string{"", "x", "list all", string(payload("ascii", refrcon.MaxPayload))}, texts...)
var responses = append([]string{"", "ok", "with\x00nul\xff", string(payload("nonutf8", refrcon.MaxPayload))}, texts...)

// textShape names a command / response for class strings: the length shape for the history alphabet (as before),
// the character class for the menu texts.
func textShape(alpha []string, i int) string {
	if i >= len(alpha)-len(texts) {
		return textNames[i-(len(alpha)-len(texts))]
	}
	return lenShape(len(alpha[i]))
}

// ---------------------------------------------------------------------------------------------
// case descriptor (replayable)

type Case struct {
	Part string `json:"part"`

	// frame
	ID          int32  `json:"id,omitempty"`
	Type        int32  `json:"type,omitempty"`
	PayloadKind string `json:"payload_kind,omitempty"`
	PayloadLen  int    `json:"payload_len,omitempty"`
	Chunk       int    `json:"chunk,omitempty"`
	EOF         bool   `json:"eof_with_data,omitempty"` // reader device: the last buffered byte arrives together with io.EOF
	Stutter     bool   `json:"stutter,omitempty"`       // reader device: every other Read returns (0, nil)

	// concat: indices into the frame alphabet
	Frames []int `json:"frames,omitempty"`

	// frame-duplex: Mode read-inside-write | write-inside-read, At = index of the socket call at whose start the
	// other direction runs; the other direction's frame is (ID2, Type2, PayloadLen2)
	Mode        string `json:"mode,omitempty"`
	At          int    `json:"at,omitempty"`
	ID2         int32  `json:"id2,omitempty"`
	Type2       int32  `json:"type2,omitempty"`
	PayloadLen2 int    `json:"payload_len2,omitempty"`

	// declared
	Declared int32 `json:"declared,omitempty"`
	BodyLen  int   `json:"body_len,omitempty"`

	// login / scripts
	ClientPw int   `json:"client_pw,omitempty"`
	ServerPw int   `json:"server_pw,omitempty"`
	ReqID    int32 `json:"req_id,omitempty"`
	Cmds     []int `json:"cmds,omitempty"`
	Resps    []int `json:"resps,omitempty"`
	Answers  []int `json:"answers,omitempty"` // adversary: idKind*2 + typeKind per step
	LoginAns int   `json:"login_answer,omitempty"`
	Types    []int `json:"types,omitempty"` // advclient frame types

	// script-mem: a scripted login under ReqID first, then step i runs under request id IDs[i]
	Login bool    `json:"login,omitempty"`
	IDs   []int32 `json:"ids,omitempty"`

	// login-long: passwords of PwLen bytes; Rel equal / diff (one byte at DiffPos differs) / shorter (one is the
	// other without its last byte); Altered says which side holds the altered password
	PwLen   int    `json:"pw_len,omitempty"`
	Rel     string `json:"rel,omitempty"`
	DiffPos int    `json:"diff_pos,omitempty"`
	Altered string `json:"altered,omitempty"`

	// login-hist / listener-hist: client password indices presented one after the other
	Attempts []int `json:"attempts,omitempty"`
}

// reader configures the reading end of an in-memory connection from the case's device fields.
func (c Case) reader(m *memConn) {
	m.chunk, m.eof, m.stutter = c.Chunk, c.EOF, c.Stutter
}

// device names the reader device for class strings ("" for the plain / fragmenting reader, whose classes predate it).
func (c Case) device() string {
	s := ""
	if c.EOF {
		s += "/eof-with-data"
	}
	if c.Stutter {
		s += "/stutter"
	}
	return s
}

func fail(class string, size int, c Case, format string, a ...any) {
	// deterministic tie-break between witnesses of equal size (independent of worker scheduling)
	h := uint32(2166136261)
	for _, b := range []byte(fmt.Sprintf("%v", c)) {
		h = (h ^ uint32(b)) * 16777619
	}
	size = size<<12 | int(h&0xfff)
	rep.FailLazy(class, size, func() engine.Failure {
		return engine.Failure{Detail: fmt.Sprintf(format, a...), Case: c}
	})
}

func clip(b []byte) string {
	if len(b) > 40 {
		return hex.EncodeToString(b[:32]) + fmt.Sprintf("…(%d bytes)", len(b))
	}
	return hex.EncodeToString(b)
}

// guard runs f, reports a panic under class prefix; returns true when f panicked.
func guard(prefix string, size int, c Case, f func()) bool {
	kind, frame, p := engine.Guard(f)
	if p {
		fail(prefix+"/panic/"+frame+"/"+kind, size, c, "panic %s in %s", kind, frame)
	}
	return p
}

// ---------------------------------------------------------------------------------------------
// part: frame

func judgeFrame(c Case) {
	pl := payload(c.PayloadKind, c.PayloadLen)
	shape := c.PayloadKind + "-" + lenShape(c.PayloadLen)
	want := refrcon.Frame(c.ID, c.Type, pl)
	size := c.PayloadLen
	over := c.PayloadLen > refrcon.MaxPayload

	// write
	a, b := duplex()
	w := &mcnet.RCONConn{Conn: a}
	var werr error
	if guard("frame/WritePacket", size, c, func() { werr = w.WritePacket(c.ID, c.Type, string(pl)) }) {
		return
	}
	rep.Eval(1)
	got := b.in.take()
	if over {
		// the statement speaks of payloads up to the limit only
		rep.Unspec(1)
	} else if werr != nil {
		fail("frame/WritePacket/error/"+shape, size, c, "WritePacket(%d,%d,%d-byte %s payload) returned %v", c.ID, c.Type, c.PayloadLen, c.PayloadKind, werr)
	} else if !bytes.Equal(got, want) {
		fail("frame/WritePacket/bytes-differ-from-layout/"+shape+"/"+idShape(c.ID), size, c, "WritePacket(%d,%d,%d-byte %s payload) wrote %s, reference layout is %s", c.ID, c.Type, c.PayloadLen, c.PayloadKind, clip(got), clip(want))
	}

	// read the reference bytes followed by a sentinel that must stay unread
	if over {
		return
	}
	sentinel := []byte{0xde, 0xad, 0xbe, 0xef, 0x01}
	if c.EOF {
		// the frame is the last thing in the stream: its final bytes arrive together with io.EOF
		sentinel = nil
	}
	a2, b2 := duplex()
	c.reader(a2)
	b2.out.put(want)
	b2.out.put(sentinel)
	r := &mcnet.RCONConn{Conn: a2}
	var (
		id, typ int32
		p       string
		rerr    error
	)
	if guard("frame/ReadPacket", size, c, func() { id, typ, p, rerr = r.ReadPacket() }) {
		return
	}
	rep.Eval(1)
	frag := "whole"
	if c.Chunk > 0 {
		frag = "fragmented"
	}
	frag += c.device()
	switch {
	case rerr != nil:
		fail("frame/ReadPacket/error-on-valid-frame/"+shape+"/"+frag, size, c, "ReadPacket of %s returned %v", clip(want), rerr)
	case id != c.ID:
		fail("frame/ReadPacket/wrong-id/"+idShape(c.ID)+"/"+frag, size, c, "ReadPacket id=%d, written %d", id, c.ID)
	case typ != c.Type:
		fail("frame/ReadPacket/wrong-type/"+frag, size, c, "ReadPacket type=%d, written %d", typ, c.Type)
	case p != string(pl):
		fail("frame/ReadPacket/wrong-payload/"+shape+"/"+frag, size, c, "ReadPacket payload %s (%d bytes), written %s (%d bytes)", clip([]byte(p)), len(p), clip(pl), len(pl))
	case a2.in.unread() != len(sentinel):
		fail("frame/ReadPacket/not-self-delimiting/"+shape+"/"+frag, size, c, "after one ReadPacket %d bytes are unread, expected the %d sentinel bytes", a2.in.unread(), len(sentinel))
	}
}

// judgeFrameWrite is the write half of judgeFrame alone, for the sweep over every payload length with ids and
// types the read sweep does not repeat.
func judgeFrameWrite(c Case) {
	pl := payload(c.PayloadKind, c.PayloadLen)
	shape := c.PayloadKind + "-" + lenShape(c.PayloadLen)
	want := refrcon.Frame(c.ID, c.Type, pl)
	a, b := duplex()
	w := &mcnet.RCONConn{Conn: a}
	var werr error
	if guard("frame/WritePacket", c.PayloadLen, c, func() { werr = w.WritePacket(c.ID, c.Type, string(pl)) }) {
		return
	}
	rep.Eval(1)
	got := b.in.take()
	if c.PayloadLen > refrcon.MaxPayload {
		rep.Unspec(1)
	} else if werr != nil {
		fail("frame/WritePacket/error/"+shape, c.PayloadLen, c, "WritePacket(%d,%d,%d-byte %s payload) returned %v", c.ID, c.Type, c.PayloadLen, c.PayloadKind, werr)
	} else if !bytes.Equal(got, want) {
		fail("frame/WritePacket/bytes-differ-from-layout/"+shape+"/"+idShape(c.ID), c.PayloadLen, c, "WritePacket(%d,%d,%d-byte %s payload) wrote %s, reference layout is %s", c.ID, c.Type, c.PayloadLen, c.PayloadKind, clip(got), clip(want))
	}
}

// judgeFrameDuplex: one RCONConn used in both directions at once, as a net.Conn may be. The interleaving is fixed at
// socket-call granularity: at the start of the At-th Write (Read) call of a WritePacket (ReadPacket), a complete
// ReadPacket (WritePacket) runs on the SAME RCONConn, as a second goroutine serving the other direction would. Both
// frames must come out as if the two operations had run one after the other: the directions share nothing but the
// connection.
func judgeFrameDuplex(c Case) {
	plOut := payload(c.PayloadKind, c.PayloadLen)
	plIn := payload("ascii", c.PayloadLen2)
	wantOut := refrcon.Frame(c.ID, c.Type, plOut)
	frameIn := refrcon.Frame(c.ID2, c.Type2, plIn)
	a, b := duplex()
	c.reader(a)
	b.out.put(frameIn)
	r := &mcnet.RCONConn{Conn: a}
	var (
		id, typ int32
		p       string
		rerr    error
		werr    error
		fired   bool
	)
	doRead := func() { id, typ, p, rerr = r.ReadPacket() }
	doWrite := func() { werr = r.WritePacket(c.ID, c.Type, string(plOut)) }
	size := c.PayloadLen + c.PayloadLen2
	if c.Mode == "other-connection-writes-inside-write" {
		// a second RCONConn of the same process sends a frame of its own at the start of the At-th Write call of this
		// one (two sessions served side by side): connections share no state, each peer must receive its own frame
		a2, b2 := duplex()
		r2 := &mcnet.RCONConn{Conn: a2}
		want2 := refrcon.Frame(c.ID2, c.Type2, plIn)
		var werr2 error
		a.onWrite = func(k int) {
			if k == c.At && !fired {
				fired = true
				werr2 = r2.WritePacket(c.ID2, c.Type2, string(plIn))
			}
		}
		if guard("duplex/WritePacket", size, c, doWrite) {
			return
		}
		rep.Eval(1)
		if fired {
			atomic.AddInt64(&duplexFired, 1)
		}
		got, got2 := b.in.take(), b2.in.take()
		pre := "duplex/" + c.Mode + "/"
		switch {
		case werr != nil || werr2 != nil:
			fail(pre+"WritePacket/error", size, c, "WritePacket returned %v / %v", werr, werr2)
		case !bytes.Equal(got, wantOut):
			fail(pre+"WritePacket/bytes-differ-from-layout", size, c, "connection 1 sent %s while connection 2 was sending; reference layout is %s", clip(got), clip(wantOut))
		case fired && !bytes.Equal(got2, want2):
			fail(pre+"WritePacket/other-connection/bytes-differ-from-layout", size, c, "connection 2 sent %s; reference layout is %s", clip(got2), clip(want2))
		}
		return
	}
	if c.Mode == "read-inside-write" {
		a.onWrite = func(k int) {
			if k == c.At && !fired {
				fired = true
				saved := a.onWrite
				a.onWrite = nil
				doRead()
				a.onWrite = saved
			}
		}
		if guard("duplex/WritePacket", size, c, doWrite) {
			return
		}
		if !fired {
			if guard("duplex/ReadPacket", size, c, doRead) { // the write used fewer socket calls: plain sequence
				return
			}
		}
	} else {
		a.onRead = func(k int) {
			if k == c.At && !fired {
				fired = true
				doWrite()
			}
		}
		if guard("duplex/ReadPacket", size, c, doRead) {
			return
		}
		if !fired {
			if guard("duplex/WritePacket", size, c, doWrite) {
				return
			}
		}
	}
	rep.Eval(1)
	if fired {
		atomic.AddInt64(&duplexFired, 1)
	}
	got := b.in.take()
	pre := "duplex/" + c.Mode + "/"
	switch {
	case werr != nil:
		fail(pre+"WritePacket/error", size, c, "WritePacket returned %v", werr)
	case !bytes.Equal(got, wantOut):
		fail(pre+"WritePacket/bytes-differ-from-layout", size, c, "the frame written while a frame was being read on the same RCONConn is %s, reference layout is %s", clip(got), clip(wantOut))
	case rerr != nil:
		fail(pre+"ReadPacket/error-on-valid-frame", size, c, "ReadPacket of %s returned %v", clip(frameIn), rerr)
	case id != c.ID2 || typ != c.Type2 || p != string(plIn):
		fail(pre+"ReadPacket/wrong-frame", size, c, "ReadPacket returned (%d,%d,%d-byte payload) while a frame was being written on the same RCONConn; the peer sent (%d,%d,%d-byte payload)", id, typ, len(p), c.ID2, c.Type2, len(plIn))
	case a.in.unread() != 0:
		fail(pre+"ReadPacket/not-self-delimiting", size, c, "%d bytes unread after the only frame", a.in.unread())
	}
}

var duplexFired int64

// ---------------------------------------------------------------------------------------------
// part: concat

type frameSpec struct {
	id, typ int32
	pl      []byte
}

var frameAlpha []frameSpec

func initAlpha() {
	frameAlpha = []frameSpec{
		{0, 0, nil},
		{1, 2, []byte("x")},
		{-1, 3, []byte("a\x00b")},
		{math.MaxInt32, 0, payload("ascii", refrcon.MaxPayload)},
		{math.MinInt32, -1, []byte{0xff, 0xfe}},
		{7, 2, refrcon.Frame(9, 9, []byte("zz"))}, // a payload that looks like a frame
	}
}

func judgeConcat(c Case) {
	size := len(c.Frames)
	var want []byte
	for _, fi := range c.Frames {
		f := frameAlpha[fi]
		want = append(want, refrcon.Frame(f.id, f.typ, f.pl)...)
	}
	// write side
	if c.Chunk == 0 && !c.EOF && !c.Stutter {
		a, b := duplex()
		w := &mcnet.RCONConn{Conn: a}
		bad := false
		for k, fi := range c.Frames {
			f := frameAlpha[fi]
			var err error
			if guard("concat/WritePacket", size, c, func() { err = w.WritePacket(f.id, f.typ, string(f.pl)) }) {
				return
			}
			if err != nil {
				fail("concat/WritePacket/error", size, c, "WritePacket #%d returned %v", k, err)
				bad = true
				break
			}
		}
		rep.Eval(1)
		if !bad {
			got := b.in.take()
			if !bytes.Equal(got, want) {
				fail("concat/WritePacket/stream-differs-from-layout", size, c, "%d frames written as %s, reference stream %s", len(c.Frames), clip(got), clip(want))
			} else if ps, err := refrcon.ParseAll(got); err != nil || len(ps) != len(c.Frames) {
				engine.HarnessError("reference cannot split its own stream: %v", err)
			}
		}
	}
	// read side
	a, b := duplex()
	c.reader(a)
	b.out.put(want)
	r := &mcnet.RCONConn{Conn: a}
	consumed := 0
	held := make([]string, 0, len(c.Frames)) // every payload handed out so far; none may change afterwards
	for k, fi := range c.Frames {
		f := frameAlpha[fi]
		var (
			id, typ int32
			p       string
			err     error
		)
		if guard("concat/ReadPacket", size, c, func() { id, typ, p, err = r.ReadPacket() }) {
			return
		}
		consumed += 14 + len(f.pl)
		pos := "first"
		if k > 0 {
			pos = "later"
		}
		if err != nil {
			fail("concat/ReadPacket/error-on-valid-stream/"+pos+c.device(), size, c, "ReadPacket #%d returned %v", k, err)
			rep.Eval(1)
			return
		}
		if id != f.id || typ != f.typ || p != string(f.pl) {
			fail("concat/ReadPacket/wrong-frame/"+pos+c.device(), size, c, "ReadPacket #%d = (%d,%d,%s), written (%d,%d,%s)", k, id, typ, clip([]byte(p)), f.id, f.typ, clip(f.pl))
			rep.Eval(1)
			return
		}
		if un := a.in.unread(); un != len(want)-consumed {
			fail("concat/ReadPacket/not-self-delimiting/"+pos, size, c, "after frame #%d %d bytes unread, expected %d", k, un, len(want)-consumed)
			rep.Eval(1)
			return
		}
		held = append(held, p)
	}
	rep.Eval(1)
	for k, h := range held {
		if h != string(frameAlpha[c.Frames[k]].pl) {
			fail("concat/ReadPacket/earlier-payload-changed-by-later-read", size, c, "the payload returned for frame #%d reads %s after the later frames were read; it was %s", k, clip([]byte(h)), clip(frameAlpha[c.Frames[k]].pl))
			return
		}
	}
	// one more read on the exhausted stream: nothing is specified beyond "no frame is there"; must not panic
	guard("concat/ReadPacket-at-end", size, c, func() { r.ReadPacket() })
}

// ---------------------------------------------------------------------------------------------
// part: declared lengths

var sawLargeAccepted int32 // set when a length in (4096, 1 MiB] with a full body was accepted

func judgeDeclared(c Case) {
	d := c.Declared
	// body: id, type, then payload bytes so that BodyLen bytes follow the length field
	body := make([]byte, c.BodyLen)
	for i := range body {
		body[i] = 'q'
	}
	if len(body) >= 8 {
		copy(body, []byte{5, 0, 0, 0, 2, 0, 0, 0})
	}
	if len(body) >= 10 {
		body[len(body)-1], body[len(body)-2] = 0, 0
	}
	raw := []byte{byte(d), byte(d >> 8), byte(d >> 16), byte(d >> 24)}
	raw = append(raw, body...)
	if d >= 8 && d == int32(c.BodyLen) && d <= 1<<20 {
		// cross-check the hand-assembled bytes with the reference writer
		plLen := int(d) - 10
		if plLen >= 0 {
			pl := bytes.Repeat([]byte{'q'}, plLen)
			if !bytes.Equal(raw, refrcon.FrameDeclared(d, 5, 2, pl)) {
				engine.HarnessError("declared-length frame assembly differs from refrcon for %d", d)
			}
		}
	}
	verdict := refrcon.Verdict(d)
	a, b := duplex()
	b.out.put(raw)
	r := &mcnet.RCONConn{Conn: a}
	var (
		id, typ int32
		p       string
		err     error
	)
	size := c.BodyLen
	side := "in-range"
	if verdict == refrcon.ErrTooShort {
		side = "below-minimum"
		if d < 0 {
			side = "negative"
		}
	} else if verdict == refrcon.ErrTooLarge {
		side = "above-limit"
	}
	kind, frame, panicked := engine.Guard(func() { id, typ, p, err = r.ReadPacket() })
	rep.Eval(1)
	if panicked {
		fail("declared/ReadPacket/panic/"+side+"/"+frame+"/"+kind, size, c, "declared length %d (%d body bytes available): panic %s in %s", d, c.BodyLen, kind, frame)
		return
	}
	switch {
	case verdict != nil && err == nil:
		if d > refrcon.MaxLength {
			atomic.StoreInt32(&sawLargeAccepted, 1)
		}
		fail("declared/ReadPacket/accepted/"+side, size, c, "declared length %d (%v) with %d body bytes available was accepted: (%d,%d,%d-byte payload)", d, verdict, c.BodyLen, id, typ, len(p))
	case verdict == nil && int(d) == c.BodyLen:
		want := string(body[8 : len(body)-2])
		if err != nil {
			fail("declared/ReadPacket/rejected-in-range/"+lenShape(int(d)-10), size, c, "declared length %d with a complete body was rejected: %v", d, err)
		} else if id != 5 || typ != 2 || p != want {
			fail("declared/ReadPacket/wrong-frame/"+lenShape(int(d)-10), size, c, "declared length %d: got (%d,%d,%d bytes)", d, id, typ, len(p))
		}
	case verdict == nil:
		// in range but the body is shorter than declared: a truncated stream (C09's subject), not fixed by this statement
		rep.Unspec(1)
	}
}

// ---------------------------------------------------------------------------------------------
// part: login (TCP) and scripts (TCP)

type tcpResult struct {
	clientLoginErr error
	serverLoginErr error
	serverCmds     []string
	serverErrs     []error
	clientResps    []string
	clientErrs     []error
	harness        error
}

func isTimeout(err error) bool {
	var ne net.Error
	return err != nil && (errors.Is(err, os.ErrDeadlineExceeded) || (errors.As(err, &ne) && ne.Timeout()) || strings.Contains(err.Error(), "i/o timeout"))
}

// runTCP runs one session: real DialRCON against real ListenRCON/AcceptLogin, then the script.
func runTCP(clientPw, serverPw string, cmds, resps []string) (res tcpResult) {
	l, err := mcnet.ListenRCON("127.0.0.1:0")
	if err != nil {
		res.harness = fmt.Errorf("listen: %w", err)
		return
	}
	defer l.Close()
	if tl, ok := l.Listener.(*net.TCPListener); ok {
		tl.SetDeadline(time.Now().Add(ioDeadline))
	}
	g := newSessionGuard()
	g.add(l)
	type srvOut struct {
		loginErr error
		cmds     []string
		errs     []error
		harness  error
	}
	ch := make(chan srvOut, 1)
	go func() {
		var o srvOut
		defer func() { ch <- o }()
		conn, err := l.Accept()
		if err != nil {
			o.harness = fmt.Errorf("accept: %w", err)
			return
		}
		defer conn.Close()
		g.add(conn)
		if rc, ok := conn.(*mcnet.RCONConn); ok {
			rc.SetDeadline(time.Now().Add(ioDeadline))
		}
		o.loginErr = conn.AcceptLogin(serverPw)
		if o.loginErr != nil {
			return
		}
		for i := range cmds {
			cmd, err := conn.AcceptCmd()
			o.cmds = append(o.cmds, cmd)
			o.errs = append(o.errs, err)
			if err != nil {
				return
			}
			if err := conn.RespCmd(resps[i]); err != nil {
				o.errs[len(o.errs)-1] = fmt.Errorf("RespCmd: %w", err)
				return
			}
		}
	}()
	client, cerr := mcnet.DialRCON(l.Addr().String(), clientPw)
	res.clientLoginErr = cerr
	if cerr == nil {
		if rc, ok := client.(*mcnet.RCONConn); ok {
			rc.SetDeadline(time.Now().Add(ioDeadline))
		}
		for i := range cmds {
			err := client.Cmd(cmds[i])
			if err != nil {
				res.clientErrs = append(res.clientErrs, fmt.Errorf("Cmd: %w", err))
				res.clientResps = append(res.clientResps, "")
				break
			}
			r, err := client.Resp()
			res.clientResps = append(res.clientResps, r)
			res.clientErrs = append(res.clientErrs, err)
			if err != nil {
				break
			}
		}
		client.Close()
	} else if rc, ok := client.(*mcnet.RCONConn); ok && rc != nil && rc.Conn != nil {
		rc.Close()
	}
	o := <-ch
	res.serverLoginErr, res.serverCmds, res.serverErrs, res.harness = o.loginErr, o.cmds, o.errs, o.harness
	if g.finish() {
		res.harness = errors.New("the session stalled (both peers blocked for good) and was broken up")
	}
	for _, e := range append(append([]error{res.clientLoginErr, res.serverLoginErr}, res.clientErrs...), res.serverErrs...) {
		if isTimeout(e) {
			res.harness = fmt.Errorf("backstop I/O deadline (%v) hit: %v", ioDeadline, e)
		}
	}
	return
}

var (
	memPhaseFailed bool  // set before the TCP phase starts
	tcpAborted     int32 // set when a TCP session hit its I/O deadline after the in-memory phase had already failed
)

// tcpTrouble handles a TCP session that could not be judged (deadline, listen/accept failure). On a tree whose
// in-memory phase passed this is a harness error (exit 2). When the in-memory phase already reported violations
// (e.g. broken framing makes the peers wait for each other) the TCP phase is abandoned and reported as a cap.
func tcpTrouble(c Case, err error) {
	if !memPhaseFailed {
		engine.HarnessError("TCP session %+v: %v", c, err)
	}
	if atomic.CompareAndSwapInt32(&tcpAborted, 0, 1) {
		rep.Cap("TCP phase abandoned: a loopback session could not be completed (%v) after the in-memory phase had already reported violations", err)
	}
}

func pick(alpha []string, idx []int) []string {
	out := make([]string, len(idx))
	for i, k := range idx {
		out[i] = alpha[k]
	}
	return out
}

func pwRel(i, j int) string {
	if i == j {
		return "equal"
	}
	a, b := passwords[i], passwords[j]
	switch {
	case a == "" || b == "":
		return "one-empty"
	case strings.EqualFold(a, b):
		return "case-differs"
	case strings.HasPrefix(a, b) || strings.HasPrefix(b, a):
		return "prefix"
	case strings.HasSuffix(a, b) || strings.HasSuffix(b, a):
		return "suffix"
	case strings.TrimSpace(a) == strings.TrimSpace(b):
		return "blank-trimmed-equal"
	case strings.ToValidUTF8(a, "\ufffd") == strings.ToValidUTF8(b, "\ufffd"):
		return "equal-after-utf8-repair"
	}
	return "different"
}

func judgeLoginTCP(c Case) {
	cpw, spw, rel, eqName := pwOf(c)
	res := runTCP(cpw, spw, pick(commands, c.Cmds), pick(responses, c.Resps))
	if res.harness != nil {
		tcpTrouble(c, res.harness)
		return
	}
	rep.Eval(1)
	size := len(c.Cmds)*10 + c.ClientPw + c.ServerPw + c.PwLen
	if cpw == spw {
		if res.clientLoginErr != nil {
			fail("login/tcp/DialRCON/error-with-equal-passwords/"+eqName, size, c, "DialRCON with the server's password failed: %v", res.clientLoginErr)
			return
		}
		if res.serverLoginErr != nil {
			fail("login/tcp/AcceptLogin/error-with-equal-passwords/"+eqName, size, c, "AcceptLogin with the client's password failed: %v", res.serverLoginErr)
			return
		}
	} else {
		if res.clientLoginErr == nil {
			fail("login/tcp/DialRCON/no-error-with-wrong-password/"+rel, size, c, "DialRCON(%q) succeeded against server password %q", clipS(cpw), clipS(spw))
		}
		if res.serverLoginErr == nil {
			fail("login/tcp/AcceptLogin/no-error-with-wrong-password/"+rel, size, c, "AcceptLogin(%q) returned nil for client password %q", clipS(spw), clipS(cpw))
		}
		return
	}
	// script
	for i := range c.Cmds {
		step := "first"
		if i > 0 {
			step = "later"
		}
		if i >= len(res.serverCmds) {
			fail("script/tcp/AcceptCmd/missing/"+step, size, c, "server never saw command #%d", i)
			return
		}
		if res.serverErrs[i] != nil {
			fail("script/tcp/server/error/"+step, size, c, "server side failed on command #%d: %v", i, res.serverErrs[i])
			return
		}
		if res.serverCmds[i] != commands[c.Cmds[i]] {
			fail("script/tcp/AcceptCmd/command-not-verbatim/"+step, size, c, "command #%d arrived as %s, sent %s", i, clip([]byte(res.serverCmds[i])), clip([]byte(commands[c.Cmds[i]])))
			return
		}
		if i >= len(res.clientErrs) {
			fail("script/tcp/Resp/missing/"+step, size, c, "client never got response #%d", i)
			return
		}
		if res.clientErrs[i] != nil {
			fail("script/tcp/Resp/error-on-matching-response/"+step, size, c, "client failed on response #%d: %v", i, res.clientErrs[i])
			return
		}
		if res.clientResps[i] != responses[c.Resps[i]] {
			fail("script/tcp/Resp/response-not-verbatim/"+step, size, c, "response #%d arrived as %s, sent %s", i, clip([]byte(res.clientResps[i])), clip([]byte(responses[c.Resps[i]])))
			return
		}
	}
}

func clipS(s string) string {
	if len(s) > 16 {
		return fmt.Sprintf("%s…(%d bytes)", s[:8], len(s))
	}
	return s
}

// ---------------------------------------------------------------------------------------------
// part: login in memory (server side against a refrcon-scripted client)

func judgeLoginMem(c Case) {
	srvEnd, peer := duplex()
	c.reader(srvEnd)
	srv := &mcnet.RCONConn{Conn: srvEnd}
	cpw, spw, rel, eqName := pwOf(c)
	loginAttempt("login/mem", c.ClientPw+c.ServerPw+c.PwLen, c, srv, peer, c.ReqID, cpw, spw, rel, eqName)
}

// pwOf gives the two passwords of a login case with the names used in class strings: from the password alphabet,
// or (PwLen > 0) a pair of long passwords built by longPasswords.
func pwOf(c Case) (cpw, spw, rel, eqName string) {
	if c.PwLen > 0 {
		return longPasswords(c)
	}
	return passwords[c.ClientPw], passwords[c.ServerPw], pwRel(c.ClientPw, c.ServerPw), pwNames[c.ClientPw]
}

// loginAttempt lets a refrcon-scripted client present cpw under request id reqID to srv.AcceptLogin(spw) and judges
// the verdict and the reply. It returns false when the attempt failed the oracle.
func loginAttempt(prefix string, size int, c Case, srv *mcnet.RCONConn, peer *memConn, reqID int32, cpw, spw, rel, eqName string) bool {
	peer.out.put(refrcon.Frame(reqID, refrcon.TypeLogin, []byte(cpw)))
	var err error
	if guard(prefix+"/AcceptLogin", size, c, func() { err = srv.AcceptLogin(spw) }) {
		return false
	}
	rep.Eval(1)
	out := peer.in.take()
	ps, perr := refrcon.ParseAll(out)
	dev := c.device()
	if cpw == spw {
		switch {
		case err != nil:
			fail(prefix+"/AcceptLogin/error-with-equal-passwords/"+eqName+dev, size, c, "AcceptLogin failed with equal passwords: %v", err)
		case perr != nil || len(ps) != 1:
			fail(prefix+"/AcceptLogin/response-not-one-frame", size, c, "login response bytes %s: %v", clip(out), perr)
		case ps[0].ID != reqID:
			fail(prefix+"/AcceptLogin/success-not-echoing-request-id/"+idShape(reqID), size, c, "login response id %d, request id %d", ps[0].ID, reqID)
		default:
			return true
		}
	} else {
		switch {
		case err == nil:
			fail(prefix+"/AcceptLogin/no-error-with-wrong-password/"+rel, size, c, "AcceptLogin returned nil for a wrong password (client %q, server %q)", clipS(cpw), clipS(spw))
		case perr != nil || len(ps) != 1:
			// the server reported the rejection locally; what it sends is the login-failure signal or nothing legible
			fail(prefix+"/AcceptLogin/rejection-not-one-frame", size, c, "rejection bytes %s: %v", clip(out), perr)
		case ps[0].ID != -1:
			fail(prefix+"/AcceptLogin/rejection-not-signalled-with-minus-one", size, c, "rejection response id %d, expected -1", ps[0].ID)
		default:
			return true
		}
	}
	return false
}

// ---------------------------------------------------------------------------------------------
// part: scripts in memory (real client methods against real server methods)

func judgeScriptMem(c Case) {
	ce, se := duplex()
	c.reader(ce)
	c.reader(se)
	cli := &mcnet.RCONConn{Conn: ce, ReqID: c.ReqID}
	srv := &mcnet.RCONConn{Conn: se}
	size := len(c.Cmds)
	dev := c.device()
	rep.Eval(1)
	if c.Login {
		// a scripted client logs in under c.ReqID with the server's password before the commands start
		ce.out.put(refrcon.Frame(c.ReqID, refrcon.TypeLogin, []byte(passwords[c.ServerPw])))
		var err error
		if guard("script/mem/AcceptLogin", size, c, func() { err = srv.AcceptLogin(passwords[c.ServerPw]) }) {
			return
		}
		out := ce.in.take()
		ps, perr := refrcon.ParseAll(out)
		if err != nil {
			fail("script/mem/AcceptLogin/error-with-equal-passwords"+dev, size, c, "AcceptLogin failed with equal passwords: %v", err)
			return
		}
		if perr != nil || len(ps) != 1 || ps[0].ID != c.ReqID {
			fail("script/mem/AcceptLogin/success-not-echoing-request-id"+dev, size, c, "login response bytes %s (%v), request id %d", clip(out), perr, c.ReqID)
			return
		}
	}
	var heldCmds, heldResps []string
	for i := range c.Cmds {
		step := "first"
		if i > 0 {
			step = "later"
		}
		idNote := idShape(c.ReqID)
		if c.IDs != nil {
			// the client moves on to another request id for this command
			cli.ReqID = c.IDs[i]
			idNote = "id-unchanged"
			if (i == 0 && c.Login && c.IDs[0] != c.ReqID) || (i > 0 && c.IDs[i] != c.IDs[i-1]) {
				idNote = "id-changed"
			}
		}
		cmd, resp := commands[c.Cmds[i]], responses[c.Resps[i]]
		cmdShape, respShape := textShape(commands, c.Cmds[i]), textShape(responses, c.Resps[i])
		var err error
		if guard("script/mem/Cmd", size, c, func() { err = cli.Cmd(cmd) }) {
			return
		}
		if err != nil {
			fail("script/mem/Cmd/error/"+cmdShape, size, c, "Cmd #%d returned %v", i, err)
			return
		}
		var got string
		if guard("script/mem/AcceptCmd", size, c, func() { got, err = srv.AcceptCmd() }) {
			return
		}
		if err != nil {
			fail("script/mem/AcceptCmd/error-on-command/"+step+dev, size, c, "AcceptCmd #%d returned %v", i, err)
			return
		}
		if got != cmd {
			fail("script/mem/AcceptCmd/command-not-verbatim/"+cmdShape, size, c, "command #%d arrived as %s, sent %s", i, clip([]byte(got)), clip([]byte(cmd)))
			return
		}
		heldCmds = append(heldCmds, got)
		if guard("script/mem/RespCmd", size, c, func() { err = srv.RespCmd(resp) }) {
			return
		}
		if err != nil {
			fail("script/mem/RespCmd/error/"+respShape, size, c, "RespCmd #%d returned %v", i, err)
			return
		}
		if guard("script/mem/Resp", size, c, func() { got, err = cli.Resp() }) {
			return
		}
		if err != nil {
			fail("script/mem/Resp/error-on-matching-response/"+step+"/"+idNote+dev, size, c, "Resp #%d returned %v for the server's answer to request id %d", i, err, cli.ReqID)
			return
		}
		if got != resp {
			fail("script/mem/Resp/response-not-verbatim/"+respShape, size, c, "response #%d arrived as %s, sent %s", i, clip([]byte(got)), clip([]byte(resp)))
			return
		}
		heldResps = append(heldResps, got)
		if ce.in.unread() != 0 || se.in.unread() != 0 {
			fail("script/mem/stream/leftover-bytes/"+step, size, c, "after step #%d %d/%d bytes are unread", i, ce.in.unread(), se.in.unread())
			return
		}
	}
	// what was handed out earlier must still read the same after the later steps
	for i := range heldCmds {
		if heldCmds[i] != commands[c.Cmds[i]] {
			fail("script/mem/AcceptCmd/earlier-command-changed-by-later-read", size, c, "the command returned by AcceptCmd #%d reads %s after the later steps; sent %s", i, clip([]byte(heldCmds[i])), clip([]byte(commands[c.Cmds[i]])))
			return
		}
	}
	for i := range heldResps {
		if heldResps[i] != responses[c.Resps[i]] {
			fail("script/mem/Resp/earlier-response-changed-by-later-read", size, c, "the response returned by Resp #%d reads %s after the later steps; sent %s", i, clip([]byte(heldResps[i])), clip([]byte(responses[c.Resps[i]])))
			return
		}
	}
}

// ---------------------------------------------------------------------------------------------
// part: adversary (scripted peer answers the real client)

// answer ids: the four original kinds, then three that a partial comparison would let through (the predecessor, an
// id equal in the low 16 bits, the same magnitude bits under the other sign)
var idKinds = []string{"right-id", "id+1", "minus-one", "zero", "id-1", "low16-equal", "sign-flipped"}

// nAns answers per step: idKind*2 + typeKind (type 0 / type 2)
var nAns = len(idKinds) * 2

func answerID(req int32, kind int) int32 {
	switch kind {
	case 0:
		return req
	case 1:
		return req + 1 // wraps at MaxInt32, still != req
	case 2:
		return -1
	case 4:
		return req - 1 // wraps at MinInt32, still != req
	case 5:
		return req ^ 0x10000
	case 6:
		return req ^ math.MinInt32
	}
	return 0
}

func judgeAdversaryMem(c Case) {
	ce, pe := duplex()
	cli := &mcnet.RCONConn{Conn: ce, ReqID: c.ReqID}
	size := len(c.Cmds)
	rep.Eval(1)
	for i := range c.Cmds {
		cmd := commands[c.Cmds[i]]
		idKind, typ := c.Answers[i]/2, int32(c.Answers[i]%2*2)
		var err error
		if guard("adversary/mem/Cmd", size, c, func() { err = cli.Cmd(cmd) }) {
			return
		}
		sent := pe.in.take()
		if err != nil {
			fail("adversary/mem/Cmd/error/"+lenShape(len(cmd)), size, c, "Cmd #%d returned %v", i, err)
			return
		}
		if want := refrcon.Frame(c.ReqID, refrcon.TypeCommand, []byte(cmd)); !bytes.Equal(sent, want) {
			fail("adversary/mem/Cmd/bytes-differ-from-layout/"+lenShape(len(cmd)), size, c, "Cmd #%d wrote %s, reference %s", i, clip(sent), clip(want))
			return
		}
		aid := answerID(c.ReqID, idKind)
		pe.out.put(refrcon.Frame(aid, typ, []byte("r")))
		var got string
		if guard("adversary/mem/Resp", size, c, func() { got, err = cli.Resp() }) {
			return
		}
		step := "first"
		if i > 0 {
			step = "later"
		}
		switch {
		case aid != c.ReqID && err == nil:
			fail("adversary/mem/Resp/accepted-under-foreign-id/"+idKinds[idKind]+"/"+step, size, c, "request id in use %d; a frame with id %d type %d was accepted as the response %q", c.ReqID, aid, typ, got)
			return
		case aid == c.ReqID && typ == 0 && err != nil:
			fail("adversary/mem/Resp/rejected-matching-response/"+step, size, c, "request id in use %d; the response with that id and type 0 was rejected: %v", c.ReqID, err)
			return
		case aid == c.ReqID && typ == 0 && got != "r":
			fail("adversary/mem/Resp/response-not-verbatim/"+step, size, c, "response payload %q, sent \"r\"", got)
			return
		case aid == c.ReqID && typ != 0:
			rep.Unspec(1) // right id under a non-response type: the statement fixes only the id rule
		}
		if ce.in.unread() != 0 {
			fail("adversary/mem/Resp/leftover-bytes/"+step, size, c, "%d bytes unread after Resp #%d", ce.in.unread(), i)
			return
		}
	}
}

// readFrameTCP reads one frame from a raw TCP connection using the reference parser.
func readFrameTCP(conn net.Conn) (refrcon.Packet, []byte, error) {
	var buf []byte
	tmp := make([]byte, 8192)
	for {
		p, n, err := refrcon.Parse(buf)
		if err == nil {
			return p, buf[:n], nil
		}
		if err != refrcon.ErrTruncated {
			return p, buf, err
		}
		k, rerr := conn.Read(tmp)
		buf = append(buf, tmp[:k]...)
		if rerr != nil && k == 0 {
			return p, buf, rerr
		}
	}
}

// judgeAdversaryTCP: real DialRCON against a scripted TCP server.
func judgeAdversaryTCP(c Case) {
	l, err := net.Listen("tcp", "127.0.0.1:0")
	if err != nil {
		engine.HarnessError("listen: %v", err)
	}
	defer l.Close()
	l.(*net.TCPListener).SetDeadline(time.Now().Add(ioDeadline))
	g := newSessionGuard()
	g.add(l)
	pw := passwords[c.ClientPw]
	idKind, typ := c.LoginAns/2, int32(c.LoginAns%2*2)
	type out struct {
		login   refrcon.Packet
		raw     []byte
		cmd     refrcon.Packet
		cmdRaw  []byte
		gotCmd  bool
		harness error
	}
	ch := make(chan out, 1)
	go func() {
		var o out
		defer func() { ch <- o }()
		conn, err := l.Accept()
		if err != nil {
			o.harness = err
			return
		}
		defer conn.Close()
		g.add(conn)
		conn.SetDeadline(time.Now().Add(ioDeadline))
		o.login, o.raw, err = readFrameTCP(conn)
		if err != nil {
			o.harness = fmt.Errorf("reading the login frame (%x): %w", o.raw, err)
			return
		}
		conn.Write(refrcon.Frame(answerID(o.login.ID, idKind), typ, nil))
		if len(c.Cmds) > 0 {
			p, raw, err := readFrameTCP(conn)
			if err != nil {
				return // client gave up after the login answer: fine
			}
			o.cmd, o.cmdRaw, o.gotCmd = p, raw, true
			k, t := c.Answers[0]/2, int32(c.Answers[0]%2*2)
			conn.Write(refrcon.Frame(answerID(p.ID, k), t, []byte("r")))
		}
	}()
	client, cerr := mcnet.DialRCON(l.Addr().String(), pw)
	var respErr error
	var resp string
	didCmd := false
	if cerr == nil && len(c.Cmds) > 0 {
		if rc, ok := client.(*mcnet.RCONConn); ok {
			rc.SetDeadline(time.Now().Add(ioDeadline))
		}
		if err := client.Cmd(commands[c.Cmds[0]]); err == nil {
			didCmd = true
			resp, respErr = client.Resp()
		}
	}
	if rc, ok := client.(*mcnet.RCONConn); ok && rc != nil && rc.Conn != nil {
		rc.Close()
	}
	o := <-ch
	if stalled := g.finish(); stalled || o.harness != nil || isTimeout(cerr) || isTimeout(respErr) {
		tcpTrouble(c, fmt.Errorf("scripted TCP server (stalled=%v): %v / %v / %v", stalled, o.harness, cerr, respErr))
		return
	}
	rep.Eval(1)
	size := c.LoginAns + 10*len(c.Cmds)
	// the login frame itself
	if want := refrcon.Frame(o.login.ID, refrcon.TypeLogin, []byte(pw)); !bytes.Equal(o.raw, want) {
		fail("adversary/tcp/DialRCON/login-frame-differs-from-layout/"+pwNames[c.ClientPw], size, c, "DialRCON sent %s, reference login frame %s", clip(o.raw), clip(want))
		return
	}
	aid := answerID(o.login.ID, idKind)
	switch {
	case aid == -1 && cerr == nil:
		fail("adversary/tcp/DialRCON/accepted-login-failure-signal", size, c, "server answered the login with id -1 (type %d); DialRCON returned no error", typ)
		return
	case aid == o.login.ID && typ == 2 && cerr != nil:
		fail("adversary/tcp/DialRCON/rejected-login-success", size, c, "server echoed request id %d with type 2; DialRCON failed: %v", aid, cerr)
		return
	case aid != o.login.ID && aid != -1, aid == o.login.ID && typ != 2:
		rep.Unspec(1) // neither the echo nor the failure signal / echo under an unusual type
	}
	if didCmd && o.gotCmd {
		if want := refrcon.Frame(o.login.ID, refrcon.TypeCommand, []byte(commands[c.Cmds[0]])); !bytes.Equal(o.cmdRaw, want) {
			fail("adversary/tcp/Cmd/bytes-differ-from-layout", size, c, "Cmd sent %s, reference (under the login's request id %d) %s", clip(o.cmdRaw), o.login.ID, clip(want))
			return
		}
		k, t := c.Answers[0]/2, int32(c.Answers[0]%2*2)
		rid := answerID(o.cmd.ID, k)
		switch {
		case rid != o.cmd.ID && respErr == nil:
			fail("adversary/tcp/Resp/accepted-under-foreign-id/"+idKinds[k], size, c, "request id %d; a frame with id %d type %d was accepted as %q", o.cmd.ID, rid, t, resp)
		case rid == o.cmd.ID && t == 0 && (respErr != nil || resp != "r"):
			fail("adversary/tcp/Resp/rejected-matching-response", size, c, "request id %d; the matching response was not delivered: %q %v", o.cmd.ID, resp, respErr)
		case rid == o.cmd.ID && t != 0:
			rep.Unspec(1)
		}
	}
}

// ---------------------------------------------------------------------------------------------
// part: adversarial clients against the real server side (in memory)

var advTypes = []int32{3, 2, 0, -1}

func judgeAdvClient(c Case) {
	se, pe := duplex()
	srv := &mcnet.RCONConn{Conn: se}
	size := c.Types[0] + c.ClientPw
	loginType := advTypes[c.Types[0]]
	pe.out.put(refrcon.Frame(c.ReqID, loginType, []byte(passwords[c.ClientPw])))
	var err error
	if guard("advclient/AcceptLogin", size, c, func() { err = srv.AcceptLogin(passwords[c.ServerPw]) }) {
		return
	}
	rep.Eval(1)
	pe.in.take()
	switch {
	case c.ClientPw != c.ServerPw && err == nil:
		fail("advclient/AcceptLogin/no-error-with-wrong-password/type-"+fmt.Sprint(loginType), size, c, "a type-%d frame carrying a wrong password was accepted as a login", loginType)
		return
	case c.ClientPw == c.ServerPw && loginType == 3 && err != nil:
		fail("advclient/AcceptLogin/error-with-equal-passwords", size, c, "login rejected: %v", err)
		return
	case c.ClientPw == c.ServerPw && loginType != 3:
		rep.Unspec(1) // the right password under a non-login type: not covered by the statement
	}
	if len(c.Types) < 2 {
		return
	}
	cmdType := advTypes[c.Types[1]]
	pe.out.put(refrcon.Frame(c.ReqID, cmdType, []byte("list all")))
	var got string
	if guard("advclient/AcceptCmd", size, c, func() { got, err = srv.AcceptCmd() }) {
		return
	}
	rep.Eval(1)
	if cmdType == 2 {
		if err != nil || got != "list all" {
			fail("advclient/AcceptCmd/command-not-verbatim", size, c, "AcceptCmd = %q, %v", got, err)
		}
	} else {
		rep.Unspec(1) // a non-command frame where a command is expected
	}
}

// ---------------------------------------------------------------------------------------------

func judge(c Case) {
	switch c.Part {
	case "frame":
		judgeFrame(c)
	case "concat":
		judgeConcat(c)
	case "declared":
		judgeDeclared(c)
	case "login-tcp", "script-tcp":
		if atomic.LoadInt32(&tcpAborted) == 0 {
			judgeLoginTCP(c)
		}
	case "login-mem":
		judgeLoginMem(c)
	case "script-mem":
		judgeScriptMem(c)
	case "adversary-mem":
		judgeAdversaryMem(c)
	case "adversary-tcp":
		if atomic.LoadInt32(&tcpAborted) == 0 {
			judgeAdversaryTCP(c)
		}
	case "advclient":
		judgeAdvClient(c)
	case "frame-write":
		judgeFrameWrite(c)
	case "frame-duplex":
		judgeFrameDuplex(c)
	case "login-hist":
		judgeLoginHist(c)
	case "listener-hist":
		if atomic.LoadInt32(&tcpAborted) == 0 {
			judgeListenerHist(c)
		}
	default:
		engine.HarnessError("unknown part %q", c.Part)
	}
}

// seqs calls f with every index sequence of length 1..maxLen over [0,k).
func seqs(k, maxLen int, f func(s []int)) {
	var rec func(s []int)
	rec = func(s []int) {
		if len(s) > 0 {
			f(append([]int(nil), s...))
		}
		if len(s) == maxLen {
			return
		}
		for i := 0; i < k; i++ {
			rec(append(s, i))
		}
	}
	rec(nil)
}

func runAll(cases []Case) {
	engine.ParallelFor(len(cases), func(_, i int) { judge(cases[i]) })
}

func main() {
	rep = engine.NewReport("C16")
	rep.Rule = "nested-loop products, one case per tuple: frame=(id,type,payload kind,length,reader device) incl. every payload length 0..limit+1; concat=index sequence over a 6-frame alphabet (+ a 20-frame chain); declared=(length field, bytes available); login=(client password, server password) ordered pairs; script=(command,response) sequences; adversary=(command, answer id kind x type) sequences; long passwords=(length, relation, position, side); login-hist / listener-hist=password sequences on one connection / one listener; request-id histories=(login id, id per command) sequences; verbatim=ordered pairs of menu texts. Enumeration is injective, so distinct = cases; all are non-trivial (each reaches ReadPacket/WritePacket or a full session)"
	initAlpha()
	if err := refrcon.SelfTest(); err != nil {
		engine.HarnessError("refrcon self-test: %v", err)
	}
	if rep.ReplayPath != "" {
		rp, err := engine.LoadReplay(rep.ReplayPath)
		if err != nil {
			engine.HarnessError("cannot load replay: %v", err)
		}
		var c Case
		if err := json.Unmarshal(rp.Case, &c); err != nil {
			engine.HarnessError("bad case: %v", err)
		}
		fmt.Printf("replaying %s case %s\n", c.Part, string(rp.Case))
		for i := 0; i < 5; i++ {
			judge(c)
		}
		rep.Finish()
	}
	th := rep.Thorough()

	// ---- frame
	ids := []int32{0, 1, -1, math.MaxInt32, math.MinInt32}
	types := []int32{0, 2, 3, -1}
	lens := []int{0, 1, 2, refrcon.MaxPayload - 1, refrcon.MaxPayload, refrcon.MaxPayload + 1}
	chunks := []int{0, 1, 5}
	if th {
		ids = append(ids, 2, 255, 256, 65536, 0x01020304, -2, -256)
		types = append(types, 1, 4, math.MaxInt32, math.MinInt32)
		lens = nil
		for n := 0; n <= 80; n++ {
			lens = append(lens, n)
		}
		for n := 240; n <= 272; n++ {
			lens = append(lens, n)
		}
		for n := refrcon.MaxPayload - 16; n <= refrcon.MaxPayload+2; n++ {
			lens = append(lens, n)
		}
		chunks = []int{0, 1, 3, 4, 5, 13}
	}
	kinds := []string{"ascii", "nul", "nonutf8", "space"}
	// reader devices: whole reads and fragments as before, then the same with the last bytes arriving together
	// with io.EOF (the frame ends the stream), and a reader that answers (0, nil) every other call
	type device struct {
		chunk        int
		eof, stutter bool
	}
	var devices []device
	for _, ch := range chunks {
		devices = append(devices, device{chunk: ch})
	}
	for _, ch := range chunks {
		devices = append(devices, device{chunk: ch, eof: true})
	}
	devices = append(devices, device{stutter: true}, device{chunk: 3, eof: true, stutter: true})
	var devNames []string
	for _, d := range devices {
		devNames = append(devNames, fmt.Sprintf("chunk=%d eof-with-data=%v stutter=%v", d.chunk, d.eof, d.stutter))
	}
	var cases []Case
	// flush judges the cases collected so far and forgets them (the thorough tier would otherwise hold a few million
	// descriptors at once)
	var total, trans int64
	tally := func(cs []Case) {
		total += int64(len(cs))
		for _, c := range cs {
			trans += int64(1 + len(c.Frames) + 2*len(c.Cmds) + len(c.Attempts))
		}
	}
	flush := func() {
		runAll(cases)
		tally(cases)
		cases = cases[:0]
	}
	for _, id := range ids {
		for _, t := range types {
			for _, n := range lens {
				for _, k := range kinds {
					if n == 0 && k != "ascii" {
						continue
					}
					for _, d := range devices {
						cases = append(cases, Case{Part: "frame", ID: id, Type: t, PayloadKind: k, PayloadLen: n, Chunk: d.chunk, EOF: d.eof, Stutter: d.stutter})
					}
				}
			}
		}
	}
	nFrame := len(cases)
	rep.Sample(cases[7])
	flush()

	// ---- frame, every payload length 0..limit+1 (a size class, a small-frame fast path, a buffer growth step may sit
	// anywhere): write + read under four devices for two (id, type) pairs, write alone for the other ids and types
	sweepDevices := []device{{}, {eof: true}, {chunk: 7}, {chunk: 1, eof: true}}
	sweepPairs := [][2]int32{{1, 2}, {-1, 0}}
	sweepKinds := []string{"ascii", "nul"}
	if th {
		sweepDevices = devices
		sweepKinds = kinds
	}
	nSweep, nSweepWrite := 0, 0
	for n := 0; n <= refrcon.MaxPayload+1; n++ {
		for _, k := range sweepKinds {
			if n == 0 && k != "ascii" {
				continue
			}
			for _, it := range sweepPairs {
				for _, d := range sweepDevices {
					cases = append(cases, Case{Part: "frame", ID: it[0], Type: it[1], PayloadKind: k, PayloadLen: n, Chunk: d.chunk, EOF: d.eof, Stutter: d.stutter})
					nSweep++
				}
			}
		}
		for _, id := range ids {
			for _, t := range types {
				cases = append(cases, Case{Part: "frame-write", ID: id, Type: t, PayloadKind: "nonutf8", PayloadLen: n})
				nSweepWrite++
			}
		}
	}
	rep.Sample(Case{Part: "frame", ID: 1, Type: 2, PayloadKind: "ascii", PayloadLen: 1012, EOF: true})
	flush()

	// ---- frame-duplex: both directions of one RCONConn at once, interleaved at every socket call
	nDuplex := 0
	for _, mode := range []string{"read-inside-write", "write-inside-read", "other-connection-writes-inside-write"} {
		for _, n1 := range []int{0, 1, 49, 300} {
			for _, n2 := range []int{0, 3, 70, 1000} {
				for _, chunk := range []int{0, 1, 2, 3, 5} {
					if mode != "write-inside-read" && chunk > 1 {
						continue
					}
					for at := 0; at < 8; at++ {
						cases = append(cases, Case{Part: "frame-duplex", Mode: mode, At: at, ID: 7, Type: 2, PayloadKind: "ascii", PayloadLen: n1,
							ID2: 0x01020304, Type2: 0, PayloadLen2: n2, Chunk: chunk})
						nDuplex++
					}
				}
			}
		}
	}
	flush()
	rep.Count("frame_duplex_cases", int64(nDuplex))
	rep.Count("frame_duplex_cases_in_which_the_other_direction_ran_inside_the_call", duplexFired)

	// ---- concat
	maxSeq := 4
	if th {
		maxSeq = 5
	}
	nConcat := 0
	concatDevices := []device{{}, {chunk: 1}, {chunk: 5}, {eof: true}, {chunk: 5, eof: true}, {chunk: 3, stutter: true}}
	seqs(len(frameAlpha), maxSeq, func(s []int) {
		for _, d := range concatDevices {
			cases = append(cases, Case{Part: "concat", Frames: s, Chunk: d.chunk, EOF: d.eof, Stutter: d.stutter})
			nConcat++
		}
	})
	chain := make([]int, 20)
	for i := range chain {
		chain[i] = (i*5 + 1) % len(frameAlpha)
	}
	for _, d := range concatDevices {
		cases = append(cases, Case{Part: "concat", Frames: chain, Chunk: d.chunk, EOF: d.eof, Stutter: d.stutter})
		nConcat++
	}
	rep.Sample(Case{Part: "concat", Frames: []int{5, 0, 3}})
	flush()

	// ---- declared lengths (small ones here; large ones after the small ones were judged)
	declared := []int32{-1, 0, 1, 2, 3, 4, 5, 6, 7, 8, 9, 10, 11, 4095, 4096, 4097, 4098, -10, -4096, math.MinInt32, math.MinInt32 + 10, 0x0a000000}
	if th {
		for d := int32(-16); d <= 40; d++ {
			declared = append(declared, d)
		}
		for d := int32(4080); d <= 4112; d++ {
			declared = append(declared, d)
		}
		for s := 12; s <= 20; s++ {
			declared = append(declared, 1<<s-1, 1<<s, 1<<s+1)
		}
	}
	nDecl := 0
	addDecl := func(d int32) {
		cand := []int{0, 10, 4096, 8200}
		if d >= 0 && d <= 1<<20 {
			cand = append(cand, int(d)-1, int(d), int(d)+4)
		}
		seen := map[int]bool{}
		for _, b := range cand {
			if b < 0 || seen[b] {
				continue
			}
			seen[b] = true
			cases = append(cases, Case{Part: "declared", Declared: d, BodyLen: b})
			nDecl++
		}
	}
	seenD := map[int32]bool{}
	for _, d := range declared {
		if !seenD[d] {
			seenD[d] = true
			addDecl(d)
		}
	}
	rep.Sample(Case{Part: "declared", Declared: 4097, BodyLen: 4097})

	// ---- login in memory, adversarial clients
	reqIDs := []int32{0, 1, -1, -2, 12345, math.MaxInt32, math.MinInt32} // -1 is the id the protocol answers a refused login with
	nLoginMem := 0
	for i := range passwords {
		for j := range passwords {
			for _, r := range reqIDs {
				cases = append(cases, Case{Part: "login-mem", ClientPw: i, ServerPw: j, ReqID: r})
				nLoginMem++
			}
		}
	}
	// long passwords: every length 1..limit (thorough: every differing position for the boundary lengths)
	var allLens []int
	for n := 1; n <= refrcon.MaxPayload; n++ {
		allLens = append(allLens, n)
	}
	long := longCases("login-mem", allLens, false)
	if th {
		long = append(long, longCases("login-mem", longBoundaryLens, true)...)
	}
	cases = append(cases, long...)
	nLoginLong := len(long)
	rep.Sample(Case{Part: "login-mem", PwLen: 300, Rel: "diff", DiffPos: 299, Altered: "client", ReqID: 5})
	// a few of them through the (n>0, io.EOF) reader
	for _, n := range []int{1, 255, 256, 257, refrcon.MaxPayload} {
		for _, rel := range []string{"equal", "shorter"} {
			cases = append(cases, Case{Part: "login-mem", PwLen: n, Rel: rel, Altered: "client", ReqID: 5, EOF: true})
			nLoginLong++
		}
	}
	// login histories on one connection: every sequence of <= H attempts over {the server's password, a longer one, the empty one}
	histLen := 4
	if th {
		histLen = 6
	}
	nLoginHist := 0
	for _, alpha := range [][]int{{1, 3, 0}, {3, 1, 17}} { // alpha[0] is the server's password
		seqs(len(alpha), histLen, func(s []int) {
			at := make([]int, len(s))
			for i, v := range s {
				at[i] = alpha[v]
			}
			cases = append(cases, Case{Part: "login-hist", ServerPw: alpha[0], Attempts: at})
			nLoginHist++
		})
	}
	rep.Sample(Case{Part: "login-hist", ServerPw: 1, Attempts: []int{3, 1}})
	nAdvClient := 0
	for i := range passwords {
		for j := range passwords {
			for lt := range advTypes {
				cases = append(cases, Case{Part: "advclient", ClientPw: i, ServerPw: j, ReqID: 9, Types: []int{lt}})
				nAdvClient++
				if i == j && lt == 0 {
					for ct := range advTypes {
						cases = append(cases, Case{Part: "advclient", ClientPw: i, ServerPw: j, ReqID: 9, Types: []int{lt, ct}})
						nAdvClient++
					}
				}
			}
		}
	}

	// ---- scripts in memory: (command, response) sequences x request ids
	steps := 3
	if th {
		steps = 4
	}
	nScriptMem := 0
	seqs(histCmds*histResps, steps, func(s []int) {
		cm, rs := make([]int, len(s)), make([]int, len(s))
		for i, v := range s {
			cm[i], rs[i] = v/histResps, v%histResps
		}
		rids := []int32{7}
		if len(s) <= 2 {
			rids = []int32{0, 1, -1, 7, math.MaxInt32, math.MinInt32}
		}
		for _, r := range rids {
			cases = append(cases, Case{Part: "script-mem", ReqID: r, Cmds: cm, Resps: rs})
			nScriptMem++
		}
		if len(s) <= 2 {
			// the same scripts over the (n>0, io.EOF) reader and the stuttering reader
			cases = append(cases, Case{Part: "script-mem", ReqID: 7, Cmds: cm, Resps: rs, EOF: true}, Case{Part: "script-mem", ReqID: 7, Cmds: cm, Resps: rs, Chunk: 3, Stutter: true})
			nScriptMem += 2
		}
	})
	rep.Sample(Case{Part: "script-mem", ReqID: 7, Cmds: []int{2, 0}, Resps: []int{1, 3}})

	// ---- verbatim: every ordered pair of menu texts as a two-step script (text i as command then as response,
	// text j the other way round), so each text also follows and precedes every other on one connection
	nVerbatim := 0
	for i := pairTexts; i < len(texts); i++ {
		// the single texts: as command with the next one as response, and the other way round
		j := pairTexts + (i-pairTexts+1)%(len(texts)-pairTexts)
		cases = append(cases, Case{Part: "script-mem", ReqID: 7, Cmds: []int{histCmds + i}, Resps: []int{histResps + j}},
			Case{Part: "script-mem", ReqID: 7, Cmds: []int{histCmds + j, histCmds + i}, Resps: []int{histResps + i, histResps + j}, Chunk: 3})
		nVerbatim += 2
	}
	for i := range texts[:pairTexts] {
		for j := range texts[:pairTexts] {
			ci, cj := histCmds+i, histCmds+j
			ri, rj := histResps+i, histResps+j
			cases = append(cases, Case{Part: "script-mem", ReqID: 7, Cmds: []int{ci, cj}, Resps: []int{rj, ri}})
			nVerbatim++
		}
	}
	rep.Sample(Case{Part: "script-mem", ReqID: 7, Cmds: []int{histCmds + 8, histCmds}, Resps: []int{histResps, histResps + 8}})

	// ---- request-id histories: a scripted login under id L, then every sequence of <= K commands whose request ids
	// are drawn from a 4-id menu (the client may move to a new id for every command; the server must answer each
	// command under that command's id)
	idMenu := []int32{0, 7, 8, math.MinInt32}
	idSteps := 3
	if th {
		idSteps = 4
	}
	nIDHist := 0
	for _, login := range []int32{0, 7} {
		seqs(len(idMenu), idSteps, func(s []int) {
			ids := make([]int32, len(s))
			cm, rs := make([]int, len(s)), make([]int, len(s))
			for i, v := range s {
				ids[i] = idMenu[v]
				cm[i], rs[i] = 1+i%2, 1+(i+1)%2
			}
			cases = append(cases, Case{Part: "script-mem", Login: true, ServerPw: 3, ReqID: login, IDs: ids, Cmds: cm, Resps: rs})
			nIDHist++
		})
	}
	rep.Sample(Case{Part: "script-mem", Login: true, ServerPw: 3, ReqID: 7, IDs: []int32{8}, Cmds: []int{1}, Resps: []int{2}})

	// ---- adversary in memory: (command, answer) sequences
	nAdvMem := 0
	advCmds := []int{1, 3} // "x" and the limit-sized command; the answer alphabet carries the weight here
	if th {
		advCmds = []int{0, 1, 2, 3}
	}
	advSteps := 3
	if th {
		advCmds = []int{1, 3}
		// thorough: the 4-step scripts over the four original answer-id kinds (the 7-kind alphabet stays at <= 3 steps)
		seqs(len(advCmds)*8, 4, func(s []int) {
			if len(s) < 4 {
				return
			}
			cm, an := make([]int, len(s)), make([]int, len(s))
			for i, v := range s {
				cm[i], an[i] = advCmds[v/8], v%8
			}
			cases = append(cases, Case{Part: "adversary-mem", ReqID: 7, Cmds: cm, Answers: an})
			nAdvMem++
		})
	}
	seqs(len(advCmds)*nAns, advSteps, func(s []int) {
		cm, an := make([]int, len(s)), make([]int, len(s))
		for i, v := range s {
			cm[i], an[i] = advCmds[v/nAns], v%nAns
		}
		rids := []int32{7}
		if len(s) == 1 {
			rids = []int32{0, 1, -1, 7, math.MaxInt32, math.MinInt32, -2}
		}
		for _, r := range rids {
			cases = append(cases, Case{Part: "adversary-mem", ReqID: r, Cmds: cm, Answers: an})
			nAdvMem++
		}
	})
	rep.Sample(Case{Part: "adversary-mem", ReqID: 7, Cmds: []int{1}, Answers: []int{2}})

	flush()

	// large declared lengths: only when the implementation showed an upper bound on the moderate ones,
	// so that a tree without the bound is never asked to allocate gigabytes (it already failed above)
	var big []Case
	for _, d := range []int32{1 << 24, 1 << 26, 1<<30 - 1, math.MaxInt32 - 1, math.MaxInt32} {
		for _, b := range []int{0, 10, 8200} {
			big = append(big, Case{Part: "declared", Declared: d, BodyLen: b})
		}
	}
	if atomic.LoadInt32(&sawLargeAccepted) == 0 {
		for _, c := range big {
			judge(c) // sequentially: at most one large allocation alive in a broken tree
		}
		nDecl += len(big)
		tally(big)
	} else {
		rep.Count("declared_lengths_guarded_not_executed", int64(len(big)))
		rep.Cap("declared lengths >= 16 MiB not executed: the implementation accepted a length above the limit (allocation guard)")
	}

	// ---- TCP sessions
	var tcp []Case
	nLoginTCP, nScriptTCP, nAdvTCP := 0, 0, 0
	for i := range passwords {
		for j := range passwords {
			tcp = append(tcp, Case{Part: "login-tcp", ClientPw: i, ServerPw: j})
			nLoginTCP++
		}
	}
	tcpSteps := 3
	seqs(histCmds*histResps, tcpSteps, func(s []int) {
		cm, rs := make([]int, len(s)), make([]int, len(s))
		for i, v := range s {
			cm[i], rs[i] = v/histResps, v%histResps
		}
		tcp = append(tcp, Case{Part: "script-tcp", ClientPw: 3, ServerPw: 3, Cmds: cm, Resps: rs})
		nScriptTCP++
	})
	// every menu text as the command and as the response of a one-step session after a real login
	for i := range texts[:pairTexts] {
		tcp = append(tcp, Case{Part: "script-tcp", ClientPw: 3, ServerPw: 3, Cmds: []int{histCmds + i}, Resps: []int{histResps + (i+1)%pairTexts}})
		nScriptTCP++
	}
	// long passwords through the real DialRCON
	longTCP := longCases("login-tcp", longBoundaryLens, false)
	tcp = append(tcp, longTCP...)
	nLoginTCP += len(longTCP)
	// sessions one after the other on one listener: every sequence of <= 3 over {right, wrong} passwords
	nListenerHist := 0
	seqs(2, 3, func(s []int) {
		at := make([]int, len(s))
		for i, v := range s {
			at[i] = []int{3, 1}[v]
		}
		tcp = append(tcp, Case{Part: "listener-hist", ServerPw: 3, Attempts: at})
		nListenerHist++
	})
	for la := 0; la < 8; la++ {
		for _, pw := range []int{0, 3, 5} {
			tcp = append(tcp, Case{Part: "adversary-tcp", ClientPw: pw, LoginAns: la})
			nAdvTCP++
		}
		if la/2 == 0 { // login answered under the right id: go on with one command and every answer kind
			for a := 0; a < nAns; a++ {
				for _, cmd := range []int{1, 3} {
					tcp = append(tcp, Case{Part: "adversary-tcp", ClientPw: 3, LoginAns: la, Cmds: []int{cmd}, Answers: []int{a}})
					nAdvTCP++
				}
			}
		}
	}
	rep.Sample(tcp[1])
	rep.Sample(tcp[len(tcp)-1])
	memPhaseFailed = rep.Failed()
	if memPhaseFailed {
		stallQuiet = 3
	}
	runAll(tcp)
	tally(tcp)
	rep.NonTrivial(total)
	rep.AddStates(total)
	rep.AddTraces(rep.Evaluations)
	rep.AddTrans(trans)
	rep.Count("frame_cases", int64(nFrame))
	rep.Count("frame_every_length_cases", int64(nSweep))
	rep.Count("frame_every_length_write_only_cases", int64(nSweepWrite))
	rep.Count("login_long_password_cases", int64(nLoginLong))
	rep.Count("login_history_one_connection_cases", int64(nLoginHist))
	rep.Count("script_mem_verbatim_text_pairs", int64(nVerbatim))
	rep.Count("script_mem_request_id_histories", int64(nIDHist))
	rep.Count("listener_history_tcp_cases", int64(nListenerHist))
	rep.Count("concat_cases", int64(nConcat))
	rep.Count("declared_length_cases", int64(nDecl))
	rep.Count("login_mem_cases", int64(nLoginMem))
	rep.Count("advclient_cases", int64(nAdvClient))
	rep.Count("script_mem_sessions", int64(nScriptMem))
	rep.Count("adversary_mem_sessions", int64(nAdvMem))
	rep.Count("login_tcp_sessions", int64(nLoginTCP))
	rep.Count("script_tcp_sessions", int64(nScriptTCP))
	rep.Count("adversary_tcp_sessions", int64(nAdvTCP))
	rep.Extra("max_frames_per_concat", maxSeq)
	rep.Extra("max_script_steps_mem", steps)
	rep.Extra("max_script_steps_tcp", tcpSteps)
	rep.Extra("password_alphabet", pwNames)
	rep.Extra("payload_kinds", kinds)
	rep.Extra("payload_lengths_swept", fmt.Sprintf("every length 0..%d", refrcon.MaxPayload+1))
	rep.Extra("reader_devices", devNames)
	rep.Extra("verbatim_text_menu", textNames)
	rep.Extra("long_password_lengths_mem", fmt.Sprintf("every length 1..%d x {equal, one byte differs at first/middle/last, last byte absent} x {client, server}", refrcon.MaxPayload))
	rep.Extra("long_password_lengths_tcp", longBoundaryLens)
	rep.Extra("login_history_max_attempts", histLen)
	rep.Extra("request_id_history_menu", idMenu)
	rep.Extra("request_id_history_max_steps", idSteps)
	rep.Extra("adversary_answer_id_kinds", idKinds)
	rep.Extra("size_limit_declared_length", refrcon.MaxLength)
	rep.Assume("refrcon (Source RCON layout, declared length 10..4096) is trusted and pinned to the protocol documentation's example packet; DialRCON's request id (rand.Int31) is observed from the wire, never assumed; a loopback TCP session is given up only when the process is stalled (engine.WaitDone) or a 10-minute backstop deadline fires, and either can only produce a harness error")
	rep.Note("unspecified verdicts: payloads above the limit on the write side; truncated in-range frames; responses under the right id but a non-zero type; login answers that are neither the echoed id nor -1; right password / command under a wrong frame type")
	rep.Note("reader devices only give answers the io.Reader contract permits (short reads, the last bytes together with io.EOF, (0, nil)); a complete frame delivered that way must read back like any other")
	rep.Finish()
}
