// C16 — RCON frames round-trip and self-delimit; login succeeds iff the password matches.
//
// Everything is enumerated, nothing sampled:
//
//	frame     (id, type, payload) products: WritePacket bytes == refrcon layout, ReadPacket of the reference
//	          bytes gives the triple back and consumes exactly the frame (whole reads and 1/5-byte fragments)
//	concat    every sequence of <= N frames over a 6-frame alphabet plus one 20-frame chain, written by
//	          WritePacket into one stream and read back frame by frame from the reference stream
//	declared  length fields around both bounds written by refrcon: out-of-range must be rejected (an error,
//	          not a panic), in-range with a complete body must be accepted
//	login     every ordered password pair over a 6-word alphabet: real DialRCON against real
//	          ListenRCON/AcceptLogin over loopback TCP, and AcceptLogin against a refrcon-scripted client in memory
//	script    every command/response script of <= S steps: real client against real server (TCP and in memory)
//	adversary every script of <= S steps in which a scripted peer answers under {right id, id+1, -1, 0} x
//	          {type 0, 2}; DialRCON against a scripted TCP server answering the login the same way
//	advclient login / command frames of the wrong type sent to the real server side
//
// The in-memory connection never blocks: a Read on an empty stream returns io.EOF, so a peer that waits for
// bytes which were never written shows up as a deterministic error, not as a hang. TCP sessions carry a 20 s
// I/O deadline whose only purpose is to turn a hang into a harness error (exit 2), never into a verdict.
package main

import (
	"bytes"
	"encoding/hex"
	"encoding/json"
	"errors"
	"fmt"
	"io"
	"math"
	"net"
	"os"
	"strings"
	"sync"
	"sync/atomic"
	"time"

	mcnet "github.com/Tnze/go-mc/net"

	"verif/engine"
	"verif/ref/refrcon"
)

var rep *engine.Report

var ioDeadline = 20 * time.Second

// ---------------------------------------------------------------------------------------------
// in-memory, non-blocking connection

type stream struct {
	mu  sync.Mutex
	buf []byte
	pos int
}

type memConn struct {
	in    *stream // bytes the owner of this end reads
	out   *stream // bytes the owner of this end writes
	chunk int     // >0: at most chunk bytes per Read
	eof   bool    // the Read that hands out the last buffered byte returns (n>0, io.EOF), as io.Reader permits
}

func (m *memConn) Read(p []byte) (int, error) {
	if len(p) == 0 {
		return 0, nil
	}
	m.in.mu.Lock()
	defer m.in.mu.Unlock()
	rest := len(m.in.buf) - m.in.pos
	if rest <= 0 {
		return 0, io.EOF
	}
	n := len(p)
	if n > rest {
		n = rest
	}
	if m.chunk > 0 && n > m.chunk {
		n = m.chunk
	}
	copy(p[:n], m.in.buf[m.in.pos:])
	m.in.pos += n
	if m.eof && n == rest {
		return n, io.EOF
	}
	return n, nil
}

func (m *memConn) Write(p []byte) (int, error) {
	m.out.mu.Lock()
	m.out.buf = append(m.out.buf, p...)
	m.out.mu.Unlock()
	return len(p), nil
}

type memAddr struct{}

func (memAddr) Network() string { return "mem" }
func (memAddr) String() string  { return "mem" }

func (m *memConn) Close() error                     { return nil }
func (m *memConn) LocalAddr() net.Addr              { return memAddr{} }
func (m *memConn) RemoteAddr() net.Addr             { return memAddr{} }
func (m *memConn) SetDeadline(time.Time) error      { return nil }
func (m *memConn) SetReadDeadline(time.Time) error  { return nil }
func (m *memConn) SetWriteDeadline(time.Time) error { return nil }

// duplex returns two connected ends.
func duplex() (a, b *memConn) {
	x, y := &stream{}, &stream{}
	return &memConn{in: x, out: y}, &memConn{in: y, out: x}
}

// take returns and removes everything written to s but not yet read.
func (s *stream) take() []byte {
	s.mu.Lock()
	defer s.mu.Unlock()
	b := append([]byte(nil), s.buf[s.pos:]...)
	s.pos = len(s.buf)
	return b
}

func (s *stream) put(b []byte) {
	s.mu.Lock()
	s.buf = append(s.buf, b...)
	s.mu.Unlock()
}

func (s *stream) unread() int {
	s.mu.Lock()
	defer s.mu.Unlock()
	return len(s.buf) - s.pos
}

// ---------------------------------------------------------------------------------------------
// alphabets

func payload(kind string, n int) []byte {
	b := make([]byte, n)
	switch kind {
	case "ascii":
		for i := range b {
			b[i] = 'a' + byte(i%26)
		}
	case "nul": // 0x00 at the first, the last and every third position
		for i := range b {
			if i%3 == 0 || i == n-1 {
				b[i] = 0
			} else {
				b[i] = 'A' + byte(i%26)
			}
		}
	case "nonutf8":
		pat := []byte{0xff, 0xfe, 0x80, 0xc0, 0xc3}
		for i := range b {
			b[i] = pat[i%len(pat)]
		}
	default:
		engine.HarnessError("unknown payload kind %q", kind)
	}
	return b
}

func lenShape(n int) string {
	switch {
	case n == 0:
		return "empty"
	case n == refrcon.MaxPayload:
		return "limit"
	case n == refrcon.MaxPayload-1:
		return "limit-1"
	case n > refrcon.MaxPayload:
		return "over-limit"
	case n <= 2:
		return "short"
	}
	return "mid"
}

func idShape(id int32) string {
	switch id {
	case 0:
		return "id0"
	case -1:
		return "id-1"
	case math.MaxInt32:
		return "idMax"
	case math.MinInt32:
		return "idMin"
	}
	if id < 0 {
		return "idNeg"
	}
	return "idPos"
}

var passwords = []string{"", "a", "A", "ab", "a\x00", strings.Repeat("p", refrcon.MaxPayload)}
var pwNames = []string{"empty", "a", "A", "ab", "a-nul", "limit"}

var commands = []string{"", "x", "list all", string(payload("ascii", refrcon.MaxPayload))}
var responses = []string{"", "ok", "with\x00nul\xff", string(payload("nonutf8", refrcon.MaxPayload))}

// ---------------------------------------------------------------------------------------------
// case descriptor (replayable)

type Case struct {
	Part string `json:"part"`

	// frame
	ID          int32  `json:"id,omitempty"`
	Type        int32  `json:"type,omitempty"`
	PayloadKind string `json:"payload_kind,omitempty"`
	PayloadLen  int    `json:"payload_len,omitempty"`
	Chunk       int    `json:"chunk,omitempty"`

	// concat: indices into the frame alphabet
	Frames []int `json:"frames,omitempty"`

	// declared
	Declared int32 `json:"declared,omitempty"`
	BodyLen  int   `json:"body_len,omitempty"`

	// login / scripts
	ClientPw int   `json:"client_pw,omitempty"`
	ServerPw int   `json:"server_pw,omitempty"`
	ReqID    int32 `json:"req_id,omitempty"`
	Cmds     []int `json:"cmds,omitempty"`
	Resps    []int `json:"resps,omitempty"`
	Answers  []int `json:"answers,omitempty"` // adversary: idKind*2 + typeKind per step
	LoginAns int   `json:"login_answer,omitempty"`
	Types    []int `json:"types,omitempty"` // advclient frame types
}

func fail(class string, size int, c Case, format string, a ...any) {
	// deterministic tie-break between witnesses of equal size (independent of worker scheduling)
	h := uint32(2166136261)
	for _, b := range []byte(fmt.Sprintf("%v", c)) {
		h = (h ^ uint32(b)) * 16777619
	}
	size = size<<12 | int(h&0xfff)
	rep.FailLazy(class, size, func() engine.Failure {
		return engine.Failure{Detail: fmt.Sprintf(format, a...), Case: c}
	})
}

func clip(b []byte) string {
	if len(b) > 40 {
		return hex.EncodeToString(b[:32]) + fmt.Sprintf("…(%d bytes)", len(b))
	}
	return hex.EncodeToString(b)
}

// guard runs f, reports a panic under class prefix; returns true when f panicked.
func guard(prefix string, size int, c Case, f func()) bool {
	kind, frame, p := engine.Guard(f)
	if p {
		fail(prefix+"/panic/"+frame+"/"+kind, size, c, "panic %s in %s", kind, frame)
	}
	return p
}

// ---------------------------------------------------------------------------------------------
// part: frame

func judgeFrame(c Case) {
	pl := payload(c.PayloadKind, c.PayloadLen)
	shape := c.PayloadKind + "-" + lenShape(c.PayloadLen)
	want := refrcon.Frame(c.ID, c.Type, pl)
	size := c.PayloadLen
	over := c.PayloadLen > refrcon.MaxPayload

	// write
	a, b := duplex()
	w := &mcnet.RCONConn{Conn: a}
	var werr error
	if guard("frame/WritePacket", size, c, func() { werr = w.WritePacket(c.ID, c.Type, string(pl)) }) {
		return
	}
	rep.Eval(1)
	got := b.in.take()
	if over {
		// the statement speaks of payloads up to the limit only
		rep.Unspec(1)
	} else if werr != nil {
		fail("frame/WritePacket/error/"+shape, size, c, "WritePacket(%d,%d,%d-byte %s payload) returned %v", c.ID, c.Type, c.PayloadLen, c.PayloadKind, werr)
	} else if !bytes.Equal(got, want) {
		fail("frame/WritePacket/bytes-differ-from-layout/"+shape+"/"+idShape(c.ID), size, c, "WritePacket(%d,%d,%d-byte %s payload) wrote %s, reference layout is %s", c.ID, c.Type, c.PayloadLen, c.PayloadKind, clip(got), clip(want))
	}

	// read the reference bytes followed by a sentinel that must stay unread
	if over {
		return
	}
	sentinel := []byte{0xde, 0xad, 0xbe, 0xef, 0x01}
	a2, b2 := duplex()
	a2.chunk = c.Chunk
	b2.out.put(want)
	b2.out.put(sentinel)
	r := &mcnet.RCONConn{Conn: a2}
	var (
		id, typ int32
		p       string
		rerr    error
	)
	if guard("frame/ReadPacket", size, c, func() { id, typ, p, rerr = r.ReadPacket() }) {
		return
	}
	rep.Eval(1)
	frag := "whole"
	if c.Chunk > 0 {
		frag = "fragmented"
	}
	switch {
	case rerr != nil:
		fail("frame/ReadPacket/error-on-valid-frame/"+shape+"/"+frag, size, c, "ReadPacket of %s returned %v", clip(want), rerr)
	case id != c.ID:
		fail("frame/ReadPacket/wrong-id/"+idShape(c.ID)+"/"+frag, size, c, "ReadPacket id=%d, written %d", id, c.ID)
	case typ != c.Type:
		fail("frame/ReadPacket/wrong-type/"+frag, size, c, "ReadPacket type=%d, written %d", typ, c.Type)
	case p != string(pl):
		fail("frame/ReadPacket/wrong-payload/"+shape+"/"+frag, size, c, "ReadPacket payload %s (%d bytes), written %s (%d bytes)", clip([]byte(p)), len(p), clip(pl), len(pl))
	case a2.in.unread() != len(sentinel):
		fail("frame/ReadPacket/not-self-delimiting/"+shape+"/"+frag, size, c, "after one ReadPacket %d bytes are unread, expected the %d sentinel bytes", a2.in.unread(), len(sentinel))
	}
}

// ---------------------------------------------------------------------------------------------
// part: concat

type frameSpec struct {
	id, typ int32
	pl      []byte
}

var frameAlpha []frameSpec

func initAlpha() {
	frameAlpha = []frameSpec{
		{0, 0, nil},
		{1, 2, []byte("x")},
		{-1, 3, []byte("a\x00b")},
		{math.MaxInt32, 0, payload("ascii", refrcon.MaxPayload)},
		{math.MinInt32, -1, []byte{0xff, 0xfe}},
		{7, 2, refrcon.Frame(9, 9, []byte("zz"))}, // a payload that looks like a frame
	}
}

func judgeConcat(c Case) {
	size := len(c.Frames)
	var want []byte
	for _, fi := range c.Frames {
		f := frameAlpha[fi]
		want = append(want, refrcon.Frame(f.id, f.typ, f.pl)...)
	}
	// write side
	if c.Chunk == 0 {
		a, b := duplex()
		w := &mcnet.RCONConn{Conn: a}
		bad := false
		for k, fi := range c.Frames {
			f := frameAlpha[fi]
			var err error
			if guard("concat/WritePacket", size, c, func() { err = w.WritePacket(f.id, f.typ, string(f.pl)) }) {
				return
			}
			if err != nil {
				fail("concat/WritePacket/error", size, c, "WritePacket #%d returned %v", k, err)
				bad = true
				break
			}
		}
		rep.Eval(1)
		if !bad {
			got := b.in.take()
			if !bytes.Equal(got, want) {
				fail("concat/WritePacket/stream-differs-from-layout", size, c, "%d frames written as %s, reference stream %s", len(c.Frames), clip(got), clip(want))
			} else if ps, err := refrcon.ParseAll(got); err != nil || len(ps) != len(c.Frames) {
				engine.HarnessError("reference cannot split its own stream: %v", err)
			}
		}
	}
	// read side
	a, b := duplex()
	a.chunk = c.Chunk
	b.out.put(want)
	r := &mcnet.RCONConn{Conn: a}
	consumed := 0
	for k, fi := range c.Frames {
		f := frameAlpha[fi]
		var (
			id, typ int32
			p       string
			err     error
		)
		if guard("concat/ReadPacket", size, c, func() { id, typ, p, err = r.ReadPacket() }) {
			return
		}
		consumed += 14 + len(f.pl)
		pos := "first"
		if k > 0 {
			pos = "later"
		}
		if err != nil {
			fail("concat/ReadPacket/error-on-valid-stream/"+pos, size, c, "ReadPacket #%d returned %v", k, err)
			rep.Eval(1)
			return
		}
		if id != f.id || typ != f.typ || p != string(f.pl) {
			fail("concat/ReadPacket/wrong-frame/"+pos, size, c, "ReadPacket #%d = (%d,%d,%s), written (%d,%d,%s)", k, id, typ, clip([]byte(p)), f.id, f.typ, clip(f.pl))
			rep.Eval(1)
			return
		}
		if un := a.in.unread(); un != len(want)-consumed {
			fail("concat/ReadPacket/not-self-delimiting/"+pos, size, c, "after frame #%d %d bytes unread, expected %d", k, un, len(want)-consumed)
			rep.Eval(1)
			return
		}
	}
	rep.Eval(1)
	// one more read on the exhausted stream: nothing is specified beyond "no frame is there"; must not panic
	guard("concat/ReadPacket-at-end", size, c, func() { r.ReadPacket() })
}

// ---------------------------------------------------------------------------------------------
// part: declared lengths

var sawLargeAccepted int32 // set when a length in (4096, 1 MiB] with a full body was accepted

func judgeDeclared(c Case) {
	d := c.Declared
	// body: id, type, then payload bytes so that BodyLen bytes follow the length field
	body := make([]byte, c.BodyLen)
	for i := range body {
		body[i] = 'q'
	}
	if len(body) >= 8 {
		copy(body, []byte{5, 0, 0, 0, 2, 0, 0, 0})
	}
	if len(body) >= 10 {
		body[len(body)-1], body[len(body)-2] = 0, 0
	}
	raw := []byte{byte(d), byte(d >> 8), byte(d >> 16), byte(d >> 24)}
	raw = append(raw, body...)
	if d >= 8 && d == int32(c.BodyLen) && d <= 1<<20 {
		// cross-check the hand-assembled bytes with the reference writer
		plLen := int(d) - 10
		if plLen >= 0 {
			pl := bytes.Repeat([]byte{'q'}, plLen)
			if !bytes.Equal(raw, refrcon.FrameDeclared(d, 5, 2, pl)) {
				engine.HarnessError("declared-length frame assembly differs from refrcon for %d", d)
			}
		}
	}
	verdict := refrcon.Verdict(d)
	a, b := duplex()
	b.out.put(raw)
	r := &mcnet.RCONConn{Conn: a}
	var (
		id, typ int32
		p       string
		err     error
	)
	size := c.BodyLen
	side := "in-range"
	if verdict == refrcon.ErrTooShort {
		side = "below-minimum"
		if d < 0 {
			side = "negative"
		}
	} else if verdict == refrcon.ErrTooLarge {
		side = "above-limit"
	}
	kind, frame, panicked := engine.Guard(func() { id, typ, p, err = r.ReadPacket() })
	rep.Eval(1)
	if panicked {
		fail("declared/ReadPacket/panic/"+side+"/"+frame+"/"+kind, size, c, "declared length %d (%d body bytes available): panic %s in %s", d, c.BodyLen, kind, frame)
		return
	}
	switch {
	case verdict != nil && err == nil:
		if d > refrcon.MaxLength {
			atomic.StoreInt32(&sawLargeAccepted, 1)
		}
		fail("declared/ReadPacket/accepted/"+side, size, c, "declared length %d (%v) with %d body bytes available was accepted: (%d,%d,%d-byte payload)", d, verdict, c.BodyLen, id, typ, len(p))
	case verdict == nil && int(d) == c.BodyLen:
		want := string(body[8 : len(body)-2])
		if err != nil {
			fail("declared/ReadPacket/rejected-in-range/"+lenShape(int(d)-10), size, c, "declared length %d with a complete body was rejected: %v", d, err)
		} else if id != 5 || typ != 2 || p != want {
			fail("declared/ReadPacket/wrong-frame/"+lenShape(int(d)-10), size, c, "declared length %d: got (%d,%d,%d bytes)", d, id, typ, len(p))
		}
	case verdict == nil:
		// in range but the body is shorter than declared: a truncated stream (C09's subject), not fixed by this statement
		rep.Unspec(1)
	}
}

// ---------------------------------------------------------------------------------------------
// part: login (TCP) and scripts (TCP)

type tcpResult struct {
	clientLoginErr error
	serverLoginErr error
	serverCmds     []string
	serverErrs     []error
	clientResps    []string
	clientErrs     []error
	harness        error
}

func isTimeout(err error) bool {
	var ne net.Error
	return err != nil && (errors.Is(err, os.ErrDeadlineExceeded) || (errors.As(err, &ne) && ne.Timeout()) || strings.Contains(err.Error(), "i/o timeout"))
}

// runTCP runs one session: real DialRCON against real ListenRCON/AcceptLogin, then the script.
func runTCP(clientPw, serverPw string, cmds, resps []string) (res tcpResult) {
	l, err := mcnet.ListenRCON("127.0.0.1:0")
	if err != nil {
		res.harness = fmt.Errorf("listen: %w", err)
		return
	}
	defer l.Close()
	if tl, ok := l.Listener.(*net.TCPListener); ok {
		tl.SetDeadline(time.Now().Add(ioDeadline))
	}
	type srvOut struct {
		loginErr error
		cmds     []string
		errs     []error
		harness  error
	}
	ch := make(chan srvOut, 1)
	go func() {
		var o srvOut
		defer func() { ch <- o }()
		conn, err := l.Accept()
		if err != nil {
			o.harness = fmt.Errorf("accept: %w", err)
			return
		}
		defer conn.Close()
		if rc, ok := conn.(*mcnet.RCONConn); ok {
			rc.SetDeadline(time.Now().Add(ioDeadline))
		}
		o.loginErr = conn.AcceptLogin(serverPw)
		if o.loginErr != nil {
			return
		}
		for i := range cmds {
			cmd, err := conn.AcceptCmd()
			o.cmds = append(o.cmds, cmd)
			o.errs = append(o.errs, err)
			if err != nil {
				return
			}
			if err := conn.RespCmd(resps[i]); err != nil {
				o.errs[len(o.errs)-1] = fmt.Errorf("RespCmd: %w", err)
				return
			}
		}
	}()
	client, cerr := mcnet.DialRCON(l.Addr().String(), clientPw)
	res.clientLoginErr = cerr
	if cerr == nil {
		if rc, ok := client.(*mcnet.RCONConn); ok {
			rc.SetDeadline(time.Now().Add(ioDeadline))
		}
		for i := range cmds {
			err := client.Cmd(cmds[i])
			if err != nil {
				res.clientErrs = append(res.clientErrs, fmt.Errorf("Cmd: %w", err))
				res.clientResps = append(res.clientResps, "")
				break
			}
			r, err := client.Resp()
			res.clientResps = append(res.clientResps, r)
			res.clientErrs = append(res.clientErrs, err)
			if err != nil {
				break
			}
		}
		client.Close()
	} else if rc, ok := client.(*mcnet.RCONConn); ok && rc != nil && rc.Conn != nil {
		rc.Close()
	}
	o := <-ch
	res.serverLoginErr, res.serverCmds, res.serverErrs, res.harness = o.loginErr, o.cmds, o.errs, o.harness
	for _, e := range append(append([]error{res.clientLoginErr, res.serverLoginErr}, res.clientErrs...), res.serverErrs...) {
		if isTimeout(e) {
			res.harness = fmt.Errorf("I/O deadline (%v) hit: %v", ioDeadline, e)
		}
	}
	return
}

var (
	memPhaseFailed bool  // set before the TCP phase starts
	tcpAborted     int32 // set when a TCP session hit its I/O deadline after the in-memory phase had already failed
)

// tcpTrouble handles a TCP session that could not be judged (deadline, listen/accept failure). On a tree whose
// in-memory phase passed this is a harness error (exit 2). When the in-memory phase already reported violations
// (e.g. broken framing makes the peers wait for each other) the TCP phase is abandoned and reported as a cap.
func tcpTrouble(c Case, err error) {
	if !memPhaseFailed {
		engine.HarnessError("TCP session %+v: %v", c, err)
	}
	if atomic.CompareAndSwapInt32(&tcpAborted, 0, 1) {
		rep.Cap("TCP phase abandoned: a loopback session could not be completed (%v) after the in-memory phase had already reported violations", err)
	}
}

func pick(alpha []string, idx []int) []string {
	out := make([]string, len(idx))
	for i, k := range idx {
		out[i] = alpha[k]
	}
	return out
}

func pwRel(i, j int) string {
	if i == j {
		return "equal"
	}
	a, b := passwords[i], passwords[j]
	switch {
	case a == "" || b == "":
		return "one-empty"
	case strings.EqualFold(a, b):
		return "case-differs"
	case strings.HasPrefix(a, b) || strings.HasPrefix(b, a):
		return "prefix"
	}
	return "different"
}

func judgeLoginTCP(c Case) {
	res := runTCP(passwords[c.ClientPw], passwords[c.ServerPw], pick(commands, c.Cmds), pick(responses, c.Resps))
	if res.harness != nil {
		tcpTrouble(c, res.harness)
		return
	}
	rep.Eval(1)
	size := len(c.Cmds)*10 + c.ClientPw + c.ServerPw
	rel := pwRel(c.ClientPw, c.ServerPw)
	if c.ClientPw == c.ServerPw {
		if res.clientLoginErr != nil {
			fail("login/tcp/DialRCON/error-with-equal-passwords/"+pwNames[c.ClientPw], size, c, "DialRCON with the server's password failed: %v", res.clientLoginErr)
			return
		}
		if res.serverLoginErr != nil {
			fail("login/tcp/AcceptLogin/error-with-equal-passwords/"+pwNames[c.ClientPw], size, c, "AcceptLogin with the client's password failed: %v", res.serverLoginErr)
			return
		}
	} else {
		if res.clientLoginErr == nil {
			fail("login/tcp/DialRCON/no-error-with-wrong-password/"+rel, size, c, "DialRCON(%q) succeeded against server password %q", clipS(passwords[c.ClientPw]), clipS(passwords[c.ServerPw]))
		}
		if res.serverLoginErr == nil {
			fail("login/tcp/AcceptLogin/no-error-with-wrong-password/"+rel, size, c, "AcceptLogin(%q) returned nil for client password %q", clipS(passwords[c.ServerPw]), clipS(passwords[c.ClientPw]))
		}
		return
	}
	// script
	for i := range c.Cmds {
		step := "first"
		if i > 0 {
			step = "later"
		}
		if i >= len(res.serverCmds) {
			fail("script/tcp/AcceptCmd/missing/"+step, size, c, "server never saw command #%d", i)
			return
		}
		if res.serverErrs[i] != nil {
			fail("script/tcp/server/error/"+step, size, c, "server side failed on command #%d: %v", i, res.serverErrs[i])
			return
		}
		if res.serverCmds[i] != commands[c.Cmds[i]] {
			fail("script/tcp/AcceptCmd/command-not-verbatim/"+step, size, c, "command #%d arrived as %s, sent %s", i, clip([]byte(res.serverCmds[i])), clip([]byte(commands[c.Cmds[i]])))
			return
		}
		if i >= len(res.clientErrs) {
			fail("script/tcp/Resp/missing/"+step, size, c, "client never got response #%d", i)
			return
		}
		if res.clientErrs[i] != nil {
			fail("script/tcp/Resp/error-on-matching-response/"+step, size, c, "client failed on response #%d: %v", i, res.clientErrs[i])
			return
		}
		if res.clientResps[i] != responses[c.Resps[i]] {
			fail("script/tcp/Resp/response-not-verbatim/"+step, size, c, "response #%d arrived as %s, sent %s", i, clip([]byte(res.clientResps[i])), clip([]byte(responses[c.Resps[i]])))
			return
		}
	}
}

func clipS(s string) string {
	if len(s) > 16 {
		return fmt.Sprintf("%s…(%d bytes)", s[:8], len(s))
	}
	return s
}

// ---------------------------------------------------------------------------------------------
// part: login in memory (server side against a refrcon-scripted client)

func judgeLoginMem(c Case) {
	srvEnd, peer := duplex()
	srv := &mcnet.RCONConn{Conn: srvEnd}
	peer.out.put(refrcon.Frame(c.ReqID, refrcon.TypeLogin, []byte(passwords[c.ClientPw])))
	var err error
	size := c.ClientPw + c.ServerPw
	if guard("login/mem/AcceptLogin", size, c, func() { err = srv.AcceptLogin(passwords[c.ServerPw]) }) {
		return
	}
	rep.Eval(1)
	out := peer.in.take()
	ps, perr := refrcon.ParseAll(out)
	rel := pwRel(c.ClientPw, c.ServerPw)
	if c.ClientPw == c.ServerPw {
		switch {
		case err != nil:
			fail("login/mem/AcceptLogin/error-with-equal-passwords/"+pwNames[c.ClientPw], size, c, "AcceptLogin failed with equal passwords: %v", err)
		case perr != nil || len(ps) != 1:
			fail("login/mem/AcceptLogin/response-not-one-frame", size, c, "login response bytes %s: %v", clip(out), perr)
		case ps[0].ID != c.ReqID:
			fail("login/mem/AcceptLogin/success-not-echoing-request-id/"+idShape(c.ReqID), size, c, "login response id %d, request id %d", ps[0].ID, c.ReqID)
		}
	} else {
		switch {
		case err == nil:
			fail("login/mem/AcceptLogin/no-error-with-wrong-password/"+rel, size, c, "AcceptLogin returned nil for a wrong password")
		case perr != nil || len(ps) != 1:
			// the server reported the rejection locally; what it sends is the login-failure signal or nothing legible
			fail("login/mem/AcceptLogin/rejection-not-one-frame", size, c, "rejection bytes %s: %v", clip(out), perr)
		case ps[0].ID != -1:
			fail("login/mem/AcceptLogin/rejection-not-signalled-with-minus-one", size, c, "rejection response id %d, expected -1", ps[0].ID)
		}
	}
}

// ---------------------------------------------------------------------------------------------
// part: scripts in memory (real client methods against real server methods)

func judgeScriptMem(c Case) {
	ce, se := duplex()
	cli := &mcnet.RCONConn{Conn: ce, ReqID: c.ReqID}
	srv := &mcnet.RCONConn{Conn: se}
	size := len(c.Cmds)
	rep.Eval(1)
	for i := range c.Cmds {
		step := "first"
		if i > 0 {
			step = "later"
		}
		cmd, resp := commands[c.Cmds[i]], responses[c.Resps[i]]
		var err error
		if guard("script/mem/Cmd", size, c, func() { err = cli.Cmd(cmd) }) {
			return
		}
		if err != nil {
			fail("script/mem/Cmd/error/"+lenShape(len(cmd)), size, c, "Cmd #%d returned %v", i, err)
			return
		}
		var got string
		if guard("script/mem/AcceptCmd", size, c, func() { got, err = srv.AcceptCmd() }) {
			return
		}
		if err != nil {
			fail("script/mem/AcceptCmd/error-on-command/"+step, size, c, "AcceptCmd #%d returned %v", i, err)
			return
		}
		if got != cmd {
			fail("script/mem/AcceptCmd/command-not-verbatim/"+lenShape(len(cmd)), size, c, "command #%d arrived as %s, sent %s", i, clip([]byte(got)), clip([]byte(cmd)))
			return
		}
		if guard("script/mem/RespCmd", size, c, func() { err = srv.RespCmd(resp) }) {
			return
		}
		if err != nil {
			fail("script/mem/RespCmd/error/"+lenShape(len(resp)), size, c, "RespCmd #%d returned %v", i, err)
			return
		}
		if guard("script/mem/Resp", size, c, func() { got, err = cli.Resp() }) {
			return
		}
		if err != nil {
			fail("script/mem/Resp/error-on-matching-response/"+step+"/"+idShape(c.ReqID), size, c, "Resp #%d returned %v for the server's answer to request id %d", i, err, c.ReqID)
			return
		}
		if got != resp {
			fail("script/mem/Resp/response-not-verbatim/"+lenShape(len(resp)), size, c, "response #%d arrived as %s, sent %s", i, clip([]byte(got)), clip([]byte(resp)))
			return
		}
		if ce.in.unread() != 0 || se.in.unread() != 0 {
			fail("script/mem/stream/leftover-bytes/"+step, size, c, "after step #%d %d/%d bytes are unread", i, ce.in.unread(), se.in.unread())
			return
		}
	}
}

// ---------------------------------------------------------------------------------------------
// part: adversary (scripted peer answers the real client)

var idKinds = []string{"right-id", "id+1", "minus-one", "zero"}

func answerID(req int32, kind int) int32 {
	switch kind {
	case 0:
		return req
	case 1:
		return req + 1 // wraps at MaxInt32, still != req
	case 2:
		return -1
	}
	return 0
}

func judgeAdversaryMem(c Case) {
	ce, pe := duplex()
	cli := &mcnet.RCONConn{Conn: ce, ReqID: c.ReqID}
	size := len(c.Cmds)
	rep.Eval(1)
	for i := range c.Cmds {
		cmd := commands[c.Cmds[i]]
		idKind, typ := c.Answers[i]/2, int32(c.Answers[i]%2*2)
		var err error
		if guard("adversary/mem/Cmd", size, c, func() { err = cli.Cmd(cmd) }) {
			return
		}
		sent := pe.in.take()
		if err != nil {
			fail("adversary/mem/Cmd/error/"+lenShape(len(cmd)), size, c, "Cmd #%d returned %v", i, err)
			return
		}
		if want := refrcon.Frame(c.ReqID, refrcon.TypeCommand, []byte(cmd)); !bytes.Equal(sent, want) {
			fail("adversary/mem/Cmd/bytes-differ-from-layout/"+lenShape(len(cmd)), size, c, "Cmd #%d wrote %s, reference %s", i, clip(sent), clip(want))
			return
		}
		aid := answerID(c.ReqID, idKind)
		pe.out.put(refrcon.Frame(aid, typ, []byte("r")))
		var got string
		if guard("adversary/mem/Resp", size, c, func() { got, err = cli.Resp() }) {
			return
		}
		step := "first"
		if i > 0 {
			step = "later"
		}
		switch {
		case aid != c.ReqID && err == nil:
			fail("adversary/mem/Resp/accepted-under-foreign-id/"+idKinds[idKind]+"/"+step, size, c, "request id in use %d; a frame with id %d type %d was accepted as the response %q", c.ReqID, aid, typ, got)
			return
		case aid == c.ReqID && typ == 0 && err != nil:
			fail("adversary/mem/Resp/rejected-matching-response/"+step, size, c, "request id in use %d; the response with that id and type 0 was rejected: %v", c.ReqID, err)
			return
		case aid == c.ReqID && typ == 0 && got != "r":
			fail("adversary/mem/Resp/response-not-verbatim/"+step, size, c, "response payload %q, sent \"r\"", got)
			return
		case aid == c.ReqID && typ != 0:
			rep.Unspec(1) // right id under a non-response type: the statement fixes only the id rule
		}
		if ce.in.unread() != 0 {
			fail("adversary/mem/Resp/leftover-bytes/"+step, size, c, "%d bytes unread after Resp #%d", ce.in.unread(), i)
			return
		}
	}
}

// readFrameTCP reads one frame from a raw TCP connection using the reference parser.
func readFrameTCP(conn net.Conn) (refrcon.Packet, []byte, error) {
	var buf []byte
	tmp := make([]byte, 8192)
	for {
		p, n, err := refrcon.Parse(buf)
		if err == nil {
			return p, buf[:n], nil
		}
		if err != refrcon.ErrTruncated {
			return p, buf, err
		}
		k, rerr := conn.Read(tmp)
		buf = append(buf, tmp[:k]...)
		if rerr != nil && k == 0 {
			return p, buf, rerr
		}
	}
}

// judgeAdversaryTCP: real DialRCON against a scripted TCP server.
func judgeAdversaryTCP(c Case) {
	l, err := net.Listen("tcp", "127.0.0.1:0")
	if err != nil {
		engine.HarnessError("listen: %v", err)
	}
	defer l.Close()
	l.(*net.TCPListener).SetDeadline(time.Now().Add(ioDeadline))
	pw := passwords[c.ClientPw]
	idKind, typ := c.LoginAns/2, int32(c.LoginAns%2*2)
	type out struct {
		login   refrcon.Packet
		raw     []byte
		cmd     refrcon.Packet
		cmdRaw  []byte
		gotCmd  bool
		harness error
	}
	ch := make(chan out, 1)
	go func() {
		var o out
		defer func() { ch <- o }()
		conn, err := l.Accept()
		if err != nil {
			o.harness = err
			return
		}
		defer conn.Close()
		conn.SetDeadline(time.Now().Add(ioDeadline))
		o.login, o.raw, err = readFrameTCP(conn)
		if err != nil {
			o.harness = fmt.Errorf("reading the login frame (%x): %w", o.raw, err)
			return
		}
		conn.Write(refrcon.Frame(answerID(o.login.ID, idKind), typ, nil))
		if len(c.Cmds) > 0 {
			p, raw, err := readFrameTCP(conn)
			if err != nil {
				return // client gave up after the login answer: fine
			}
			o.cmd, o.cmdRaw, o.gotCmd = p, raw, true
			k, t := c.Answers[0]/2, int32(c.Answers[0]%2*2)
			conn.Write(refrcon.Frame(answerID(p.ID, k), t, []byte("r")))
		}
	}()
	client, cerr := mcnet.DialRCON(l.Addr().String(), pw)
	var respErr error
	var resp string
	didCmd := false
	if cerr == nil && len(c.Cmds) > 0 {
		if rc, ok := client.(*mcnet.RCONConn); ok {
			rc.SetDeadline(time.Now().Add(ioDeadline))
		}
		if err := client.Cmd(commands[c.Cmds[0]]); err == nil {
			didCmd = true
			resp, respErr = client.Resp()
		}
	}
	if rc, ok := client.(*mcnet.RCONConn); ok && rc != nil && rc.Conn != nil {
		rc.Close()
	}
	o := <-ch
	if o.harness != nil || isTimeout(cerr) || isTimeout(respErr) {
		tcpTrouble(c, fmt.Errorf("scripted TCP server: %v / %v / %v", o.harness, cerr, respErr))
		return
	}
	rep.Eval(1)
	size := c.LoginAns + 10*len(c.Cmds)
	// the login frame itself
	if want := refrcon.Frame(o.login.ID, refrcon.TypeLogin, []byte(pw)); !bytes.Equal(o.raw, want) {
		fail("adversary/tcp/DialRCON/login-frame-differs-from-layout/"+pwNames[c.ClientPw], size, c, "DialRCON sent %s, reference login frame %s", clip(o.raw), clip(want))
		return
	}
	aid := answerID(o.login.ID, idKind)
	switch {
	case aid == -1 && cerr == nil:
		fail("adversary/tcp/DialRCON/accepted-login-failure-signal", size, c, "server answered the login with id -1 (type %d); DialRCON returned no error", typ)
		return
	case aid == o.login.ID && typ == 2 && cerr != nil:
		fail("adversary/tcp/DialRCON/rejected-login-success", size, c, "server echoed request id %d with type 2; DialRCON failed: %v", aid, cerr)
		return
	case aid != o.login.ID && aid != -1, aid == o.login.ID && typ != 2:
		rep.Unspec(1) // neither the echo nor the failure signal / echo under an unusual type
	}
	if didCmd && o.gotCmd {
		if want := refrcon.Frame(o.login.ID, refrcon.TypeCommand, []byte(commands[c.Cmds[0]])); !bytes.Equal(o.cmdRaw, want) {
			fail("adversary/tcp/Cmd/bytes-differ-from-layout", size, c, "Cmd sent %s, reference (under the login's request id %d) %s", clip(o.cmdRaw), o.login.ID, clip(want))
			return
		}
		k, t := c.Answers[0]/2, int32(c.Answers[0]%2*2)
		rid := answerID(o.cmd.ID, k)
		switch {
		case rid != o.cmd.ID && respErr == nil:
			fail("adversary/tcp/Resp/accepted-under-foreign-id/"+idKinds[k], size, c, "request id %d; a frame with id %d type %d was accepted as %q", o.cmd.ID, rid, t, resp)
		case rid == o.cmd.ID && t == 0 && (respErr != nil || resp != "r"):
			fail("adversary/tcp/Resp/rejected-matching-response", size, c, "request id %d; the matching response was not delivered: %q %v", o.cmd.ID, resp, respErr)
		case rid == o.cmd.ID && t != 0:
			rep.Unspec(1)
		}
	}
}

// ---------------------------------------------------------------------------------------------
// part: adversarial clients against the real server side (in memory)

var advTypes = []int32{3, 2, 0, -1}

func judgeAdvClient(c Case) {
	se, pe := duplex()
	srv := &mcnet.RCONConn{Conn: se}
	size := c.Types[0] + c.ClientPw
	loginType := advTypes[c.Types[0]]
	pe.out.put(refrcon.Frame(c.ReqID, loginType, []byte(passwords[c.ClientPw])))
	var err error
	if guard("advclient/AcceptLogin", size, c, func() { err = srv.AcceptLogin(passwords[c.ServerPw]) }) {
		return
	}
	rep.Eval(1)
	pe.in.take()
	switch {
	case c.ClientPw != c.ServerPw && err == nil:
		fail("advclient/AcceptLogin/no-error-with-wrong-password/type-"+fmt.Sprint(loginType), size, c, "a type-%d frame carrying a wrong password was accepted as a login", loginType)
		return
	case c.ClientPw == c.ServerPw && loginType == 3 && err != nil:
		fail("advclient/AcceptLogin/error-with-equal-passwords", size, c, "login rejected: %v", err)
		return
	case c.ClientPw == c.ServerPw && loginType != 3:
		rep.Unspec(1) // the right password under a non-login type: not covered by the statement
	}
	if len(c.Types) < 2 {
		return
	}
	cmdType := advTypes[c.Types[1]]
	pe.out.put(refrcon.Frame(c.ReqID, cmdType, []byte("list all")))
	var got string
	if guard("advclient/AcceptCmd", size, c, func() { got, err = srv.AcceptCmd() }) {
		return
	}
	rep.Eval(1)
	if cmdType == 2 {
		if err != nil || got != "list all" {
			fail("advclient/AcceptCmd/command-not-verbatim", size, c, "AcceptCmd = %q, %v", got, err)
		}
	} else {
		rep.Unspec(1) // a non-command frame where a command is expected
	}
}

// ---------------------------------------------------------------------------------------------

func judge(c Case) {
	switch c.Part {
	case "frame":
		judgeFrame(c)
	case "concat":
		judgeConcat(c)
	case "declared":
		judgeDeclared(c)
	case "login-tcp", "script-tcp":
		if atomic.LoadInt32(&tcpAborted) == 0 {
			judgeLoginTCP(c)
		}
	case "login-mem":
		judgeLoginMem(c)
	case "script-mem":
		judgeScriptMem(c)
	case "adversary-mem":
		judgeAdversaryMem(c)
	case "adversary-tcp":
		if atomic.LoadInt32(&tcpAborted) == 0 {
			judgeAdversaryTCP(c)
		}
	case "advclient":
		judgeAdvClient(c)
	default:
		engine.HarnessError("unknown part %q", c.Part)
	}
}

// seqs calls f with every index sequence of length 1..maxLen over [0,k).
func seqs(k, maxLen int, f func(s []int)) {
	var rec func(s []int)
	rec = func(s []int) {
		if len(s) > 0 {
			f(append([]int(nil), s...))
		}
		if len(s) == maxLen {
			return
		}
		for i := 0; i < k; i++ {
			rec(append(s, i))
		}
	}
	rec(nil)
}

func runAll(cases []Case) {
	engine.ParallelFor(len(cases), func(_, i int) { judge(cases[i]) })
}

func main() {
	rep = engine.NewReport("C16")
	rep.Rule = "nested-loop products, one case per tuple: frame=(id,type,payload kind,length,fragment size); concat=index sequence over a 6-frame alphabet (+ a 20-frame chain); declared=(length field, bytes available); login=(client password, server password) ordered pairs; script=(command,response) sequences; adversary=(command, answer id kind x type) sequences. Enumeration is injective, so distinct = cases; all are non-trivial (each reaches ReadPacket/WritePacket or a full session)"
	initAlpha()
	if err := refrcon.SelfTest(); err != nil {
		engine.HarnessError("refrcon self-test: %v", err)
	}
	if rep.ReplayPath != "" {
		rp, err := engine.LoadReplay(rep.ReplayPath)
		if err != nil {
			engine.HarnessError("cannot load replay: %v", err)
		}
		var c Case
		if err := json.Unmarshal(rp.Case, &c); err != nil {
			engine.HarnessError("bad case: %v", err)
		}
		fmt.Printf("replaying %s case %s\n", c.Part, string(rp.Case))
		for i := 0; i < 5; i++ {
			judge(c)
		}
		rep.Finish()
	}
	th := rep.Thorough()

	// ---- frame
	ids := []int32{0, 1, -1, math.MaxInt32, math.MinInt32}
	types := []int32{0, 2, 3, -1}
	lens := []int{0, 1, 2, refrcon.MaxPayload - 1, refrcon.MaxPayload, refrcon.MaxPayload + 1}
	chunks := []int{0, 1, 5}
	if th {
		ids = append(ids, 2, 255, 256, 65536, 0x01020304, -2, -256)
		types = append(types, 1, 4, math.MaxInt32, math.MinInt32)
		lens = nil
		for n := 0; n <= 80; n++ {
			lens = append(lens, n)
		}
		for n := 240; n <= 272; n++ {
			lens = append(lens, n)
		}
		for n := refrcon.MaxPayload - 16; n <= refrcon.MaxPayload+2; n++ {
			lens = append(lens, n)
		}
		chunks = []int{0, 1, 3, 4, 5, 13}
	}
	var cases []Case
	for _, id := range ids {
		for _, t := range types {
			for _, n := range lens {
				for _, k := range []string{"ascii", "nul", "nonutf8"} {
					if n == 0 && k != "ascii" {
						continue
					}
					for _, ch := range chunks {
						cases = append(cases, Case{Part: "frame", ID: id, Type: t, PayloadKind: k, PayloadLen: n, Chunk: ch})
					}
				}
			}
		}
	}
	nFrame := len(cases)
	rep.Sample(cases[7])

	// ---- concat
	maxSeq := 4
	if th {
		maxSeq = 5
	}
	nConcat := 0
	seqs(len(frameAlpha), maxSeq, func(s []int) {
		for _, ch := range []int{0, 1, 5} {
			cases = append(cases, Case{Part: "concat", Frames: s, Chunk: ch})
			nConcat++
		}
	})
	chain := make([]int, 20)
	for i := range chain {
		chain[i] = (i*5 + 1) % len(frameAlpha)
	}
	for _, ch := range []int{0, 1, 5} {
		cases = append(cases, Case{Part: "concat", Frames: chain, Chunk: ch})
		nConcat++
	}
	rep.Sample(Case{Part: "concat", Frames: []int{5, 0, 3}})

	// ---- declared lengths (small ones here; large ones after the small ones were judged)
	declared := []int32{-1, 0, 1, 2, 3, 4, 5, 6, 7, 8, 9, 10, 11, 4095, 4096, 4097, 4098, -10, -4096, math.MinInt32, math.MinInt32 + 10, 0x0a000000}
	if th {
		for d := int32(-16); d <= 40; d++ {
			declared = append(declared, d)
		}
		for d := int32(4080); d <= 4112; d++ {
			declared = append(declared, d)
		}
		for s := 12; s <= 20; s++ {
			declared = append(declared, 1<<s-1, 1<<s, 1<<s+1)
		}
	}
	nDecl := 0
	addDecl := func(d int32) {
		cand := []int{0, 10, 4096, 8200}
		if d >= 0 && d <= 1<<20 {
			cand = append(cand, int(d)-1, int(d), int(d)+4)
		}
		seen := map[int]bool{}
		for _, b := range cand {
			if b < 0 || seen[b] {
				continue
			}
			seen[b] = true
			cases = append(cases, Case{Part: "declared", Declared: d, BodyLen: b})
			nDecl++
		}
	}
	seenD := map[int32]bool{}
	for _, d := range declared {
		if !seenD[d] {
			seenD[d] = true
			addDecl(d)
		}
	}
	rep.Sample(Case{Part: "declared", Declared: 4097, BodyLen: 4097})

	// ---- login in memory, adversarial clients
	reqIDs := []int32{0, 1, 12345, math.MaxInt32, math.MinInt32}
	nLoginMem := 0
	for i := range passwords {
		for j := range passwords {
			for _, r := range reqIDs {
				cases = append(cases, Case{Part: "login-mem", ClientPw: i, ServerPw: j, ReqID: r})
				nLoginMem++
			}
		}
	}
	nAdvClient := 0
	for i := range passwords {
		for j := range passwords {
			for lt := range advTypes {
				cases = append(cases, Case{Part: "advclient", ClientPw: i, ServerPw: j, ReqID: 9, Types: []int{lt}})
				nAdvClient++
				if i == j && lt == 0 {
					for ct := range advTypes {
						cases = append(cases, Case{Part: "advclient", ClientPw: i, ServerPw: j, ReqID: 9, Types: []int{lt, ct}})
						nAdvClient++
					}
				}
			}
		}
	}

	// ---- scripts in memory: (command, response) sequences x request ids
	steps := 3
	if th {
		steps = 4
	}
	nScriptMem := 0
	seqs(len(commands)*len(responses), steps, func(s []int) {
		cm, rs := make([]int, len(s)), make([]int, len(s))
		for i, v := range s {
			cm[i], rs[i] = v/len(responses), v%len(responses)
		}
		rids := []int32{7}
		if len(s) <= 2 {
			rids = []int32{0, 1, -1, 7, math.MaxInt32, math.MinInt32}
		}
		for _, r := range rids {
			cases = append(cases, Case{Part: "script-mem", ReqID: r, Cmds: cm, Resps: rs})
			nScriptMem++
		}
	})
	rep.Sample(Case{Part: "script-mem", ReqID: 7, Cmds: []int{2, 0}, Resps: []int{1, 3}})

	// ---- adversary in memory: (command, answer) sequences
	nAdvMem := 0
	advCmds := []int{1, 3} // "x" and the limit-sized command; the answer alphabet carries the weight here
	if th {
		advCmds = []int{0, 1, 2, 3}
	}
	advSteps := 3
	if th {
		advSteps = 4
		advCmds = []int{1, 3}
	}
	seqs(len(advCmds)*8, advSteps, func(s []int) {
		cm, an := make([]int, len(s)), make([]int, len(s))
		for i, v := range s {
			cm[i], an[i] = advCmds[v/8], v%8
		}
		rids := []int32{7}
		if len(s) == 1 {
			rids = []int32{0, 1, -1, 7, math.MaxInt32, math.MinInt32, -2}
		}
		for _, r := range rids {
			cases = append(cases, Case{Part: "adversary-mem", ReqID: r, Cmds: cm, Answers: an})
			nAdvMem++
		}
	})
	rep.Sample(Case{Part: "adversary-mem", ReqID: 7, Cmds: []int{1}, Answers: []int{2}})

	runAll(cases)
	nMem := len(cases)

	// large declared lengths: only when the implementation showed an upper bound on the moderate ones,
	// so that a tree without the bound is never asked to allocate gigabytes (it already failed above)
	var big []Case
	for _, d := range []int32{1 << 24, 1 << 26, 1<<30 - 1, math.MaxInt32 - 1, math.MaxInt32} {
		for _, b := range []int{0, 10, 8200} {
			big = append(big, Case{Part: "declared", Declared: d, BodyLen: b})
		}
	}
	if atomic.LoadInt32(&sawLargeAccepted) == 0 {
		for _, c := range big {
			judge(c) // sequentially: at most one large allocation alive in a broken tree
		}
		nDecl += len(big)
	} else {
		rep.Count("declared_lengths_guarded_not_executed", int64(len(big)))
		rep.Cap("declared lengths >= 16 MiB not executed: the implementation accepted a length above the limit (allocation guard)")
	}

	// ---- TCP sessions
	var tcp []Case
	nLoginTCP, nScriptTCP, nAdvTCP := 0, 0, 0
	for i := range passwords {
		for j := range passwords {
			tcp = append(tcp, Case{Part: "login-tcp", ClientPw: i, ServerPw: j})
			nLoginTCP++
		}
	}
	tcpSteps := 3
	seqs(len(commands)*len(responses), tcpSteps, func(s []int) {
		cm, rs := make([]int, len(s)), make([]int, len(s))
		for i, v := range s {
			cm[i], rs[i] = v/len(responses), v%len(responses)
		}
		tcp = append(tcp, Case{Part: "script-tcp", ClientPw: 3, ServerPw: 3, Cmds: cm, Resps: rs})
		nScriptTCP++
	})
	for la := 0; la < 8; la++ {
		for _, pw := range []int{0, 3, 5} {
			tcp = append(tcp, Case{Part: "adversary-tcp", ClientPw: pw, LoginAns: la})
			nAdvTCP++
		}
		if la/2 == 0 { // login answered under the right id: go on with one command and every answer kind
			for a := 0; a < 8; a++ {
				for _, cmd := range []int{1, 3} {
					tcp = append(tcp, Case{Part: "adversary-tcp", ClientPw: 3, LoginAns: la, Cmds: []int{cmd}, Answers: []int{a}})
					nAdvTCP++
				}
			}
		}
	}
	rep.Sample(tcp[1])
	rep.Sample(tcp[len(tcp)-1])
	memPhaseFailed = rep.Failed()
	if memPhaseFailed {
		ioDeadline = 3 * time.Second
	}
	runAll(tcp)

	total := int64(nMem + len(tcp))
	rep.NonTrivial(total)
	rep.AddStates(total)
	rep.AddTraces(rep.Evaluations)
	var trans int64
	for _, c := range append(cases, tcp...) {
		trans += int64(1 + len(c.Frames) + 2*len(c.Cmds))
	}
	rep.AddTrans(trans)
	rep.Count("frame_cases", int64(nFrame))
	rep.Count("concat_cases", int64(nConcat))
	rep.Count("declared_length_cases", int64(nDecl))
	rep.Count("login_mem_cases", int64(nLoginMem))
	rep.Count("advclient_cases", int64(nAdvClient))
	rep.Count("script_mem_sessions", int64(nScriptMem))
	rep.Count("adversary_mem_sessions", int64(nAdvMem))
	rep.Count("login_tcp_sessions", int64(nLoginTCP))
	rep.Count("script_tcp_sessions", int64(nScriptTCP))
	rep.Count("adversary_tcp_sessions", int64(nAdvTCP))
	rep.Extra("max_frames_per_concat", maxSeq)
	rep.Extra("max_script_steps_mem", steps)
	rep.Extra("max_script_steps_tcp", tcpSteps)
	rep.Extra("password_alphabet", pwNames)
	rep.Extra("size_limit_declared_length", refrcon.MaxLength)
	rep.Assume("refrcon (Source RCON layout, declared length 10..4096) is trusted and pinned to the protocol documentation's example packet; DialRCON's request id (rand.Int31) is observed from the wire, never assumed; loopback TCP sessions use a 20 s I/O deadline that can only produce a harness error")
	rep.Note("unspecified verdicts: payloads above the limit on the write side; truncated in-range frames; responses under the right id but a non-zero type; login answers that are neither the echoed id nor -1; right password / command under a wrong frame type")
	rep.Finish()
}
