// Families added by the white-box audit: long passwords (every length up to the limit), login histories on one
// connection, session histories on one listener.
package main

import (
	"fmt"
	"net"
	"time"

	mcnet "github.com/Tnze/go-mc/net"

	"verif/engine"
	"verif/ref/refrcon"
)

// ---------------------------------------------------------------------------------------------
// part: login-long — passwords of every length 1..limit that are equal, differ in exactly one byte (first, middle,
// last; thorough: every position for the boundary lengths) or differ by the last byte being absent. A comparison
// that looks at a bounded window, at a fixed-size block, or at a truncated copy of either side accepts one of them.

func longPasswords(c Case) (cpw, spw, rel, eqName string) {
	base := payload("ascii", c.PwLen)
	alt := append([]byte(nil), base...)
	switch c.Rel {
	case "equal":
		rel = "long-equal"
	case "diff":
		if c.DiffPos < 0 || c.DiffPos >= c.PwLen {
			engine.HarnessError("login-long: position %d outside a %d-byte password", c.DiffPos, c.PwLen)
		}
		alt[c.DiffPos] ^= 0x01
		switch {
		case c.DiffPos == c.PwLen-1:
			rel = "long-differs-in-last-byte"
		case c.DiffPos == 0:
			rel = "long-differs-in-first-byte"
		default:
			rel = "long-differs-inside"
		}
	case "shorter":
		alt = alt[:c.PwLen-1]
		rel = "long-without-last-byte"
	default:
		engine.HarnessError("login-long: unknown relation %q", c.Rel)
	}
	eqName = "long-" + lenShape(c.PwLen)
	switch c.Altered {
	case "client":
		return string(alt), string(base), rel, eqName
	case "server":
		return string(base), string(alt), rel, eqName
	}
	engine.HarnessError("login-long: unknown side %q", c.Altered)
	return
}

// longBoundaryLens are the lengths around the block sizes a fixed-window comparison would plausibly use.
var longBoundaryLens = []int{15, 16, 17, 31, 32, 33, 63, 64, 65, 127, 128, 129, 255, 256, 257, 511, 512, 513, 1023, 1024, 1025, 2047, 2048, 2049, refrcon.MaxPayload - 1, refrcon.MaxPayload}

// longCases enumerates the family; part is "login-mem" (scripted client) or "login-tcp" (real DialRCON).
func longCases(part string, lens []int, allPositions bool) []Case {
	var out []Case
	for _, n := range lens {
		out = append(out, Case{Part: part, PwLen: n, Rel: "equal", Altered: "client", ReqID: 5})
		for _, side := range []string{"client", "server"} {
			seen := map[int]bool{}
			pos := []int{0, n / 2, n - 1}
			if allPositions {
				pos = nil
				for p := 0; p < n; p++ {
					pos = append(pos, p)
				}
			}
			for _, p := range pos {
				if !seen[p] {
					seen[p] = true
					out = append(out, Case{Part: part, PwLen: n, Rel: "diff", DiffPos: p, Altered: side, ReqID: 5})
				}
			}
			out = append(out, Case{Part: part, PwLen: n, Rel: "shorter", Altered: side, ReqID: 5})
		}
	}
	return out
}

// ---------------------------------------------------------------------------------------------
// part: login-hist — several login attempts one after the other on ONE server-side connection. Every attempt has
// its own fixed expectation (accepted iff its password equals the server's), so an implementation whose verdict
// depends on the attempts before it fails at the shortest such history.

func judgeLoginHist(c Case) {
	srvEnd, peer := duplex()
	c.reader(srvEnd)
	srv := &mcnet.RCONConn{Conn: srvEnd}
	size := len(c.Attempts)
	hist := "first"
	for k, pw := range c.Attempts {
		cc := c
		cc.ClientPw = pw
		cpw, spw, rel, eqName := pwOf(cc)
		if !loginAttempt("login/hist/"+hist, size, c, srv, peer, int32(20+k), cpw, spw, rel, eqName) {
			return
		}
		if srvEnd.in.unread() != 0 {
			fail("login/hist/stream/leftover-bytes", size, c, "%d bytes unread after attempt #%d", srvEnd.in.unread(), k)
			return
		}
		switch {
		case pw != c.ServerPw:
			hist = "after-a-rejected-attempt"
		case hist == "first":
			hist = "after-accepted-attempts"
		}
	}
}

// ---------------------------------------------------------------------------------------------
// part: listener-hist — several sessions one after the other on ONE RCONListener (real DialRCON, real Accept /
// AcceptLogin / AcceptCmd / RespCmd over loopback TCP). Each session is judged on its own.

func judgeListenerHist(c Case) {
	l, err := mcnet.ListenRCON("127.0.0.1:0")
	if err != nil {
		tcpTrouble(c, fmt.Errorf("listen: %w", err))
		return
	}
	defer l.Close()
	if tl, ok := l.Listener.(*net.TCPListener); ok {
		tl.SetDeadline(time.Now().Add(ioDeadline))
	}
	g := newSessionGuard()
	g.add(l)
	stalled := false
	defer func() {
		if !stalled {
			g.finish()
		}
	}()
	size := len(c.Attempts)
	spw := passwords[c.ServerPw]
	hist := "first"
	for k, pw := range c.Attempts {
		cpw := passwords[pw]
		cmd, resp := fmt.Sprintf("cmd %d", k), fmt.Sprintf("resp %d", k)
		type srvOut struct {
			loginErr, cmdErr, harness error
			cmd                       string
		}
		ch := make(chan srvOut, 1)
		go func() {
			var o srvOut
			defer func() { ch <- o }()
			conn, err := l.Accept()
			if err != nil {
				o.harness = fmt.Errorf("accept: %w", err)
				return
			}
			defer conn.Close()
			g.add(conn)
			if rc, ok := conn.(*mcnet.RCONConn); ok {
				rc.SetDeadline(time.Now().Add(ioDeadline))
			}
			if o.loginErr = conn.AcceptLogin(spw); o.loginErr != nil {
				return
			}
			if o.cmd, o.cmdErr = conn.AcceptCmd(); o.cmdErr != nil {
				return
			}
			o.cmdErr = conn.RespCmd(resp)
		}()
		client, cerr := mcnet.DialRCON(l.Addr().String(), cpw)
		var (
			got     string
			respErr error
		)
		if cerr == nil {
			if rc, ok := client.(*mcnet.RCONConn); ok {
				rc.SetDeadline(time.Now().Add(ioDeadline))
			}
			if respErr = client.Cmd(cmd); respErr == nil {
				got, respErr = client.Resp()
			}
			client.Close()
		} else if rc, ok := client.(*mcnet.RCONConn); ok && rc != nil && rc.Conn != nil {
			rc.Close()
		}
		o := <-ch
		if g.broken() {
			stalled = true
			g.finish()
			tcpTrouble(c, fmt.Errorf("session #%d on one listener stalled (both peers blocked for good) and was broken up", k))
			return
		}
		if o.harness != nil || isTimeout(cerr) || isTimeout(respErr) || isTimeout(o.loginErr) || isTimeout(o.cmdErr) {
			tcpTrouble(c, fmt.Errorf("session #%d on one listener: %v / %v / %v / %v / %v", k, o.harness, cerr, respErr, o.loginErr, o.cmdErr))
			return
		}
		rep.Eval(1)
		if pw == c.ServerPw {
			switch {
			case cerr != nil || o.loginErr != nil:
				fail("login/listener-hist/error-with-equal-passwords/"+hist, size, c, "session #%d: DialRCON %v, AcceptLogin %v", k, cerr, o.loginErr)
				return
			case o.cmdErr != nil || o.cmd != cmd:
				fail("script/listener-hist/AcceptCmd/command-not-verbatim/"+hist, size, c, "session #%d: command arrived as %q (%v), sent %q", k, o.cmd, o.cmdErr, cmd)
				return
			case respErr != nil || got != resp:
				fail("script/listener-hist/Resp/error-on-matching-response/"+hist, size, c, "session #%d: response %q (%v), sent %q", k, got, respErr, resp)
				return
			}
			if hist == "first" {
				hist = "after-accepted-sessions"
			}
		} else {
			if cerr == nil || o.loginErr == nil {
				fail("login/listener-hist/no-error-with-wrong-password/"+hist, size, c, "session #%d: DialRCON %v, AcceptLogin %v", k, cerr, o.loginErr)
				return
			}
			hist = "after-a-rejected-session"
		}
	}
}
