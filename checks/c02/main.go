// C02 — NBT typed round trip; carriers byte-exact.
//
// (A) every (type, value) of the reflect-built universe x {file, network} x {value, pointer}:
// encoding must not panic, must not modify v, must succeed for documented kinds, and decoding the
// bytes into a fresh variable of v's type must give back v and the root name.
// (B) every document of <= N nodes decoded into RawMessage / dynbt.Value at the root, in a struct
// field, in a map and in a list, then re-encoded: bytes must be identical.
// (C)-(F): histories, used carrier destinations, size classes and name lengths, see extra.go.
package main

import (
	"bytes"
	"encoding/hex"
	"encoding/json"
	"fmt"
	"io"
	"os"
	"reflect"
	"strconv"
	"strings"
	"sync/atomic"
	"time"

	"github.com/Tnze/go-mc/nbt"
	"github.com/Tnze/go-mc/nbt/dynbt"

	"verif/checks/nbtgo"
	"verif/engine"
	"verif/ref/refnbt"
)

var rep *engine.Report

type RTCase struct {
	Kind  string `json:"kind"` // "roundtrip"
	Tape  []int  `json:"tape"`
	Depth int    `json:"depth"`
	Value string `json:"value"`
	Conf  string `json:"config"`
}

type CarCase struct {
	Kind     string `json:"kind"` // "carrier"
	Tape     []int  `json:"tape"`
	Alphabet string `json:"alphabet"`
	Nodes    int    `json:"nodes"`
	Doc      string `json:"doc_tree"`
	Conf     string `json:"config"`
}

type rtCfg struct{ network, ptr bool }

func (c rtCfg) String() string { return fmt.Sprintf("network=%v ptr=%v", c.network, c.ptr) }

var rtCfgs = []rtCfg{{false, false}, {true, false}, {false, true}, {true, true}}

// eraseIgnored returns a copy of v in which every struct field tagged nbt:"-" is zeroed (it is
// documented not to be encoded, so it cannot come back).
func eraseIgnored(v reflect.Value) reflect.Value {
	out := reflect.New(v.Type()).Elem()
	switch v.Kind() {
	case reflect.Struct:
		for i := 0; i < v.NumField(); i++ {
			if v.Type().Field(i).Tag.Get("nbt") == "-" {
				continue
			}
			out.Field(i).Set(eraseIgnored(v.Field(i)))
		}
	case reflect.Pointer:
		if !v.IsNil() {
			p := reflect.New(v.Type().Elem())
			p.Elem().Set(eraseIgnored(v.Elem()))
			out.Set(p)
		}
	case reflect.Interface:
		if !v.IsNil() {
			out.Set(eraseIgnored(v.Elem()))
		}
	case reflect.Slice:
		if !v.IsNil() {
			s := reflect.MakeSlice(v.Type(), v.Len(), v.Len())
			for i := 0; i < v.Len(); i++ {
				s.Index(i).Set(eraseIgnored(v.Index(i)))
			}
			out.Set(s)
		}
	case reflect.Array:
		for i := 0; i < v.Len(); i++ {
			out.Index(i).Set(eraseIgnored(v.Index(i)))
		}
	case reflect.Map:
		if !v.IsNil() {
			m := reflect.MakeMap(v.Type())
			it := v.MapRange()
			for it.Next() {
				m.SetMapIndex(it.Key(), eraseIgnored(it.Value()))
			}
			out.Set(m)
		}
	default:
		out.Set(v)
	}
	return out
}

func judgeRoundTrip(v reflect.Value, cfg rtCfg) (class, detail string) {
	return judgeRT(v, rtx{network: cfg.network, ptr: cfg.ptr, name: "root", reader: "bytes", entry: "coder"})
}

// rtx is one way of taking a value through the codec: format, value/pointer argument, the root
// name handed to the encoder, how the encoded bytes are delivered to the decoder and which pair of
// entry points is used.
type rtx struct {
	network, ptr bool
	name         string // root name given to Encode ("coder" entry only)
	reader       string // "bytes" (*bytes.Reader), "plain" (io.Reader only, whole reads), "onebyte" (io.Reader only, 1 byte per Read)
	entry        string // "coder": NewEncoder(..).Encode / NewDecoder(..).Decode; "marshal": nbt.Marshal / nbt.Unmarshal
	sig          string // class fragment for the type ("" = nbtgo.KindSig)
}

func (o rtx) String() string {
	return fmt.Sprintf("network=%v ptr=%v name_len=%d reader=%s entry=%s", o.network, o.ptr, len(o.name), o.reader, o.entry)
}

// oneByteReader hands out one byte per Read and hides every optional interface.
type oneByteReader struct {
	data []byte
	pos  int
}

func (r *oneByteReader) Read(b []byte) (int, error) {
	if len(b) == 0 {
		return 0, nil
	}
	if r.pos >= len(r.data) {
		return 0, io.EOF
	}
	b[0] = r.data[r.pos]
	r.pos++
	return 1, nil
}

// eofDataReader hands out everything asked for and reports io.EOF together with the final bytes of the stream (as
// gzip and iotest.DataErrReader do; the io.Reader contract allows it); it hides every optional interface.
type eofDataReader struct {
	data []byte
	pos  int
}

func (r *eofDataReader) Read(b []byte) (int, error) {
	if len(b) == 0 {
		return 0, nil
	}
	n := copy(b, r.data[r.pos:])
	r.pos += n
	if r.pos >= len(r.data) {
		return n, io.EOF
	}
	return n, nil
}

func mkReader(kind string, data []byte) io.Reader {
	switch kind {
	case "plain":
		return &engine.PlainReader{Data: data}
	case "onebyte":
		return &oneByteReader{data: data}
	case "eofdata":
		return &eofDataReader{data: data}
	}
	return bytes.NewReader(data)
}

// extraCarx: the carrier family (every tree x every position) is also run through these entry/reader pairs.
var extraCarx = []carx{
	{reader: "bytes", entry: "marshal"},
	{name: "rt", reader: "eofdata", entry: "coder"},
	{name: "rt", reader: "onebyte", entry: "coder"},
}

// encodeStep encodes v. data is what the entry point returned (NOT copied: whether it stays
// intact while other encodings are produced is part of what the history families observe).
// skip: the statement promises no round trip for v (counted as unspecified).
func encodeStep(v reflect.Value, o rtx) (data []byte, class, detail string, skip bool) {
	t := v.Type()
	work := reflect.New(t)
	work.Elem().Set(nbtgo.Snapshot(v))
	snap := nbtgo.Snapshot(v)
	var arg any
	if o.ptr {
		arg = work.Interface()
	} else {
		arg = work.Elem().Interface()
		// the encoder receives a copy of the struct header; nested pointers/slices still alias work
	}
	var err error
	kind, frame, panicked := engine.Guard(func() {
		if o.entry == "marshal" {
			data, err = nbt.Marshal(arg)
			return
		}
		var buf bytes.Buffer
		e := nbt.NewEncoder(&buf)
		e.NetworkFormat(o.network)
		err = e.Encode(arg, o.name)
		data = buf.Bytes()
	})
	if panicked {
		return nil, "encode/panic/" + frame + "/" + kind, fmt.Sprintf("Encode panicked: %s in %s", kind, frame), false
	}
	if !nbtgo.Identical(work.Elem(), snap) {
		return nil, "encode/modifies-input/" + diffKind(snap, work.Elem()), "value after Encode differs from the value before", false
	}
	if why := notRoundTrippable(v); why != "" {
		rep.Unspec(1)
		rep.Count("unspecified: "+why, 1)
		return nil, "", "", true
	}
	if err != nil {
		sig := o.sig
		if sig == "" {
			sig = nbtgo.KindSig(t)
		}
		return nil, "encode/error-on-documented-kind/" + sig, "Encode returned " + err.Error(), false
	}
	return data, "", "", false
}

// decodeStep decodes data into a fresh variable of v's type and compares with v and the root name.
func decodeStep(v reflect.Value, data []byte, o rtx) (class, detail string) {
	t := v.Type()
	sig := o.sig
	if sig == "" {
		sig = nbtgo.KindSig(t)
	}
	fresh := reflect.New(t)
	var name string
	var err error
	kind, frame, panicked := engine.Guard(func() {
		if o.entry == "marshal" {
			err = nbt.Unmarshal(data, fresh.Interface())
			return
		}
		d := nbt.NewDecoder(mkReader(o.reader, data))
		d.NetworkFormat(o.network)
		name, err = d.Decode(fresh.Interface())
	})
	if panicked {
		return "decode/panic/" + frame + "/" + kind, fmt.Sprintf("Decode of own encoding panicked: %s in %s", kind, frame)
	}
	if err != nil {
		return "roundtrip/decode-error/" + sig, fmt.Sprintf("decoding %x into a fresh %s: %v", clipB(data), clipS(t.String(), 120), err)
	}
	want := o.name
	if o.network || o.entry == "marshal" {
		want = "" // network format carries no root name; Marshal writes "" and Unmarshal does not return it
	}
	if name != want {
		return "roundtrip/root-name", fmt.Sprintf("root name %q, want %q", clipS(name, 80), clipS(want, 80))
	}
	exp := eraseIgnored(v)
	if !nbtgo.RoundTripEqual(exp, fresh.Elem()) {
		return "roundtrip/not-equal/" + sig, "decoded " + clipS(fmt.Sprintf("%#v", fresh.Elem().Interface()), 400)
	}
	return "", ""
}

func judgeRT(v reflect.Value, o rtx) (class, detail string) {
	data, class, detail, skip := encodeStep(v, o)
	if class != "" || skip {
		return class, detail
	}
	return decodeStep(v, data, o)
}

// diffKind names the first difference between the value before and after encoding.
func diffKind(before, after reflect.Value) string {
	switch before.Kind() {
	case reflect.Pointer, reflect.Interface:
		if before.IsNil() != after.IsNil() {
			if before.IsNil() {
				return "nil-" + before.Kind().String() + "-allocated"
			}
			return before.Kind().String() + "-set-to-nil"
		}
		if before.IsNil() {
			return ""
		}
		return diffKind(before.Elem(), after.Elem())
	case reflect.Struct:
		for i := 0; i < before.NumField(); i++ {
			if d := diffKind(before.Field(i), after.Field(i)); d != "" {
				return d
			}
		}
		return ""
	case reflect.Slice, reflect.Array:
		if before.Kind() == reflect.Slice && (before.IsNil() != after.IsNil() || before.Len() != after.Len()) {
			return "slice-header-changed"
		}
		for i := 0; i < before.Len(); i++ {
			if d := diffKind(before.Index(i), after.Index(i)); d != "" {
				return d
			}
		}
		return ""
	case reflect.Map:
		if before.IsNil() != after.IsNil() || before.Len() != after.Len() {
			return "map-changed"
		}
		it := before.MapRange()
		for it.Next() {
			av := after.MapIndex(it.Key())
			if !av.IsValid() {
				return "map-changed"
			}
			if d := diffKind(it.Value(), av); d != "" {
				return d
			}
		}
		return ""
	}
	if !nbtgo.Identical(before, after) {
		return "scalar-changed/" + before.Kind().String()
	}
	return ""
}

// notRoundTrippable explains why the statement does not promise a round trip for v
// ("" if it does): NBT has no null, so nil pointers/interfaces outside omitempty fields have no
// faithful encoding; ",list" on a field that is not a typed array is a usage error.
func notRoundTrippable(v reflect.Value) string {
	switch v.Kind() {
	case reflect.Pointer, reflect.Interface:
		if v.IsNil() {
			return "nil pointer/interface (NBT has no null)"
		}
		return notRoundTrippable(v.Elem())
	case reflect.Slice, reflect.Array:
		if et := v.Type().Elem(); et.Kind() == reflect.Pointer && et.Elem().Kind() != reflect.Struct {
			return "slice/array of pointers to non-struct values (not part of the documented universe)"
		}
		for i := 0; i < v.Len(); i++ {
			if w := notRoundTrippable(v.Index(i)); w != "" {
				return w
			}
		}
	case reflect.Map:
		it := v.MapRange()
		for it.Next() {
			if w := notRoundTrippable(it.Value()); w != "" {
				return w
			}
		}
	case reflect.Struct:
		for i := 0; i < v.NumField(); i++ {
			sf := v.Type().Field(i)
			tag := sf.Tag.Get("nbt")
			if tag == "-" {
				continue
			}
			_, opts, _ := strings.Cut(tag, ",")
			fv := v.Field(i)
			if strings.Contains(opts, "omitempty") && (fv.Kind() == reflect.Pointer || fv.Kind() == reflect.Interface) && fv.IsNil() {
				continue
			}
			if strings.Contains(opts, "list") {
				m := nbtgo.ToTree(fv)
				if m.Status != nbtgo.OK || (m.Node.Tag != refnbt.ByteArray && m.Node.Tag != refnbt.IntArray && m.Node.Tag != refnbt.LongArray) {
					return ",list on a field that is not a typed array"
				}
			}
			if w := notRoundTrippable(fv); w != "" {
				return w
			}
		}
	case reflect.Int, reflect.Uint, reflect.Uintptr:
		return "Go int/uint"
	}
	return ""
}

func typedRoundTrip(depth int, deadline time.Time) {
	var vals, evals int64
	st := engine.Explore(engine.ExploreOpts{Workers: engine.Workers(), Deadline: deadline}, func(c *engine.Chooser) {
		t := nbtgo.GenType(c, depth)
		v := nbtgo.GenValue(c, t, 0)
		k := atomic.AddInt64(&vals, 1)
		if k%40000 == 1 {
			rep.Sample(map[string]any{"part": "typed round trip", "value": clipS(nbtgo.Describe(v), 200)})
		}
		for _, cfg := range rtCfgs {
			class, detail := judgeRoundTrip(v, cfg)
			if class != "" {
				cfg := cfg
				rep.FailLazy(class, len(nbtgo.KindSig(t))*1000+len(nbtgo.Describe(v)), func() engine.Failure {
					return engine.Failure{Detail: detail + " [" + cfg.String() + "] value: " + clipS(nbtgo.Describe(v), 300),
						Case: RTCase{"roundtrip", c.Tape(), depth, clipS(nbtgo.Describe(v), 300), cfg.String()}}
				})
			}
		}
		for _, ptr := range []bool{false, true} {
			o := rtx{ptr: ptr, reader: "bytes", entry: "marshal"}
			class, detail := judgeRT(v, o)
			if class != "" {
				rep.FailLazy(class, len(nbtgo.KindSig(t))*1000+len(nbtgo.Describe(v)), func() engine.Failure {
					return engine.Failure{Detail: detail + " [" + o.String() + "] value: " + clipS(nbtgo.Describe(v), 300),
						Case: RTCase{"roundtrip", c.Tape(), depth, clipS(nbtgo.Describe(v), 300), o.String()}}
				})
			}
		}
		atomic.AddInt64(&evals, int64(len(rtCfgs)+2))
	})
	if !st.Complete {
		rep.Cap("typed round trip (type depth %d) stopped by deadline after %d values", depth, st.Executions)
	}
	rep.AddTrans(st.Points)
	rep.Eval(evals)
	rep.NonTrivial(vals)
	rep.AddStates(vals)
	rep.Count("roundtrip_values", vals)
}

// ---- carriers ----

type rawField struct {
	F nbt.RawMessage `nbt:"f"`
}
type dynField struct {
	F dynbt.Value `nbt:"f"`
}
type dynPtrField struct {
	F *dynbt.Value `nbt:"f"`
}

type carCfg struct {
	carrier  string // raw, dynbt
	position string // root, field, map, list
	network  bool
}

func (c carCfg) String() string {
	return fmt.Sprintf("carrier=%s position=%s network=%v", c.carrier, c.position, c.network)
}

func allCarCfgs() (out []carCfg) {
	for _, car := range []string{"raw", "dynbt"} {
		for _, pos := range []string{"root", "field", "map", "list", "array", "valuefield"} {
			if pos == "valuefield" && car != "dynbt" {
				continue
			}
			for _, net := range []bool{false, true} {
				out = append(out, carCfg{car, pos, net})
			}
		}
	}
	return
}

var carCfgs = allCarCfgs()

// carrierOuter wraps tree into the document that puts it at cfg.position.
func carrierOuter(tree *refnbt.Node, cfg carCfg) *refnbt.Node {
	switch cfg.position {
	case "field", "valuefield":
		return &refnbt.Node{Tag: refnbt.Compound, Fields: []refnbt.Field{{Name: "f", Val: tree}}}
	case "map":
		return &refnbt.Node{Tag: refnbt.Compound, Fields: []refnbt.Field{{Name: "k", Val: tree}}}
	case "list", "array":
		return &refnbt.Node{Tag: refnbt.List, ElemTag: tree.Tag, Elems: []*refnbt.Node{tree, tree}}
	}
	return tree
}

// carrierTarget is a fresh destination holding the carrier at cfg.position.
func carrierTarget(cfg carCfg) any {
	switch cfg.carrier + "/" + cfg.position {
	case "raw/root":
		return new(nbt.RawMessage)
	case "raw/field":
		return new(rawField)
	case "raw/map":
		return new(map[string]nbt.RawMessage)
	case "raw/list":
		return new([]nbt.RawMessage)
	case "raw/array":
		return new([2]nbt.RawMessage)
	case "dynbt/root":
		return new(dynbt.Value)
	case "dynbt/field":
		return new(dynPtrField)
	case "dynbt/valuefield":
		return new(dynField)
	case "dynbt/map":
		return new(map[string]*dynbt.Value)
	case "dynbt/list":
		return new([]*dynbt.Value)
	case "dynbt/array":
		return new([2]*dynbt.Value)
	}
	panic("no target for " + cfg.String())
}

// carx says how a carrier case is driven: root name of the document, reader kind, entry points.
type carx struct {
	name   string // root name (file format only)
	reader string // see rtx.reader
	entry  string // "coder" or "marshal" (nbt.Unmarshal / nbt.Marshal: file format, root name "")
}

var plainCarx = carx{name: "rt", reader: "bytes", entry: "coder"}

func (x carx) rootName(cfg carCfg) string {
	if cfg.network || x.entry == "marshal" {
		return ""
	}
	return x.name
}

// carrierDecode decodes doc into target (fresh or used).
func carrierDecode(target any, doc []byte, tree *refnbt.Node, cfg carCfg, x carx) (gotName, class, detail string) {
	var err error
	kind, frame, panicked := engine.Guard(func() {
		if x.entry == "marshal" {
			err = nbt.Unmarshal(doc, target)
			return
		}
		d := nbt.NewDecoder(mkReader(x.reader, doc))
		d.NetworkFormat(cfg.network)
		gotName, err = d.Decode(target)
	})
	pre := "carrier/" + cfg.carrier + "/" + cfg.position + "/"
	if panicked {
		return "", pre + "decode-panic/" + frame + "/" + kind, "panic " + kind + " in " + frame
	}
	if err != nil {
		return "", pre + "decode-error/" + nbtgo.TagSig(tree), "well-formed document rejected: " + err.Error()
	}
	return gotName, "", ""
}

// carrierEncode re-encodes target under the root name the decoder reported. The returned slice
// is what the entry point handed out (not copied).
func carrierEncode(target any, gotName string, tree *refnbt.Node, cfg carCfg, x carx) (out []byte, class, detail string) {
	var err error
	kind, frame, panicked := engine.Guard(func() {
		if x.entry == "marshal" {
			out, err = nbt.Marshal(target)
			return
		}
		var buf bytes.Buffer
		e := nbt.NewEncoder(&buf)
		e.NetworkFormat(cfg.network)
		err = e.Encode(target, gotName)
		out = buf.Bytes()
	})
	pre := "carrier/" + cfg.carrier + "/" + cfg.position + "/"
	if panicked {
		return nil, pre + "encode-panic/" + frame + "/" + kind, "panic " + kind + " in " + frame
	}
	if err != nil {
		return nil, pre + "encode-error/" + nbtgo.TagSig(tree), "re-encoding failed: " + err.Error()
	}
	return out, "", ""
}

func judgeCarrier(tree *refnbt.Node, cfg carCfg) (class, detail string) {
	return judgeCarrierX(tree, cfg, plainCarx)
}

func judgeCarrierX(tree *refnbt.Node, cfg carCfg, x carx) (class, detail string) {
	doc := refnbt.Append(nil, x.rootName(cfg), carrierOuter(tree, cfg), cfg.network)
	target := carrierTarget(cfg)
	gotName, class, detail := carrierDecode(target, doc, tree, cfg, x)
	if class != "" {
		return class, detail
	}
	out, class, detail := carrierEncode(target, gotName, tree, cfg, x)
	if class != "" {
		return class, detail
	}
	if !bytes.Equal(out, doc) {
		return "carrier/" + cfg.carrier + "/" + cfg.position + "/not-byte-exact/" + nbtgo.TagSig(tree), fmt.Sprintf("decoded %x, re-encoded %x", clipB(doc), clipB(out))
	}
	return "", ""
}

func carriers(nFull, nRed int, deadline time.Time) {
	var trees, evals int64
	for _, g := range []struct {
		n     int
		alpha *refnbt.Alphabet
		name  string
	}{{nFull, refnbt.Full(), "full"}, {nRed, refnbt.Reduced(), "reduced"}} {
		g := g
		st := engine.Explore(engine.ExploreOpts{Workers: engine.Workers(), Deadline: deadline}, func(c *engine.Chooser) {
			tree := refnbt.Gen(c, g.n, g.alpha)
			if g.name == "reduced" && tree.Count() <= nFull {
				return
			}
			k := atomic.AddInt64(&trees, 1)
			if k%20000 == 1 {
				rep.Sample(map[string]any{"part": "carrier", "tree": clipS(tree.String(), 200)})
			}
			for _, cfg := range carCfgs {
				class, detail := judgeCarrier(tree, cfg)
				if class != "" {
					cfg := cfg
					rep.FailLazy(class, tree.Count()*1000+len(detail), func() engine.Failure {
						return engine.Failure{Detail: detail + " [" + cfg.String() + "] doc=" + clipS(tree.String(), 200),
							Case: CarCase{"carrier", c.Tape(), g.name, g.n, clipS(tree.String(), 300), cfg.String()}}
					})
				}
			}
			nm := 0
			for _, cfg := range carCfgs {
				for _, x := range extraCarx {
					if cfg.network && x.entry == "marshal" {
						continue
					}
					nm++
					x := x
					class, detail := judgeCarrierX(tree, cfg, x)
					if class != "" {
						cfg := cfg
						rep.FailLazy(class+"/reader="+x.reader, tree.Count()*1000+len(detail), func() engine.Failure {
							return engine.Failure{Detail: detail + " [" + carxString(cfg, x) + "] doc=" + clipS(tree.String(), 200),
								Case: CarCase{"carrier", c.Tape(), g.name, g.n, clipS(tree.String(), 300), carxString(cfg, x)}}
						})
					}
				}
			}
			for _, pos := range smPositions {
				for _, network := range []bool{false, true} {
					class, detail, unspec := judgeStringified(tree, pos, network)
					nm++
					if unspec {
						rep.Unspec(1)
					}
					if class != "" {
						conf := fmt.Sprintf("carrier=stringified position=%s network=%v", pos, network)
						rep.FailLazy(class, tree.Count()*1000+len(detail), func() engine.Failure {
							return engine.Failure{Detail: detail + " [" + conf + "] doc=" + clipS(tree.String(), 200),
								Case: CarCase{"carrier", c.Tape(), g.name, g.n, clipS(tree.String(), 300), conf}}
						})
					}
				}
			}
			atomic.AddInt64(&evals, int64(len(carCfgs)+nm))
		})
		if !st.Complete {
			rep.Cap("carriers (%s alphabet, <=%d nodes) stopped by deadline after %d trees", g.name, g.n, st.Executions)
		}
		rep.AddTrans(st.Points)
	}
	rep.Eval(evals)
	rep.NonTrivial(trees)
	rep.AddStates(trees)
	rep.Count("carrier_trees", trees)
}

// catalogue: hand-written embedding cases must round trip.
func catalogue() {
	for _, it := range nbtgo.Catalogue() {
		if !it.RoundTrip {
			continue
		}
		for _, network := range []bool{false, true} {
			var buf bytes.Buffer
			var err error
			kind, frame, panicked := engine.Guard(func() {
				e := nbt.NewEncoder(&buf)
				e.NetworkFormat(network)
				err = e.Encode(it.Value, "")
				if err != nil {
					return
				}
				fresh := it.Fresh()
				d := nbt.NewDecoder(bytes.NewReader(buf.Bytes()))
				d.NetworkFormat(network)
				_, err = d.Decode(fresh)
				if err == nil && !nbtgo.RoundTripEqual(reflect.ValueOf(it.Value), reflect.ValueOf(fresh).Elem()) {
					err = fmt.Errorf("decoded %#v, want %#v", reflect.ValueOf(fresh).Elem().Interface(), it.Value)
				}
			})
			rep.Eval(1)
			if panicked {
				rep.Fail(engine.Failure{Class: "catalogue/" + it.Name + "/panic/" + frame + "/" + kind, Detail: "panic", Case: map[string]string{"kind": "catalogue", "name": it.Name}}, 0)
			} else if err != nil {
				rep.Fail(engine.Failure{Class: "catalogue/" + it.Name + "/roundtrip", Detail: err.Error(), Case: map[string]string{"kind": "catalogue", "name": it.Name}}, 0)
			}
		}
		rep.NonTrivial(1)
	}
}

func clipS(s string, n int) string {
	if len(s) > n {
		return s[:n] + "…"
	}
	return s
}

func clipB(b []byte) []byte {
	if len(b) > 64 {
		return b[:64]
	}
	return b
}

func main() {
	rep = engine.NewReport("C02")
	rep.Rule = "(A) every (type,value) of the reflect-built universe to the stated depth x {file,network} x {value,pointer} through Encoder/Decoder, and x {value,pointer} through nbt.Marshal/nbt.Unmarshal; (B) every tree of <=N nodes x {RawMessage, dynbt.Value} x {root, struct field, pointer field, map value, list element, array element} x {file,network} (+ Marshal/Unmarshal for the file format); (C) histories of 2 (depth-1 menu) / 3 (scalar menu) encodings kept alive together, typed and through carriers; (D) ordered pairs of documents decoded into one carrier object; (E) every length of the length menu x shapes x delivery of the bytes; (F) every name length of the menu x name positions. distinct_nontrivial = distinct (type,value) pairs + distinct trees + histories + (shape,length) cases"
	if rep.ReplayPath != "" {
		replay()
		return
	}
	depth, nFull, nRed := 2, 2, 3
	start := time.Now()
	// C02_DEADLINE_SCALE stretches the internal deadlines (for runs on an overloaded machine only;
	// the enumerated space does not depend on it).
	scale := 1.0
	if f, err := strconv.ParseFloat(os.Getenv("C02_DEADLINE_SCALE"), 64); err == nil && f >= 1 {
		scale = f
	}
	after := func(d time.Duration) time.Time { return start.Add(time.Duration(float64(d) * scale)) }
	if rep.Thorough() {
		depth, nFull, nRed = 3, 2, 4
	}
	// Families (C)-(F) run first under their own cap: they take a few seconds (quick) / well under
	// a minute (thorough) on an idle machine, and must not be starved by (A), which in the thorough
	// tier always runs into its deadline.
	xdl := after(100 * time.Second)
	if rep.Thorough() {
		xdl = after(4 * time.Minute)
	}
	timed := func(name string, f func()) {
		t0 := time.Now()
		f()
		rep.Extra("wall_s_"+name, time.Since(t0).Seconds())
	}
	timed("name_lengths", func() { nameLengths(rep.Thorough(), xdl) })
	timed("used_destinations", func() { usedDestinations(xdl) })
	timed("alive_carriers", func() { aliveCarriers(xdl) })
	timed("alive_typed", func() { aliveTyped(xdl) })
	timed("size_classes", func() { sizeClasses(rep.Thorough(), xdl) })
	// (A) and (B): quick gets 70 s from here, thorough runs until minute 12 of the whole run
	dl := time.Now().Add(time.Duration(70 * float64(time.Second) * scale))
	if rep.Thorough() {
		dl = after(12 * time.Minute)
	}
	if os.Getenv("C02_ONLY") != "extras" { // development aid: run only the families of extra.go
		typedRoundTrip(depth, dl)
		carriers(nFull, nRed, dl.Add(20*time.Second))
		catalogue()
		famSMStrings()
	} else {
		rep.Cap("C02_ONLY=extras: families (A), (B) and the catalogue were skipped")
	}
	rep.Extra("type_depth", depth)
	rep.Extra("nodes_full_alphabet", nFull)
	rep.Extra("nodes_reduced_alphabet", nRed)
	rep.AddTraces(rep.Evaluations)
	rep.Assume("equality: NaN by bits, nil==empty containers, interface-typed slots compared at the NBT level (dynamic Go types cannot survive NBT), fields tagged nbt:\"-\" ignored; values whose encoding the documentation leaves open (nil pointers/interfaces, []bool, slices of interfaces/pointers, misuse of ,list) are unspecified for equality but still checked for panics and input mutation")
	_ = hex.EncodeToString
	_ = strings.Repeat
	rep.Finish()
}

func replay() {
	rp, err := engine.LoadReplay(rep.ReplayPath)
	if err != nil {
		engine.HarnessError("cannot load replay: %v", err)
	}
	var probe struct {
		Kind string `json:"kind"`
	}
	json.Unmarshal(rp.Case, &probe)
	switch probe.Kind {
	case "roundtrip":
		var c RTCase
		json.Unmarshal(rp.Case, &c)
		ch := engine.NewReplayChooser(c.Tape)
		t := nbtgo.GenType(ch, c.Depth)
		v := nbtgo.GenValue(ch, t, 0)
		fmt.Println("replaying round trip of", nbtgo.Describe(v), c.Conf)
		for i := 0; i < 5; i++ {
			for _, cfg := range rtCfgs {
				if cfg.String() == c.Conf {
					if class, detail := judgeRoundTrip(v, cfg); class != "" {
						rep.Fail(engine.Failure{Class: class, Detail: detail, Case: c}, 0)
					}
					rep.Eval(1)
				}
			}
			for _, ptr := range []bool{false, true} {
				if o := (rtx{ptr: ptr, reader: "bytes", entry: "marshal"}); o.String() == c.Conf {
					if class, detail := judgeRT(v, o); class != "" {
						rep.Fail(engine.Failure{Class: class, Detail: detail, Case: c}, 0)
					}
					rep.Eval(1)
				}
			}
		}
	case "carrier":
		var c CarCase
		json.Unmarshal(rp.Case, &c)
		alpha := refnbt.Full()
		if c.Alphabet == "reduced" {
			alpha = refnbt.Reduced()
		}
		tree := refnbt.Gen(engine.NewReplayChooser(c.Tape), c.Nodes, alpha)
		fmt.Println("replaying carrier on", clipS(tree.String(), 300), c.Conf)
		for i := 0; i < 5; i++ {
			for _, cfg := range carCfgs {
				if cfg.String() == c.Conf {
					if class, detail := judgeCarrier(tree, cfg); class != "" {
						rep.Fail(engine.Failure{Class: class, Detail: detail, Case: c}, 0)
					}
					rep.Eval(1)
				}
				if cfg.carrier == "raw" && cfg.position == "root" && !cfg.network { // once per replay round
					for _, pos := range smPositions {
						for _, network := range []bool{false, true} {
							if fmt.Sprintf("carrier=stringified position=%s network=%v", pos, network) == c.Conf {
								if class, detail, _ := judgeStringified(tree, pos, network); class != "" {
									rep.Fail(engine.Failure{Class: class, Detail: detail, Case: c}, 0)
								}
								rep.Eval(1)
							}
						}
					}
				}
				for _, x := range extraCarx {
					if carxString(cfg, x) == c.Conf {
						if class, detail := judgeCarrierX(tree, cfg, x); class != "" {
							rep.Fail(engine.Failure{Class: class + "/reader=" + x.reader, Detail: detail, Case: c}, 0)
						}
						rep.Eval(1)
					}
				}
			}
		}
	case "catalogue":
		catalogue()
	case "sm-strings":
		famSMStrings()
	default:
		if !replayExtra(probe.Kind, rp.Case) {
			engine.HarnessError("unknown case kind %q", probe.Kind)
		}
	}
	rep.Finish()
}
