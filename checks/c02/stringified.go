package main

// The third carrier of the statement, StringifiedMessage, as a member of the typed universe: v is the text go-mc
// itself wrote for a document (so v is canonical), at the root, in a struct field, in a map and in a list.
// "Decoding the encoding of v into a fresh variable of v's type yields a value equal to v" then reads: encode the
// holder of the texts, decode the bytes into a fresh holder, the texts are the same strings. In between, the bytes
// must be one well-formed document that says what the original document said (judged by ref/refnbt). Documents with
// NaN / infinite floats or duplicate keys have no agreed text: executed, must not panic, not judged.

import (
	"bytes"
	"fmt"
	"math"
	"reflect"

	"github.com/Tnze/go-mc/nbt"

	"verif/checks/nbtgo"
	"verif/engine"
	"verif/ref/refnbt"
)

type smField struct {
	F nbt.StringifiedMessage `nbt:"f"`
}

var smPositions = []string{"root", "field", "map", "list"}

func smTarget(pos string) any {
	switch pos {
	case "field":
		return new(smField)
	case "map":
		return new(map[string]nbt.StringifiedMessage)
	case "list":
		return new([]nbt.StringifiedMessage)
	}
	return new(nbt.StringifiedMessage)
}

func nonFinite(n *refnbt.Node) bool {
	switch n.Tag {
	case refnbt.Float:
		f := float64(math.Float32frombits(uint32(n.I)))
		return math.IsNaN(f) || math.IsInf(f, 0)
	case refnbt.Double:
		f := math.Float64frombits(uint64(n.I))
		return math.IsNaN(f) || math.IsInf(f, 0)
	}
	for _, e := range n.Elems {
		if nonFinite(e) {
			return true
		}
	}
	for _, f := range n.Fields {
		if nonFinite(f.Val) {
			return true
		}
	}
	return false
}

// judgeStringified: "" = fine; unspec reports documents the statement fixes no text for.
func judgeStringified(tree *refnbt.Node, pos string, network bool) (class, detail string, unspec bool) {
	cfg := carCfg{carrier: "stringified", position: pos, network: network}
	outer := carrierOuter(tree, cfg)
	name := "rt"
	if network {
		name = ""
	}
	doc := refnbt.Append(nil, name, outer, network)
	pre := "carrier/stringified/" + pos + "/"
	dec := func(data []byte, target any) (gotName string, err error, kind, frame string, panicked bool) {
		kind, frame, panicked = engine.Guard(func() {
			d := nbt.NewDecoder(bytes.NewReader(data))
			d.NetworkFormat(network)
			gotName, err = d.Decode(target)
		})
		return
	}
	t0 := smTarget(pos)
	gotName, err, kind, frame, panicked := dec(doc, t0)
	if panicked {
		return pre + "decode-panic/" + frame + "/" + kind, "panic " + kind + " in " + frame, false
	}
	open := nonFinite(tree) || refnbt.HasDupKeys(tree)
	if err != nil {
		if open {
			return "", "", true
		}
		return pre + "decode-error/" + nbtgo.TagSig(tree), "well-formed document rejected: " + err.Error(), false
	}
	var out []byte
	kind, frame, panicked = engine.Guard(func() {
		var buf bytes.Buffer
		e := nbt.NewEncoder(&buf)
		e.NetworkFormat(network)
		err = e.Encode(t0, gotName)
		out = buf.Bytes()
	})
	if panicked {
		return pre + "encode-panic/" + frame + "/" + kind, "panic " + kind + " in " + frame, false
	}
	if open {
		return "", "", true
	}
	if err != nil {
		return pre + "encode-error/" + nbtgo.TagSig(tree), fmt.Sprintf("encoding the texts go-mc wrote (%v) failed: %v", reflect.ValueOf(t0).Elem().Interface(), err), false
	}
	rname, back, used, perr := refnbt.Parse(out, network)
	switch {
	case perr != nil:
		return pre + "encoding-malformed/" + nbtgo.TagSig(tree), fmt.Sprintf("the texts %v encode to %x, not a well-formed document: %v", reflect.ValueOf(t0).Elem().Interface(), clipB(out), perr), false
	case used != len(out):
		return pre + "encoding-has-trailing-bytes/" + nbtgo.TagSig(tree), fmt.Sprintf("the texts encode to %x: document ends at %d", clipB(out), used), false
	case rname != gotName:
		return pre + "root-name-differs", fmt.Sprintf("root name %q came back as %q", gotName, rname), false
	case !refnbt.Equal(outer, back, true):
		return pre + "encoding-says-something-else/" + nbtgo.TagSig(tree), fmt.Sprintf("document %s, written as %v, encodes to %s", outer.String(), reflect.ValueOf(t0).Elem().Interface(), back.String()), false
	}
	t1 := smTarget(pos)
	if _, err, kind, frame, panicked = dec(out, t1); panicked {
		return pre + "decode-panic/" + frame + "/" + kind + "/second", "panic " + kind + " in " + frame, false
	} else if err != nil {
		return pre + "own-encoding-rejected/" + nbtgo.TagSig(tree), "decoding the encoding of the texts failed: " + err.Error(), false
	}
	if !reflect.DeepEqual(reflect.ValueOf(t0).Elem().Interface(), reflect.ValueOf(t1).Elem().Interface()) {
		return pre + "round-trip-not-equal/" + nbtgo.TagSig(tree), fmt.Sprintf("v = %v, Unmarshal(Marshal(v)) = %v", reflect.ValueOf(t0).Elem().Interface(), reflect.ValueOf(t1).Elem().Interface()), false
	}
	return "", "", false
}

// smStrings: strings and keys whose text form exercises the writer's quoting and escaping (both quote characters,
// backslashes next to quotes, modified-UTF-8 byte sequences), each as root string, compound key, list element and
// compound value, through every StringifiedMessage position and both formats. The tree alphabets above carry only a
// handful of strings; the text of a string is a function of its characters.
var smStrings = []string{
	"it's a \"test\"", "'a' and \"b\"", "c:\\dir\\\"it's\"", "\"'", "'\"", "\"\"'", "''\"", "\\\"'", "'\\\"", "\\", "\\\\", "\"", "'", "a b", "a\nb", "1b", "true", "", " ",
	"\xc0\x80", "a\xc0\x80b", "\xed\xa0\xbd\xed\xb8\x80", "\"\xc0\x80'", "é", "日本", "{", "}", "[", "]", ",", ":", ";",
}

type SMCase struct {
	Kind string `json:"kind"` // "sm-strings"
	Str  string `json:"string_hex"`
	Form string `json:"form"`
	Conf string `json:"config"`
}

func famSMStrings() {
	forms := []struct {
		name string
		mk   func(s string) *refnbt.Node
	}{
		{"root", func(s string) *refnbt.Node { return &refnbt.Node{Tag: refnbt.String, S: s} }},
		{"key", func(s string) *refnbt.Node {
			return &refnbt.Node{Tag: refnbt.Compound, Fields: []refnbt.Field{{Name: s, Val: &refnbt.Node{Tag: refnbt.Byte, I: 1}}}}
		}},
		{"list-element", func(s string) *refnbt.Node {
			return &refnbt.Node{Tag: refnbt.List, ElemTag: refnbt.String, Elems: []*refnbt.Node{{Tag: refnbt.String, S: s}, {Tag: refnbt.String, S: "x"}}}
		}},
		{"compound-value", func(s string) *refnbt.Node {
			return &refnbt.Node{Tag: refnbt.Compound, Fields: []refnbt.Field{{Name: "a", Val: &refnbt.Node{Tag: refnbt.String, S: s}}, {Name: "b", Val: &refnbt.Node{Tag: refnbt.Int, I: 7}}}}
		}},
	}
	var n int64
	for _, s := range smStrings {
		for _, f := range forms {
			tree := f.mk(s)
			for _, pos := range smPositions {
				for _, network := range []bool{false, true} {
					class, detail, unspec := judgeStringified(tree, pos, network)
					n++
					if unspec {
						rep.Unspec(1)
					}
					if class != "" {
						conf := fmt.Sprintf("carrier=stringified position=%s network=%v", pos, network)
						rep.Fail(engine.Failure{Class: class + "/string-menu", Detail: detail + " [" + conf + "] doc=" + clipS(tree.String(), 200),
							Case: SMCase{"sm-strings", fmt.Sprintf("%x", s), f.name, conf}}, len(s)*10+len(detail))
					}
				}
			}
		}
	}
	rep.Eval(n)
	rep.NonTrivial(n)
	rep.AddStates(n)
	rep.Count("stringified_string_menu_cases", n)
}
