// C02, families added by the white-box audit. All of them are exhaustive over a stated finite
// menu and judged by the same oracles as families (A) and (B):
//
// (C) encodings alive together: every ordered pair of menu values (triples over the scalar menu)
// is encoded call after call, every returned encoding is kept, and only then each encoding is
// decoded: it must still give back its own value. Entry points nbt.Marshal/nbt.Unmarshal and
// Encoder/Decoder. The same for carriers: two documents decoded into two carriers, both kept,
// then both re-encoded. State that a call leaves behind for the next one (pooled buffers,
// recycled capacity) shows up here and nowhere in (A)/(B), which judge one call at a time.
//
// (D) used carrier destinations: every ordered pair (A, B) of menu documents decoded one after
// the other into ONE carrier object (root, struct field, map value, array element); the carrier
// must then re-encode B byte for byte.
//
// (E) size classes: slices, arrays, lists, typed arrays, strings, maps and compounds of every
// length of a length menu (all small lengths plus the neighbourhoods of powers of two), contents
// salted by position, typed and through the carriers, x how the bytes reach the decoder.
//
// (F) name lengths: root names, map keys, struct tag names and compound keys inside carriers
// of every length of a menu.
package main

import (
	"bytes"
	"encoding/json"
	"fmt"
	"math"
	"reflect"
	"sort"
	"strconv"
	"strings"
	"sync/atomic"
	"time"

	"github.com/Tnze/go-mc/nbt"

	"verif/checks/nbtgo"
	"verif/engine"
	"verif/ref/refnbt"
)

// XCase is the replay descriptor of the families (C)-(F).
type XCase struct {
	Kind  string  `json:"kind"` // alive | alive-carrier | used | size | size-carrier | name | name-carrier
	Depth int     `json:"depth,omitempty"`
	Tapes [][]int `json:"tapes,omitempty"` // universe tapes (alive) or tree tapes (alive-carrier, used), in call order
	Nodes int     `json:"nodes,omitempty"`
	Shape string  `json:"shape,omitempty"`
	Len   int     `json:"len,omitempty"`
	Conf  string  `json:"config"`
	Desc  string  `json:"desc"`
}

// ---------------------------------------------------------------- menus

type menuVal struct {
	tape []int
	v    reflect.Value
}

func tapeLess(a, b []int) bool {
	for i := 0; i < len(a) && i < len(b); i++ {
		if a[i] != b[i] {
			return a[i] < b[i]
		}
	}
	return len(a) < len(b)
}

// universeMenu lists every (type, value) of the reflect-built universe of the given depth for
// which the statement promises a round trip, in tape order.
func universeMenu(depth int) []menuVal {
	var out []menuVal
	engine.Explore(engine.ExploreOpts{Workers: 1}, func(c *engine.Chooser) {
		t := nbtgo.GenType(c, depth)
		v := nbtgo.GenValue(c, t, 0)
		if notRoundTrippable(v) != "" {
			return
		}
		out = append(out, menuVal{c.Tape(), v})
	})
	sort.Slice(out, func(i, j int) bool { return tapeLess(out[i].tape, out[j].tape) })
	return out
}

type menuTree struct {
	tape []int
	tree *refnbt.Node
}

const menuTreeNodes = 2

// treeMenu lists every document of <= menuTreeNodes nodes over the reduced alphabet.
func treeMenu() []menuTree {
	var out []menuTree
	engine.Explore(engine.ExploreOpts{Workers: 1}, func(c *engine.Chooser) {
		out = append(out, menuTree{nil, refnbt.Gen(c, menuTreeNodes, refnbt.Reduced())})
		out[len(out)-1].tape = c.Tape()
	})
	sort.Slice(out, func(i, j int) bool { return tapeLess(out[i].tape, out[j].tape) })
	return out
}

// head2 keeps the first two segments of a class string.
func head2(class string) string {
	parts := strings.Split(class, "/")
	if len(parts) > 2 {
		parts = parts[:2]
	}
	return strings.Join(parts, "/")
}

// ---------------------------------------------------------------- (C) alive together

// pairs over the depth-1 menu use the first three, triples over the scalar menu all of them
var aliveEntries = []rtx{
	{entry: "marshal", reader: "bytes"},
	{entry: "marshal", reader: "bytes", ptr: true},
	{entry: "coder", reader: "bytes", name: "root", network: true, ptr: true},
	{entry: "coder", reader: "bytes", name: "root"},
}

func judgeAlive(vals []reflect.Value, o rtx) (class, detail string) {
	datas := make([][]byte, len(vals))
	keeps := make([][]byte, len(vals))
	for i, v := range vals {
		d, cl, _, skip := encodeStep(v, o)
		if cl != "" || skip {
			return "", "" // a value that fails on its own is reported by the single-value pass
		}
		datas[i] = d
		keeps[i] = bytes.Clone(d)
	}
	for i, v := range vals {
		if cl, det := decodeStep(v, datas[i], o); cl != "" {
			state := "encoding-intact"
			if !bytes.Equal(datas[i], keeps[i]) {
				state = "encoding-overwritten-by-a-later-call"
				det += fmt.Sprintf("; encoding was %x when returned, is %x now", clipB(keeps[i]), clipB(datas[i]))
			}
			return fmt.Sprintf("alive-together/%s/value-%d-of-%d/%s/%s", o.entry, i+1, len(vals), state, head2(cl)),
				fmt.Sprintf("encoding of value %d decoded after all %d values had been encoded: %s", i+1, len(vals), det)
		}
	}
	return "", ""
}

func describeVals(vals []reflect.Value) string {
	var parts []string
	for _, v := range vals {
		parts = append(parts, clipS(nbtgo.Describe(v), 120))
	}
	return strings.Join(parts, " ; ")
}

func aliveTyped(deadline time.Time) {
	type fam struct {
		depth, k int
		entries  []rtx
	}
	fams := []fam{{1, 2, aliveEntries[:3:3]}, {0, 3, aliveEntries}}
	var hist, evals, capped int64
	for _, f := range fams {
		menu := universeMenu(f.depth)
		rep.Count(fmt.Sprintf("alive_menu_depth%d_values", f.depth), int64(len(menu)))
		for _, o := range f.entries {
			o := o
			// single-value pass: every menu value through this pair of entry points
			ok := make([]bool, len(menu))
			engine.ParallelFor(len(menu), func(_, i int) {
				cl, det := judgeRT(menu[i].v, o)
				atomic.AddInt64(&evals, 1)
				ok[i] = cl == ""
				if cl != "" {
					rep.FailLazy(cl, len(menu[i].tape), func() engine.Failure {
						return engine.Failure{Detail: det + " [" + o.String() + "] value: " + clipS(nbtgo.Describe(menu[i].v), 300),
							Case: XCase{Kind: "alive", Depth: f.depth, Tapes: [][]int{menu[i].tape}, Conf: o.String(), Desc: clipS(nbtgo.Describe(menu[i].v), 300)}}
					})
				}
			})
			var idx []int
			for i := range menu {
				if ok[i] {
					idx = append(idx, i)
				}
			}
			n := len(idx)
			total := n * n
			if f.k == 3 {
				total *= n
			}
			engine.ParallelFor(total, func(_, h int) {
				if h%4096 == 0 && time.Now().After(deadline) {
					atomic.StoreInt64(&capped, 1)
				}
				if atomic.LoadInt64(&capped) != 0 {
					return
				}
				sel := make([]int, f.k)
				for j := f.k - 1; j >= 0; j-- {
					sel[j] = idx[h%n]
					h /= n
				}
				vals := make([]reflect.Value, f.k)
				for j, s := range sel {
					vals[j] = menu[s].v
				}
				cl, det := judgeAlive(vals, o)
				atomic.AddInt64(&hist, 1)
				atomic.AddInt64(&evals, int64(f.k))
				if cl != "" {
					rep.FailLazy(cl, len(describeVals(vals)), func() engine.Failure {
						tapes := make([][]int, f.k)
						for j, s := range sel {
							tapes[j] = menu[s].tape
						}
						return engine.Failure{Detail: det + " [" + o.String() + "] values in call order: " + describeVals(vals),
							Case: XCase{Kind: "alive", Depth: f.depth, Tapes: tapes, Conf: o.String(), Desc: describeVals(vals)}}
					})
				}
			})
		}
	}
	if capped != 0 {
		rep.Cap("alive-together histories stopped by deadline after %d histories", hist)
	}
	rep.Eval(evals)
	rep.NonTrivial(hist)
	rep.AddStates(hist)
	rep.AddTrans(evals)
	rep.Count("alive_typed_histories", hist)
	rep.Extra("alive_typed_histories_rule", "all ordered pairs over the depth-1 universe menu and all ordered triples over the depth-0 (scalar) menu; every encoding is kept until all values of the history are encoded, then each is decoded")
	var names []string
	for _, o := range aliveEntries {
		names = append(names, o.String())
	}
	rep.Extra("alive_entry_points", names)
}

// carrier version: two documents, two carriers, both alive.
func aliveCarCfgs() (out []struct {
	cfg carCfg
	x   carx
}) {
	for _, cfg := range carCfgs {
		out = append(out, struct {
			cfg carCfg
			x   carx
		}{cfg, plainCarx})
		if !cfg.network {
			out = append(out, struct {
				cfg carCfg
				x   carx
			}{cfg, carx{name: "", reader: "bytes", entry: "marshal"}})
		}
	}
	return
}

func carxString(cfg carCfg, x carx) string {
	return fmt.Sprintf("%s name_len=%d reader=%s entry=%s", cfg.String(), len(x.name), x.reader, x.entry)
}

func judgeAliveCarrier(trees []*refnbt.Node, cfg carCfg, x carx) (class, detail string) {
	n := len(trees)
	docs := make([][]byte, n)
	targets := make([]any, n)
	names := make([]string, n)
	for i, tr := range trees {
		docs[i] = refnbt.Append(nil, x.rootName(cfg), carrierOuter(tr, cfg), cfg.network)
		targets[i] = carrierTarget(cfg)
		var cl string
		names[i], cl, _ = carrierDecode(targets[i], docs[i], tr, cfg, x)
		if cl != "" {
			return "", "" // family (B) reports documents that fail on their own
		}
	}
	outs := make([][]byte, n)
	for i, tr := range trees {
		var cl string
		outs[i], cl, _ = carrierEncode(targets[i], names[i], tr, cfg, x)
		if cl != "" {
			return "", ""
		}
	}
	for i := range trees {
		if !bytes.Equal(outs[i], docs[i]) {
			return fmt.Sprintf("alive-together/carrier-%s/%s/%s/document-%d-of-%d/not-byte-exact", cfg.carrier, cfg.position, x.entry, i+1, n),
				fmt.Sprintf("carrier %d decoded %x; after all %d carriers were decoded and re-encoded its encoding reads %x", i+1, clipB(docs[i]), n, clipB(outs[i]))
		}
	}
	return "", ""
}

func aliveCarriers(deadline time.Time) {
	menu := treeMenu()
	cfgs := aliveCarCfgs()
	var hist, evals, capped int64
	n := len(menu)
	engine.ParallelFor(n*n, func(_, h int) {
		if time.Now().After(deadline) {
			atomic.StoreInt64(&capped, 1)
			return
		}
		a, b := menu[h/n], menu[h%n]
		trees := []*refnbt.Node{a.tree, b.tree}
		for _, c := range cfgs {
			cl, det := judgeAliveCarrier(trees, c.cfg, c.x)
			if cl != "" {
				c := c
				rep.FailLazy(cl, a.tree.Count()+b.tree.Count(), func() engine.Failure {
					desc := clipS(a.tree.String(), 150) + " ; " + clipS(b.tree.String(), 150)
					return engine.Failure{Detail: det + " [" + carxString(c.cfg, c.x) + "] documents: " + desc,
						Case: XCase{Kind: "alive-carrier", Tapes: [][]int{a.tape, b.tape}, Nodes: menuTreeNodes, Conf: carxString(c.cfg, c.x), Desc: desc}}
				})
			}
		}
		atomic.AddInt64(&hist, 1)
		atomic.AddInt64(&evals, int64(2*len(cfgs)))
	})
	if capped != 0 {
		rep.Cap("alive-together carrier histories stopped by deadline after %d pairs", hist)
	}
	rep.Eval(evals)
	rep.NonTrivial(hist)
	rep.AddStates(hist)
	rep.AddTrans(evals)
	rep.Count("history_menu_documents", int64(n))
	rep.Count("alive_carrier_pairs", hist)
	rep.Extra("history_menu_documents_rule", fmt.Sprintf("every document of <=%d nodes over the reduced alphabet", menuTreeNodes))
}

// ---------------------------------------------------------------- (D) used carrier destinations

func judgeUsed(a, b *refnbt.Node, cfg carCfg) (class, detail string) {
	x := plainCarx
	docA := refnbt.Append(nil, x.rootName(cfg), carrierOuter(a, cfg), cfg.network)
	docB := refnbt.Append(nil, x.rootName(cfg), carrierOuter(b, cfg), cfg.network)
	target := carrierTarget(cfg)
	if _, cl, _ := carrierDecode(target, docA, a, cfg, x); cl != "" {
		return "", "" // family (B) reports it
	}
	pre := "carrier/" + cfg.carrier + "/" + cfg.position + "/used-destination/"
	hist := refnbt.TagNames[a.Tag] + "-then-" + refnbt.TagNames[b.Tag]
	gotName, cl, det := carrierDecode(target, docB, b, cfg, x)
	if cl != "" {
		return pre + strings.Split(cl, "/")[3] + "/" + hist, "second decode into the same destination: " + det
	}
	out, cl, det := carrierEncode(target, gotName, b, cfg, x)
	if cl != "" {
		return pre + strings.Split(cl, "/")[3] + "/" + hist, "re-encoding after two decodes into the same destination: " + det
	}
	if !bytes.Equal(out, docB) {
		return pre + "not-byte-exact/" + hist, fmt.Sprintf("destination decoded %x and then %x; re-encoded %x", clipB(docA), clipB(docB), clipB(out))
	}
	return "", ""
}

func usedDestinations(deadline time.Time) {
	menu := treeMenu()
	var pairs, evals, capped int64
	n := len(menu)
	engine.ParallelFor(n*n, func(_, h int) {
		if time.Now().After(deadline) {
			atomic.StoreInt64(&capped, 1)
			return
		}
		a, b := menu[h/n], menu[h%n]
		for _, cfg := range carCfgs {
			cl, det := judgeUsed(a.tree, b.tree, cfg)
			if cl != "" {
				cfg := cfg
				rep.FailLazy(cl, a.tree.Count()+b.tree.Count(), func() engine.Failure {
					desc := clipS(a.tree.String(), 150) + " ; " + clipS(b.tree.String(), 150)
					return engine.Failure{Detail: det + " [" + cfg.String() + "] documents: " + desc,
						Case: XCase{Kind: "used", Tapes: [][]int{a.tape, b.tape}, Nodes: menuTreeNodes, Conf: cfg.String(), Desc: desc}}
				})
			}
		}
		atomic.AddInt64(&pairs, 1)
		atomic.AddInt64(&evals, int64(len(carCfgs)))
	})
	if capped != 0 {
		rep.Cap("used-destination histories stopped by deadline after %d pairs", pairs)
	}
	rep.Eval(evals)
	rep.NonTrivial(pairs)
	rep.AddStates(pairs)
	rep.AddTrans(2 * evals)
	rep.Count("used_destination_pairs", pairs)
	rep.Extra("used_destination_rule", "every ordered pair (A,B) of the history menu documents decoded into one carrier object x every carrier position x {file,network}; the carrier must re-encode B")
}

// ---------------------------------------------------------------- (E) size classes

func lengthMenu(thorough bool) []int {
	all, maxPow := 130, 12
	if thorough {
		all, maxPow = 600, 16
	}
	set := map[int]bool{}
	for l := 0; l <= all; l++ {
		set[l] = true
	}
	for k := 7; k <= maxPow; k++ {
		for d := -1; d <= 1; d++ {
			set[1<<k+d] = true
		}
	}
	// counts around the decoder's nesting bound (10000): a bound that is checked against anything but the current
	// depth - the number of lists and compounds seen so far, say - refuses wide, shallow documents of this size
	for _, l := range []int{9999, 10000, 10001, 10002, 20001} {
		set[l] = true
	}
	var out []int
	for l := range set {
		out = append(out, l)
	}
	sort.Ints(out)
	return out
}

func salt(i int) int64 { return int64(uint64(i+1) * 0x9E3779B97F4A7C15) }

func saltedScalar(t reflect.Type, i int) reflect.Value {
	v := reflect.New(t).Elem()
	s := salt(i)
	switch t.Kind() {
	case reflect.Bool:
		v.SetBool(s&4 != 0)
	case reflect.Int8, reflect.Int16, reflect.Int32, reflect.Int64:
		switch t.Kind() {
		case reflect.Int8:
			s = int64(int8(s >> 20))
		case reflect.Int16:
			s = int64(int16(s >> 20))
		case reflect.Int32:
			s = int64(int32(s >> 20))
		}
		v.SetInt(s)
	case reflect.Uint8, reflect.Uint16, reflect.Uint32, reflect.Uint64:
		u := uint64(s)
		switch t.Kind() {
		case reflect.Uint8:
			u = uint64(uint8(u >> 20))
		case reflect.Uint16:
			u = uint64(uint16(u >> 20))
		case reflect.Uint32:
			u = uint64(uint32(u >> 20))
		}
		v.SetUint(u)
	case reflect.Float32:
		v.SetFloat(float64(float32(i) + 0.5))
	case reflect.Float64:
		v.SetFloat(float64(i) - 0.25)
	case reflect.String:
		v.SetString("s" + strconv.Itoa(i))
	default:
		panic("saltedScalar: " + t.String())
	}
	return v
}

func saltedString(l int) string {
	b := make([]byte, l)
	for i := range b {
		b[i] = byte('a' + (i*7+l)%26)
	}
	return string(b)
}

var (
	tInt8, tUint8, tBool = reflect.TypeOf(int8(0)), reflect.TypeOf(uint8(0)), reflect.TypeOf(false)
	tInt16, tUint16      = reflect.TypeOf(int16(0)), reflect.TypeOf(uint16(0))
	tInt32, tUint32      = reflect.TypeOf(int32(0)), reflect.TypeOf(uint32(0))
	tInt64, tUint64      = reflect.TypeOf(int64(0)), reflect.TypeOf(uint64(0))
	tFloat32, tFloat64   = reflect.TypeOf(float32(0)), reflect.TypeOf(float64(0))
	tString              = reflect.TypeOf("")
	sizeScalars          = []reflect.Type{tInt8, tUint8, tBool, tInt16, tUint16, tInt32, tUint32, tInt64, tUint64, tFloat32, tFloat64, tString}
	sizeArrayElems       = []reflect.Type{tInt8, tUint8, tBool, tInt16, tInt32, tUint32, tInt64, tUint64, tString}
	sizeFieldElems       = []reflect.Type{tUint8, tInt16, tInt32, tInt64, tString}
	sizeListOptElems     = []reflect.Type{tUint8, tInt32, tInt64}
	sizeElemStruct       = reflect.TypeOf(struct {
		A int16 `nbt:"a"`
	}{})
)

// sizeShape builds the typed value of a shape at length l.
type sizeShape struct {
	name   string
	maxLen int // 0 = no limit
	mk     func(l int) reflect.Value
}

func fillSeq(s reflect.Value, et reflect.Type) {
	for i := 0; i < s.Len(); i++ {
		s.Index(i).Set(saltedScalar(et, i))
	}
}

func inField(name string, tag string, ft reflect.Type, mk func(l int) reflect.Value) sizeShape {
	st := reflect.StructOf([]reflect.StructField{
		{Name: "F", Type: ft, Tag: reflect.StructTag(tag)},
		{Name: "Z", Type: tInt8, Tag: `nbt:"z"`},
	})
	return sizeShape{name: name, mk: func(l int) reflect.Value {
		v := reflect.New(st).Elem()
		v.Field(0).Set(mk(l))
		v.Field(1).SetInt(-7)
		return v
	}}
}

func sizeShapes() (out []sizeShape) {
	for _, et := range sizeScalars {
		et := et
		mk := func(l int) reflect.Value {
			s := reflect.MakeSlice(reflect.SliceOf(et), l, l)
			fillSeq(s, et)
			return s
		}
		out = append(out, sizeShape{name: "[]" + et.Kind().String(), mk: mk})
	}
	for _, et := range sizeArrayElems {
		et := et
		out = append(out, sizeShape{name: "[L]" + et.Kind().String(), mk: func(l int) reflect.Value {
			a := reflect.New(reflect.ArrayOf(l, et)).Elem()
			fillSeq(a, et)
			return a
		}})
	}
	for _, et := range sizeFieldElems {
		et := et
		out = append(out, inField("struct{F []"+et.Kind().String()+";Z}", `nbt:"f"`, reflect.SliceOf(et), func(l int) reflect.Value {
			s := reflect.MakeSlice(reflect.SliceOf(et), l, l)
			fillSeq(s, et)
			return s
		}))
	}
	for _, et := range sizeListOptElems {
		et := et
		out = append(out, inField("struct{F []"+et.Kind().String()+",list;Z}", `nbt:"f,list"`, reflect.SliceOf(et), func(l int) reflect.Value {
			s := reflect.MakeSlice(reflect.SliceOf(et), l, l)
			fillSeq(s, et)
			return s
		}))
	}
	out = append(out, sizeShape{name: "string", maxLen: 32767, mk: func(l int) reflect.Value { return reflect.ValueOf(saltedString(l)) }})
	fs := inField("struct{F string;Z}", `nbt:"f"`, tString, func(l int) reflect.Value { return reflect.ValueOf(saltedString(l)) })
	fs.maxLen = 32767
	out = append(out, fs)
	out = append(out, sizeShape{name: "[]struct{A int16}", mk: func(l int) reflect.Value {
		s := reflect.MakeSlice(reflect.SliceOf(sizeElemStruct), l, l)
		for i := 0; i < l; i++ {
			s.Index(i).Field(0).Set(saltedScalar(tInt16, i))
		}
		return s
	}})
	out = append(out, sizeShape{name: "map[string]int16", mk: func(l int) reflect.Value {
		m := reflect.MakeMapWithSize(reflect.MapOf(tString, tInt16), l)
		for i := 0; i < l; i++ {
			m.SetMapIndex(reflect.ValueOf("k"+strconv.Itoa(i)), saltedScalar(tInt16, i))
		}
		return m
	}})
	return
}

var sizeReaders = []string{"bytes", "plain", "onebyte", "eofdata"}

func sizeCfgs() (out []rtx) {
	for _, c := range rtCfgs {
		out = append(out, rtx{network: c.network, ptr: c.ptr, name: "root", reader: "bytes", entry: "coder"})
	}
	for _, r := range sizeReaders[1:] {
		out = append(out, rtx{name: "root", reader: r, entry: "coder"}, rtx{network: true, ptr: true, name: "root", reader: r, entry: "coder"})
	}
	out = append(out, rtx{reader: "bytes", entry: "marshal"})
	return
}

// carrier documents of a given size
type sizeTree struct {
	name   string
	maxLen int
	mk     func(l int) *refnbt.Node
}

func saltedArr(l int, width uint) []int64 {
	out := make([]int64, l)
	for i := range out {
		v := salt(i) >> 13
		switch width {
		case 8:
			v = int64(int8(v))
		case 32:
			v = int64(int32(v))
		}
		out[i] = v
	}
	return out
}

func sizeTrees() (out []sizeTree) {
	out = append(out,
		sizeTree{name: "ByteArray", mk: func(l int) *refnbt.Node { return &refnbt.Node{Tag: refnbt.ByteArray, A: saltedArr(l, 8)} }},
		sizeTree{name: "IntArray", mk: func(l int) *refnbt.Node { return &refnbt.Node{Tag: refnbt.IntArray, A: saltedArr(l, 32)} }},
		sizeTree{name: "LongArray", mk: func(l int) *refnbt.Node { return &refnbt.Node{Tag: refnbt.LongArray, A: saltedArr(l, 64)} }},
		sizeTree{name: "String", maxLen: 32767, mk: func(l int) *refnbt.Node { return &refnbt.Node{Tag: refnbt.String, S: saltedString(l)} }},
		sizeTree{name: "Compound", mk: func(l int) *refnbt.Node {
			n := &refnbt.Node{Tag: refnbt.Compound}
			for i := 0; i < l; i++ {
				n.Fields = append(n.Fields, refnbt.Field{Name: "k" + strconv.Itoa(i), Val: &refnbt.Node{Tag: refnbt.Short, I: int64(int16(salt(i) >> 9))}})
			}
			return n
		}},
	)
	elem := func(t refnbt.Tag, i int) *refnbt.Node {
		s := salt(i) >> 11
		switch t {
		case refnbt.Byte:
			return &refnbt.Node{Tag: t, I: int64(int8(s))}
		case refnbt.Short:
			return &refnbt.Node{Tag: t, I: int64(int16(s))}
		case refnbt.Long:
			return &refnbt.Node{Tag: t, I: s}
		case refnbt.Double:
			return &refnbt.Node{Tag: t, I: int64(math.Float64bits(float64(i) + 0.5))}
		case refnbt.String:
			return &refnbt.Node{Tag: t, S: "s" + strconv.Itoa(i)}
		case refnbt.Compound:
			return &refnbt.Node{Tag: t, Fields: []refnbt.Field{{Name: "a", Val: &refnbt.Node{Tag: refnbt.Byte, I: int64(int8(s))}}}}
		case refnbt.List:
			return &refnbt.Node{Tag: t, ElemTag: refnbt.Byte, Elems: []*refnbt.Node{{Tag: refnbt.Byte, I: int64(int8(s))}}}
		case refnbt.IntArray:
			return &refnbt.Node{Tag: t, A: []int64{int64(int32(s))}}
		}
		panic("elem")
	}
	for _, et := range []refnbt.Tag{refnbt.Byte, refnbt.Short, refnbt.Long, refnbt.Double, refnbt.String, refnbt.Compound, refnbt.List, refnbt.IntArray} {
		et := et
		out = append(out, sizeTree{name: "List<" + refnbt.TagNames[et] + ">", mk: func(l int) *refnbt.Node {
			n := &refnbt.Node{Tag: refnbt.List, ElemTag: et, Elems: []*refnbt.Node{}}
			if l == 0 {
				return n
			}
			for i := 0; i < l; i++ {
				n.Elems = append(n.Elems, elem(et, i))
			}
			return n
		}})
	}
	return
}

var sizeCarReaders = []string{"bytes", "plain", "eofdata"}

func sizeClasses(thorough bool, deadline time.Time) {
	lens := lengthMenu(thorough)
	shapes := sizeShapes()
	cfgs := sizeCfgs()
	trees := sizeTrees()
	var cases, evals, capped int64
	// typed
	engine.ParallelFor(len(shapes)*len(lens), func(_, k int) {
		if time.Now().After(deadline) {
			atomic.StoreInt64(&capped, 1)
			return
		}
		sh, l := shapes[k/len(lens)], lens[len(lens)-1-k%len(lens)] // long ones first: better load balance
		if sh.maxLen > 0 && l > sh.maxLen {
			return
		}
		v := sh.mk(l)
		for _, o := range cfgs {
			o := o
			o.sig = sh.name
			cl, det := judgeRT(v, o)
			if cl != "" {
				rep.FailLazy("size/"+cl, l, func() engine.Failure {
					return engine.Failure{Detail: fmt.Sprintf("%s at length %d: %s [%s]", sh.name, l, det, o.String()),
						Case: XCase{Kind: "size", Shape: sh.name, Len: l, Conf: o.String(), Desc: fmt.Sprintf("%s of length %d, contents salted by position", sh.name, l)}}
				})
			}
		}
		atomic.AddInt64(&cases, 1)
		atomic.AddInt64(&evals, int64(len(cfgs)))
	})
	// carriers
	engine.ParallelFor(len(trees)*len(lens), func(_, k int) {
		if time.Now().After(deadline) {
			atomic.StoreInt64(&capped, 1)
			return
		}
		st, l := trees[k/len(lens)], lens[len(lens)-1-k%len(lens)]
		if st.maxLen > 0 && l > st.maxLen {
			return
		}
		tree := st.mk(l)
		for _, cfg := range carCfgs {
			for _, r := range sizeCarReaders {
				x := carx{name: "rt", reader: r, entry: "coder"}
				cl, det := judgeCarrierX(tree, cfg, x)
				if cl != "" {
					cfg := cfg
					cl = strings.TrimSuffix(cl, "/"+nbtgo.TagSig(tree)) + "/" + st.name // shape name instead of the tag set
					rep.FailLazy("size/"+cl, l, func() engine.Failure {
						return engine.Failure{Detail: fmt.Sprintf("%s of length %d: %s [%s]", st.name, l, det, carxString(cfg, x)),
							Case: XCase{Kind: "size-carrier", Shape: st.name, Len: l, Conf: carxString(cfg, x), Desc: fmt.Sprintf("%s of length %d, contents salted by position", st.name, l)}}
					})
				}
			}
		}
		atomic.AddInt64(&cases, 1)
		atomic.AddInt64(&evals, int64(len(carCfgs)*len(sizeCarReaders)))
	})
	if capped != 0 {
		rep.Cap("size classes stopped by deadline after %d (shape,length) cases", cases)
	}
	rep.Eval(evals)
	rep.NonTrivial(cases)
	rep.AddStates(cases)
	rep.AddTrans(evals)
	rep.Count("size_cases", cases)
	var sn []string
	for _, s := range shapes {
		sn = append(sn, s.name)
	}
	var tn []string
	for _, s := range trees {
		tn = append(tn, s.name)
	}
	rep.Extra("size_typed_shapes", sn)
	rep.Extra("size_carrier_documents", tn)
	all := 130
	if thorough {
		all = 600
	}
	rep.Extra("size_lengths", fmt.Sprintf("every length 0..%d and 2^k-1, 2^k, 2^k+1 up to %d (%d lengths); strings up to 32767", all, lens[len(lens)-1], len(lens)))
	rep.Extra("size_readers", sizeReaders)
}

// ---------------------------------------------------------------- (F) name lengths

func nameLengthMenu(thorough bool) []int {
	all := 300
	extra := []int{}
	if thorough {
		all = 1100
		extra = []int{4095, 4096, 4097, 32766, 32767}
	}
	var out []int
	for l := 0; l <= all; l++ {
		out = append(out, l)
	}
	return append(out, extra...)
}

type nameShape struct {
	name   string
	minLen int
	// mk returns the value and the root name to use
	mk func(name string) (reflect.Value, string)
}

func nameShapes() []nameShape {
	twoFields := func(tag func(name string) string) func(name string) (reflect.Value, string) {
		return func(name string) (reflect.Value, string) {
			st := reflect.StructOf([]reflect.StructField{
				{Name: "F", Type: tInt32, Tag: reflect.StructTag(tag(name))},
				{Name: "G", Type: tInt8, Tag: `nbt:"Z9"`},
			})
			v := reflect.New(st).Elem()
			v.Field(0).SetInt(0x01020304)
			v.Field(1).SetInt(-3)
			return v, "root"
		}
	}
	return []nameShape{
		{name: "root-name/int32", mk: func(name string) (reflect.Value, string) { return reflect.ValueOf(int32(0x01020304)), name }},
		{name: "root-name/struct", mk: func(name string) (reflect.Value, string) {
			return reflect.ValueOf(struct {
				A int16 `nbt:"a"`
			}{-2}), name
		}},
		{name: "map-key", mk: func(name string) (reflect.Value, string) {
			return reflect.ValueOf(map[string]int32{name: 0x01020304, "Z9": -5}), "root"
		}},
		{name: "map-key/nested-struct-value", mk: func(name string) (reflect.Value, string) {
			return reflect.ValueOf(map[string]struct {
				A int16 `nbt:"a"`
			}{name: {0x0102}, "Z9": {-5}}), "root"
		}},
		{name: "struct-tag-name", minLen: 1, mk: twoFields(func(name string) string { return `nbt:"` + name + `"` })},
		{name: "struct-tag-name-omitempty", minLen: 1, mk: twoFields(func(name string) string { return `nbt:"` + name + `,omitempty"` })},
		{name: "struct-nbtkey-name", minLen: 1, mk: twoFields(func(name string) string { return `nbtkey:"` + name + `"` })},
	}
}

var nameReaders = []string{"bytes", "plain"}

func nameCfgs(rootName string) (out []rtx) {
	for _, c := range rtCfgs {
		for _, r := range nameReaders {
			out = append(out, rtx{network: c.network, ptr: c.ptr, name: rootName, reader: r, entry: "coder"})
		}
	}
	return
}

func nameTree(name string) *refnbt.Node {
	return &refnbt.Node{Tag: refnbt.Compound, Fields: []refnbt.Field{
		{Name: name, Val: &refnbt.Node{Tag: refnbt.Int, I: 0x01020304}},
		{Name: "Z9", Val: &refnbt.Node{Tag: refnbt.Byte, I: -3}},
	}}
}

func nameLengths(thorough bool, deadline time.Time) {
	lens := nameLengthMenu(thorough)
	shapes := nameShapes()
	var cases, evals, capped int64
	engine.ParallelFor(len(lens), func(_, k int) {
		if time.Now().After(deadline) {
			atomic.StoreInt64(&capped, 1)
			return
		}
		l := lens[len(lens)-1-k]
		name := saltedString(l)
		for _, sh := range shapes {
			if l < sh.minLen {
				continue
			}
			v, root := sh.mk(name)
			for _, o := range nameCfgs(root) {
				o := o
				o.sig = sh.name
				cl, det := judgeRT(v, o)
				if cl != "" {
					sh := sh
					rep.FailLazy("name/"+cl, l, func() engine.Failure {
						return engine.Failure{Detail: fmt.Sprintf("%s with a name of %d bytes: %s [%s]", sh.name, l, det, o.String()),
							Case: XCase{Kind: "name", Shape: sh.name, Len: l, Conf: o.String(), Desc: fmt.Sprintf("%s, name of %d bytes", sh.name, l)}}
					})
				}
				atomic.AddInt64(&evals, 1)
			}
			atomic.AddInt64(&cases, 1)
		}
		// carriers: a compound key of that length, and a root name of that length
		for _, variant := range []string{"compound-key", "root-name"} {
			tree, x := nameTree(name), plainCarx
			if variant == "root-name" {
				tree, x = nameTree("k"), carx{name: name, reader: "bytes", entry: "coder"}
			}
			for _, cfg := range carCfgs {
				for _, r := range nameReaders {
					x.reader = r
					cl, det := judgeCarrierX(tree, cfg, x)
					if cl != "" {
						cfg, x := cfg, x
						cl = strings.TrimSuffix(cl, "/"+nbtgo.TagSig(tree)) + "/" + variant
						rep.FailLazy("name/"+cl, l, func() engine.Failure {
							return engine.Failure{Detail: fmt.Sprintf("carrier document with a %s of %d bytes: %s [%s]", variant, l, det, carxString(cfg, x)),
								Case: XCase{Kind: "name-carrier", Shape: variant, Len: l, Conf: carxString(cfg, x), Desc: fmt.Sprintf("carrier %s of %d bytes", variant, l)}}
						})
					}
					atomic.AddInt64(&evals, 1)
				}
			}
			atomic.AddInt64(&cases, 1)
		}
	})
	if capped != 0 {
		rep.Cap("name lengths stopped by deadline after %d cases", cases)
	}
	rep.Eval(evals)
	rep.NonTrivial(cases)
	rep.AddStates(cases)
	rep.AddTrans(evals)
	rep.Count("name_cases", cases)
	var sn []string
	for _, s := range shapes {
		sn = append(sn, s.name)
	}
	sn = append(sn, "carrier compound-key", "carrier root-name")
	rep.Extra("name_positions", sn)
	if thorough {
		rep.Extra("name_lengths", fmt.Sprintf("every length 0..1100 and 4095, 4096, 4097, 32766, 32767 (%d lengths)", len(lens)))
	} else {
		rep.Extra("name_lengths", fmt.Sprintf("every length 0..300 (%d lengths)", len(lens)))
	}
}

// ---------------------------------------------------------------- replay

func findCarCfg(conf string) (carCfg, carx, bool) {
	for _, cfg := range carCfgs {
		for _, entry := range []string{"coder", "marshal"} {
			for _, r := range sizeReaders {
				if strings.HasPrefix(conf, cfg.String()+" ") && strings.HasSuffix(conf, "reader="+r+" entry="+entry) {
					var nl int
					if i := strings.Index(conf, "name_len="); i >= 0 {
						fmt.Sscanf(conf[i:], "name_len=%d", &nl)
					}
					return cfg, carx{name: saltedString(nl), reader: r, entry: entry}, true
				}
			}
		}
	}
	return carCfg{}, carx{}, false
}

func replayExtra(kind string, raw json.RawMessage) bool {
	var c XCase
	if err := json.Unmarshal(raw, &c); err != nil {
		engine.HarnessError("bad replay case: %v", err)
	}
	fail := func(class, detail string) {
		if class != "" {
			rep.Fail(engine.Failure{Class: class, Detail: detail, Case: c}, 0)
		}
		rep.Eval(1)
	}
	switch kind {
	case "alive":
		var vals []reflect.Value
		for _, tape := range c.Tapes {
			ch := engine.NewReplayChooser(tape)
			t := nbtgo.GenType(ch, c.Depth)
			vals = append(vals, nbtgo.GenValue(ch, t, 0))
		}
		fmt.Println("replaying alive-together history:", describeVals(vals), c.Conf)
		for _, o := range aliveEntries {
			if o.String() != c.Conf {
				continue
			}
			for i := 0; i < 5; i++ {
				if len(vals) == 1 {
					fail(judgeRT(vals[0], o))
				} else {
					fail(judgeAlive(vals, o))
				}
			}
		}
	case "alive-carrier", "used":
		var trees []*refnbt.Node
		for _, tape := range c.Tapes {
			trees = append(trees, refnbt.Gen(engine.NewReplayChooser(tape), c.Nodes, refnbt.Reduced()))
		}
		fmt.Println("replaying", kind, "history:", c.Desc, c.Conf)
		for i := 0; i < 5; i++ {
			if kind == "used" {
				for _, cfg := range carCfgs {
					if cfg.String() == c.Conf {
						fail(judgeUsed(trees[0], trees[1], cfg))
					}
				}
			} else {
				for _, cc := range aliveCarCfgs() {
					if carxString(cc.cfg, cc.x) == c.Conf {
						fail(judgeAliveCarrier(trees, cc.cfg, cc.x))
					}
				}
			}
		}
	case "size":
		fmt.Println("replaying size case:", c.Desc, c.Conf)
		for _, sh := range sizeShapes() {
			if sh.name != c.Shape {
				continue
			}
			v := sh.mk(c.Len)
			for _, o := range sizeCfgs() {
				if o.String() == c.Conf {
					o.sig = sh.name
					for i := 0; i < 5; i++ {
						cl, det := judgeRT(v, o)
						if cl != "" {
							cl = "size/" + cl
						}
						fail(cl, det)
					}
				}
			}
		}
	case "size-carrier":
		fmt.Println("replaying size case:", c.Desc, c.Conf)
		cfg, x, ok := findCarCfg(c.Conf)
		if !ok {
			engine.HarnessError("unknown configuration %q", c.Conf)
		}
		x.name = "rt"
		for _, st := range sizeTrees() {
			if st.name != c.Shape {
				continue
			}
			tree := st.mk(c.Len)
			for i := 0; i < 5; i++ {
				cl, det := judgeCarrierX(tree, cfg, x)
				if cl != "" {
					cl = "size/" + strings.TrimSuffix(cl, "/"+nbtgo.TagSig(tree)) + "/" + st.name
				}
				fail(cl, det)
			}
		}
	case "name":
		fmt.Println("replaying name case:", c.Desc, c.Conf)
		name := saltedString(c.Len)
		for _, sh := range nameShapes() {
			if sh.name != c.Shape {
				continue
			}
			v, root := sh.mk(name)
			for _, o := range nameCfgs(root) {
				if o.String() == c.Conf {
					o.sig = sh.name
					for i := 0; i < 5; i++ {
						cl, det := judgeRT(v, o)
						if cl != "" {
							cl = "name/" + cl
						}
						fail(cl, det)
					}
				}
			}
		}
	case "name-carrier":
		fmt.Println("replaying name case:", c.Desc, c.Conf)
		cfg, x, ok := findCarCfg(c.Conf)
		if !ok {
			engine.HarnessError("unknown configuration %q", c.Conf)
		}
		name := saltedString(c.Len)
		tree := nameTree(name)
		x.name = "rt"
		if c.Shape == "root-name" {
			tree, x.name = nameTree("k"), name
		}
		for i := 0; i < 5; i++ {
			cl, det := judgeCarrierX(tree, cfg, x)
			if cl != "" {
				cl = "name/" + strings.TrimSuffix(cl, "/"+nbtgo.TagSig(tree)) + "/" + c.Shape
			}
			fail(cl, det)
		}
	default:
		return false
	}
	return true
}

var _ = nbt.TagEnd
