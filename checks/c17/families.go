// Families added by the white-box audit: menus that the departure-bounded walk cannot reach (or reaches only
// in the capped pass), every one enumerated completely.
//
//	(A) translation arity: every key of the language table x 0..5 arguments x every string/component kind vector
//	    x argument variants {plain, with codes and style, nested translation}
//	(C) formatting codes: all 22 codes in both cases x placements x rendered positions, and every ordered
//	    pair of codes back to back
//	(D) string classes: control characters, escapes, separators, non-ASCII, long strings at every
//	    string-bearing position of a component and in chat.Type names
//	(K) colour values: the 16 names, hex colours of every length and near misses, on four bases
//	(N) nesting chains: every word over {extra, with, hover} of length <= 5 (depth 6)
//	(E) constructors: the components of (A)-(N), the flag product and every component with <= B departures built
//	    through chat.Text / TranslateMsg / Append / SetColor / the click and hover constructors
//	(H) history on one value: after both renderers ran on a component value, the value is encoded again in
//	    both forms (part of every comp/ctor case)
package main

import (
	"bytes"
	"encoding/json"
	"fmt"
	"reflect"
	"strconv"
	"strings"
	"sync/atomic"

	"github.com/Tnze/go-mc/chat"

	"verif/engine"
)

// ---------------------------------------------------------------------------------------------
// (E) the component built through go-mc's constructors

func allCompArgs(c *Comp) bool {
	for _, a := range c.With {
		if a.Comp == nil {
			return false
		}
	}
	return true
}

// ctorMsg builds c with the library's constructors wherever one exists: Text, TranslateMsg (when every
// argument is a component), SetColor, OpenURL/RunCommand/SuggestCommand/ChangePage/CopyToClipboard,
// ShowText/ShowItem/ShowEntity and Append (one call per extra). What has no constructor is set as a field.
func ctorMsg(c *Comp) chat.Message {
	var m chat.Message
	if c.Translate != "" && allCompArgs(c) {
		args := make([]chat.Message, len(c.With))
		for i, a := range c.With {
			args[i] = ctorMsg(a.Comp)
		}
		m = chat.TranslateMsg(c.Translate, args...)
		m.Text = c.Text
	} else {
		m = chat.Text(c.Text)
		m.Translate = c.Translate
		for _, a := range c.With {
			if a.Comp != nil {
				m.With = append(m.With, ctorMsg(a.Comp))
			} else {
				m.With = append(m.With, *a.Str)
			}
		}
	}
	m.Bold, m.Italic, m.UnderLined, m.StrikeThrough, m.Obfuscated = c.Bold, c.Italic, c.Underlined, c.Strikethrough, c.Obfuscated
	m.Font, m.Insertion = c.Font, c.Insertion
	if c.Color != "" {
		m = m.SetColor(c.Color)
	}
	if k := c.Click; k != nil {
		switch k.Action {
		case "open_url":
			m.ClickEvent = chat.OpenURL(k.Value)
		case "run_command":
			m.ClickEvent = chat.RunCommand(k.Value)
		case "suggest_command":
			m.ClickEvent = chat.SuggestCommand(k.Value)
		case "copy_to_clipboard":
			m.ClickEvent = chat.CopyToClipboard(k.Value)
		case "change_page":
			if n, err := strconv.Atoi(k.Value); err == nil && strconv.Itoa(n) == k.Value {
				m.ClickEvent = chat.ChangePage(n)
				break
			}
			fallthrough
		default:
			m.ClickEvent = &chat.ClickEvent{Action: k.Action, Value: k.Value}
		}
	}
	if h := c.Hover; h != nil {
		v := h.Value
		if v == nil {
			v = &Comp{}
		}
		switch {
		case h.Action == "show_text":
			m.HoverEvent = chat.ShowText(ctorMsg(v))
		case h.Action == "show_item" && textOnly(v):
			m.HoverEvent = chat.ShowItem(v.Text)
		case h.Action == "show_entity" && textOnly(v):
			m.HoverEvent = chat.ShowEntity(v.Text)
		default:
			m.HoverEvent = &chat.HoverEvent{Action: h.Action, Value: ctorMsg(v)}
		}
	}
	for _, e := range c.Extra {
		m = m.Append(ctorMsg(e))
	}
	return m
}

// ---------------------------------------------------------------------------------------------
// (H) history on one value: render, then encode

var renderChanged int64

// judgeAfterRender runs after ClearString and String were called on m. When the value the caller holds is no
// longer what was built (the renderers have value receivers, but the slices inside are shared), the stated
// operations decide: the component must still survive both encodings unchanged. A change that neither form
// shows is outside the statement.
func judgeAfterRender(c *Comp, cs Case, m chat.Message) {
	if reflect.DeepEqual(buildMsg(cs), m) {
		return
	}
	atomic.AddInt64(&renderChanged, 1)
	same := true
	var err error
	var js []byte
	if guard("history/render-then-json/Marshal", cs, func() { js, err = json.Marshal(m) }) {
		same = false
	} else if ev(1); err != nil {
		fail("history/render-then-json/Marshal/error/"+errKind(err), cs, "json.Marshal of a rendered component failed: %v", err)
		same = false
	} else {
		var back chat.Message
		if guard("history/render-then-json/Unmarshal", cs, func() { err = json.Unmarshal(js, &back) }) {
			same = false
		} else if ev(1); err != nil {
			fail("history/render-then-json/Unmarshal/error-on-own-output/"+errKind(err), cs, "json.Unmarshal(%s) failed: %v", js, err)
			same = false
		} else if !compare("history/render-then-json/round-trip/differs", cs, c, back, fmt.Sprintf("JSON round trip (through %s) of a component value on which ClearString() and String() had been called", js)) {
			same = false
		}
	}
	var buf bytes.Buffer
	if guard("history/render-then-nbt/WriteTo", cs, func() { _, err = m.WriteTo(&buf) }) {
		same = false
	} else if ev(1); err != nil {
		fail("history/render-then-nbt/WriteTo/error/"+errKind(err), cs, "Message.WriteTo of a rendered component failed: %v", err)
		same = false
	} else {
		var back chat.Message
		if guard("history/render-then-nbt/ReadFrom", cs, func() { _, err = back.ReadFrom(bytes.NewReader(buf.Bytes())) }) {
			same = false
		} else if ev(1); err != nil {
			fail("history/render-then-nbt/ReadFrom/error-on-own-output/"+errKind(err), cs, "Message.ReadFrom(%s) failed: %v", clipX(buf.Bytes()), err)
			same = false
		} else if !compare("history/render-then-nbt/round-trip/differs", cs, c, back, "NBT round trip of a component value on which ClearString() and String() had been called") {
			same = false
		}
	}
	if same {
		rep.Unspec(1)
	}
}

// ---------------------------------------------------------------------------------------------
// (A) translation arity

func strArg(s string) Arg { return Arg{Str: &s} }

// arityFamily: key x n x kinds x variant. Argument i carries its position in its text, so an argument in
// the wrong place, a dropped one and a repeated one all change the expected text.
func arityFamily() []*Comp {
	var out []*Comp
	keys := append(append([]string(nil), langKeys...), "k.unknown")
	for _, key := range keys {
		for n := 0; n <= 5; n++ {
			for kinds := 0; kinds < 1<<n; kinds++ { // bit i: argument i is a component
				for variant := 0; variant < 3; variant++ {
					if n == 0 && variant > 0 {
						continue
					}
					c := &Comp{Translate: key}
					for i := 0; i < n; i++ {
						tag := strconv.Itoa(i + 1)
						isComp := kinds>>i&1 == 1
						switch {
						case variant == 0 && !isComp:
							c.With = append(c.With, strArg("s"+tag))
						case variant == 0:
							c.With = append(c.With, Arg{Comp: &Comp{Text: "c" + tag}})
						case variant == 1 && !isComp: // codes, percent signs and style
							c.With = append(c.With, strArg("§cs"+tag+"%"))
						case variant == 1:
							c.With = append(c.With, Arg{Comp: &Comp{Text: "§lc" + tag, Bold: true, Color: "red", Extra: []*Comp{{Text: "%s"}}}})
						case !isComp: // variant 2: nested translations
							c.With = append(c.With, strArg("s"+tag))
						default:
							c.With = append(c.With, Arg{Comp: &Comp{Translate: "k.swap", With: []Arg{strArg("n" + tag + "a"), {Comp: &Comp{Text: "n" + tag + "b"}}}}})
						}
					}
					if variant == 1 {
						c.Text = "T:"
						c.Extra = []*Comp{{Text: "!"}}
					}
					out = append(out, c)
				}
			}
		}
	}
	return out
}

// ---------------------------------------------------------------------------------------------
// (C) formatting codes

const codeChars = "0123456789abcdefklmnor"

func allCodes() []string {
	var out []string
	for _, r := range codeChars {
		out = append(out, "§"+string(r))
		if u := strings.ToUpper(string(r)); u != string(r) {
			out = append(out, "§"+u)
		}
	}
	return out
}

// at places the string s at one of the rendered positions of a component.
var renderedPositions = []string{"text", "string-argument", "component-argument", "extra", "extra-of-argument"}

func at(pos int, s string) *Comp {
	switch pos {
	case 0:
		return &Comp{Text: s}
	case 1:
		return &Comp{Translate: "k.one", With: []Arg{strArg(s)}}
	case 2:
		return &Comp{Translate: "k.one", With: []Arg{{Comp: &Comp{Text: s}}}}
	case 3:
		return &Comp{Text: "p", Extra: []*Comp{{Text: s}, {Text: "q"}}}
	case 4:
		return &Comp{Translate: "k.two", With: []Arg{strArg("a"), {Comp: &Comp{Extra: []*Comp{{Text: s}}}}}}
	}
	engine.HarnessError("at: position %d", pos)
	return nil
}

func codeFamily() []*Comp {
	var out []*Comp
	codes := allCodes()
	for _, code := range codes {
		// alone, inside text, at the end, twice, followed by a character that could itself be a code letter
		for _, s := range []string{code, "x" + code + "y", "x" + code, code + code, code + "cx", "x " + code + " " + code + "y"} {
			for pos := range renderedPositions {
				out = append(out, at(pos, s))
			}
		}
	}
	// every ordered pair back to back (text position), and with one character between
	for _, a := range codes {
		for _, b := range codes {
			out = append(out, &Comp{Text: a + b + "z"}, &Comp{Text: "x" + a + "y" + b})
		}
	}
	return out
}

// ---------------------------------------------------------------------------------------------
// (D) string classes

// awkward strings: none contains a NUL or a character outside the BMP (their NBT spelling is the NBT string
// codec's subject, not this property's), none ends in a section sign, none is invalid UTF-8 (not a string in
// either form).
var awkward = []string{
	"\n", "a\nb", "\t", "\r\n", "\x01", "\x08\x0c", "\x1b", "\x1f", "\x7f", "a\x7fb",
	"\\", "\\n", "\\u0041", "/", "</b>&amp;<", "'", "\"\"", "\\\"",
	"{", "}", "[1]", "null", "true", "0", " ", " a ", ",", ":",
	"\u0080", "\u00a0", "é", "ß", "日本語", "\u200b", "\u2028", "\u2029", "a\ufeffb", "\ufffd", "\ue000", "\uffff",
	"%", "%%", "%d", "%[1]s", "%!s(MISSING)", "%v%",
	strings.Repeat("a", 127), strings.Repeat("b", 128), strings.Repeat("é", 150), strings.Repeat("c", 300),
	strings.Repeat("long ", 3400), // 17000 bytes: a three-byte VarInt length in the JSON field form
}

var stringPositions = []string{"text", "color", "font", "insertion", "click-value", "hover-text", "hover-item", "translate-key",
	"string-argument", "component-argument", "extra", "mixed-arguments"}

func atString(pos int, s string) *Comp {
	switch stringPositions[pos] {
	case "text":
		return &Comp{Text: s}
	case "color":
		return &Comp{Text: "a", Color: s}
	case "font":
		return &Comp{Text: "a", Font: s}
	case "insertion":
		return &Comp{Text: "a", Insertion: s}
	case "click-value":
		return &Comp{Text: "a", Click: &Click{"copy_to_clipboard", s}}
	case "hover-text":
		return &Comp{Text: "a", Hover: &Hover{"show_text", &Comp{Text: s}}}
	case "hover-item":
		return &Comp{Text: "a", Hover: &Hover{"show_item", &Comp{Text: s}}}
	case "translate-key":
		return &Comp{Translate: s, With: []Arg{strArg("x")}}
	case "string-argument":
		return &Comp{Translate: "k.one", With: []Arg{strArg(s)}}
	case "component-argument":
		return &Comp{Translate: "k.one", With: []Arg{{Comp: &Comp{Text: s}}}}
	case "extra":
		return &Comp{Text: "p", Extra: []*Comp{{Text: s}}}
	case "mixed-arguments":
		return &Comp{Translate: "k.two", With: []Arg{strArg(s), {Comp: &Comp{Text: s, Italic: true}}}}
	}
	engine.HarnessError("atString: position %d", pos)
	return nil
}

func stringFamily() []*Comp {
	var out []*Comp
	for _, s := range awkward {
		for pos := range stringPositions {
			if s == "" && stringPositions[pos] == "translate-key" {
				continue
			}
			out = append(out, atString(pos, s))
		}
	}
	return out
}

// ---------------------------------------------------------------------------------------------
// (K) colour values

// colourMenu: the 16 colour names, hex colours of every length 0..7 digits and with wrong digits, and names
// that are near misses. A colour is a string in both forms; the ANSI renderer looks it up.
var colourMenu = []string{
	"black", "dark_blue", "dark_green", "dark_aqua", "dark_red", "dark_purple", "gold", "gray", "dark_gray", "blue", "green",
	"aqua", "red", "light_purple", "yellow", "white",
	"#", "#f", "#ff", "#fff", "#ffff", "#fffff", "#ff0000", "#FF00AA", "#ff00000", "#gggggg", "#ff00é", "#-12345", "# ff000",
	"reset", "RED", "Red", "dark-red", " red", "0", "§c",
}

func colourFamily() []*Comp {
	var out []*Comp
	for _, col := range colourMenu {
		out = append(out,
			&Comp{Text: "a", Color: col},
			&Comp{Text: "§la", Color: col, Bold: true, Italic: true, Underlined: true, Strikethrough: true, Obfuscated: true},
			&Comp{Translate: "k.two", Color: col, With: []Arg{strArg("x"), {Comp: &Comp{Text: "y", Color: col}}}},
			&Comp{Text: "p", Extra: []*Comp{{Text: "e", Color: col}, {Color: col}}},
		)
	}
	return out
}

// ---------------------------------------------------------------------------------------------
// (N) nesting chains

const maxChain = 5

// chainFamily: every word over {extra, with, hover} of length 1..maxChain; the innermost component is a
// styled text, every level carries its depth in its text.
func chainFamily() []*Comp {
	var out []*Comp
	var build func(word []int, depth int) *Comp
	build = func(word []int, depth int) *Comp {
		c := &Comp{Text: "d" + strconv.Itoa(depth)}
		if len(word) == 0 {
			c.Bold = true
			c.Color = "red"
			return c
		}
		child := build(word[1:], depth+1)
		switch word[0] {
		case 0:
			c.Extra = []*Comp{child}
		case 1:
			c.Text = ""
			c.Translate = "k.one"
			c.With = []Arg{{Comp: child}}
		case 2:
			c.Hover = &Hover{"show_text", child}
		}
		return c
	}
	for l := 1; l <= maxChain; l++ {
		word := make([]int, l)
		for {
			out = append(out, build(word, 1))
			i := l - 1
			for i >= 0 {
				word[i]++
				if word[i] < 3 {
					break
				}
				word[i] = 0
				i--
			}
			if i < 0 {
				break
			}
		}
	}
	return out
}

// ---------------------------------------------------------------------------------------------

// typeStringFamily: chat.Type headers whose sender / target names carry the awkward strings and the codes.
func typeStringFamily() []Case {
	var out []Case
	for _, s := range append(append([]string(nil), awkward...), allCodes()...) {
		out = append(out, Case{Part: "type", ID: 3, Comp: &Comp{Text: s}})
		out = append(out, Case{Part: "type", ID: 3, Comp: &Comp{Text: "snd"}, HasTgt: true, Target: &Comp{Text: s}})
		out = append(out, Case{Part: "type", ID: 300, Comp: &Comp{Translate: "k.one", With: []Arg{strArg(s)}}, HasTgt: true, Target: &Comp{Text: s, Insertion: s}})
	}
	return out
}

// runFamilies judges every member of (A), (C), (D), (K), (N) as built by the harness and as built through the
// constructors.
func runFamilies() {
	type fam struct {
		name  string
		comps []*Comp
	}
	fams := []fam{
		{"translation_arity_family", arityFamily()},
		{"formatting_code_family", codeFamily()},
		{"string_class_family", stringFamily()},
		{"nesting_chain_family", chainFamily()},
		{"colour_family", colourFamily()},
	}
	for _, f := range fams {
		cs := f.comps
		engine.ParallelFor(len(cs), func(_, i int) {
			markSeen(cs[i])
			judgeComp(cs[i])
			judgeCtor(cs[i])
		})
		rep.Count(f.name, int64(len(cs)))
		rep.Sample(cs[len(cs)/2])
	}
	tc := typeStringFamily()
	engine.ParallelFor(len(tc), func(_, i int) { judgeType(tc[i]) })
	rep.Count("type_headers_string_class_family", int64(len(tc)))

	rep.Extra("language_table", lang)
	rep.Extra("translation_arity_menu", "every key of language_table and one unknown key x 0..5 arguments x every {string, component} kind vector x {plain, with codes/percent/style/extra, nested k.swap translation}")
	rep.Extra("formatting_code_menu", fmt.Sprintf("%d codes (%s, both cases) x placements {alone, inside, at the end, doubled, before a code letter, twice with spaces} x positions %v; every ordered pair of codes adjacent and one character apart", len(allCodes()), codeChars, renderedPositions))
	rep.Extra("string_class_menu", fmt.Sprintf("%d strings (control characters 01 08 0c 1b 1f 7f, newline/tab/CRLF, backslash forms, JSON syntax characters and literals, HTML characters, U+0080 U+00A0 U+200B U+2028 U+2029 U+FEFF U+FFFD U+E000 U+FFFF, CJK, percent forms, lengths 127 128 300 and 17000 bytes) x positions %v, and as chat.Type sender/target names", len(awkward), stringPositions))
	rep.Extra("colour_menu", fmt.Sprintf("%v x {text, all five flags, translation with coloured argument, coloured extras}", colourMenu))
	rep.Extra("nesting_chain_menu", fmt.Sprintf("every word over {extra, with, hover} of length 1..%d (nesting depth <= %d)", maxChain, maxChain+1))
	rep.Extra("constructors_used", "Text, TranslateMsg (all-component arguments), SetColor, Append (one call per extra), OpenURL, RunCommand, SuggestCommand, ChangePage, CopyToClipboard, ShowText, ShowItem, ShowEntity")
	rep.Extra("history_on_one_value", "every comp/ctor case: encode JSON, encode NBT, ClearString, String, then — when the value differs from a fresh build (reflect.DeepEqual) — encode JSON and NBT again and compare with the component")
}
