// Nested input shapes: "a bare string, a compound and a list are all accepted as components in both forms"
// holds for every place a component stands in — the hover value, the elements of extra, the translation
// arguments — not only for the outermost one. The reference documents here spell every text-only child as a
// bare string and (second variant) every hover value that is nothing but a list of extras as a list.
package main

import (
	"encoding/json"
	"fmt"
	"sync/atomic"

	"github.com/Tnze/go-mc/chat"

	"verif/engine"
	"verif/ref/refnbt"
)

type compactor struct {
	lists               bool // spell extra-only hover values as lists
	usedStr, usedList   bool
	strHover, strExtra  bool
	strArgument, listHv bool
}

func (k *compactor) child(c *Comp, where *bool) any {
	if textOnly(c) {
		k.usedStr = true
		*where = true
		return c.Text
	}
	return k.tree(c)
}

// tree mirrors toTree, children through child().
func (k *compactor) tree(c *Comp) map[string]any {
	o := map[string]any{}
	if c.Translate == "" || c.Text != "" {
		o["text"] = c.Text
	}
	for i, f := range c.flags() {
		if f {
			o[flagKeys[i]] = true
		}
	}
	if c.Color != "" {
		o["color"] = c.Color
	}
	if c.Font != "" {
		o["font"] = c.Font
	}
	if c.Insertion != "" {
		o["insertion"] = c.Insertion
	}
	if c.Click != nil {
		o["clickEvent"] = map[string]any{"action": c.Click.Action, "value": c.Click.Value}
	}
	if c.Hover != nil {
		h := map[string]any{"action": c.Hover.Action}
		if v := c.Hover.Value; v != nil {
			if k.lists && extraOnly(v) {
				k.usedList, k.listHv = true, true
				var l []any
				for _, e := range v.Extra {
					l = append(l, k.child(e, &k.strExtra))
				}
				h["value"] = l
			} else {
				h["value"] = k.child(v, &k.strHover)
			}
		}
		o["hoverEvent"] = h
	}
	if c.Translate != "" {
		o["translate"] = c.Translate
	}
	if len(c.With) > 0 {
		var l []any
		for _, a := range c.With {
			if a.Comp != nil {
				l = append(l, k.child(a.Comp, &k.strArgument))
			} else {
				l = append(l, *a.Str)
			}
		}
		o["with"] = l
	}
	if len(c.Extra) > 0 {
		var l []any
		for _, e := range c.Extra {
			l = append(l, k.child(e, &k.strExtra))
		}
		o["extra"] = l
	}
	return o
}

func (k *compactor) where() string {
	s := ""
	for _, p := range []struct {
		on   bool
		name string
	}{{k.listHv, "hover-value-list"}, {k.strHover, "hover-value-string"}, {k.strExtra, "extra-element-string"}, {k.strArgument, "argument-string"}} {
		if p.on {
			if s != "" {
				s += "+"
			}
			s += p.name
		}
	}
	return s
}

// altHover is c with every extra-only hover value read the other way (first element is the parent of the
// rest), the reading vanilla applies to a list.
func altHover(c *Comp) *Comp {
	d := *c
	if c.Hover != nil {
		h := *c.Hover
		if v := h.Value; v != nil {
			v = altHover(v)
			if extraOnly(v) {
				first := *v.Extra[0]
				first.Extra = append(append([]*Comp(nil), first.Extra...), v.Extra[1:]...)
				v = &first
			}
			h.Value = v
		}
		d.Hover = &h
	}
	d.With = nil
	for _, a := range c.With {
		if a.Comp != nil {
			a.Comp = altHover(a.Comp)
		}
		d.With = append(d.With, a)
	}
	d.Extra = nil
	for _, e := range c.Extra {
		d.Extra = append(d.Extra, altHover(e))
	}
	return &d
}

var nestedDocs int64

// judgeNested decodes the compact reference documents of c in both forms.
func judgeNested(c *Comp, cs Case) {
	for _, lists := range []bool{false, true} {
		k := &compactor{lists: lists}
		tree := k.tree(c)
		if !k.usedStr && !k.usedList || lists && !k.usedList {
			continue // the document is the one already judged
		}
		atomic.AddInt64(&nestedDocs, 2)
		var alt *Comp
		if k.usedList {
			alt = altHover(c)
		}
		check := func(prefix string, back chat.Message, what string) {
			g, e := fromMsg(back)
			if e != nil {
				fail(prefix+"/value-outside-model/"+errKind(e), cs, "%s produced %v", what, e)
				return
			}
			d := diff(c, g)
			if d == "" || alt != nil && diff(alt, g) == "" {
				return
			}
			fail(prefix+"/decoded-differs/"+d, cs, "%s gave %s, expected %s", what, g, c)
		}
		var err error
		lit, merr := json.Marshal(tree)
		if merr != nil {
			engine.HarnessError("compact reference JSON: %v", merr)
		}
		pre := "shape/nested/" + k.where()
		var back chat.Message
		if !guard(pre+"/json", cs, func() { err = json.Unmarshal(lit, &back) }) {
			ev(1)
			if err != nil {
				fail(pre+"/json/rejected/"+errKind(err), cs, "json.Unmarshal(%s) failed: %v", lit, err)
			} else {
				check(pre+"/json", back, fmt.Sprintf("decoding %s", lit))
			}
		}
		enc := append(refnbtAppend(tree), 0xEE, 0xEE)
		var nb chat.Message
		pr := &engine.PlainReader{Data: enc}
		if !guard(pre+"/nbt", cs, func() { _, err = nb.ReadFrom(pr) }) {
			ev(1)
			if err != nil {
				fail(pre+"/nbt/rejected/"+errKind(err), cs, "Message.ReadFrom(%s) failed: %v", clipX(enc[:len(enc)-2]), err)
			} else {
				check(pre+"/nbt", nb, fmt.Sprintf("decoding %s", clipX(enc[:len(enc)-2])))
				if pr.Rest() != 2 {
					fail(pre+"/nbt/consumed-wrong-byte-count", cs, "%d bytes left unread after one value, expected the 2 sentinel bytes", pr.Rest())
				}
			}
		}
	}
}

func refnbtAppend(tree any) []byte { return refnbt.Append(nil, "", treeToNBT(tree), true) }
