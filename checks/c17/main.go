// C17 — text components survive JSON and NBT encoding and render without crashing.
//
// Components are generated from the component grammar by the choice-tape explorer: every field that leaves
// its default costs one deviation (Deviate), children (extra, translation arguments, hover value) are
// generated recursively to depth 3, and every component with at most B departures from the empty component
// is walked; the full product of the five style flags is added on three bases. Each component is pushed
// through: json.Marshal/Unmarshal, the JsonMessage field adapter, Message.WriteTo (bytes read by the
// independent refnbt reader and by an independent tree->component reader), Message.ReadFrom on go-mc's own
// bytes and on reference encodings built with refnbt, json.Unmarshal on reference literals, the bare-string
// and list input shapes, chat.Type headers with and without target, and both renderers.
//
// families.go adds the fixed-menu families (translation arity 0..5, all formatting codes and their ordered pairs,
// string classes at every string position, colour values, nesting chains), the same components built through
// go-mc's constructors, and the render-then-encode history on one value; shapes.go adds the bare-string and
// list spellings of nested components.
//
// Equality is semantic equality of components: nil == empty, and a bare string argument equals the
// text-only component with that text (they are the same component in the format).
package main

import (
	"bytes"
	"encoding/json"
	"fmt"
	"hash/fnv"
	"io"
	"os"
	"regexp"
	"sort"
	"strings"
	"sync"
	"sync/atomic"
	"time"

	"github.com/Tnze/go-mc/chat"

	"verif/engine"
	"verif/ref/refnbt"
)

var rep *engine.Report

// ---------------------------------------------------------------------------------------------
// model of a component (independent of chat.Message)

type Click struct {
	Action string `json:"action"`
	Value  string `json:"value"`
}

type Hover struct {
	Action string `json:"action"`
	Value  *Comp  `json:"value,omitempty"`
}

type Arg struct {
	Str  *string `json:"str,omitempty"`
	Comp *Comp   `json:"comp,omitempty"`
}

type Comp struct {
	Text          string  `json:"text"`
	Bold          bool    `json:"bold,omitempty"`
	Italic        bool    `json:"italic,omitempty"`
	Underlined    bool    `json:"underlined,omitempty"`
	Strikethrough bool    `json:"strikethrough,omitempty"`
	Obfuscated    bool    `json:"obfuscated,omitempty"`
	Color         string  `json:"color,omitempty"`
	Font          string  `json:"font,omitempty"`
	Insertion     string  `json:"insertion,omitempty"`
	Click         *Click  `json:"click,omitempty"`
	Hover         *Hover  `json:"hover,omitempty"`
	Translate     string  `json:"translate,omitempty"`
	With          []Arg   `json:"with,omitempty"`
	Extra         []*Comp `json:"extra,omitempty"`
}

func (c *Comp) flags() [5]bool {
	return [5]bool{c.Bold, c.Italic, c.Underlined, c.Strikethrough, c.Obfuscated}
}

var flagKeys = [5]string{"bold", "italic", "underlined", "strikethrough", "obfuscated"}

func (c *Comp) String() string { b, _ := json.Marshal(c); return string(b) }

// size orders witnesses.
func (c *Comp) size() int {
	n := 1 + len(c.Text)
	for _, f := range c.flags() {
		if f {
			n++
		}
	}
	for _, s := range []string{c.Color, c.Font, c.Insertion, c.Translate} {
		if s != "" {
			n += 2
		}
	}
	if c.Click != nil {
		n += 3
	}
	if c.Hover != nil {
		n += 3
		if c.Hover.Value != nil {
			n += c.Hover.Value.size()
		}
	}
	for _, a := range c.With {
		if a.Comp != nil {
			n += 2 + a.Comp.size()
		} else {
			n += 2 + len(*a.Str)
		}
	}
	for _, e := range c.Extra {
		n += 2 + e.size()
	}
	return n
}

// tie is a cheap deterministic hash of the component, used to break ties between witnesses of equal size so
// that the recorded witness does not depend on worker scheduling.
func (c *Comp) tie(h uint32) uint32 {
	str := func(s string) {
		for i := 0; i < len(s); i++ {
			h = (h ^ uint32(s[i])) * 16777619
		}
		h = (h ^ 0xff) * 16777619
	}
	str(c.Text)
	for _, f := range c.flags() {
		if f {
			h = (h ^ 1) * 16777619
		} else {
			h = (h ^ 2) * 16777619
		}
	}
	str(c.Color)
	str(c.Font)
	str(c.Insertion)
	str(c.Translate)
	if c.Click != nil {
		str(c.Click.Action)
	}
	if c.Hover != nil {
		str(c.Hover.Action)
		if c.Hover.Value != nil {
			h = c.Hover.Value.tie(h)
		}
	}
	for _, a := range c.With {
		if a.Comp != nil {
			h = a.Comp.tie(h ^ 7)
		} else {
			str(*a.Str)
		}
	}
	for _, e := range c.Extra {
		h = e.tie(h ^ 11)
	}
	return h
}

func toMsg(c *Comp) chat.Message {
	m := chat.Message{Text: c.Text, Bold: c.Bold, Italic: c.Italic, UnderLined: c.Underlined, StrikeThrough: c.Strikethrough,
		Obfuscated: c.Obfuscated, Color: c.Color, Font: c.Font, Insertion: c.Insertion, Translate: c.Translate}
	if c.Click != nil {
		m.ClickEvent = &chat.ClickEvent{Action: c.Click.Action, Value: c.Click.Value}
	}
	if c.Hover != nil {
		h := &chat.HoverEvent{Action: c.Hover.Action}
		if c.Hover.Value != nil {
			h.Value = toMsg(c.Hover.Value)
		}
		m.HoverEvent = h
	}
	for _, a := range c.With {
		if a.Comp != nil {
			m.With = append(m.With, toMsg(a.Comp))
		} else {
			m.With = append(m.With, *a.Str)
		}
	}
	for _, e := range c.Extra {
		m.Extra = append(m.Extra, toMsg(e))
	}
	return m
}

// fromMsg maps a chat.Message back into the model; err names what the model cannot express.
func fromMsg(m chat.Message) (*Comp, error) { return fromMsgDepth(m, 0) }

// fromMsgDepth bounds the nesting: generated components nest at most a few levels, so a decoded
// value deeper than 64 levels is cyclic or garbage (it is reported as a mismatch, never followed).
func fromMsgDepth(m chat.Message, depth int) (*Comp, error) {
	if depth > 64 {
		return nil, fmt.Errorf("decoded component nests deeper than 64 levels (cyclic value?)")
	}
	c := &Comp{Text: m.Text, Bold: m.Bold, Italic: m.Italic, Underlined: m.UnderLined, Strikethrough: m.StrikeThrough,
		Obfuscated: m.Obfuscated, Color: m.Color, Font: m.Font, Insertion: m.Insertion, Translate: m.Translate}
	if m.ClickEvent != nil {
		c.Click = &Click{m.ClickEvent.Action, m.ClickEvent.Value}
	}
	if m.HoverEvent != nil {
		if m.HoverEvent.Contents != nil {
			return nil, fmt.Errorf("hoverEvent.contents=%T", m.HoverEvent.Contents)
		}
		v, err := fromMsgDepth(m.HoverEvent.Value, depth+1)
		if err != nil {
			return nil, err
		}
		c.Hover = &Hover{Action: m.HoverEvent.Action, Value: v}
	}
	for _, a := range m.With {
		switch a := a.(type) {
		case string:
			s := a
			c.With = append(c.With, Arg{Str: &s})
		case chat.Message:
			v, err := fromMsgDepth(a, depth+1)
			if err != nil {
				return nil, err
			}
			c.With = append(c.With, Arg{Comp: v})
		case *chat.Message:
			v, err := fromMsgDepth(*a, depth+1)
			if err != nil {
				return nil, err
			}
			c.With = append(c.With, Arg{Comp: v})
		default:
			return nil, fmt.Errorf("with element of type %T", a)
		}
	}
	for _, e := range m.Extra {
		v, err := fromMsgDepth(e, depth+1)
		if err != nil {
			return nil, err
		}
		c.Extra = append(c.Extra, v)
	}
	return c, nil
}

func argComp(a Arg) *Comp {
	if a.Comp != nil {
		return a.Comp
	}
	return &Comp{Text: *a.Str}
}

// diff returns "" when want and got are the same component (nil==empty; string argument == text-only
// component), else the path of the first differing field with indices dropped.
func diff(want, got *Comp) string {
	if want == nil {
		want = &Comp{}
	}
	if got == nil {
		got = &Comp{}
	}
	if want.Text != got.Text {
		return "text"
	}
	wf, gf := want.flags(), got.flags()
	for i := range wf {
		if wf[i] != gf[i] {
			return flagKeys[i]
		}
	}
	switch {
	case want.Color != got.Color:
		return "color"
	case want.Font != got.Font:
		return "font"
	case want.Insertion != got.Insertion:
		return "insertion"
	case (want.Click == nil) != (got.Click == nil):
		return "clickEvent(presence)"
	case want.Click != nil && *want.Click != *got.Click:
		return "clickEvent"
	case (want.Hover == nil) != (got.Hover == nil):
		return "hoverEvent(presence)"
	}
	if want.Hover != nil {
		if want.Hover.Action != got.Hover.Action {
			return "hoverEvent.action"
		}
		if d := diff(want.Hover.Value, got.Hover.Value); d != "" {
			return "hoverEvent.value/" + d
		}
	}
	if want.Translate != got.Translate {
		return "translate"
	}
	if len(want.With) != len(got.With) {
		return "with(length)"
	}
	for i := range want.With {
		if d := diff(argComp(want.With[i]), argComp(got.With[i])); d != "" {
			return "with[]/" + d
		}
	}
	if len(want.Extra) != len(got.Extra) {
		return "extra(length)"
	}
	for i := range want.Extra {
		if d := diff(want.Extra[i], got.Extra[i]); d != "" {
			return "extra[]/" + d
		}
	}
	return ""
}

// ---------------------------------------------------------------------------------------------
// reference encodings

// tree is a neutral document: map[string]any, []any, string, bool.
func toTree(c *Comp) map[string]any {
	o := map[string]any{}
	if c.Translate == "" || c.Text != "" {
		o["text"] = c.Text
	}
	for i, f := range c.flags() {
		if f {
			o[flagKeys[i]] = true
		}
	}
	if c.Color != "" {
		o["color"] = c.Color
	}
	if c.Font != "" {
		o["font"] = c.Font
	}
	if c.Insertion != "" {
		o["insertion"] = c.Insertion
	}
	if c.Click != nil {
		o["clickEvent"] = map[string]any{"action": c.Click.Action, "value": c.Click.Value}
	}
	if c.Hover != nil {
		h := map[string]any{"action": c.Hover.Action}
		if c.Hover.Value != nil {
			h["value"] = toTree(c.Hover.Value)
		}
		o["hoverEvent"] = h
	}
	if c.Translate != "" {
		o["translate"] = c.Translate
	}
	if len(c.With) > 0 {
		var l []any
		for _, a := range c.With {
			if a.Comp != nil {
				l = append(l, toTree(a.Comp))
			} else {
				l = append(l, *a.Str)
			}
		}
		o["with"] = l
	}
	if len(c.Extra) > 0 {
		var l []any
		for _, e := range c.Extra {
			l = append(l, toTree(e))
		}
		o["extra"] = l
	}
	return o
}

func treeToNBT(t any) *refnbt.Node {
	switch v := t.(type) {
	case string:
		return &refnbt.Node{Tag: refnbt.String, S: v}
	case bool:
		n := &refnbt.Node{Tag: refnbt.Byte}
		if v {
			n.I = 1
		}
		return n
	case map[string]any:
		n := &refnbt.Node{Tag: refnbt.Compound}
		keys := make([]string, 0, len(v))
		for k := range v {
			keys = append(keys, k)
		}
		sort.Strings(keys)
		for _, k := range keys {
			n.Fields = append(n.Fields, refnbt.Field{Name: k, Val: treeToNBT(v[k])})
		}
		return n
	case []any:
		n := &refnbt.Node{Tag: refnbt.List}
		allStr, allObj := true, true
		for _, e := range v {
			if _, ok := e.(string); ok {
				allObj = false
			} else {
				allStr = false
			}
		}
		for _, e := range v {
			if s, ok := e.(string); ok && !allStr {
				e = map[string]any{"text": s} // NBT lists are homogeneous: a string among components is wrapped
			}
			n.Elems = append(n.Elems, treeToNBT(e))
		}
		switch {
		case len(v) == 0:
			n.ElemTag = refnbt.End
		case allStr:
			n.ElemTag = refnbt.String
		default:
			_ = allObj
			n.ElemTag = refnbt.Compound
		}
		return n
	}
	engine.HarnessError("treeToNBT: unexpected %T", t)
	return nil
}

func refNBT(c *Comp) []byte { return refnbt.Append(nil, "", treeToNBT(toTree(c)), true) }

func refJSON(c *Comp) []byte {
	b, err := json.Marshal(toTree(c))
	if err != nil {
		engine.HarnessError("reference JSON: %v", err)
	}
	return b
}

var componentKeys = map[string]bool{"text": true, "translate": true, "with": true, "extra": true, "bold": true, "italic": true,
	"underlined": true, "strikethrough": true, "obfuscated": true, "color": true, "font": true, "insertion": true,
	"clickEvent": true, "hoverEvent": true}

// fromNBT is the independent tree -> component reader used on the bytes go-mc writes. It is strict: a key
// outside the component vocabulary or a value of the wrong tag is an error naming the place.
func fromNBT(n *refnbt.Node) (*Comp, error) {
	switch n.Tag {
	case refnbt.String:
		return &Comp{Text: n.S}, nil
	case refnbt.Compound:
	default:
		return nil, fmt.Errorf("component is a %s", refnbt.TagNames[n.Tag])
	}
	c := &Comp{}
	str := func(f refnbt.Field, dst *string) error {
		if f.Val.Tag != refnbt.String {
			return fmt.Errorf("key %q holds a %s", f.Name, refnbt.TagNames[f.Val.Tag])
		}
		*dst = f.Val.S
		return nil
	}
	haveContent := false
	for _, f := range n.Fields {
		if !componentKeys[f.Name] {
			return nil, fmt.Errorf("unexpected key %q", f.Name)
		}
		var err error
		switch f.Name {
		case "text":
			haveContent = true
			err = str(f, &c.Text)
		case "translate":
			haveContent = true
			err = str(f, &c.Translate)
		case "color":
			err = str(f, &c.Color)
		case "font":
			err = str(f, &c.Font)
		case "insertion":
			err = str(f, &c.Insertion)
		case "bold", "italic", "underlined", "strikethrough", "obfuscated":
			if f.Val.Tag != refnbt.Byte {
				return nil, fmt.Errorf("key %q holds a %s", f.Name, refnbt.TagNames[f.Val.Tag])
			}
			b := f.Val.I != 0
			switch f.Name {
			case "bold":
				c.Bold = b
			case "italic":
				c.Italic = b
			case "underlined":
				c.Underlined = b
			case "strikethrough":
				c.Strikethrough = b
			case "obfuscated":
				c.Obfuscated = b
			}
		case "clickEvent":
			if f.Val.Tag != refnbt.Compound {
				return nil, fmt.Errorf("clickEvent is a %s", refnbt.TagNames[f.Val.Tag])
			}
			c.Click = &Click{}
			for _, g := range f.Val.Fields {
				switch g.Name {
				case "action":
					err = str(g, &c.Click.Action)
				case "value":
					err = str(g, &c.Click.Value)
				default:
					err = fmt.Errorf("unexpected key clickEvent.%q", g.Name)
				}
				if err != nil {
					return nil, err
				}
			}
		case "hoverEvent":
			if f.Val.Tag != refnbt.Compound {
				return nil, fmt.Errorf("hoverEvent is a %s", refnbt.TagNames[f.Val.Tag])
			}
			c.Hover = &Hover{}
			for _, g := range f.Val.Fields {
				switch g.Name {
				case "action":
					err = str(g, &c.Hover.Action)
				case "value":
					c.Hover.Value, err = fromNBT(g.Val)
				case "contents": // modern spelling; any value is tolerated, the model carries the legacy value only
				default:
					err = fmt.Errorf("unexpected key hoverEvent.%q", g.Name)
				}
				if err != nil {
					return nil, err
				}
			}
		case "with", "extra":
			if f.Val.Tag != refnbt.List {
				return nil, fmt.Errorf("key %q holds a %s", f.Name, refnbt.TagNames[f.Val.Tag])
			}
			for _, e := range f.Val.Elems {
				sub, err := fromNBT(e)
				if err != nil {
					return nil, fmt.Errorf("%s[]: %w", f.Name, err)
				}
				if f.Name == "with" {
					c.With = append(c.With, Arg{Comp: sub})
				} else {
					c.Extra = append(c.Extra, sub)
				}
			}
		}
		if err != nil {
			return nil, err
		}
	}
	if !haveContent {
		return nil, fmt.Errorf("compound has neither text nor translate")
	}
	return c, nil
}

// ---------------------------------------------------------------------------------------------
// rendering model

// lang is the language table the harness installs: formats of every arity 0..5, sequential and indexed
// verbs, and a literal percent sign.
var lang = map[string]string{
	"k.zero":  "nothing",
	"k.one":   "<%s>",
	"k.two":   "%s and %s",
	"k.swap":  "%[2]s %[1]s",
	"k.pct":   "%s%% of %s",
	"k.three": "%s, %s, %s",
	"k.four":  "%s %s %s %s",
	"k.five":  "%s-%s-%s-%s-%s",
	"k.rev5":  "%[5]s%[4]s%[3]s%[2]s%[1]s",
}

var langKeys = []string{"k.zero", "k.one", "k.two", "k.swap", "k.pct", "k.three", "k.four", "k.five", "k.rev5"}

var (
	codePat = regexp.MustCompile(`§[0-9a-fA-Fk-oK-OrR]`)
	ansiPat = regexp.MustCompile("\x1b\\[[0-9;]*m")
)

func stripCodes(s string) string { return codePat.ReplaceAllString(s, "") }

// expand is the harness's own reading of a translation format: "%s" takes the next argument, "%[n]s" the
// n-th (and the following "%s" the one after it), "%%" is a percent sign. ok is false when the format names an
// argument that does not exist, leaves an argument unused, or contains anything else: the statement fixes the
// text only when the arguments are exactly the ones the format names.
func expand(format string, args []string) (string, bool) {
	var sb strings.Builder
	used := make([]bool, len(args))
	next := 0
	for i := 0; i < len(format); i++ {
		if format[i] != '%' {
			sb.WriteByte(format[i])
			continue
		}
		i++
		if i >= len(format) {
			return "", false
		}
		switch {
		case format[i] == '%':
			sb.WriteByte('%')
			continue
		case format[i] == '[':
			j := strings.IndexByte(format[i:], ']')
			n := 0
			if j < 0 {
				return "", false
			}
			if _, err := fmt.Sscanf(format[i+1:i+j], "%d", &n); err != nil {
				return "", false
			}
			next = n - 1
			i += j + 1
			if i >= len(format) || format[i] != 's' {
				return "", false
			}
		case format[i] != 's':
			return "", false
		}
		if next < 0 || next >= len(args) {
			return "", false
		}
		sb.WriteString(args[next])
		used[next] = true
		next++
	}
	for _, u := range used {
		if !u {
			return "", false
		}
	}
	return sb.String(), true
}

// plain returns the expected plain rendering and whether the statement fixes it for this component.
func plain(c *Comp) (string, bool) {
	var sb strings.Builder
	sb.WriteString(stripCodes(c.Text))
	ok := true
	if c.Translate != "" {
		format, known := lang[c.Translate]
		args := make([]string, len(c.With))
		for i, w := range c.With {
			if w.Comp != nil {
				s, o := plain(w.Comp)
				ok = ok && o
				args[i] = s
			} else {
				args[i] = stripCodes(*w.Str)
			}
		}
		// unknown key, or an argument count that does not match the format: not fixed by the statement
		if s, o := expand(format, args); known && o {
			sb.WriteString(s)
		} else {
			ok = false
		}
	}
	for _, e := range c.Extra {
		s, o := plain(e)
		ok = ok && o
		sb.WriteString(s)
	}
	return sb.String(), ok
}

// codeOrigin says where an unstripped code can come from in c: "string-argument" when some bare string
// argument carries that code, else "text".
func codeOrigin(c *Comp, code string) string {
	found := false
	var walk func(c *Comp)
	walk = func(c *Comp) {
		for _, a := range c.With {
			if a.Str != nil && strings.Contains(*a.Str, code) {
				found = true
			}
			if a.Comp != nil {
				walk(a.Comp)
			}
		}
		for _, e := range c.Extra {
			walk(e)
		}
	}
	walk(c)
	if found {
		return "string-argument"
	}
	return "text"
}

// ---------------------------------------------------------------------------------------------
// case descriptor

type Case struct {
	Part   string `json:"part"` // comp | ctor (the same component built through go-mc's constructors) | type
	Comp   *Comp  `json:"comp,omitempty"`
	ID     int32  `json:"id,omitempty"`
	Target *Comp  `json:"target,omitempty"`
	HasTgt bool   `json:"has_target,omitempty"`
}

func fail(class string, c Case, format string, a ...any) {
	if c.Part == "ctor" {
		class = "constructors/" + class
	}
	size := 0
	tie := uint32(2166136261) ^ uint32(c.ID)
	if c.Comp != nil {
		size += c.Comp.size()
		tie = c.Comp.tie(tie)
	}
	if c.Target != nil {
		size += c.Target.size()
		tie = c.Target.tie(tie)
	}
	size = size<<12 | int(tie&0xfff)
	rep.FailLazy(class, size, func() engine.Failure {
		return engine.Failure{Detail: fmt.Sprintf(format, a...), Case: c}
	})
}

func errKind(err error) string {
	s := engine.PanicKind(err.Error())
	s = strings.NewReplacer("/", "|", "\"", "'", "%!", "", "<", "", ">", "").Replace(s)
	if len(s) > 70 {
		s = s[:70]
	}
	return s
}

// guard runs f; a panic is reported under prefix and true is returned.
func guard(prefix string, c Case, f func()) bool {
	kind, frame, p := engine.Guard(f)
	if p {
		fail(prefix+"/panic/"+frame+"/"+kind, c, "panic %s in %s", kind, frame)
	}
	return p
}

func clipX(b []byte) string {
	if len(b) > 96 {
		return fmt.Sprintf("%x…(%d bytes)", b[:96], len(b))
	}
	return fmt.Sprintf("%x", b)
}

// compare got (a decoded chat.Message) with want; reports under class prefix.
func compare(prefix string, cs Case, want *Comp, got chat.Message, what string) bool {
	g, err := fromMsg(got)
	if err != nil {
		fail(prefix+"/value-outside-model/"+errKind(err), cs, "%s produced %v", what, err)
		return false
	}
	if d := diff(want, g); d != "" {
		fail(prefix+"/"+d, cs, "%s: component %s came back as %s (first difference at %s)", what, want, g, d)
		return false
	}
	return true
}

// readOneNBT parses data as ONE network-format value. When that fails because the value carries a second
// tag header (0a | 0a 0000 … ), dup is true and repaired holds the bytes with the inner header removed.
//
// embedded: the value is followed by other fields (chat.Type). There "0a 0a 0000 {…}" followed by a 0x00 flag
// byte would also parse as the compound {"": {…}}, swallowing the flag; since "" is never a component key the
// duplicated-header reading is taken first.
func readOneNBT(data []byte, embedded bool) (node *refnbt.Node, used int, err error, dup bool, repaired []byte) {
	if !embedded {
		_, node, used, err = refnbt.Parse(data, true)
		if err == nil {
			return
		}
	}
	if len(data) >= 4 && data[0] == refnbt.Compound && data[1] == refnbt.Compound {
		if name, inner, u, e := refnbt.Parse(data[1:], false); e == nil && name == "" && inner.Tag == refnbt.Compound {
			dup = true
			used = 1 + u
			repaired = append([]byte{data[0]}, data[4:used]...)
			node = inner
			if err == nil {
				err = fmt.Errorf("second tag header inside the value")
			}
			return
		}
	}
	if embedded {
		_, node, used, err = refnbt.Parse(data, true)
	}
	return
}

var evals int64

func ev(n int64) { atomic.AddInt64(&evals, n) }

// ---------------------------------------------------------------------------------------------
// judge one component

func judgeComp(c *Comp) { judgeMsg(Case{Part: "comp", Comp: c}) }

// judgeCtor judges the same component built through go-mc's own constructors (see ctorMsg).
func judgeCtor(c *Comp) { judgeMsg(Case{Part: "ctor", Comp: c}) }

// buildMsg builds the chat.Message of a comp/ctor case.
func buildMsg(cs Case) chat.Message {
	if cs.Part == "ctor" {
		return ctorMsg(cs.Comp)
	}
	return toMsg(cs.Comp)
}

func judgeMsg(cs Case) {
	c := cs.Comp
	m := buildMsg(cs)

	// ---- JSON round trip
	var js []byte
	var err error
	if !guard("json/Marshal", cs, func() { js, err = json.Marshal(m) }) {
		ev(1)
		if err != nil {
			fail("json/Marshal/error/"+errKind(err), cs, "json.Marshal(%s) failed: %v", c, err)
		} else {
			var back chat.Message
			if !guard("json/Unmarshal", cs, func() { err = json.Unmarshal(js, &back) }) {
				ev(1)
				if err != nil {
					fail("json/Unmarshal/error-on-own-output/"+errKind(err), cs, "json.Unmarshal of go-mc's own %s failed: %v", js, err)
				} else {
					compare("json/round-trip/differs", cs, c, back, fmt.Sprintf("JSON round trip through %s", js))
				}
			}
		}
	}
	// field adapter
	var jbuf bytes.Buffer
	if !guard("json/JsonMessage.WriteTo", cs, func() { _, err = chat.JsonMessage(m).WriteTo(&jbuf) }) {
		ev(1)
		if err != nil {
			fail("json/JsonMessage.WriteTo/error/"+errKind(err), cs, "JsonMessage.WriteTo failed: %v", err)
		} else {
			var back chat.JsonMessage
			if !guard("json/JsonMessage.ReadFrom", cs, func() { _, err = back.ReadFrom(bytes.NewReader(jbuf.Bytes())) }) {
				ev(1)
				if err != nil {
					fail("json/JsonMessage.ReadFrom/error-on-own-output/"+errKind(err), cs, "JsonMessage.ReadFrom of its own bytes failed: %v", err)
				} else {
					compare("json/JsonMessage/round-trip/differs", cs, c, chat.Message(back), "JsonMessage field round trip")
				}
			}
			// the same bytes as the last thing of a stream that hands out three bytes per Read and reports io.EOF
			// together with the last ones (a decompressor, a pipe being closed)
			var back2 chat.JsonMessage
			if !guard("json/JsonMessage.ReadFrom/eof-with-last-bytes", cs, func() { _, err = back2.ReadFrom(&eofReader{data: jbuf.Bytes(), max: 3}) }) {
				ev(1)
				if err != nil {
					fail("json/JsonMessage.ReadFrom/error-on-own-output/eof-with-last-bytes/"+errKind(err), cs, "JsonMessage.ReadFrom of its own bytes from a source that ends with (n>0, io.EOF) failed: %v", err)
				} else {
					compare("json/JsonMessage/round-trip/differs/eof-with-last-bytes", cs, c, chat.Message(back2), "JsonMessage field round trip (source ending with data+EOF)")
				}
			}
		}
	}
	// reference literal
	{
		lit := refJSON(c)
		var back chat.Message
		if !guard("json/Unmarshal", cs, func() { err = json.Unmarshal(lit, &back) }) {
			ev(1)
			if err != nil {
				fail("json/Unmarshal/error-on-reference-literal/"+errKind(err), cs, "json.Unmarshal(%s) failed: %v", lit, err)
			} else {
				compare("json/Unmarshal/decoded-differs", cs, c, back, fmt.Sprintf("decoding the literal %s", lit))
			}
		}
	}

	// ---- NBT: what go-mc writes
	var nbuf bytes.Buffer
	if !guard("nbt/WriteTo", cs, func() { _, err = m.WriteTo(&nbuf) }) {
		ev(1)
		if err != nil {
			fail("nbt/WriteTo/error/"+errKind(err), cs, "Message.WriteTo(%s) failed after %d bytes: %v", c, nbuf.Len(), err)
		} else {
			data := nbuf.Bytes()
			node, used, perr, dup, repaired := readOneNBT(data, false)
			stage := "nbt/WriteTo"
			switch {
			case dup:
				fail("nbt/WriteTo/not-one-wellformed-value/duplicated-tag-header", cs, "Message.WriteTo wrote %s: tag 0a followed by a second, named header 0a 0000 — as one network-format value it is truncated (%v)", clipX(data), perr)
				stage = "nbt/WriteTo(after-removing-duplicated-header)"
				data = repaired
				if used != nbuf.Len() {
					fail(stage+"/trailing-bytes", cs, "%d bytes follow the value", nbuf.Len()-used)
				}
			case perr != nil:
				// maybe the duplicated header hides a second malformation: look at the tail after the extra header
				if len(data) >= 4 && data[0] == refnbt.Compound && data[1] == refnbt.Compound && data[2] == 0 && data[3] == 0 {
					fail("nbt/WriteTo/not-one-wellformed-value/duplicated-tag-header", cs, "Message.WriteTo wrote %s: tag 0a followed by a second, named header 0a 0000", clipX(data))
					rest := append([]byte{data[0]}, data[4:]...)
					if _, _, _, e2 := refnbt.Parse(rest, true); e2 != nil {
						fail("nbt/WriteTo(after-removing-duplicated-header)/not-wellformed/"+withShape(c), cs, "even without the extra header the bytes %s are not a well-formed value: %v", clipX(rest), e2)
					}
				} else {
					fail("nbt/WriteTo/not-one-wellformed-value/"+nbtErrKind(perr)+"/"+withShape(c), cs, "Message.WriteTo wrote %s, which the reference reader rejects: %v", clipX(data), perr)
				}
				node = nil
			case used != len(data):
				fail("nbt/WriteTo/not-one-wellformed-value/trailing-bytes", cs, "value ends after %d of %d bytes", used, len(data))
			}
			if node != nil {
				if node.Tag != refnbt.Compound {
					fail(stage+"/not-a-compound", cs, "root tag is %s", refnbt.TagNames[node.Tag])
				} else if refnbt.HasDupKeys(node) {
					fail(stage+"/duplicate-keys", cs, "document %s repeats a key", node)
				} else if got, e := fromNBT(node); e != nil {
					fail(stage+"/unexpected-structure/"+errKind(e), cs, "document %s is not a component: %v", node, e)
				} else if d := diff(c, got); d != "" {
					fail(stage+"/content-differs/"+d, cs, "document %s reads as %s, written component is %s", node, got, c)
				}
				// go-mc reading (the repaired form of) its own bytes
				var back chat.Message
				rstage := strings.Replace(stage, "WriteTo", "ReadFrom-own-output", 1)
				if !guard(rstage, cs, func() { _, err = back.ReadFrom(bytes.NewReader(data)) }) {
					ev(1)
					if err != nil {
						fail(rstage+"/error/"+errKind(err), cs, "Message.ReadFrom(%s) failed: %v", clipX(data), err)
					} else {
						compare(rstage+"/differs", cs, c, back, "NBT round trip")
					}
				}
			}
			if dup || perr != nil {
				// the bytes exactly as written, read back by go-mc itself
				var back chat.Message
				if !guard("nbt/round-trip", cs, func() { _, err = back.ReadFrom(bytes.NewReader(nbuf.Bytes())) }) {
					ev(1)
					if err != nil {
						fail("nbt/round-trip/ReadFrom-rejects-own-output", cs, "Message.ReadFrom of the bytes Message.WriteTo produced (%s) failed: %v", clipX(nbuf.Bytes()), err)
					} else {
						compare("nbt/round-trip/differs", cs, c, back, "NBT round trip")
					}
				}
			}
		}
	}
	// ---- NBT: reference encoding decoded by go-mc
	{
		enc := refNBT(c)
		var back chat.Message
		pr := &engine.PlainReader{Data: append(append([]byte(nil), enc...), 0xEE, 0xEE)}
		if !guard("nbt/ReadFrom", cs, func() { _, err = back.ReadFrom(pr) }) {
			ev(1)
			if err != nil {
				fail("nbt/ReadFrom/error-on-reference-encoding/"+errKind(err), cs, "Message.ReadFrom(%s) failed: %v", clipX(enc), err)
			} else {
				compare("nbt/ReadFrom/decoded-differs", cs, c, back, fmt.Sprintf("decoding the reference encoding %s", clipX(enc)))
				if pr.Rest() != 2 {
					fail("nbt/ReadFrom/consumed-wrong-byte-count", cs, "%d bytes left unread after one value, expected the 2 sentinel bytes", pr.Rest())
				}
			}
		}
	}
	{
		enc := refNBT(c)
		var back chat.Message
		if !guard("nbt/ReadFrom/eof-with-last-bytes", cs, func() { _, err = back.ReadFrom(&eofReader{data: enc, max: 1}) }) {
			ev(1)
			if err != nil {
				fail("nbt/ReadFrom/error-on-reference-encoding/eof-with-last-bytes/"+errKind(err), cs, "Message.ReadFrom(%s) from a one-byte-per-Read source that ends with (1, io.EOF) failed: %v", clipX(enc), err)
			} else {
				compare("nbt/ReadFrom/decoded-differs/eof-with-last-bytes", cs, c, back, fmt.Sprintf("decoding the reference encoding %s from a source ending with data+EOF", clipX(enc)))
			}
		}
	}
	if cs.Part == "comp" {
		judgeShapes(c, cs)
		judgeNested(c, cs)
	}
	judgeRender(c, cs, m)
	judgeAfterRender(c, cs, m)
}

// eofReader hands out at most max bytes per Read and reports io.EOF together with the last ones.
type eofReader struct {
	data []byte
	pos  int
	max  int
}

func (e *eofReader) Read(p []byte) (int, error) {
	if len(p) == 0 {
		return 0, nil
	}
	if e.pos >= len(e.data) {
		return 0, io.EOF
	}
	n := len(p)
	if n > e.max {
		n = e.max
	}
	n = copy(p[:n], e.data[e.pos:])
	e.pos += n
	if e.pos == len(e.data) {
		return n, io.EOF
	}
	return n, nil
}

func nbtErrKind(err error) string {
	if pe, ok := err.(*refnbt.ParseError); ok {
		return strings.TrimPrefix(pe.Err.Error(), "refnbt: ") + "@" + pe.Where
	}
	return errKind(err)
}

// withShape names the kinds of translation arguments anywhere in c.
func withShape(c *Comp) string {
	str, comp := false, false
	var walk func(c *Comp)
	walk = func(c *Comp) {
		for _, a := range c.With {
			if a.Str != nil {
				str = true
			} else {
				comp = true
				walk(a.Comp)
			}
		}
		for _, e := range c.Extra {
			walk(e)
		}
		if c.Hover != nil && c.Hover.Value != nil {
			walk(c.Hover.Value)
		}
	}
	walk(c)
	switch {
	case str && comp:
		return "with-strings-and-components"
	case str:
		return "with-strings"
	case comp:
		return "with-components"
	}
	return "no-arguments"
}

func textOnly(c *Comp) bool {
	d := *c
	d.Text = ""
	return diff(&Comp{}, &d) == ""
}

func extraOnly(c *Comp) bool {
	if len(c.Extra) == 0 {
		return false
	}
	d := *c
	d.Extra = nil
	return diff(&Comp{}, &d) == ""
}

// viaJSONCarrier decodes a JSON literal the way it travels in a packet: a length-prefixed string read by
// chat.JsonMessage.ReadFrom (the disconnect reason and the status description arrive like this, spelled by the peer).
func viaJSONCarrier(lit []byte) (chat.Message, error) {
	var wire bytes.Buffer
	n := len(lit)
	for {
		b := byte(n & 0x7f)
		n >>= 7
		if n != 0 {
			wire.WriteByte(b | 0x80)
			continue
		}
		wire.WriteByte(b)
		break
	}
	wire.Write(lit)
	var jm chat.JsonMessage
	_, err := jm.ReadFrom(bytes.NewReader(wire.Bytes()))
	return chat.Message(jm), err
}

// judgeShapes: the bare-string and list input shapes, in both forms.
func judgeShapes(c *Comp, cs Case) {
	var err error
	if textOnly(c) {
		// JSON string
		lit, _ := json.Marshal(c.Text)
		var back chat.Message
		if !guard("shape/json-string", cs, func() { err = json.Unmarshal(lit, &back) }) {
			ev(1)
			if err != nil {
				fail("shape/json-string/rejected/"+errKind(err), cs, "json.Unmarshal(%s) into a Message failed: %v", lit, err)
			} else {
				compare("shape/json-string/decoded-differs", cs, c, back, fmt.Sprintf("decoding %s", lit))
			}
		}
		var viaC chat.Message
		if !guard("shape/json-string-carrier", cs, func() { viaC, err = viaJSONCarrier(lit) }) {
			ev(1)
			if err != nil {
				fail("shape/json-string-carrier/rejected/"+errKind(err), cs, "JsonMessage.ReadFrom of the length-prefixed literal %s failed: %v", lit, err)
			} else {
				compare("shape/json-string-carrier/decoded-differs", cs, c, viaC, fmt.Sprintf("JsonMessage.ReadFrom of %s", lit))
			}
		}
		// NBT string
		enc := refnbt.Append(nil, "", &refnbt.Node{Tag: refnbt.String, S: c.Text}, true)
		var nb chat.Message
		if !guard("shape/nbt-string", cs, func() { _, err = nb.ReadFrom(bytes.NewReader(enc)) }) {
			ev(1)
			if err != nil {
				fail("shape/nbt-string/rejected/"+errKind(err), cs, "Message.ReadFrom(%x) failed: %v", enc, err)
			} else {
				compare("shape/nbt-string/decoded-differs", cs, c, nb, fmt.Sprintf("decoding %x", enc))
			}
		}
	}
	if extraOnly(c) {
		// a list of components. go-mc reads [a,b] as {extra:[a,b]}; vanilla reads it as a with extra [b]. The
		// statement only says a list is accepted, so either reading passes.
		alt := *c.Extra[0]
		alt.Extra = append(append([]*Comp(nil), alt.Extra...), c.Extra[1:]...)
		check := func(prefix string, back chat.Message, what string) {
			g, e := fromMsg(back)
			if e != nil {
				fail(prefix+"/value-outside-model/"+errKind(e), cs, "%s produced %v", what, e)
			} else if d1, d2 := diff(c, g), diff(&alt, g); d1 != "" && d2 != "" {
				fail(prefix+"/decoded-differs/"+d1, cs, "%s gave %s; neither {extra:[…]} (%s) nor first-element-is-parent (%s)", what, g, c, &alt)
			}
		}
		var l []any
		for _, e := range c.Extra {
			l = append(l, toTree(e))
		}
		lit, _ := json.Marshal(l)
		var back chat.Message
		if !guard("shape/json-list", cs, func() { err = json.Unmarshal(lit, &back) }) {
			ev(1)
			if err != nil {
				fail("shape/json-list/rejected/"+errKind(err), cs, "json.Unmarshal(%s) into a Message failed: %v", lit, err)
			} else {
				check("shape/json-list", back, fmt.Sprintf("decoding %s", lit))
			}
		}
		var viaC chat.Message
		if !guard("shape/json-list-carrier", cs, func() { viaC, err = viaJSONCarrier(lit) }) {
			ev(1)
			if err != nil {
				fail("shape/json-list-carrier/rejected/"+errKind(err), cs, "JsonMessage.ReadFrom of the length-prefixed literal %s failed: %v", lit, err)
			} else {
				check("shape/json-list-carrier", viaC, fmt.Sprintf("JsonMessage.ReadFrom of %s", lit))
			}
		}
		enc := refnbt.Append(nil, "", treeToNBT(l), true)
		var nb chat.Message
		if !guard("shape/nbt-list", cs, func() { _, err = nb.ReadFrom(bytes.NewReader(enc)) }) {
			ev(1)
			if err != nil {
				fail("shape/nbt-list/rejected/"+errKind(err), cs, "Message.ReadFrom(%s) failed: %v", clipX(enc), err)
			} else {
				check("shape/nbt-list", nb, fmt.Sprintf("decoding %s", clipX(enc)))
			}
		}
		// when every element is text-only the list may hold bare strings
		all := true
		var sl []any
		for _, e := range c.Extra {
			if !textOnly(e) {
				all = false
			}
			sl = append(sl, e.Text)
		}
		if all {
			lit, _ := json.Marshal(sl)
			var back chat.Message
			if !guard("shape/json-list-of-strings", cs, func() { err = json.Unmarshal(lit, &back) }) {
				ev(1)
				if err != nil {
					fail("shape/json-list-of-strings/rejected/"+errKind(err), cs, "json.Unmarshal(%s) failed: %v", lit, err)
				} else {
					check("shape/json-list-of-strings", back, fmt.Sprintf("decoding %s", lit))
				}
			}
			var viaC chat.Message
			if !guard("shape/json-list-of-strings-carrier", cs, func() { viaC, err = viaJSONCarrier(lit) }) {
				ev(1)
				if err != nil {
					fail("shape/json-list-of-strings-carrier/rejected/"+errKind(err), cs, "JsonMessage.ReadFrom of the length-prefixed literal %s failed: %v", lit, err)
				} else {
					check("shape/json-list-of-strings-carrier", viaC, fmt.Sprintf("JsonMessage.ReadFrom of %s", lit))
				}
			}
			enc := refnbt.Append(nil, "", treeToNBT(sl), true)
			var nb chat.Message
			if !guard("shape/nbt-list-of-strings", cs, func() { _, err = nb.ReadFrom(bytes.NewReader(enc)) }) {
				ev(1)
				if err != nil {
					fail("shape/nbt-list-of-strings/rejected/"+errKind(err), cs, "Message.ReadFrom(%s) failed: %v", clipX(enc), err)
				} else {
					check("shape/nbt-list-of-strings", nb, fmt.Sprintf("decoding %s", clipX(enc)))
				}
			}
		}
	}
}

func codeClass(code string) string {
	ch := code[len(code)-1]
	switch {
	case ch == 'k':
		return "obfuscated-code-k"
	case ch >= 'A' && ch <= 'Z':
		return "upper-case-code"
	}
	return "lower-case-code"
}

// dangling reports whether some rendered string ends in a lone section sign: concatenated with
// the next piece it could form a formatting code that belongs to no single string, so the rendered
// text of such components is not judged (rendering must still not panic).
func dangling(c *Comp) bool {
	if strings.HasSuffix(c.Text, "§") {
		return true
	}
	for _, a := range c.With {
		if a.Str != nil && strings.HasSuffix(*a.Str, "§") {
			return true
		}
		if a.Comp != nil && dangling(a.Comp) {
			return true
		}
	}
	for _, e := range c.Extra {
		if dangling(e) {
			return true
		}
	}
	return false
}

func judgeRender(c *Comp, cs Case, m chat.Message) {
	want, specified := plain(c)
	if dangling(c) {
		guard("render/ClearString", cs, func() { _ = m.ClearString() })
		guard("render/String", cs, func() { _ = m.String() })
		ev(2)
		rep.Unspec(1)
		return
	}
	var got string
	if !guard("render/ClearString", cs, func() { got = m.ClearString() }) {
		ev(1)
		if code := codePat.FindString(got); code != "" {
			fail("render/ClearString/formatting-code-left/"+codeClass(code)+"/in-"+codeOrigin(c, code), cs, "ClearString() = %q still contains the formatting code %q", got, code)
		}
		if !specified {
			rep.Unspec(1)
		} else if stripCodes(got) != want {
			fail("render/ClearString/wrong-text/"+translateShape(c), cs, "ClearString() = %q, expected %q (arguments in the order the format names them)", got, want)
		}
	}
	if !guard("render/String", cs, func() { got = m.String() }) {
		ev(1)
		if specified {
			if g := stripCodes(ansiPat.ReplaceAllString(got, "")); g != want {
				fail("render/String/wrong-text/"+translateShape(c), cs, "String() = %q, without escape sequences %q, expected %q", got, g, want)
			}
		}
	}
}

func translateShape(c *Comp) string {
	found := ""
	var walk func(c *Comp)
	walk = func(c *Comp) {
		if c.Translate != "" && found == "" {
			found = c.Translate
		}
		for _, a := range c.With {
			if a.Comp != nil {
				walk(a.Comp)
			}
		}
		for _, e := range c.Extra {
			walk(e)
		}
	}
	walk(c)
	if found == "" {
		return "no-translation"
	}
	return "translate=" + found
}

// ---------------------------------------------------------------------------------------------
// chat.Type headers

func appendVarInt(b []byte, v int32) []byte {
	u := uint32(v)
	for u >= 0x80 {
		b = append(b, byte(u)|0x80)
		u >>= 7
	}
	return append(b, byte(u))
}

func readVarInt(b []byte) (int32, int, bool) {
	var u uint32
	for i := 0; i < 5 && i < len(b); i++ {
		u |= uint32(b[i]&0x7f) << (7 * i)
		if b[i]&0x80 == 0 {
			return int32(u), i + 1, true
		}
	}
	return 0, 0, false
}

func judgeType(cs Case) {
	tgt := "without-target"
	if cs.HasTgt {
		tgt = "with-target"
	}
	t := chat.Type{ID: cs.ID, SenderName: toMsg(cs.Comp)}
	if cs.HasTgt {
		tm := toMsg(cs.Target)
		t.TargetName = &tm
	}
	var buf bytes.Buffer
	var err error
	// ---- what go-mc writes
	if !guard("type/WriteTo", cs, func() { _, err = t.WriteTo(&buf) }) {
		ev(1)
		if err != nil {
			fail("type/WriteTo/error/"+errKind(err), cs, "Type.WriteTo failed: %v", err)
		} else {
			data := buf.Bytes()
			layoutOK := true
			id, n, ok := readVarInt(data)
			if !ok || id != cs.ID {
				fail("type/WriteTo/layout/id", cs, "header %s does not start with VarInt %d", clipX(data), cs.ID)
				layoutOK = false
			}
			off := n
			names := []*Comp{cs.Comp}
			if cs.HasTgt {
				names = append(names, cs.Target)
			}
			for i, nm := range names {
				if !layoutOK {
					break
				}
				which := "sender"
				if i == 1 {
					which = "target"
				}
				node, used, perr, dup, _ := readOneNBT(data[off:], true)
				if dup {
					fail("type/WriteTo/"+which+"-not-one-wellformed-value/duplicated-tag-header", cs, "%s name in %s carries a duplicated tag header", which, clipX(data))
				} else if perr != nil {
					fail("type/WriteTo/"+which+"-not-one-wellformed-value/"+withShape(nm), cs, "%s name in %s: %v", which, clipX(data), perr)
					layoutOK = false
					break
				}
				if got, e := fromNBT(node); e != nil {
					fail("type/WriteTo/"+which+"-unexpected-structure/"+errKind(e), cs, "%s name %s: %v", which, node, e)
				} else if d := diff(nm, got); d != "" {
					fail("type/WriteTo/"+which+"-content-differs/"+d, cs, "%s name reads as %s, written %s", which, got, nm)
				}
				off += used
				if i == 0 {
					if off >= len(data) || (data[off] != 0 && data[off] != 1) || (data[off] == 1) != cs.HasTgt {
						fail("type/WriteTo/layout/has-target-flag/"+tgt, cs, "after the sender name the header %s continues at offset %d without the expected presence flag", clipX(data), off)
						layoutOK = false
						break
					}
					off++
				}
			}
			if layoutOK && off != len(data) {
				fail("type/WriteTo/layout/trailing-bytes/"+tgt, cs, "header %s has %d bytes after its last field", clipX(data), len(data)-off)
			}
			// own round trip
			var back chat.Type
			if !guard("type/round-trip", cs, func() { _, err = back.ReadFrom(bytes.NewReader(data)) }) {
				ev(1)
				if err != nil {
					fail("type/round-trip/ReadFrom-rejects-own-output/"+tgt, cs, "Type.ReadFrom of the bytes Type.WriteTo produced (%s) failed: %v", clipX(data), err)
				} else {
					compareType("type/round-trip/differs/"+tgt, cs, back)
				}
			}
		}
	}
	// ---- reference header decoded by go-mc
	enc := appendVarInt(nil, cs.ID)
	enc = append(enc, refNBT(cs.Comp)...)
	if cs.HasTgt {
		enc = append(enc, 1)
		enc = append(enc, refNBT(cs.Target)...)
	} else {
		enc = append(enc, 0)
	}
	var back chat.Type
	pr := &engine.PlainReader{Data: append(append([]byte(nil), enc...), 0xEE, 0xEE)}
	if !guard("type/ReadFrom", cs, func() { _, err = back.ReadFrom(pr) }) {
		ev(1)
		if err != nil {
			fail("type/ReadFrom/error-on-reference-header/"+tgt+"/"+errKind(err), cs, "Type.ReadFrom(%s) failed: %v", clipX(enc), err)
		} else {
			compareType("type/ReadFrom/decoded-differs/"+tgt, cs, back)
			if pr.Rest() != 2 {
				fail("type/ReadFrom/consumed-wrong-byte-count/"+tgt, cs, "%d bytes left unread, expected the 2 sentinel bytes", pr.Rest())
			}
		}
	}
}

func compareType(prefix string, cs Case, back chat.Type) {
	if back.ID != cs.ID {
		fail(prefix+"/id", cs, "id %d came back as %d", cs.ID, back.ID)
		return
	}
	compare(prefix+"/sender", cs, cs.Comp, back.SenderName, "chat.Type sender name")
	if (back.TargetName != nil) != cs.HasTgt {
		fail(prefix+"/target(presence)", cs, "target present=%v came back present=%v", cs.HasTgt, back.TargetName != nil)
		return
	}
	if cs.HasTgt {
		compare(prefix+"/target", cs, cs.Target, *back.TargetName, "chat.Type target name")
	}
}

// ---------------------------------------------------------------------------------------------
// generator

var (
	texts      = []string{"", "a", `q"`, "§c", "§K", "100%", "%s", "§k", "§", "a§"}
	colors     = []string{"", "red", "#ff0000"}
	fonts      = []string{"", "minecraft:uniform"}
	insertions = []string{"", "ins"}
	clicks     = []*Click{nil, {"open_url", "http://x"}, {"run_command", "/say \"hi\""}, {"suggest_command", "/tp "}, {"change_page", "2"}, {"copy_to_clipboard", "§c%s"}}
	translates = []string{"", "k.two", "k.swap", "k.unknown"}
	argStrings = []string{"s", "§c", "100%", "x§"}
)

const maxDepth = 3

func gen(ch *engine.Chooser, depth int) *Comp {
	c := &Comp{}
	c.Text = texts[ch.Deviate(len(texts))]
	c.Bold = ch.Deviate(2) == 1
	c.Italic = ch.Deviate(2) == 1
	c.Underlined = ch.Deviate(2) == 1
	c.Strikethrough = ch.Deviate(2) == 1
	c.Obfuscated = ch.Deviate(2) == 1
	c.Color = colors[ch.Deviate(len(colors))]
	c.Font = fonts[ch.Deviate(len(fonts))]
	c.Insertion = insertions[ch.Deviate(len(insertions))]
	if k := clicks[ch.Deviate(len(clicks))]; k != nil {
		kk := *k
		c.Click = &kk
	}
	switch ch.Deviate(4) {
	case 1:
		v := &Comp{Text: "h"}
		if depth < maxDepth {
			v = gen(ch, depth+1)
		}
		c.Hover = &Hover{Action: "show_text", Value: v}
	case 2:
		c.Hover = &Hover{Action: "show_item", Value: &Comp{Text: `{id:"minecraft:stone",Count:1b}`}}
	case 3:
		c.Hover = &Hover{Action: "show_entity", Value: &Comp{Text: `{name:"x",type:"minecraft:pig"}`}}
	}
	c.Translate = translates[ch.Deviate(len(translates))]
	if c.Translate != "" {
		for i := 0; i < 3; i++ {
			k := ch.Deviate(3) // 0: no further argument, 1: bare string, 2: component
			if k == 0 {
				break
			}
			if k == 1 {
				s := argStrings[ch.Deviate(len(argStrings))]
				c.With = append(c.With, Arg{Str: &s})
			} else if depth < maxDepth {
				c.With = append(c.With, Arg{Comp: gen(ch, depth+1)})
			} else {
				c.With = append(c.With, Arg{Comp: &Comp{Text: "x"}})
			}
		}
	}
	if depth < maxDepth {
		for i := 0; i < 2; i++ {
			if ch.Deviate(2) == 0 {
				break
			}
			c.Extra = append(c.Extra, gen(ch, depth+1))
		}
	}
	return c
}

// ---------------------------------------------------------------------------------------------

var (
	seenMu [64]sync.Mutex
	seen   [64]map[uint64]struct{}
	nSeen  int64
)

func markSeen(c *Comp) {
	h := fnv.New64a()
	h.Write([]byte(c.String()))
	k := h.Sum64()
	s := k % 64
	seenMu[s].Lock()
	if seen[s] == nil {
		seen[s] = map[uint64]struct{}{}
	}
	if _, ok := seen[s][k]; !ok {
		seen[s][k] = struct{}{}
		atomic.AddInt64(&nSeen, 1)
	}
	seenMu[s].Unlock()
}

func judge(cs Case) {
	switch cs.Part {
	case "comp", "ctor":
		judgeMsg(cs)
	case "type":
		judgeType(cs)
	default:
		engine.HarnessError("unknown part %q", cs.Part)
	}
}

func selftest() {
	// reference encodings against hand-made vectors
	c := &Comp{Text: "a", Bold: true}
	want := []byte{0x0a, 0x01, 0, 4, 'b', 'o', 'l', 'd', 1, 0x08, 0, 4, 't', 'e', 'x', 't', 0, 1, 'a', 0}
	if got := refNBT(c); !bytes.Equal(got, want) {
		engine.HarnessError("reference NBT encoding of {text:a,bold:1} is %x, want %x", got, want)
	}
	if got := string(refJSON(c)); got != `{"bold":true,"text":"a"}` {
		engine.HarnessError("reference JSON = %s", got)
	}
	_, node, _, err := refnbt.Parse(want, true)
	if err != nil {
		engine.HarnessError("refnbt: %v", err)
	}
	back, err := fromNBT(node)
	if err != nil || diff(c, back) != "" {
		engine.HarnessError("fromNBT self-test: %v %v", back, err)
	}
	// duplicated-header detector on the form seen in the wild and on a good value
	if _, _, _, dup, rep := readOneNBT([]byte{0x0a, 0x0a, 0, 0, 0x08, 0, 4, 't', 'e', 'x', 't', 0, 0, 0}, false); !dup || !bytes.Equal(rep, []byte{0x0a, 0x08, 0, 4, 't', 'e', 'x', 't', 0, 0, 0}) {
		engine.HarnessError("duplicated-header detector self-test failed")
	}
	if _, _, err, dup, _ := readOneNBT(want, false); err != nil || dup {
		engine.HarnessError("readOneNBT rejects a good value")
	}
	if _, used, _, dup, _ := readOneNBT([]byte{0x0a, 0x0a, 0, 0, 0x08, 0, 4, 't', 'e', 'x', 't', 0, 0, 0, 0}, true); !dup || used != 14 {
		engine.HarnessError("embedded duplicated-header detection failed")
	}
	if _, used, err, dup, _ := readOneNBT(append(append([]byte(nil), want...), 0), true); err != nil || dup || used != len(want) {
		engine.HarnessError("embedded readOneNBT rejects a good value")
	}
	// rendering model
	s1, s2 := "x", "§cy"
	tc := &Comp{Text: "§lT ", Translate: "k.swap", With: []Arg{{Str: &s1}, {Str: &s2}}, Extra: []*Comp{{Text: "!"}}}
	if p, ok := plain(tc); !ok || p != "T y x!" {
		engine.HarnessError("rendering model: %q %v", p, ok)
	}
	// diff: string argument == text-only component; nil == empty
	a := &Comp{Translate: "k", With: []Arg{{Str: &s1}}}
	b := &Comp{Translate: "k", With: []Arg{{Comp: &Comp{Text: "x"}}}, Extra: []*Comp{}}
	if diff(a, b) != "" {
		engine.HarnessError("diff self-test")
	}
	if diff(a, &Comp{Translate: "k"}) != "with(length)" {
		engine.HarnessError("diff self-test 2")
	}
	// all 22 formatting codes, both cases, are in the code pattern
	for _, r := range "0123456789abcdefklmnor" {
		for _, s := range []string{string(r), strings.ToUpper(string(r))} {
			if stripCodes("x§"+s+"y") != "xy" {
				engine.HarnessError("code pattern misses §%s", s)
			}
		}
	}
	if stripCodes("§g§ §") != "§g§ §" {
		engine.HarnessError("code pattern too wide")
	}
}

func main() {
	rep = engine.NewReport("C17")
	rep.Rule = "choice-tape walk of the component grammar (text, 5 flags, colour, font, insertion, click, hover, translate + 0..3 arguments of string/component kind, 0..2 extras, depth <= 3): every component with <= B departures from the empty component, plus the 2^5 flag product on 3 bases, plus chat.Type headers over (id, sender, target), plus the fixed-menu families named in the extras (translation arity 0..5, all 44 formatting codes and their ordered pairs, string classes at every string position, nesting chains to depth 6), each also built through go-mc's constructors, plus the render-then-encode history on every component value. distinct = distinct components (exact hash set over the canonical JSON of the model); non-trivial = all but the empty component"
	chat.SetLanguage(lang)
	selftest()
	if rep.ReplayPath != "" {
		rp, err := engine.LoadReplay(rep.ReplayPath)
		if err != nil {
			engine.HarnessError("cannot load replay: %v", err)
		}
		var cs Case
		if err := json.Unmarshal(rp.Case, &cs); err != nil {
			engine.HarnessError("bad case: %v", err)
		}
		fmt.Printf("replaying %s\n", string(rp.Case))
		for i := 0; i < 5; i++ {
			judge(cs)
		}
		rep.Eval(evals)
		rep.Finish()
	}
	// the fixed-menu families first: they are small and must never be cut short by the walk's deadline
	phases := map[string]float64{} // wall seconds per phase, for reading the evidence of a run on a loaded machine
	mark := rep.Elapsed()
	phase := func(name string) {
		now := rep.Elapsed()
		phases[name] = float64((now-mark)/time.Millisecond) / 1000
		mark = now
	}
	runFamilies()
	phase("fixed_menu_families")

	// passes: (departure bound, deadline). The first pass of a tier has no effective deadline and is always
	// complete; the second one re-walks the space with one more departure under a deadline and reports a cap
	// when it is cut short.
	type pass struct {
		bound int
		limit time.Duration
	}
	passes := []pass{{4, 40 * time.Second}, {5, 50 * time.Second}}
	if rep.Thorough() {
		passes = []pass{{5, 6 * time.Minute}, {6, 13 * time.Minute}}
	}
	if v := os.Getenv("VERIF_C17_BOUND"); v != "" { // experiments only
		var b int
		fmt.Sscan(v, &b)
		passes = []pass{{b, 14 * time.Minute}}
		rep.Extra("departure_bound_override", b)
	}
	var comps int64
	var st engine.ExploreStats
	completed := 0
	for _, ps := range passes {
		// limits are measured from the start of the run, so the tier's total budget holds
		st = engine.Explore(engine.ExploreOpts{Bound: ps.bound, Workers: engine.Workers(), Deadline: time.Now().Add(ps.limit - rep.Elapsed())}, func(ch *engine.Chooser) {
			c := gen(ch, 1)
			n := atomic.AddInt64(&comps, 1)
			if n%20011 == 7 {
				rep.Sample(c)
			}
			markSeen(c)
			judgeComp(c)
		})
		rep.AddTrans(st.Points)
		rep.Count(fmt.Sprintf("components_walked_with_bound_%d", ps.bound), st.Executions)
		if !st.Complete {
			rep.Cap("component walk with <= %d departures stopped by its %v deadline after %d components (all components with <= %d departures were completed before)", ps.bound, ps.limit, st.Executions, completed)
			break
		}
		completed = ps.bound
	}
	phase("component_walk")
	bound := completed
	rep.Extra("departure_bound_completed", bound)
	rep.Extra("max_choice_points_per_component", st.MaxTape)

	// full product of the five flags on three bases
	s1, s2 := "x", "y"
	bases := []*Comp{{}, {Text: "a"}, {Translate: "k.two", With: []Arg{{Str: &s1}, {Comp: &Comp{Text: s2}}}}}
	var flagCases []*Comp
	for _, b := range bases {
		for mask := 0; mask < 32; mask++ {
			c := *b
			c.Bold, c.Italic, c.Underlined, c.Strikethrough, c.Obfuscated = mask&1 != 0, mask&2 != 0, mask&4 != 0, mask&8 != 0, mask&16 != 0
			flagCases = append(flagCases, &c)
		}
	}
	engine.ParallelFor(len(flagCases), func(_, i int) { markSeen(flagCases[i]); judgeComp(flagCases[i]); judgeCtor(flagCases[i]) })
	rep.Count("components_from_flag_product", int64(len(flagCases)))

	// the same grammar built through go-mc's constructors: every component with <= cb departures
	cb := 3
	if rep.Thorough() {
		cb = 4
	}
	cst := engine.Explore(engine.ExploreOpts{Bound: cb, Workers: engine.Workers()}, func(ch *engine.Chooser) {
		judgeCtor(gen(ch, 1))
	})
	rep.AddTrans(cst.Points)
	rep.Count(fmt.Sprintf("components_built_through_constructors_with_bound_%d", cb), cst.Executions)
	phase("flag_product_and_constructor_walk")
	rep.Count("render_changed_the_callers_value", atomic.LoadInt64(&renderChanged))
	rep.Count("nested_shape_documents_decoded", atomic.LoadInt64(&nestedDocs))
	rep.Extra("nested_shape_menu", "every comp case: a second reference document in both forms with every text-only child (hover value, extra element, component argument) spelled as a bare string, and a third with every extra-only hover value spelled as a list (either list reading accepted)")

	// chat.Type headers: senders = every component with <= tb departures
	tb := 1
	if rep.Thorough() {
		tb = 2
	}
	var senders []*Comp
	var smu sync.Mutex
	engine.Explore(engine.ExploreOpts{Bound: tb, Workers: 1}, func(ch *engine.Chooser) {
		c := gen(ch, 1)
		smu.Lock()
		senders = append(senders, c)
		smu.Unlock()
	})
	var typeCases []Case
	for _, s := range senders {
		for _, id := range []int32{0, 1, 127, 128, -1, 2147483647} {
			typeCases = append(typeCases, Case{Part: "type", ID: id, Comp: s})
			typeCases = append(typeCases, Case{Part: "type", ID: id, Comp: s, HasTgt: true, Target: &Comp{Text: "t"}})
			if id == 1 {
				typeCases = append(typeCases, Case{Part: "type", ID: id, Comp: s, HasTgt: true, Target: s})
				typeCases = append(typeCases, Case{Part: "type", ID: id, Comp: &Comp{Text: "snd"}, HasTgt: true, Target: s})
			}
		}
	}
	engine.ParallelFor(len(typeCases), func(_, i int) { judgeType(typeCases[i]) })
	rep.Count("type_headers", int64(len(typeCases)))
	phase("type_headers")
	rep.Extra("phase_wall_seconds", phases)
	rep.Sample(typeCases[1])

	rep.Eval(evals)
	rep.AddTraces(evals)
	rep.NonTrivial(nSeen - 1 + int64(len(typeCases)))
	rep.AddStates(nSeen + int64(len(typeCases)))
	rep.Assume("refnbt (independent NBT reader/writer) and the harness's component model are trusted and self-tested on hand vectors; the language table is set by the harness (extra language_table); equality is component equality: nil==empty and a bare string argument equals the text-only component with that text")
	rep.Note("unspecified: plain/ANSI text of translations with an unknown key or with an argument count different from the format's; which of the two list readings ({extra:[…]} or first-element-is-parent) a decoder applies; byte counts returned by WriteTo/ReadFrom; the JSON key set go-mc emits (only the round trip is stated for JSON)")
	rep.Finish()
}
