package main

// Part (ii): chunks from the cross product, pushed through the network form and the save form.

import (
	"bytes"
	"fmt"
	"io"
	"sync"
	"sync/atomic"

	"github.com/Tnze/go-mc/level"
	"github.com/Tnze/go-mc/nbt"
	"github.com/Tnze/go-mc/save"

	"verif/engine"
	"verif/ref/refnbt"
)

var sentinel = []byte("\x00\x01C13-SENTINEL\xff\xfe")

type judge struct {
	cs     *Case
	b      *built
	direct map[string]bool // clauses that already failed on the direct save path (same YPos)

	// history families: the case that is recorded (and replayed) is the whole history, cs only
	// describes the chunk under comparison
	rec *Case
	ctx string
}

func (j *judge) fail(class, detail string) {
	cs := *j.cs
	if j.rec != nil {
		rec, ctx := cloneCase(j.rec), j.ctx
		recordFailure(class, rec.Ordinal, func() engine.Failure {
			return engine.Failure{Detail: fmt.Sprintf("%s; chunk under comparison [%s]: %s", ctx, describe(&cs), detail), Case: rec}
		})
		return
	}
	recordFailure(class, cs.Ordinal, func() engine.Failure {
		return engine.Failure{Detail: fmt.Sprintf("chunk[%s]: %s", describe(&cs), detail), Case: cs}
	})
}

func cloneCase(c *Case) Case {
	d := *c
	d.Seq = append([]int(nil), c.Seq...)
	d.Steps = append([]string(nil), c.Steps...)
	return d
}

func describe(cs *Case) string {
	return fmt.Sprintf("sections=%d blocks=%s biomes=%s rotate=%v heightmaps=%s block-entities=%s light=%s status=%q%s",
		cs.Secs, cs.Blocks, cs.Biomes, cs.Mix, cs.HM, cs.BE, cs.Light, cs.Status, map[bool]string{true: " extra=" + cs.Extra, false: ""}[cs.Extra != ""])
}

var (
	convExec    int64 // conversions executed on the implementation
	setOpsTotal int64
	posCompared int64
)

func runChunkCase(cs *Case) {
	b := buildChunk(cs)
	j := &judge{cs: cs, b: b}
	atomic.AddInt64(&setOpsTotal, b.setOps)
	if b.failure != "" {
		j.fail("build/set-history/panic/"+b.failure+"@"+b.frame, "building the chunk by SetBlock/Set calls panicked: "+b.failure+" in "+b.frame)
		return
	}
	// the construction is itself a (long) SetBlock history: the counter must be right
	for s, ms := range b.m.secs {
		if ms.shape.How == "ctor" {
			continue // count installed by the harness
		}
		if int(b.srcBC[s]) != ms.count {
			j.fail("counter/block-count-differs/long-history/blocks="+ms.shape.Class,
				fmt.Sprintf("section %d after %s history: BlockCount=%d, non-air blocks (by registry name)=%d", s, ms.shape.Name, b.srcBC[s], ms.count))
		}
	}
	j.network()
	j.save()
}

// ---------------------------------------------------------------------------------------
// network form

type usedTarget struct {
	once sync.Once
	wire []byte
}

var usedTargets sync.Map // secs -> *usedTarget

// richWire is the network form of a chunk that fills every representation to its largest;
// reading it first makes a "used" destination.
func richWire(secs int) []byte {
	v, _ := usedTargets.LoadOrStore(secs, &usedTarget{})
	u := v.(*usedTarget)
	u.once.Do(func() {
		cs := &Case{Part: "chunk", Secs: secs, Blocks: "ge257:d1000", Biomes: "ge9:all", HM: "max", BE: "empty+nested", Light: "present", Status: "full"}
		b := buildChunk(cs)
		if b.failure != "" {
			return
		}
		var buf bytes.Buffer
		var err error
		if _, _, p := engine.Guard(func() { _, err = b.c.WriteTo(&buf) }); p || err != nil {
			return
		}
		u.wire = buf.Bytes()
	})
	return u.wire
}

func (j *judge) network() {
	cs, b := j.cs, j.b
	var buf bytes.Buffer
	var wn int64
	var werr error
	kind, frame, p := engine.Guard(func() { wn, werr = b.c.WriteTo(&buf) })
	atomic.AddInt64(&convExec, 1)
	if p {
		if cs.Extra != "" {
			rep.Unspec(1)
			rep.Count("unspecified/extra-shape-write-panicked", 1)
			return
		}
		j.fail("net/write/panic/"+kind+"@"+frame, "Chunk.WriteTo panicked: "+kind+" in "+frame)
		return
	}
	if werr != nil {
		if cs.BE == "end" || cs.Extra != "" {
			// a block entity without NBT (zero RawMessage) / a chunk without height maps: whether
			// that is a writable chunk is not stated
			rep.Unspec(1)
			rep.Count("unspecified/writer-rejected-input", 1)
			return
		}
		j.fail("net/write/error", "Chunk.WriteTo failed: "+werr.Error())
		return
	}
	wire := append([]byte(nil), buf.Bytes()...)
	if wn != int64(len(wire)) {
		rep.Unspec(1)
		rep.Count("unspecified/WriteTo-returned-count-differs-from-bytes-written", 1)
	}
	lay := parseWire(wire)
	if lay.Err != nil {
		rep.Count("diagnostic/wire-layout-not-parsed", 1)
	} else {
		rep.Count("diagnostic/wire-layout-parsed", 1)
	}
	data := append(append([]byte(nil), wire...), sentinel...)
	bufWire, bufData, bufLay := wire, data, lay
	// target, reader, writer: the plain reader gets the bytes WriteTo handed to a writer that is
	// nothing but an io.Writer (no *bytes.Buffer, no other method)
	// "short-reader": a source that never hands out more than 1021 bytes per Read (a socket, a bufio.Reader, a gzip
	// stream): whatever reads the section data in large steps must cope with steps that come back short;
	// "eof-reader": the stream ends with the chunk and the source reports io.EOF together with its last bytes
	variants := [][3]string{{"fresh", "bytes.Reader", "bytes.Buffer"}, {"fresh", "plain-reader", "plain-writer"}, {"used", "bytes.Reader", "bytes.Buffer"}, {"fresh", "short-reader", "bytes.Buffer"}, {"fresh", "eof-reader", "bytes.Buffer"}}
	if cs.leanNet {
		// the network form does not carry the status: for the 2nd.. status value the chunk is the
		// very same input, only the plain fresh read is repeated
		variants = variants[:1]
	}
	for _, tr := range variants {
		{
			target, reader := tr[0], tr[1]
			wire, data, lay = bufWire, bufData, bufLay
			if tr[2] == "plain-writer" {
				pw := &plainWriter{}
				var perr error
				kind, frame, p := engine.Guard(func() { _, perr = b.c.WriteTo(pw) })
				atomic.AddInt64(&convExec, 1)
				if p {
					j.fail("net/write/panic/"+kind+"@"+frame+"/writer=plain", "Chunk.WriteTo to a plain io.Writer panicked: "+kind+" in "+frame)
					continue
				}
				if perr != nil {
					j.fail("net/write/error/writer=plain", "Chunk.WriteTo to a plain io.Writer failed (it succeeded on a bytes.Buffer): "+perr.Error())
					continue
				}
				wire = pw.b
				data = append(append([]byte(nil), wire...), sentinel...)
				lay = parseWire(wire)
				if !bytes.Equal(wire, bufWire) {
					rep.Unspec(1)
					rep.Count("unspecified/net/bytes-written-depend-on-the-writer-type", 1)
				}
			}
			dst := level.EmptyChunk(cs.Secs)
			if target == "used" {
				rw := richWire(cs.Secs)
				if rw == nil {
					rep.Count("diagnostic/used-target-unavailable", 1)
					continue
				}
				var perr error
				if _, _, p := engine.Guard(func() { _, perr = dst.ReadFrom(bytes.NewReader(rw)) }); p || perr != nil {
					rep.Count("diagnostic/used-target-unavailable", 1)
					continue
				}
			}
			var r io.Reader
			var rest func() int
			if reader == "bytes.Reader" {
				br := bytes.NewReader(data)
				r, rest = br, br.Len
			} else if reader == "short-reader" {
				sr := &shortReader{data: data, max: 1021}
				r, rest = sr, func() int { return len(sr.data) - sr.pos }
			} else if reader == "eof-reader" {
				data = wire // nothing follows the chunk
				sr := &shortReader{data: data, max: 4099, eof: true}
				r, rest = sr, func() int { return len(sr.data) - sr.pos }
			} else {
				pr := &engine.PlainReader{Data: data}
				r, rest = pr, pr.Rest
			}
			var rn int64
			var rerr error
			kind, frame, p := engine.Guard(func() { rn, rerr = dst.ReadFrom(r) })
			atomic.AddInt64(&convExec, 1)
			rep.Eval(1)
			tag := "target=" + target
			if tr[2] == "plain-writer" {
				tag += ",writer=plain"
			}
			if reader == "short-reader" {
				tag += ",reader=short"
			}
			if reader == "eof-reader" {
				tag += ",reader=eof-with-last-bytes"
			}
			if cs.Extra != "" && (p || rerr != nil) {
				// e.g. a chunk without height maps is written with empty arrays the reader refuses
				rep.Unspec(1)
				rep.Count("unspecified/extra-shape:"+cs.Extra+"/read-"+map[bool]string{true: "panicked", false: "rejected"}[p], 1)
				continue
			}
			if p {
				j.fail("net/read/panic/"+kind+"@"+frame+"/"+tag, fmt.Sprintf("Chunk.ReadFrom(%s) of the %d bytes WriteTo produced panicked: %s in %s", reader, len(wire), kind, frame))
				continue
			}
			consumed := len(data) - rest()
			if rerr != nil {
				j.fail("net/read/error/stopped-"+lay.where(consumed, len(wire))+"/"+tag,
					fmt.Sprintf("Chunk.ReadFrom(%s) of the %d bytes WriteTo produced failed after %d bytes: %v", reader, len(wire), consumed, rerr))
				continue
			}
			if consumed != len(wire) {
				dir := "under-read"
				if consumed > len(wire) {
					dir = "over-read"
				}
				j.fail("net/consumed-differs-from-written/"+dir+"/stopped-"+lay.where(consumed, len(wire)),
					fmt.Sprintf("WriteTo wrote %d bytes, ReadFrom(%s, %s destination) consumed %d (returned n=%d), leaving %d written bytes unread before the sentinel; written layout: %s",
						len(wire), reader, target, consumed, rn, len(wire)-consumed, layoutString(lay)))
			} else if rn != int64(consumed) {
				rep.Unspec(1)
				rep.Count("unspecified/ReadFrom-returned-count-differs-from-bytes-consumed", 1)
			}
			j.compareNet(dst, tag)
			if target == "used" && cs.Extra == "" {
				j.reencode(dst, tag)
			}
		}
	}
	if !cs.leanNet && cs.Secs == 1 && cs.Extra == "" {
		j.usedSame(bufData, len(bufWire))
	}
}

// reencode: the chunk a USED destination received is sent on (WriteTo, read by a fresh chunk) and saved (ChunkToSave,
// ChunkFromSave). What the destination held before the read (wider palettes, longer data arrays) must not show in
// either form: a receiver that compares block by block after the read sees nothing of storage left behind.
func (j *judge) reencode(dst *level.Chunk, tag string) {
	cs := j.cs
	var buf bytes.Buffer
	var err error
	kind, frame, p := engine.Guard(func() { _, err = dst.WriteTo(&buf) })
	atomic.AddInt64(&convExec, 1)
	rep.Eval(1)
	switch {
	case p:
		j.fail("net/re-encode/write/panic/"+kind+"@"+frame+"/"+tag, "Chunk.WriteTo of a chunk read into a used destination panicked: "+kind)
	case err != nil:
		j.fail("net/re-encode/write/error/"+tag, "Chunk.WriteTo of a chunk read into a used destination failed: "+err.Error())
	default:
		fresh := level.EmptyChunk(cs.Secs)
		kind, frame, p = engine.Guard(func() { _, err = fresh.ReadFrom(bytes.NewReader(buf.Bytes())) })
		atomic.AddInt64(&convExec, 1)
		switch {
		case p:
			j.fail("net/re-encode/read/panic/"+kind+"@"+frame+"/"+tag, "reading the re-encoded chunk panicked: "+kind)
		case err != nil:
			j.fail("net/re-encode/read/error/"+tag, "a chunk read into a used destination and written again cannot be read: "+err.Error())
		default:
			j.compareNet(fresh, tag+",re-encoded")
		}
	}
	sc := saveTemplate(-4)
	kind, frame, p = engine.Guard(func() { err = level.ChunkToSave(dst, &sc) })
	atomic.AddInt64(&convExec, 1)
	if p || err != nil {
		j.fail("net/re-encode/to-save/failed/"+tag, fmt.Sprintf("ChunkToSave of a chunk read into a used destination: panic=%v (%s) err=%v", p, kind, err))
		return
	}
	var got *level.Chunk
	kind, frame, p = engine.Guard(func() { got, err = level.ChunkFromSave(&sc) })
	atomic.AddInt64(&convExec, 1)
	rep.Eval(1)
	if p || err != nil {
		j.fail("net/re-encode/from-save/failed/"+tag, fmt.Sprintf("ChunkFromSave of the saved form of a chunk read into a used destination: panic=%v (%s in %s) err=%v", p, kind, frame, err))
		return
	}
	j.compareSections(got, "net/re-encode/save", "/"+tag, always)
}

// usedSame reads the chunk into a destination that previously held a chunk of the SAME shape
// (same palette sizes, hence the same representations and widths) with other values, compares,
// then sets a block to one of the destination's OLD states (absent from the chunk just read) and
// compares again: per-palette state surviving a same-width reload shows only then.
func (j *judge) usedSame(data []byte, wireLen int) {
	cs, m := j.cs, j.b.m
	prev := level.EmptyChunk(cs.Secs)
	const shift = 97
	remap := func(v int) int { return (v + shift) % nStates }
	var pbuf bytes.Buffer
	var perr error
	if _, _, p := engine.Guard(func() {
		for s, ms := range m.secs {
			for i, v := range ms.blocks {
				prev.Sections[s].SetBlock(i, level.BlocksState(remap(v)))
			}
		}
		_, perr = prev.WriteTo(&pbuf)
	}); p || perr != nil {
		rep.Count("diagnostic/used-same-target-unavailable", 1)
		return
	}
	dst := level.EmptyChunk(cs.Secs)
	if _, _, p := engine.Guard(func() { _, perr = dst.ReadFrom(bytes.NewReader(pbuf.Bytes())) }); p || perr != nil {
		rep.Count("diagnostic/used-same-target-unavailable", 1)
		return
	}
	var rerr error
	kind, frame, p := engine.Guard(func() { _, rerr = dst.ReadFrom(bytes.NewReader(data)) })
	atomic.AddInt64(&convExec, 1)
	rep.Eval(1)
	tag := "target=used-same-shape"
	if p {
		j.fail("net/read/panic/"+kind+"@"+frame+"/"+tag, "Chunk.ReadFrom into a destination that held a chunk of the same shape panicked: "+kind)
		return
	}
	if rerr != nil {
		j.fail("net/read/error/"+tag, "Chunk.ReadFrom into a destination that held a chunk of the same shape failed: "+rerr.Error())
		return
	}
	j.compareNet(dst, tag)
	// an old state of the destination that the chunk just read does not contain
	ms := m.secs[0]
	present := map[int]bool{}
	for _, v := range ms.blocks {
		present[v] = true
	}
	old := -1
	for _, v := range ms.blocks {
		if o := remap(v); !present[o] {
			old = o
			break
		}
	}
	if old < 0 {
		return
	}
	const pos = 5
	saved, savedCount, savedBC := ms.blocks[pos], ms.count, j.b.srcBC[0]
	if _, _, p := engine.Guard(func() { dst.Sections[0].SetBlock(pos, level.BlocksState(old)) }); p {
		j.fail("net/set-after-read/panic/"+tag, "SetBlock of a state the destination held before the read panicked")
		return
	}
	delta := 0
	if !airByName[saved] {
		delta--
	}
	if !airByName[old] {
		delta++
	}
	ms.blocks[pos], ms.count = old, ms.count+delta
	j.b.srcBC[0] = savedBC + int16(delta)
	j.compareNet(dst, tag+",after-SetBlock-of-an-old-state")
	ms.blocks[pos], ms.count, j.b.srcBC[0] = saved, savedCount, savedBC
}

// plainWriter is an io.Writer and nothing else; it copies what it is given.
type plainWriter struct{ b []byte }

// shortReader: io.Reader only; at most max bytes per Read.
type shortReader struct {
	data []byte
	pos  int
	max  int
	eof  bool // the Read that hands out the last bytes reports io.EOF with them (legal; decompressors do it)
}

func (s *shortReader) Read(p []byte) (int, error) {
	if len(p) == 0 {
		return 0, nil
	}
	if s.pos >= len(s.data) {
		return 0, io.EOF
	}
	n := len(p)
	if n > s.max {
		n = s.max
	}
	n = copy(p[:n], s.data[s.pos:])
	s.pos += n
	if s.eof && s.pos == len(s.data) {
		return n, io.EOF
	}
	return n, nil
}

func (w *plainWriter) Write(p []byte) (int, error) {
	w.b = append(w.b, p...)
	return len(p), nil
}

func layoutString(l wireLayout) string {
	if l.Err != nil {
		return "unparsed (" + l.Err.Error() + ")"
	}
	s := ""
	for _, f := range l.Fields {
		s += fmt.Sprintf("%s[%d:%d) ", f.Name, f.Off, f.End)
	}
	if len(l.Light) > 0 {
		s += fmt.Sprintf("light-data starts %x", l.Light[:min(12, len(l.Light))])
	}
	return s
}

// compareSections checks block states, biomes at every position. pre is the class prefix.
func (j *judge) compareSections(got *level.Chunk, pre, tag string, clause func(string) bool) bool {
	m := j.b.m
	if len(got.Sections) != len(m.secs) {
		if clause("sections") {
			j.fail(pre+"/section-count-differs"+tag, fmt.Sprintf("%d sections, want %d", len(got.Sections), len(m.secs)))
		}
		return false
	}
	for s, ms := range m.secs {
		sec := &got.Sections[s]
		bad, gotv := -1, 0
		kind, frame, p := engine.Guard(func() {
			for i := 0; i < 4096; i++ {
				if v := int(sec.GetBlock(i)); v != ms.blocks[i] {
					bad, gotv = i, v
					return
				}
			}
		})
		atomic.AddInt64(&posCompared, 4096+64)
		if p {
			if clause("blocks") {
				j.fail(pre+"/block-state/get-panic/"+kind+"@"+frame+"/blocks="+ms.shape.Class+tag, fmt.Sprintf("section %d (%s): GetBlock panicked: %s", s, ms.shape.Name, kind))
			}
		} else if bad >= 0 && clause("blocks") {
			j.fail(pre+"/block-state-differs/blocks="+ms.shape.Class+tag,
				fmt.Sprintf("section %d (%s): block state at %d is %d (%s), want %d (%s)", s, ms.shape.Name, bad, gotv, stateName(gotv), ms.blocks[bad], stateName(ms.blocks[bad])))
		}
		bad = -1
		kind, frame, p = engine.Guard(func() {
			for i := 0; i < 64; i++ {
				if v := int(sec.Biomes.Get(i)); v != ms.biomes[i] {
					bad, gotv = i, v
					return
				}
			}
		})
		if p {
			if clause("biomes") {
				j.fail(pre+"/biome/get-panic/"+kind+"@"+frame+"/biomes="+ms.bshape.Class+tag, fmt.Sprintf("section %d (%s): Biomes.Get panicked: %s", s, ms.bshape.Name, kind))
			}
		} else if bad >= 0 && clause("biomes") {
			j.fail(pre+"/biome-differs/biomes="+ms.bshape.Class+tag,
				fmt.Sprintf("section %d (%s): biome at %d is %d, want %d", s, ms.bshape.Name, bad, gotv, ms.biomes[bad]))
		}
	}
	return true
}

func stateName(id int) string {
	if id >= 0 && id < nStates {
		return stateNames[id]
	}
	return "outside the registry"
}

func always(string) bool { return true }

func (j *judge) compareNet(got *level.Chunk, tag string) {
	m := j.b.m
	tag = "/" + tag
	if !j.compareSections(got, "net", tag, always) {
		return
	}
	for s, ms := range m.secs {
		if got.Sections[s].BlockCount != j.b.srcBC[s] {
			j.fail("net/block-count-differs/blocks="+ms.shape.Class+tag,
				fmt.Sprintf("section %d (%s): BlockCount %d after the round trip, %d before", s, ms.shape.Name, got.Sections[s].BlockCount, j.b.srcBC[s]))
		}
	}
	for _, i := range []int{hmMotionBlocking, hmWorldSurface} {
		var raw []uint64
		kind, frame, p := engine.Guard(func() { raw = (*hmField(&got.HeightMaps, i)).Raw() })
		if p {
			j.fail("net/heightmap/raw-panic/"+kind+"@"+frame+"/"+hmNames[i]+tag, "Raw() panicked")
			continue
		}
		if !u64eq(raw, m.hmRaw[i]) {
			j.fail("net/heightmap-differs/"+hmNames[i]+"/hm="+j.cs.HM+tag,
				fmt.Sprintf("%s Raw() is %s, want %s", hmNames[i], clipU64(raw), clipU64(m.hmRaw[i])))
		}
	}
	j.compareBE(got.BlockEntity, "net", tag)
	// the statement lists no light arrays for the network form (ReadFrom parses and drops them)
	for s, ms := range m.secs {
		if !bytes.Equal(got.Sections[s].SkyLight, ms.sky) || !bytes.Equal(got.Sections[s].BlockLight, ms.blk) {
			rep.Unspec(1)
			rep.Count("unspecified/net/light-arrays-not-carried-by-the-network-round-trip", 1)
			break
		}
	}
}

func (j *judge) compareBE(got []level.BlockEntity, pre, tag string) {
	m := j.b.m
	cfg := "/be=" + j.cs.BE
	if len(got) != len(m.be) {
		j.fail(pre+"/block-entity-differs/count"+cfg+tag, fmt.Sprintf("%d block entities, want %d", len(got), len(m.be)))
		return
	}
	for i, w := range m.be {
		g := got[i]
		if g.XZ != w.XZ || g.Y != w.Y {
			j.fail(pre+"/block-entity-differs/position"+cfg+tag, fmt.Sprintf("entity %d: XZ=%#x Y=%d, want XZ=%#x Y=%d", i, uint8(g.XZ), g.Y, uint8(w.XZ), w.Y))
		}
		if int32(g.Type) != w.Type {
			j.fail(pre+"/block-entity-differs/type"+cfg+tag, fmt.Sprintf("entity %d: type %d, want %d", i, g.Type, w.Type))
		}
		tree, err := rawTree(g.Data.Type, g.Data.Data)
		if err != nil {
			j.fail(pre+"/block-entity-differs/nbt-malformed"+cfg+tag, fmt.Sprintf("entity %d: data (tag %d, %d bytes) is not well-formed NBT: %v", i, g.Data.Type, len(g.Data.Data), err))
			continue
		}
		if !refnbt.Equal(tree, w.Tree, false) {
			j.fail(pre+"/block-entity-differs/nbt"+cfg+tag, fmt.Sprintf("entity %d: data %s, want %s", i, clip(canon(tree), 160), clip(canon(w.Tree), 160)))
		} else if g.Data.Type != w.Tag || !bytes.Equal(g.Data.Data, w.Data) {
			rep.Unspec(1)
			rep.Count("unspecified/block-entity-nbt-equal-as-tree-but-not-bytewise", 1)
		}
	}
}

func clip(s string, n int) string {
	if len(s) > n {
		return s[:n] + "…"
	}
	return s
}

// ---------------------------------------------------------------------------------------
// save form

func saveTemplate(ypos int32) save.Chunk {
	emptyList := nbt.RawMessage{Type: nbt.TagList, Data: []byte{0, 0, 0, 0, 0}}
	emptyCompound := nbt.RawMessage{Type: nbt.TagCompound, Data: []byte{0}}
	// the raw fields must hold some NBT value or save.Chunk cannot be encoded at all; the
	// other fields get arbitrary non-zero values (level.Chunk does not carry them)
	return save.Chunk{
		BlockTicks: emptyList, FluidTicks: emptyList, PostProcessing: emptyList, Structures: emptyCompound,
		DataVersion: 3700, InhabitedTime: 77, LastUpdate: 99, IsLightOn: 1,
		XPos: 3, YPos: ypos, ZPos: -2,
	}
}

var compNames = map[byte]string{1: "gzip", 2: "zlib", 3: "none"}

func (j *judge) save() {
	cs, b := j.cs, j.b
	m := b.m
	for _, ypos := range []int32{-4, 0} {
		yt := fmt.Sprintf("/ypos=%d", ypos)
		sc := saveTemplate(ypos)
		if ypos != -4 && cs.BE != "none" {
			// ChunkToSave does not look at the block entities (checked below: sc.BlockEntities stays
			// empty), so for the other block-entity configurations the save path gets the very same
			// input: only the YPos=-4 direct conversion is repeated for them
			continue
		}
		var err error
		kind, frame, p := engine.Guard(func() { err = level.ChunkToSave(b.c, &sc) })
		atomic.AddInt64(&convExec, 1)
		if p {
			j.fail("save/to-save/panic/"+kind+"@"+frame, "ChunkToSave panicked: "+kind+" in "+frame)
			return
		}
		if err != nil {
			j.fail("save/to-save/error", "ChunkToSave failed: "+err.Error())
			return
		}
		// the save form itself: every height map under its own name, the status
		if cs.Extra == "" {
			for i, name := range hmNames {
				if got, ok := sc.Heightmaps[name]; !ok || !u64eq(got, m.hmRaw[i]) {
					j.fail("save/to-save/heightmap-not-under-its-name/"+name+"/hm="+cs.HM,
						fmt.Sprintf("save.Chunk.Heightmaps[%q] = %s (present=%v), the chunk's %s map is %s", name, clipU64(got), ok, name, clipU64(m.hmRaw[i])))
				}
			}
		}
		if sc.Status != m.status {
			j.fail("save/to-save/status-differs", fmt.Sprintf("save.Chunk.Status=%q, chunk status %q", sc.Status, m.status))
		}
		// direct: save form -> chunk
		j.direct = map[string]bool{}
		j.fromSave(&sc, "save.direct", yt, func(c string) bool { j.direct[c] = true; return true })
		// through the serialised save form
		// (once per chunk: with YPos=-4; the serialised form does not depend on the block entities
		// unless ChunkToSave carries them, so the other block-entity configurations would repeat
		// the very same execution)
		if ypos != -4 || (cs.BE != "none" && len(sc.BlockEntities) == 0) {
			continue
		}
		for _, ct := range []byte{3, 1, 2} {
			cn := "/compression=" + compNames[ct]
			var data []byte
			kind, frame, p = engine.Guard(func() { data, err = sc.Data(ct) })
			atomic.AddInt64(&convExec, 1)
			if p {
				j.fail("save.nbt/data/panic/"+kind+"@"+frame+cn, "save.Chunk.Data panicked")
				continue
			}
			if err != nil {
				j.fail("save.nbt/data/error"+cn, fmt.Sprintf("save.Chunk.Data(%d) failed: %v", ct, err))
				continue
			}
			var sc2 save.Chunk
			kind, frame, p = engine.Guard(func() { err = sc2.Load(data) })
			atomic.AddInt64(&convExec, 1)
			if p {
				j.fail("save.nbt/load/panic/"+kind+"@"+frame+cn, "save.Chunk.Load panicked")
				continue
			}
			if err != nil {
				j.fail("save.nbt/load/error"+cn, fmt.Sprintf("save.Chunk.Load of the %d bytes save.Chunk.Data(%d) returned failed: %v (first bytes % x)", len(data), ct, err, data[:min(12, len(data))]))
				continue
			}
			// only what the direct path got right is judged again (no duplicate classes)
			j.fromSave(&sc2, "save.nbt", cn, func(c string) bool { return !j.direct[c] })
		}
	}
}

func (j *judge) fromSave(sc *save.Chunk, pre, tag string, clause func(string) bool) {
	cs, m := j.cs, j.b.m
	var got *level.Chunk
	var err error
	kind, frame, p := engine.Guard(func() { got, err = level.ChunkFromSave(sc) })
	atomic.AddInt64(&convExec, 1)
	rep.Eval(1)
	if cs.Extra != "" && (p || err != nil) {
		rep.Unspec(1)
		rep.Count("unspecified/extra-shape:"+cs.Extra+"/from-save-"+map[bool]string{true: "panicked", false: "rejected"}[p], 1)
		return
	}
	if p {
		if clause("from-save") {
			j.fail(pre+"/from-save/panic/"+kind+"@"+frame+tagIf(pre, tag), "ChunkFromSave panicked: "+kind+" in "+frame)
		}
		return
	}
	if err != nil {
		if clause("from-save") {
			j.fail(pre+"/from-save/error"+tagIf(pre, tag), "ChunkFromSave failed: "+err.Error())
		}
		return
	}
	t := tagIf(pre, tag)
	if !j.compareSections(got, pre, t, clause) {
		return
	}
	for s, ms := range m.secs {
		sec := &got.Sections[s]
		for _, l := range []struct {
			name      string
			got, want []byte
		}{{"sky", sec.SkyLight, ms.sky}, {"block", sec.BlockLight, ms.blk}} {
			if !bytes.Equal(l.got, l.want) {
				if clause("light-" + l.name) {
					j.fail(pre+"/light-differs/"+l.name+"/light="+cs.Light+t,
						fmt.Sprintf("section %d: %s light has %d bytes (first % x), want %d bytes (first % x)", s, l.name, len(l.got), l.got[:min(4, len(l.got))], len(l.want), l.want[:min(4, len(l.want))]))
				}
			} else if (l.got == nil) != (l.want == nil) {
				// an absent array came back as an empty one (or the reverse): same bytes; whether
				// "absent" is part of the array's value is not stated
				rep.Unspec(1)
				rep.Count("unspecified/"+pre+"/absent-light-array-came-back-empty-not-nil", 1)
			}
		}
		// a loaded section, before any further SetBlock (the empty history)
		if int(sec.BlockCount) != ms.count && clause("count") {
			j.fail("counter/block-count-differs/after-from-save/blocks="+ms.shape.Class,
				fmt.Sprintf("section %d (%s) loaded by ChunkFromSave: BlockCount=%d, non-air blocks (by registry name)=%d", s, ms.shape.Name, sec.BlockCount, ms.count))
		}
	}
	if string(got.Status) != m.status && clause("status") {
		j.fail(pre+"/status-differs"+t, fmt.Sprintf("status %q, want %q", got.Status, m.status))
	}
	if cs.Extra == "" {
		for i, name := range hmNames {
			var raw []uint64
			kind, frame, p := engine.Guard(func() { raw = (*hmField(&got.HeightMaps, i)).Raw() })
			if p {
				if clause("hm-" + name) {
					j.fail(pre+"/heightmap/raw-panic/"+kind+"@"+frame+"/"+name+t, "Raw() panicked")
				}
				continue
			}
			if !u64eq(raw, m.hmRaw[i]) && clause("hm-"+name) {
				as := ""
				for k, other := range hmNames {
					if k != i && u64eq(raw, m.hmRaw[k]) {
						as = fmt.Sprintf(" - these are the contents the chunk had under %s", other)
						break
					}
				}
				j.fail(pre+"/heightmap-differs/"+name+"/hm="+cs.HM+t,
					fmt.Sprintf("after ChunkToSave -> ChunkFromSave the %s map is %s, want %s%s", name, clipU64(raw), clipU64(m.hmRaw[i]), as))
			}
		}
	}
	if len(m.be) > 0 {
		// ChunkToSave does not carry block entities and the statement lists none for the save form
		rep.Unspec(1)
		rep.Count("unspecified/block-entities-through-save-form", 1)
	}
}

// tagIf keeps the compression in the class only for the serialised path.
func tagIf(pre, tag string) string {
	if pre == "save.nbt" {
		return tag
	}
	return ""
}
