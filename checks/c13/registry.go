package main

// Part (i): every state of the registry through the save-palette path, both directions, and
// the bijection state id <-> (name, properties as saved).

import (
	"bytes"
	"compress/gzip"
	"fmt"
	"io"
	"os"
	"path/filepath"
	"sync"
	"sync/atomic"

	"github.com/Tnze/go-mc/level"
	"github.com/Tnze/go-mc/level/block"
	"github.com/Tnze/go-mc/save"

	"verif/engine"
	"verif/ref/refnbt"
	"verif/ref/refpal"
)

// external truth (vanilla's generated report, shipped in the repository): used for counting
// agreement only, never for a verdict (the statement asks for a bijection, not for vanilla's names).
type regEntry struct{ Name, Props string }

var regFile []regEntry

func loadRegistryFile() {
	repo := os.Getenv("VERIF_REPO")
	if repo == "" {
		repo = "/repo"
	}
	raw, err := os.ReadFile(filepath.Join(repo, "level", "block", "block_states.nbt"))
	if err != nil {
		rep.Note("registry file not readable (%v): agreement with it is not counted", err)
		return
	}
	z, err := gzip.NewReader(bytes.NewReader(raw))
	if err != nil {
		rep.Note("registry file is not gzip: %v", err)
		return
	}
	data, err := io.ReadAll(z)
	if err != nil {
		rep.Note("registry file: %v", err)
		return
	}
	_, n, _, err := refnbt.Parse(data, false)
	if err != nil || n.Tag != refnbt.List {
		rep.Note("registry file is not an NBT list: %v", err)
		return
	}
	out := make([]regEntry, 0, len(n.Elems))
	for _, e := range n.Elems {
		var re regEntry
		re.Props = "{}"
		for _, f := range e.Fields {
			switch f.Name {
			case "Name":
				re.Name = f.Val.S
			case "Properties":
				re.Props = canon(f.Val)
			}
		}
		out = append(out, re)
	}
	if len(out) != nStates {
		rep.Note("registry file lists %d states, block.StateList %d: agreement not counted", len(out), nStates)
		return
	}
	regFile = out
}

var (
	regKeys   []string // saved (name, properties) key per state id, filled by the first group size
	regKeysMu sync.Mutex
)

func registryIDs(cs *Case) []int {
	if len(cs.IDs) > 0 {
		return cs.IDs
	}
	lo := cs.Group * cs.GroupSize
	hi := lo + cs.GroupSize
	if hi > nStates {
		hi = nStates
	}
	ids := make([]int, 0, hi-lo)
	for i := lo; i < hi; i++ {
		ids = append(ids, i)
	}
	return ids
}

func palRepr(n int) string {
	switch {
	case n <= 1:
		return "single"
	case n <= 16:
		return "linear"
	case n <= 256:
		return "hash"
	}
	return "global"
}

func runRegistryCase(cs *Case, record bool) {
	ids := registryIDs(cs)
	fail := func(class, detail string) {
		c := *cs
		recordFailure(class, cs.Ordinal, func() engine.Failure {
			return engine.Failure{Detail: fmt.Sprintf("registry states %d..%d in one section: %s", ids[0], ids[len(ids)-1], detail), Case: c}
		})
	}
	for _, id := range ids {
		if id < 0 || id >= nStates {
			engine.HarnessError("state id %d outside the registry", id)
		}
		if got, ok := block.ToStateID[block.StateList[id]]; !ok || int(got) != id {
			fail("registry/ToStateID-of-StateList-differs", fmt.Sprintf("ToStateID[StateList[%d]] = %d (present=%v)", id, got, ok))
		}
	}
	// build: one section holding all ids of the group
	c := level.EmptyChunk(1)
	sec := &c.Sections[0]
	var model [4096]int
	posOf := make([]int, len(ids))
	kind, frame, p := engine.Guard(func() {
		if len(ids) == 1 {
			sec.States = level.NewStatesPaletteContainer(4096, level.BlocksState(ids[0]))
			for i := range model {
				model[i] = ids[0]
			}
			return
		}
		for k, id := range ids {
			pos := permBlock(k)
			posOf[k] = pos
			sec.SetBlock(pos, level.BlocksState(id))
			model[pos] = id
		}
	})
	if p {
		fail("registry/build/panic/"+kind+"@"+frame, "SetBlock panicked: "+kind)
		return
	}
	distinct := map[int]bool{}
	for _, v := range model {
		distinct[v] = true
	}
	repr := "/palette=" + palRepr(len(distinct))
	sc := saveTemplate(0)
	var err error
	kind, frame, p = engine.Guard(func() { err = level.ChunkToSave(c, &sc) })
	rep.Eval(1)
	atomic.AddInt64(&convExec, 1)
	if p {
		fail("registry/to-save/panic/"+kind+"@"+frame+repr, "ChunkToSave panicked: "+kind+" in "+frame)
		return
	}
	if err != nil {
		fail("registry/to-save/error"+repr, "ChunkToSave failed: "+err.Error())
		return
	}
	// forward direction: which (name, properties) did each id get?
	bs := sc.Sections[0].BlockStates
	var idx []uint64
	if len(bs.Data) == 0 {
		idx = make([]uint64, 4096)
	} else {
		bits := 0
		for b := 1; b <= 16; b++ {
			if refpal.PackedLen(b, 4096) == len(bs.Data) && 1<<uint(b) >= len(bs.Palette) {
				bits = b
				break
			}
		}
		if bits == 0 {
			fail("registry/to-save/data-length-fits-no-width"+repr, fmt.Sprintf("%d longs for 4096 entries over a palette of %d", len(bs.Data), len(bs.Palette)))
			return
		}
		idx, err = refpal.Unpack(bits, 4096, bs.Data)
		if err != nil {
			fail("registry/to-save/data-malformed"+repr, err.Error())
			return
		}
	}
	local := map[string]int{}
	for k, id := range ids {
		pi := int(idx[posOf[k]])
		if pi >= len(bs.Palette) {
			fail("registry/to-save/palette-index-out-of-range"+repr, fmt.Sprintf("position %d holds palette index %d of %d", posOf[k], pi, len(bs.Palette)))
			continue
		}
		e := bs.Palette[pi]
		tree, err := rawTree(e.Properties.Type, e.Properties.Data)
		if err != nil {
			fail("registry/to-save/properties-malformed"+repr, fmt.Sprintf("state %d (%s): saved properties are not well-formed NBT: %v", id, stateNames[id], err))
			continue
		}
		props := canon(tree)
		if tree == nil {
			props = "{}"
		}
		key := e.Name + props
		if other, dup := local[key]; dup && other != id {
			fail("registry/bijection/two-state-ids-share-name-and-properties", fmt.Sprintf("states %d and %d are both saved as %s", other, id, key))
		}
		local[key] = id
		if e.Name != stateNames[id] {
			rep.Unspec(1)
			rep.Count("unspecified/registry/saved-name-differs-from-Block.ID()", 1)
		}
		if regFile != nil {
			if regFile[id].Name == e.Name && regFile[id].Props == props {
				rep.Count("registry/saved-form-agrees-with-block_states.nbt", 1)
			} else {
				rep.Unspec(1)
				rep.Count("unspecified/registry/saved-form-differs-from-block_states.nbt", 1)
			}
		}
		if record {
			regKeysMu.Lock()
			if regKeys[id] == "" {
				regKeys[id] = key
			} else if regKeys[id] != key {
				rep.Unspec(1)
				rep.Count("unspecified/registry/saved-form-depends-on-palette-representation", 1)
			}
			regKeysMu.Unlock()
		}
	}
	// reverse direction
	check := func(pre string, src *save.Chunk) {
		var got *level.Chunk
		var err error
		kind, frame, p := engine.Guard(func() { got, err = level.ChunkFromSave(src) })
		rep.Eval(1)
		atomic.AddInt64(&convExec, 1)
		if p {
			fail(pre+"/from-save/panic/"+kind+"@"+frame+repr, "ChunkFromSave panicked: "+kind+" in "+frame)
			return
		}
		if err != nil {
			fail(pre+"/from-save/error/"+engine.PanicKind(clip(err.Error(), 24))+repr, "ChunkFromSave failed: "+err.Error())
			return
		}
		if len(got.Sections) != 1 {
			fail(pre+"/from-save/section-count"+repr, fmt.Sprintf("%d sections", len(got.Sections)))
			return
		}
		bad, gotv := -1, 0
		kind, frame, p = engine.Guard(func() {
			for i := 0; i < 4096; i++ {
				if v := int(got.Sections[0].GetBlock(i)); v != model[i] {
					bad, gotv = i, v
					return
				}
			}
		})
		atomic.AddInt64(&posCompared, 4096)
		if p {
			fail(pre+"/from-save/get-panic/"+kind+"@"+frame+repr, "GetBlock panicked")
		} else if bad >= 0 {
			fail(pre+"/state-id-not-restored"+repr, fmt.Sprintf("position %d: state %d (%s) came back as %d (%s)", bad, model[bad], stateName(model[bad]), gotv, stateName(gotv)))
		}
	}
	check("registry", &sc)
	if cs.GroupSize >= 255 || len(cs.IDs) > 0 {
		var data []byte
		kind, frame, p = engine.Guard(func() { data, err = sc.Data(3) })
		if p || err != nil {
			fail("registry.nbt/data/failed"+repr, fmt.Sprintf("save.Chunk.Data(3): panic=%v err=%v", p, err))
			return
		}
		var sc2 save.Chunk
		kind, frame, p = engine.Guard(func() { err = sc2.Load(data) })
		if p || err != nil {
			fail("registry.nbt/load/failed"+repr, fmt.Sprintf("save.Chunk.Load: panic=%v (%s@%s) err=%v", p, kind, frame, err))
			return
		}
		check("registry.nbt", &sc2)
	}
}

// registryBijection checks injectivity over the whole registry (run after all groups).
func registryBijection() {
	seen := make(map[string]int, nStates)
	missing := 0
	for id, k := range regKeys {
		if k == "" {
			missing++
			continue
		}
		if other, dup := seen[k]; dup {
			cs := Case{Part: "registry", IDs: []int{other, id}}
			recordFailure("registry/bijection/two-state-ids-share-name-and-properties", id, func() engine.Failure {
				return engine.Failure{Detail: fmt.Sprintf("states %d and %d are both saved as %s", other, id, k), Case: cs}
			})
			continue
		}
		seen[k] = id
	}
	rep.Count("registry/distinct-saved-forms", int64(len(seen)))
	rep.Count("registry/states-without-saved-form(conversion-failed)", int64(missing))
}
