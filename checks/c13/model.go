package main

// The model of a chunk (plain arrays) and the builder that produces the REAL level.Chunk and
// its model side by side from a case descriptor. Nothing here is sampled: every choice is a
// function of the descriptor.

import (
	"fmt"
	"sort"
	"strings"

	"github.com/Tnze/go-mc/level"
	"github.com/Tnze/go-mc/level/biome"
	"github.com/Tnze/go-mc/level/block"
	"github.com/Tnze/go-mc/nbt"

	"verif/engine"
	"verif/ref/refnbt"
)

// ---------------------------------------------------------------------------------------
// registries as seen from outside

var (
	nStates    int
	nBiomes    int
	stateNames []string // registry name of every state id (Block.ID())
	airByName  []bool   // air-ness decided from the registry NAME only
	idAir      = -1
	idCaveAir  = -1
	idVoidAir  = -1
	idStone    = -1
	idHigh     = -1 // a state whose id needs 15 bits
)

func initRegistries() {
	nStates = len(block.StateList)
	if nStates < 20000 || nStates > 1<<15 {
		engine.HarnessError("unexpected registry size %d", nStates)
	}
	stateNames = make([]string, nStates)
	airByName = make([]bool, nStates)
	for i, b := range block.StateList {
		n := b.ID()
		stateNames[i] = n
		switch n {
		case "minecraft:air":
			airByName[i] = true
			if idAir < 0 {
				idAir = i
			}
		case "minecraft:cave_air":
			airByName[i] = true
			if idCaveAir < 0 {
				idCaveAir = i
			}
		case "minecraft:void_air":
			airByName[i] = true
			if idVoidAir < 0 {
				idVoidAir = i
			}
		case "minecraft:stone":
			if idStone < 0 {
				idStone = i
			}
		}
	}
	idHigh = nStates - 1
	if idAir != 0 || idCaveAir < 0 || idVoidAir < 0 || idStone < 0 || idHigh < 1<<14 {
		engine.HarnessError("registry lacks the states the alphabets need: air=%d cave_air=%d void_air=%d stone=%d max=%d", idAir, idCaveAir, idVoidAir, idStone, idHigh)
	}
	for biome.Type(nBiomes).String() != biome.Type(-1).String() {
		nBiomes++
		if nBiomes > 1<<16 {
			engine.HarnessError("cannot determine the biome registry size")
		}
	}
	if nBiomes < 10 {
		engine.HarnessError("biome registry too small (%d) for the >=9 class", nBiomes)
	}
}

// ---------------------------------------------------------------------------------------
// shapes

type blockShape struct {
	Name  string // class:variant
	Class string
	How   string // ctor | untouched | setall | fill
	D     int
}

var blockShapes = []blockShape{
	{"single:ctor", "single", "ctor", 1},
	{"le16:d16", "le16", "fill", 16},
	{"17-256:d256", "17-256", "fill", 256},
	{"ge257:d257", "ge257", "fill", 257},
	{"single:untouched", "single", "untouched", 1},
	{"le16:d2", "le16", "fill", 2},
	{"17-256:d17", "17-256", "fill", 17},
	{"ge257:d1000", "ge257", "fill", 1000},
	{"single:setall", "single", "setall", 1},
}

type biomeShape struct {
	Name  string
	Class string
	How   string // ctor | untouched | fill
	D     int    // 0 = whole registry
}

var biomeShapes = []biomeShape{
	{"single:ctor", "single", "ctor", 1},
	{"2-8:d8", "2-8", "fill", 8},
	{"ge9:d9", "ge9", "fill", 9},
	{"single:untouched", "single", "untouched", 1},
	{"2-8:d2", "2-8", "fill", 2},
	{"ge9:all", "ge9", "fill", 0},
}

// Shapes outside the main cross product: the remaining palette widths (6 and 7 bits for block
// states, 2 bits for biomes) on both sides of every width boundary. They are used by the width
// sweep and by the history families (history.go), never rotated over sections.
var extraBlockShapes = []blockShape{
	{"17-256:d32", "17-256", "fill", 32},
	{"17-256:d33", "17-256", "fill", 33},
	{"17-256:d64", "17-256", "fill", 64},
	{"17-256:d65", "17-256", "fill", 65},
	{"17-256:d128", "17-256", "fill", 128},
	{"17-256:d129", "17-256", "fill", 129},
	// a container whose palette entry 0 is NOT registry id 0 (installed with a non-air default, as a section loaded from
	// a save whose palette starts with stone), grown through every representation while 3/4 of the cells keep entry 0
	{"17-256:ctor+d17", "17-256", "ctorfill", 17},
	{"17-256:ctor+d256", "17-256", "ctorfill", 256},
	{"ge257:ctor+d300", "ge257", "ctorfill", 300},
}

var extraBiomeShapes = []biomeShape{
	{"2-8:d3", "2-8", "fill", 3},
	{"2-8:d4", "2-8", "fill", 4},
	{"2-8:d5", "2-8", "fill", 5},
	{"2-8:ctor+d8", "2-8", "ctorfill", 8}, // biome entry 0 is not biome 0; half of the cells keep it
	{"ge9:ctor+d12", "ge9", "ctorfill", 12},
}

// findBlockShape returns the shape and its index in the rotation list (-1: an extra shape).
func findBlockShape(name string) (blockShape, int) {
	for i, s := range blockShapes {
		if s.Name == name {
			return s, i
		}
	}
	for _, s := range extraBlockShapes {
		if s.Name == name {
			return s, -1
		}
	}
	engine.HarnessError("unknown block shape %q", name)
	return blockShape{}, -1
}

func findBiomeShape(name string) (biomeShape, int) {
	for i, s := range biomeShapes {
		if s.Name == name {
			return s, i
		}
	}
	for _, s := range extraBiomeShapes {
		if s.Name == name {
			return s, -1
		}
	}
	engine.HarnessError("unknown biome shape %q", name)
	return biomeShape{}, -1
}

var hmNames = [6]string{"WORLD_SURFACE_WG", "WORLD_SURFACE", "OCEAN_FLOOR_WG", "OCEAN_FLOOR", "MOTION_BLOCKING", "MOTION_BLOCKING_NO_LEAVES"}

func hmField(h *level.HeightMaps, i int) **level.BitStorage {
	switch i {
	case 0:
		return &h.WorldSurfaceWG
	case 1:
		return &h.WorldSurface
	case 2:
		return &h.OceanFloorWG
	case 3:
		return &h.OceanFloor
	case 4:
		return &h.MotionBlocking
	default:
		return &h.MotionBlockingNoLeaves
	}
}

const (
	hmMotionBlocking = 4
	hmWorldSurface   = 1
)

// ---------------------------------------------------------------------------------------
// model

type modelBE struct {
	XZ   int8
	Y    int16
	Type int32
	Tag  byte
	Data []byte       // payload bytes as handed to go-mc
	Tree *refnbt.Node // nil when Tag == 0
}

type modelSection struct {
	shape    blockShape
	bshape   biomeShape
	blocks   [4096]int
	biomes   [64]int
	sky, blk []byte // nil == absent
	count    int    // non-air by registry name
}

type modelChunk struct {
	secs   []*modelSection
	hmBits int
	hm     [6][]int    // 256 values each
	hmRaw  [6][]uint64 // snapshot of the source's Raw() before any conversion
	be     []modelBE
	status string
}

type built struct {
	c       *level.Chunk
	m       *modelChunk
	setOps  int64
	srcBC   []int16 // BlockCount of the source sections after the history
	failure string  // non-empty: building panicked inside go-mc
	frame   string
}

// blockPool returns the distinct ids section s draws from: air first, then alternately ids
// from the top of the registry (15-bit ids) and from a low window, with cave_air / void_air
// early so that every multi-valued section holds all three kinds of air.
//
// salt (history families only; 0 in the main product) moves both windows by 211*salt ids, so
// that chunks of one history hold different non-air states at the same positions.
func blockPool(s, d, salt int) []int {
	seen := map[int]bool{}
	out := make([]int, 0, d)
	add := func(v int) {
		if salt != 0 {
			v = ((v % nStates) + nStates) % nStates
		}
		if len(out) < d && v >= 0 && v < nStates && !seen[v] {
			seen[v] = true
			out = append(out, v)
		}
	}
	off := 211 * salt
	add(idAir)
	add(nStates - 1 - 500*s - off)
	add(idCaveAir)
	add(idStone + 500*s + off)
	add(idVoidAir)
	for j := 1; len(out) < d; j++ {
		add(nStates - 1 - 500*s - off - j)
		add(500*s + off + j)
		if j > 2*nStates {
			engine.HarnessError("block pool exhausted")
		}
	}
	return out
}

func singleBlockValue(s int) int {
	if s >= 100 { // salted (history families)
		return (idStone + 211*(s/100) + s%100) % nStates
	}
	switch s % 4 {
	case 0:
		return idStone
	case 1:
		return nStates - 1 - s
	case 2:
		return idCaveAir
	default:
		return 2 + s
	}
}

func biomePool(s, d int) []int {
	if d == 0 || d > nBiomes {
		d = nBiomes
	}
	seen := map[int]bool{}
	out := make([]int, 0, d)
	add := func(v int) {
		v = ((v % nBiomes) + nBiomes) % nBiomes
		if len(out) < d && !seen[v] {
			seen[v] = true
			out = append(out, v)
		}
	}
	for j := 0; len(out) < d; j++ {
		add(nBiomes - 1 - s - j)
		add(s + j)
	}
	return out
}

func permBlock(k int) int { return (k*37 + 5) & 4095 }
func permBiome(k int) int { return (k*5 + 3) & 63 }

// Case describes one replayable case of any part.
type Case struct {
	Part string `json:"part"` // registry | chunk | counter

	// registry
	GroupSize int   `json:"group_size,omitempty"`
	Group     int   `json:"group,omitempty"`
	IDs       []int `json:"ids,omitempty"` // explicit group (bijection witnesses)

	// chunk
	Secs    int    `json:"sections,omitempty"`
	Blocks  string `json:"blocks,omitempty"` // shape of section 0
	Biomes  string `json:"biomes,omitempty"`
	Mix     bool   `json:"rotate_shapes_over_sections,omitempty"`
	HM      string `json:"heightmaps,omitempty"`     // zero | max | pattern
	BE      string `json:"block_entities,omitempty"` // none | empty | nested | empty+nested | nested+empty | end
	Light   string `json:"light,omitempty"`          // absent | present | mixed
	Status  string `json:"status"`
	Extra   string `json:"extra,omitempty"` // "" | nil-heightmaps
	Ordinal int    `json:"ordinal,omitempty"`
	Salt    int    `json:"salt,omitempty"` // history families: moves the value pools (see blockPool)
	leanNet bool   // enumerator only: status is not the first of its alphabet (see network())

	// history families (history.go)
	Seq     []int    `json:"menu_sequence,omitempty"` // nethist / savedst: indices into the family's menu
	Src     int      `json:"source,omitempty"`        // srchist: index into the source menu
	Steps   []string `json:"steps,omitempty"`         // srchist: conversions and mutations in order
	Prefill string   `json:"prefilled_by,omitempty"`  // savedst: to-save | load
	Comp    string   `json:"compression,omitempty"`   // twolive: none | gzip | zlib

	// counter
	Start string `json:"start,omitempty"` // fresh | wire | save-stone | save-cave_air
	Ops   []Op   `json:"ops,omitempty"`
	RT    int    `json:"wire_round_trip_after_op,omitempty"` // 0 = none; k = after the k-th op
}

type Op struct {
	Pos   int    `json:"pos"`
	State string `json:"state"`
}

// nestedTree is the "nested" block entity payload.
func nestedTree() *refnbt.Node {
	str := func(s string) *refnbt.Node { return &refnbt.Node{Tag: refnbt.String, S: s} }
	item := func(slot int64, name string) *refnbt.Node {
		return &refnbt.Node{Tag: refnbt.Compound, Fields: []refnbt.Field{
			{Name: "Slot", Val: &refnbt.Node{Tag: refnbt.Byte, I: slot}},
			{Name: "id", Val: str("minecraft:stone")},
			{Name: "tag", Val: &refnbt.Node{Tag: refnbt.Compound, Fields: []refnbt.Field{
				{Name: "display", Val: &refnbt.Node{Tag: refnbt.Compound, Fields: []refnbt.Field{{Name: "Name", Val: str(name)}}}},
			}}},
		}}
	}
	return &refnbt.Node{Tag: refnbt.Compound, Fields: []refnbt.Field{
		{Name: "id", Val: str("minecraft:chest")},
		{Name: "x", Val: &refnbt.Node{Tag: refnbt.Int, I: 35}},
		{Name: "y", Val: &refnbt.Node{Tag: refnbt.Int, I: -64}},
		{Name: "z", Val: &refnbt.Node{Tag: refnbt.Int, I: -17}},
		{Name: "Items", Val: &refnbt.Node{Tag: refnbt.List, ElemTag: refnbt.Compound, Elems: []*refnbt.Node{item(0, "a"), item(26, "é中")}}},
		{Name: "longs", Val: &refnbt.Node{Tag: refnbt.LongArray, A: []int64{-1, 0, 1 << 62}}},
		{Name: "none", Val: &refnbt.Node{Tag: refnbt.List, ElemTag: refnbt.End}},
		{Name: "", Val: &refnbt.Node{Tag: refnbt.Compound}},
	}}
}

func mkBE(kind string, xz int8, y int16, typ int32) modelBE {
	be := modelBE{XZ: xz, Y: y, Type: typ}
	switch kind {
	case "empty":
		be.Tag = refnbt.Compound
		be.Tree = &refnbt.Node{Tag: refnbt.Compound}
	case "nested":
		be.Tag = refnbt.Compound
		be.Tree = nestedTree()
	case "end":
		be.Tag = 0
		return be
	default:
		engine.HarnessError("unknown block entity kind %q", kind)
	}
	be.Data = refnbt.AppendPayload(nil, be.Tree)
	return be
}

func blockEntities(cfg string) []modelBE {
	nTypes := int32(len(block.EntityList))
	a := func(k string) modelBE { return mkBE(k, 0x00, -64, 0) }
	b := func(k string) modelBE { return mkBE(k, -1, 319, nTypes-1) } // XZ 0xFF: x=15 z=15
	switch cfg {
	case "none", "":
		return nil
	case "empty":
		return []modelBE{a("empty")}
	case "nested":
		return []modelBE{b("nested")}
	case "empty+nested":
		return []modelBE{a("empty"), b("nested")}
	case "nested+empty":
		return []modelBE{a("nested"), b("empty")}
	case "end":
		return []modelBE{a("end")}
	case "three": // more entities than any other configuration (history families)
		return []modelBE{a("nested"), mkBE("empty", 0x37, 100, 1), b("nested")}
	}
	engine.HarnessError("unknown block entity configuration %q", cfg)
	return nil
}

func lightArrays(s int) (sky, blk []byte) {
	sky = make([]byte, 2048)
	blk = make([]byte, 2048)
	for i := range sky {
		sky[i] = byte(i*3 + s*7 + 1)
		blk[i] = byte(i*5 + s*11 + 2)
	}
	return
}

// buildChunk runs the construction history on a real chunk and on the model.
func buildChunk(cs *Case) *built {
	b := &built{m: &modelChunk{status: cs.Status}}
	kind, frame, panicked := engine.Guard(func() { buildInto(cs, b) })
	if panicked {
		b.failure, b.frame = kind, frame
	}
	return b
}

func buildInto(cs *Case, b *built) {
	c := level.EmptyChunk(cs.Secs)
	b.c = c
	m := b.m
	sh0, bi := findBlockShape(cs.Blocks)
	bs0, oi := findBiomeShape(cs.Biomes)
	if cs.Mix && (bi < 0 || oi < 0) {
		engine.HarnessError("shapes %q / %q are not part of the rotation", cs.Blocks, cs.Biomes)
	}
	for s := 0; s < cs.Secs; s++ {
		ms := &modelSection{}
		m.secs = append(m.secs, ms)
		sh, bs := sh0, bs0
		if cs.Mix {
			sh = blockShapes[(bi+s)%len(blockShapes)]
			bs = biomeShapes[(oi+s)%len(biomeShapes)]
		}
		ms.shape, ms.bshape = sh, bs
		sec := &c.Sections[s]
		// --- block states
		switch sh.How {
		case "untouched":
			// EmptyChunk's section: single value air
		case "ctor":
			v := singleBlockValue(s + 100*cs.Salt)
			sec.States = level.NewStatesPaletteContainer(16*16*16, level.BlocksState(v))
			for i := range ms.blocks {
				ms.blocks[i] = v
			}
			if !airByName[v] {
				sec.BlockCount = 4096 // a caller who installs a container states its count
			}
		case "setall":
			v := singleBlockValue(s + 1 + 100*cs.Salt)
			for k := 0; k < 4096; k++ {
				p := permBlock(k)
				sec.SetBlock(p, level.BlocksState(v))
				ms.blocks[p] = v
			}
			b.setOps += 4096
		case "ctorfill":
			v0 := singleBlockValue(s + 100*cs.Salt)
			if airByName[v0] || v0 == 0 {
				v0 = idStone
			}
			sec.States = level.NewStatesPaletteContainer(16*16*16, level.BlocksState(v0))
			sec.BlockCount = 4096 // a caller who installs a container states its count
			for i := range ms.blocks {
				ms.blocks[i] = v0
			}
			pool := blockPool(s, sh.D, cs.Salt)
			for k := 0; k < 1024; k++ { // one cell in four; the others keep palette entry 0
				p := permBlock(k * 4)
				v := pool[k%len(pool)]
				sec.SetBlock(p, level.BlocksState(v))
				ms.blocks[p] = v
			}
			b.setOps += 1024
		case "fill":
			pool := blockPool(s, sh.D, cs.Salt)
			for k := 0; k < 4096; k++ {
				p := permBlock(k)
				v := pool[k%len(pool)]
				sec.SetBlock(p, level.BlocksState(v))
				ms.blocks[p] = v
			}
			// second pass: overwrite 96 positions (non-air over non-air, air over non-air, ...)
			for k := 0; k < 96; k++ {
				p := permBlock(k * 41)
				v := pool[(k+1)%len(pool)]
				sec.SetBlock(p, level.BlocksState(v))
				ms.blocks[p] = v
			}
			b.setOps += 4096 + 96
		}
		for _, v := range ms.blocks {
			if !airByName[v] {
				ms.count++
			}
		}
		// --- biomes
		switch bs.How {
		case "untouched":
		case "ctor":
			v := biomePool(s+5*cs.Salt, 1)[0]
			if v == 0 {
				v = 1
			}
			sec.Biomes = level.NewBiomesPaletteContainer(4*4*4, level.BiomesState(v))
			for i := range ms.biomes {
				ms.biomes[i] = v
			}
		case "ctorfill":
			v0 := biomePool(s+5*cs.Salt, 1)[0]
			if v0 == 0 {
				v0 = 1
			}
			sec.Biomes = level.NewBiomesPaletteContainer(4*4*4, level.BiomesState(v0))
			for i := range ms.biomes {
				ms.biomes[i] = v0
			}
			pool := biomePool(s+5*cs.Salt, bs.D)
			for k := 0; k < 32; k++ { // every other cell keeps palette entry 0
				p := permBiome(k * 2)
				v := pool[k%len(pool)]
				sec.Biomes.Set(p, level.BiomesState(v))
				ms.biomes[p] = v
			}
		case "fill":
			pool := biomePool(s+5*cs.Salt, bs.D)
			for k := 0; k < 64; k++ {
				p := permBiome(k)
				v := pool[k%len(pool)]
				sec.Biomes.Set(p, level.BiomesState(v))
				ms.biomes[p] = v
			}
		}
		// --- light
		sky, blk := lightArrays(s)
		switch cs.Light {
		case "absent":
		case "present":
			ms.sky, ms.blk = sky, blk
		case "mixed":
			if s%2 == 0 {
				ms.sky = sky
			} else {
				ms.blk = blk
			}
		default:
			engine.HarnessError("unknown light class %q", cs.Light)
		}
		if ms.sky != nil {
			sec.SkyLight = append([]byte(nil), ms.sky...)
		}
		if ms.blk != nil {
			sec.BlockLight = append([]byte(nil), ms.blk...)
		}
	}
	// --- height maps
	m.hmBits = 0
	for x := uint(cs.Secs)*16 + 1; x > 0; x >>= 1 {
		m.hmBits++
	}
	mask := 1<<uint(m.hmBits) - 1
	for i := 0; i < 6; i++ {
		m.hm[i] = make([]int, 256)
		st := *hmField(&c.HeightMaps, i)
		for k := 0; k < 256; k++ {
			v := 0
			switch cs.HM {
			case "zero":
			case "max":
				v = mask
			case "pattern":
				v = (k*7 + i*11 + i + 1 + 13*cs.Salt) % (mask + 1) // a different sequence for every map
			default:
				engine.HarnessError("unknown height map class %q", cs.HM)
			}
			m.hm[i][k] = v
			if v != 0 || cs.HM == "pattern" {
				st.Set(k, v)
			}
		}
	}
	if cs.Extra == "nil-heightmaps" {
		c.HeightMaps = level.HeightMaps{}
		for i := range m.hm {
			m.hm[i] = nil
		}
	}
	for i := 0; i < 6; i++ {
		m.hmRaw[i] = append([]uint64{}, (*hmField(&c.HeightMaps, i)).Raw()...)
	}
	// --- block entities
	m.be = blockEntities(cs.BE)
	for _, e := range m.be {
		c.BlockEntity = append(c.BlockEntity, level.BlockEntity{
			XZ: e.XZ, Y: e.Y, Type: block.EntityType(e.Type),
			Data: nbt.RawMessage{Type: e.Tag, Data: append([]byte(nil), e.Data...)},
		})
	}
	c.Status = level.ChunkStatus(cs.Status)
	for s := range c.Sections {
		b.srcBC = append(b.srcBC, c.Sections[s].BlockCount)
	}
}

// ---------------------------------------------------------------------------------------
// NBT helpers (independent reader)

// rawTree parses a (tag, payload) pair with the reference reader.
func rawTree(tag byte, payload []byte) (*refnbt.Node, error) {
	if tag == 0 {
		return nil, nil
	}
	doc := append([]byte{tag, 0, 0}, payload...)
	_, n, used, err := refnbt.Parse(doc, false)
	if err != nil {
		return nil, err
	}
	if used != len(doc) {
		return nil, fmt.Errorf("payload has %d trailing bytes", len(doc)-used)
	}
	return n, nil
}

// canon renders a tree with compound fields sorted by name (a canonical key).
func canon(n *refnbt.Node) string {
	if n == nil {
		return "<absent>"
	}
	var sb strings.Builder
	canonInto(&sb, n)
	return sb.String()
}

func canonInto(sb *strings.Builder, n *refnbt.Node) {
	switch n.Tag {
	case refnbt.Compound:
		fs := append([]refnbt.Field(nil), n.Fields...)
		sort.SliceStable(fs, func(i, j int) bool { return fs[i].Name < fs[j].Name })
		sb.WriteByte('{')
		for i, f := range fs {
			if i > 0 {
				sb.WriteByte(',')
			}
			fmt.Fprintf(sb, "%q:", f.Name)
			canonInto(sb, f.Val)
		}
		sb.WriteByte('}')
	case refnbt.List:
		fmt.Fprintf(sb, "[%d;", n.ElemTag)
		for i, e := range n.Elems {
			if i > 0 {
				sb.WriteByte(',')
			}
			canonInto(sb, e)
		}
		sb.WriteByte(']')
	case refnbt.String:
		fmt.Fprintf(sb, "%q", n.S)
	case refnbt.ByteArray, refnbt.IntArray, refnbt.LongArray:
		fmt.Fprintf(sb, "%s%v", refnbt.TagNames[n.Tag], n.A)
	default:
		fmt.Fprintf(sb, "%s(%d)", refnbt.TagNames[n.Tag], n.I)
	}
}

func u64eq(a, b []uint64) bool {
	if len(a) != len(b) {
		return false
	}
	for i := range a {
		if a[i] != b[i] {
			return false
		}
	}
	return true
}

func clipU64(a []uint64) string {
	if len(a) > 3 {
		return fmt.Sprintf("[%#x %#x %#x ... %d longs]", a[0], a[1], a[2], len(a))
	}
	return fmt.Sprintf("%#x", a)
}
