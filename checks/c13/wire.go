package main

// An independent reading of the byte layout Chunk.WriteTo produces (the tuple go-mc declares:
// height-map NBT in network form, VarInt-prefixed section data, VarInt-counted block entities,
// light data). It is used for DIAGNOSIS only - to say in which field a reader stopped and what
// the writer put there - never as an oracle: the property statement speaks about the round
// trip, not about the byte layout.

import (
	"errors"
	"fmt"

	"verif/ref/refnbt"
	"verif/ref/refpal"
)

type wireField struct {
	Name     string
	Off, End int
}

type wireLayout struct {
	Fields []wireField
	HM     *refnbt.Node
	BE     []modelBE
	Light  []byte
	Err    error
}

func nbtNetwork(b []byte) (*refnbt.Node, int, error) {
	if len(b) == 0 {
		return nil, 0, refpal.ErrTruncated
	}
	if b[0] == 0 {
		return nil, 1, nil // TagEnd: no NBT
	}
	_, n, used, err := refnbt.Parse(b, true)
	return n, used, err
}

func parseWire(b []byte) (l wireLayout) {
	p := 0
	add := func(name string, n int) {
		l.Fields = append(l.Fields, wireField{name, p, p + n})
		p += n
	}
	hm, n, err := nbtNetwork(b)
	if err != nil {
		l.Err = fmt.Errorf("heightmaps: %w", err)
		return
	}
	l.HM = hm
	add("heightmaps", n)
	sz, n, err := refpal.VarInt(b[p:])
	if err != nil || sz < 0 || int(sz) > len(b)-p-n {
		l.Err = errors.New("section data length")
		return
	}
	add("section-data", n+int(sz))
	cnt, n, err := refpal.VarInt(b[p:])
	if err != nil || cnt < 0 || cnt > 1024 {
		l.Err = errors.New("block entity count")
		return
	}
	start := p
	q := p + n
	for i := 0; i < int(cnt); i++ {
		if len(b)-q < 3 {
			l.Err = errors.New("block entity header")
			return
		}
		e := modelBE{XZ: int8(b[q]), Y: int16(uint16(b[q+1])<<8 | uint16(b[q+2]))}
		q += 3
		t, n, err := refpal.VarInt(b[q:])
		if err != nil {
			l.Err = errors.New("block entity type")
			return
		}
		e.Type = t
		q += n
		tree, n, err := nbtNetwork(b[q:])
		if err != nil {
			l.Err = fmt.Errorf("block entity nbt: %w", err)
			return
		}
		e.Tree = tree
		if tree != nil {
			e.Tag = tree.Tag
		}
		q += n
		l.BE = append(l.BE, e)
	}
	p = start
	add("block-entities", q-start)
	l.Light = b[p:]
	add("light-data", len(b)-p)
	return
}

// where names the field of the written bytes in which offset off lies.
func (l wireLayout) where(off, total int) string {
	if l.Err != nil {
		return "unknown-layout"
	}
	if off == total {
		return "end"
	}
	if off > total {
		return "beyond-end"
	}
	for _, f := range l.Fields {
		if off >= f.Off && off < f.End {
			if off == f.Off {
				return "start-of-" + f.Name
			}
			return "inside-" + f.Name
		}
	}
	return "unknown-layout"
}
