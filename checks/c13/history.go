package main

// Histories on ONE object (state that survives a conversion shows only here), all exhaustive over
// stated finite menus:
//
//	nethist   every sequence of length <= 3 (thorough 4) over a menu of 10 one-section chunks that
//	          covers every network width (blocks: single, 4, 5, 6, 7, 8 bits, direct; biomes:
//	          single, 1, 2, 3 bits, direct; 0..3 block entities) read into ONE destination chunk;
//	          the LAST read is judged: consumed bytes, every clause of the network sentence, and
//	          again after a SetBlock of a state the destination held before that read.
//	srchist   one SOURCE chunk (menu of 6) under every sequence of length <= 3 (thorough 4) over
//	          {net, save, reload-net, reload-save, set-new, set-air, biome, height, entity, light,
//	          status} that ends in a conversion: conversions interleaved with the mutations the
//	          statement quantifies over; "save" converts into one save.Chunk kept for the whole
//	          history; "reload-*" replaces the source by its own image under a round trip (a chunk
//	          that came OUT of ReadFrom / ChunkFromSave is then mutated and converted again). The
//	          last conversion is judged against the model after all mutations.
//	savedst   every ordered pair (thorough: triple) over a menu of 7 chunks of 1, 2, 8 and 24
//	          sections converted with ChunkToSave into ONE save.Chunk (the earlier ones prefill
//	          it, directly or through save.Chunk.Data/Load); the last one is judged: height maps
//	          under their names, status, and everything ChunkFromSave gives back, directly and
//	          through Data/Load.
//	twolive   every ordered pair (A, B) over the savedst menu x compression {none, gzip, zlib}: BOTH
//	          chunks are converted (ChunkToSave, save.Chunk.Data, Chunk.WriteTo) before EITHER
//	          result is consumed (save.Chunk.Load, ChunkFromSave, Chunk.ReadFrom), so that the
//	          outputs of two conversions are alive at the same time; both are then judged.
//	sweep     (chunk cases) the widths and section counts the main product leaves out: one-section
//	          chunks of every block shape x biome shape with at least one of the extra shapes
//	          (block palettes of 32/33/64/65/128/129 states, 3/4/5 biomes), and chunks of 3..23
//	          sections (all height-map widths), through the full judge of the chunk part.

import (
	"bytes"
	"fmt"
	"sync"
	"sync/atomic"

	"github.com/Tnze/go-mc/level"
	"github.com/Tnze/go-mc/level/block"
	"github.com/Tnze/go-mc/nbt"
	"github.com/Tnze/go-mc/save"

	"verif/engine"
)

func menuItem(secs int, blocks, biomes string, mix bool, hm, be, light, status string, salt int) Case {
	return Case{Part: "chunk", Secs: secs, Blocks: blocks, Biomes: biomes, Mix: mix, HM: hm, BE: be, Light: light, Status: status, Salt: salt}
}

// ---------------------------------------------------------------------------------------
// nethist: read histories on one destination

var netMenu = []Case{
	menuItem(1, "single:untouched", "single:untouched", false, "zero", "none", "absent", "empty", 1),
	menuItem(1, "le16:d16", "2-8:d2", false, "pattern", "empty", "present", "full", 2),
	menuItem(1, "17-256:d17", "2-8:d4", false, "max", "nested", "mixed", "full", 3),
	menuItem(1, "17-256:d64", "2-8:d8", false, "pattern", "empty+nested", "present", "full", 4),
	menuItem(1, "17-256:d128", "ge9:d9", false, "pattern", "nested+empty", "absent", "full", 5),
	menuItem(1, "17-256:d256", "ge9:all", false, "max", "three", "present", "full", 6),
	menuItem(1, "ge257:d257", "single:ctor", false, "pattern", "end", "mixed", "full", 7),
	menuItem(1, "single:setall", "2-8:d3", false, "pattern", "none", "present", "full", 8),
	menuItem(1, "le16:d2", "2-8:d5", false, "pattern", "nested", "absent", "full", 9),
	menuItem(1, "single:ctor", "ge9:d9", false, "zero", "empty", "present", "full", 10),
}

type menuWire struct {
	once sync.Once
	wire []byte
}

var netMenuWires = make([]menuWire, len(netMenu))

// netMenuWire is the network form of menu item k (nil: the writer refused it).
func netMenuWire(k int) []byte {
	u := &netMenuWires[k]
	u.once.Do(func() {
		cs := netMenu[k]
		b := buildChunk(&cs)
		if b.failure != "" {
			return
		}
		var buf bytes.Buffer
		var err error
		if _, _, p := engine.Guard(func() { _, err = b.c.WriteTo(&buf) }); p || err != nil {
			return
		}
		u.wire = buf.Bytes()
	})
	return u.wire
}

func menuNames(menu []Case) []string {
	out := make([]string, len(menu))
	for i := range menu {
		c := &menu[i]
		out[i] = fmt.Sprintf("%d: sections=%d blocks=%s biomes=%s rotate=%v heightmaps=%s block-entities=%s light=%s status=%s", i, c.Secs, c.Blocks, c.Biomes, c.Mix, c.HM, c.BE, c.Light, c.Status)
	}
	return out
}

func seqCases(part string, menuLen, maxLen int, prefills []string) []Case {
	var cases []Case
	for n := 1; n <= maxLen; n++ {
		total := 1
		for i := 0; i < n; i++ {
			total *= menuLen
		}
		for x := 0; x < total; x++ {
			seq := make([]int, n)
			y := x
			for k := n - 1; k >= 0; k-- {
				seq[k] = y % menuLen
				y /= menuLen
			}
			pf := prefills
			if n == 1 || len(pf) == 0 {
				pf = []string{""}
			}
			for _, p := range pf {
				cases = append(cases, Case{Part: part, Seq: seq, Prefill: p, Ordinal: len(cases)})
			}
		}
	}
	return cases
}

func netHistPart() {
	maxLen := 3
	if rep.Thorough() {
		maxLen = 4
	}
	cases := seqCases("nethist", len(netMenu), maxLen, nil)
	engine.ParallelFor(len(cases), func(_, i int) { runNetHist(&cases[i]) })
	rep.NonTrivial(int64(len(cases)))
	rep.AddStates(int64(len(cases)))
	rep.Count("nethist/read-histories", int64(len(cases)))
	rep.Extra("nethist_menu", menuNames(netMenu))
	rep.Extra("nethist_max_reads_into_one_destination", maxLen)
	rep.Sample(cases[len(cases)-1])
}

func runNetHist(cs *Case) {
	n := len(cs.Seq)
	for _, k := range cs.Seq {
		if k < 0 || k >= len(netMenu) {
			engine.HarnessError("nethist: menu index %d", k)
		}
	}
	item := netMenu[cs.Seq[n-1]]
	b := buildChunk(&item)
	j := &judge{cs: &item, b: b, rec: cs, ctx: fmt.Sprintf("read history %v into one destination (menu indices, see nethist_menu)", cs.Seq)}
	atomic.AddInt64(&setOpsTotal, b.setOps)
	if b.failure != "" {
		j.fail("build/set-history/panic/"+b.failure+"@"+b.frame, "building the chunk panicked: "+b.failure+" in "+b.frame)
		return
	}
	var buf bytes.Buffer
	var werr error
	if _, _, p := engine.Guard(func() { _, werr = b.c.WriteTo(&buf) }); p || werr != nil {
		// judged by the chunk part (a writer that refuses a block entity without NBT: unspecified)
		rep.Unspec(1)
		rep.Count("unspecified/nethist/last-chunk-not-writable", 1)
		return
	}
	wire := append([]byte(nil), buf.Bytes()...)
	dst := level.EmptyChunk(1)
	for _, k := range cs.Seq[:n-1] {
		w := netMenuWire(k)
		if w == nil {
			rep.Count("diagnostic/nethist/earlier-chunk-not-writable", 1)
			return
		}
		var err error
		if _, _, p := engine.Guard(func() { _, err = dst.ReadFrom(bytes.NewReader(w)) }); p || err != nil {
			// reported by the shorter history that ends here
			rep.Count("diagnostic/nethist/earlier-read-failed", 1)
			return
		}
		atomic.AddInt64(&convExec, 1)
	}
	// states the destination holds before the last read
	var before []int
	engine.Guard(func() {
		for _, p := range []int{permBlock(1), permBlock(3), permBlock(7), permBlock(12), 0, 4095} {
			before = append(before, int(dst.Sections[0].GetBlock(p)))
		}
	})
	data := append(append([]byte(nil), wire...), sentinel...)
	br := bytes.NewReader(data)
	var rerr error
	kind, frame, p := engine.Guard(func() { _, rerr = dst.ReadFrom(br) })
	atomic.AddInt64(&convExec, 1)
	rep.Eval(1)
	tag := "target=read-history"
	if p {
		j.fail("net/read/panic/"+kind+"@"+frame+"/"+tag, fmt.Sprintf("Chunk.ReadFrom of the %d bytes WriteTo produced panicked: %s in %s", len(wire), kind, frame))
		return
	}
	consumed := len(data) - br.Len()
	if rerr != nil {
		j.fail("net/read/error/"+tag, fmt.Sprintf("Chunk.ReadFrom of the %d bytes WriteTo produced failed after %d bytes: %v", len(wire), consumed, rerr))
		return
	}
	if consumed != len(wire) {
		dir := "under-read"
		if consumed > len(wire) {
			dir = "over-read"
		}
		j.fail("net/consumed-differs-from-written/"+dir+"/"+tag, fmt.Sprintf("WriteTo wrote %d bytes, ReadFrom consumed %d", len(wire), consumed))
	}
	j.compareNet(dst, tag)
	// a state the destination held before the last read and the chunk just read does not hold
	ms := b.m.secs[0]
	present := map[int]bool{}
	for _, v := range ms.blocks {
		present[v] = true
	}
	old := -1
	for _, v := range before {
		if v >= 0 && v < nStates && !present[v] {
			old = v
			break
		}
	}
	if old < 0 {
		return
	}
	const pos = 5
	if _, _, p := engine.Guard(func() { dst.Sections[0].SetBlock(pos, level.BlocksState(old)) }); p {
		j.fail("net/set-after-read/panic/"+tag, "SetBlock of a state the destination held before the read panicked")
		return
	}
	delta := 0
	if !airByName[ms.blocks[pos]] {
		delta--
	}
	if !airByName[old] {
		delta++
	}
	ms.blocks[pos], ms.count = old, ms.count+delta
	b.srcBC[0] += int16(delta)
	j.compareNet(dst, tag+",after-SetBlock-of-an-old-state")
}

// ---------------------------------------------------------------------------------------
// srchist: conversions interleaved with mutations of one source

var srcMenu = []Case{
	menuItem(1, "le16:d16", "2-8:d8", false, "pattern", "nested", "present", "full", 0),
	menuItem(1, "single:untouched", "single:untouched", false, "zero", "none", "absent", "empty", 0),
	menuItem(1, "17-256:d256", "ge9:d9", false, "max", "empty+nested", "mixed", "full", 0),
	menuItem(1, "ge257:d257", "2-8:d2", false, "pattern", "none", "present", "full", 0),
	menuItem(2, "le16:d16", "2-8:d8", true, "pattern", "empty", "mixed", "full", 0),
	menuItem(1, "17-256:d17", "2-8:d4", false, "pattern", "nested+empty", "absent", "full", 0),
}

var srcSteps = []string{"net", "save", "reload-net", "reload-save", "set-new", "set-air", "biome", "height", "entity", "light", "status"}

func isReload(s string) bool { return s == "reload-net" || s == "reload-save" }

func isConv(s string) bool { return s == "net" || s == "save" }

func srcHistPart() {
	maxLen := 3
	if rep.Thorough() {
		maxLen = 4
	}
	var cases []Case
	for n := 1; n <= maxLen; n++ {
		total := 1
		for i := 0; i < n; i++ {
			total *= len(srcSteps)
		}
		for x := 0; x < total; x++ {
			steps := make([]string, n)
			y := x
			for k := n - 1; k >= 0; k-- {
				steps[k] = srcSteps[y%len(srcSteps)]
				y /= len(srcSteps)
			}
			if !isConv(steps[n-1]) {
				continue // a prefix of the histories that end in a conversion
			}
			for src := range srcMenu {
				cases = append(cases, Case{Part: "srchist", Src: src, Steps: steps, Ordinal: len(cases)})
			}
		}
	}
	engine.ParallelFor(len(cases), func(_, i int) { runSrcHist(&cases[i]) })
	rep.NonTrivial(int64(len(cases)))
	rep.AddStates(int64(len(cases)))
	rep.Count("srchist/source-histories", int64(len(cases)))
	rep.Extra("srchist_source_menu", menuNames(srcMenu))
	rep.Extra("srchist_steps", srcSteps)
	rep.Extra("srchist_max_steps", maxLen)
	rep.Sample(cases[len(cases)-1])
}

// applyStep runs one mutation on the real chunk and on the model; k counts the earlier steps
// of the same kind.
func applyStep(b *built, step string, k int) {
	c, m := b.c, b.m
	t := len(m.secs) - 1
	sec, ms := &c.Sections[t], m.secs[t]
	setBlock := func(pos, v int) {
		sec.SetBlock(pos, level.BlocksState(v))
		if !airByName[ms.blocks[pos]] {
			ms.count--
		}
		if !airByName[v] {
			ms.count++
		}
		ms.blocks[pos] = v
		b.setOps++
	}
	switch step {
	case "set-new":
		present := map[int]bool{}
		for _, v := range ms.blocks {
			present[v] = true
		}
		v := (idStone + 4321 + 17*k) % nStates
		for present[v] || airByName[v] {
			v = (v + 1) % nStates
		}
		setBlock((7+13*k)&4095, v)
	case "set-air":
		v := idCaveAir
		if k%2 == 1 {
			v = idAir
		}
		setBlock((9+11*k)&4095, v)
	case "biome":
		pos := (11 + k) & 63
		v := (ms.biomes[pos] + 7) % nBiomes
		sec.Biomes.Set(pos, level.BiomesState(v))
		ms.biomes[pos] = v
	case "height":
		mask := 1<<uint(m.hmBits) - 1
		for i := 0; i < 6; i++ {
			pos := (3 + k + 40*i) & 255
			v := (m.hm[i][pos] + 1 + i) % (mask + 1)
			(*hmField(&c.HeightMaps, i)).Set(pos, v)
			m.hm[i][pos] = v
			m.hmRaw[i] = append([]uint64{}, (*hmField(&c.HeightMaps, i)).Raw()...)
		}
	case "entity":
		if len(m.be) == 0 {
			e := mkBE("nested", 0x12, int16(7+k), 2)
			m.be = append(m.be, e)
			c.BlockEntity = append(c.BlockEntity, level.BlockEntity{XZ: e.XZ, Y: e.Y, Type: block.EntityType(e.Type), Data: nbt.RawMessage{Type: e.Tag, Data: append([]byte(nil), e.Data...)}})
		} else {
			m.be = append([]modelBE(nil), m.be[1:]...)
			c.BlockEntity = append([]level.BlockEntity(nil), c.BlockEntity[1:]...)
		}
	case "light":
		sky := make([]byte, 2048)
		for i := range sky {
			sky[i] = byte(i*7 + k + 9)
		}
		ms.sky = sky
		sec.SkyLight = append([]byte(nil), sky...)
		if ms.blk != nil {
			ms.blk, sec.BlockLight = nil, nil
		} else {
			blk := make([]byte, 2048)
			for i := range blk {
				blk[i] = byte(i*13 + k + 4)
			}
			ms.blk = blk
			sec.BlockLight = append([]byte(nil), blk...)
		}
	case "status":
		st := []string{"minecraft:spawn", "minecraft:features", "minecraft:light"}[k%3]
		if st == m.status {
			st = "minecraft:noise"
		}
		c.Status = level.ChunkStatus(st)
		m.status = st
	default:
		engine.HarnessError("unknown step %q", step)
	}
	for s := range c.Sections {
		b.srcBC[s] = c.Sections[s].BlockCount
	}
}

// reloadSource replaces the source by its own image under a round trip: "reload-net" by what
// Chunk.ReadFrom makes of Chunk.WriteTo (the network form carries no light arrays, no status and
// two of the six height maps: the model takes the others from the fresh destination),
// "reload-save" by ChunkFromSave of ChunkToSave (no block entities).
func reloadSource(b *built, step string) bool {
	m := b.m
	secs := len(m.secs)
	var nc *level.Chunk
	var err error
	_, _, p := engine.Guard(func() {
		if step == "reload-net" {
			var buf bytes.Buffer
			if _, err = b.c.WriteTo(&buf); err != nil {
				return
			}
			nc = level.EmptyChunk(secs)
			_, err = nc.ReadFrom(bytes.NewReader(buf.Bytes()))
		} else {
			sc := saveTemplate(-4)
			if err = level.ChunkToSave(b.c, &sc); err != nil {
				return
			}
			nc, err = level.ChunkFromSave(&sc)
		}
	})
	atomic.AddInt64(&convExec, 2)
	if p || err != nil || nc == nil || len(nc.Sections) != secs {
		return false
	}
	if step == "reload-net" {
		for _, ms := range m.secs {
			ms.sky, ms.blk = nil, nil
		}
		for s := range nc.Sections {
			if nc.Sections[s].SkyLight != nil || nc.Sections[s].BlockLight != nil {
				return false // a reader that keeps light arrays: the model above would be wrong
			}
		}
		m.status = string(nc.Status)
		for i := 0; i < 6; i++ {
			if i == hmMotionBlocking || i == hmWorldSurface {
				continue
			}
			st := *hmField(&nc.HeightMaps, i)
			if st == nil {
				return false
			}
			for k := range m.hm[i] {
				m.hm[i][k] = st.Get(k)
			}
		}
	} else {
		if len(nc.BlockEntity) != 0 {
			return false // a save form that carries block entities: not modelled
		}
		m.be = nil
	}
	for i := 0; i < 6; i++ {
		st := *hmField(&nc.HeightMaps, i)
		if st == nil {
			return false
		}
		m.hmRaw[i] = append([]uint64{}, st.Raw()...)
	}
	b.c = nc
	for s := range nc.Sections {
		b.srcBC[s] = nc.Sections[s].BlockCount
	}
	return true
}

func runSrcHist(cs *Case) {
	if cs.Src < 0 || cs.Src >= len(srcMenu) || len(cs.Steps) == 0 {
		engine.HarnessError("srchist: bad case %+v", *cs)
	}
	item := srcMenu[cs.Src]
	b := buildChunk(&item)
	j := &judge{cs: &item, b: b, rec: cs, ctx: fmt.Sprintf("source %d under the history %v", cs.Src, cs.Steps)}
	if b.failure != "" {
		j.fail("build/set-history/panic/"+b.failure+"@"+b.frame, "building the chunk panicked: "+b.failure+" in "+b.frame)
		return
	}
	var sc *save.Chunk // the one save.Chunk of this history
	kinds := map[string]int{}
	last := len(cs.Steps) - 1
	for si, step := range cs.Steps {
		if isReload(step) {
			// the source becomes a chunk that came OUT of a conversion; what that conversion does
			// not carry is taken off the model (the conversion itself is judged by the histories
			// that end in "net" / "save")
			if !reloadSource(b, step) {
				rep.Count("diagnostic/srchist/earlier-conversion-failed", 1)
				return
			}
			continue
		}
		if !isConv(step) {
			k := kinds[step]
			kinds[step]++
			if kind, frame, p := engine.Guard(func() { applyStep(b, step, k) }); p {
				j.fail("srchist/mutation/panic/"+kind+"@"+frame+"/step="+step, "the mutation panicked: "+kind+" in "+frame)
				return
			}
			t := len(b.m.secs) - 1
			if ms := b.m.secs[t]; ms.shape.How != "ctor" && int(b.srcBC[t]) != ms.count {
				j.fail("counter/block-count-differs/source-history/step="+step,
					fmt.Sprintf("section %d after the step: BlockCount=%d, non-air blocks (by registry name)=%d", t, b.srcBC[t], ms.count))
				return
			}
			continue
		}
		final := si == last
		switch step {
		case "net":
			var buf bytes.Buffer
			var werr error
			kind, frame, p := engine.Guard(func() { _, werr = b.c.WriteTo(&buf) })
			atomic.AddInt64(&convExec, 1)
			if !final {
				if p || werr != nil {
					rep.Count("diagnostic/srchist/earlier-conversion-failed", 1)
					return
				}
				continue
			}
			if p {
				j.fail("net/write/panic/"+kind+"@"+frame+"/source=history", "Chunk.WriteTo panicked: "+kind+" in "+frame)
				return
			}
			if werr != nil {
				j.fail("net/write/error/source=history", "Chunk.WriteTo failed: "+werr.Error())
				return
			}
			wire := append([]byte(nil), buf.Bytes()...)
			data := append(append([]byte(nil), wire...), sentinel...)
			br := bytes.NewReader(data)
			dst := level.EmptyChunk(item.Secs)
			var rerr error
			kind, frame, p = engine.Guard(func() { _, rerr = dst.ReadFrom(br) })
			atomic.AddInt64(&convExec, 1)
			rep.Eval(1)
			tag := "source=history"
			if p {
				j.fail("net/read/panic/"+kind+"@"+frame+"/"+tag, "Chunk.ReadFrom of what WriteTo produced panicked: "+kind+" in "+frame)
				return
			}
			consumed := len(data) - br.Len()
			if rerr != nil {
				j.fail("net/read/error/"+tag, fmt.Sprintf("Chunk.ReadFrom of the %d bytes WriteTo produced failed after %d bytes: %v", len(wire), consumed, rerr))
				return
			}
			if consumed != len(wire) {
				j.fail("net/consumed-differs-from-written/"+tag, fmt.Sprintf("WriteTo wrote %d bytes, ReadFrom consumed %d", len(wire), consumed))
			}
			j.compareNet(dst, tag)
		case "save":
			if sc == nil {
				t := saveTemplate(-4)
				sc = &t
			}
			var err error
			kind, frame, p := engine.Guard(func() { err = level.ChunkToSave(b.c, sc) })
			atomic.AddInt64(&convExec, 1)
			if !final {
				if p || err != nil {
					rep.Count("diagnostic/srchist/earlier-conversion-failed", 1)
					return
				}
				continue
			}
			if p {
				j.fail("save/to-save/panic/"+kind+"@"+frame+"/source=history", "ChunkToSave panicked: "+kind+" in "+frame)
				return
			}
			if err != nil {
				j.fail("save/to-save/error/source=history", "ChunkToSave failed: "+err.Error())
				return
			}
			j.judgeSaved(sc, "save.history")
		}
	}
}

// judgeSaved judges a save.Chunk that ChunkToSave has just filled from j.b: the save form itself
// (height maps under their names, status), the way back, and the way back through Data/Load.
func (j *judge) judgeSaved(sc *save.Chunk, pre string) {
	m := j.b.m
	for i, name := range hmNames {
		if got, ok := sc.Heightmaps[name]; !ok || !u64eq(got, m.hmRaw[i]) {
			j.fail(pre+"/to-save/heightmap-not-under-its-name/"+name+"/hm="+j.cs.HM,
				fmt.Sprintf("save.Chunk.Heightmaps[%q] = %s (present=%v), the chunk's %s map is %s", name, clipU64(got), ok, name, clipU64(m.hmRaw[i])))
		}
	}
	if sc.Status != m.status {
		j.fail(pre+"/to-save/status-differs", fmt.Sprintf("save.Chunk.Status=%q, chunk status %q", sc.Status, m.status))
	}
	j.direct = map[string]bool{}
	j.fromSave(sc, pre, "", func(c string) bool { j.direct[c] = true; return true })
	var data []byte
	var err error
	kind, frame, p := engine.Guard(func() { data, err = sc.Data(3) })
	atomic.AddInt64(&convExec, 1)
	if p || err != nil {
		j.fail(pre+".nbt/data/failed", fmt.Sprintf("save.Chunk.Data(3): panic=%v (%s@%s) err=%v", p, kind, frame, err))
		return
	}
	var sc2 save.Chunk
	kind, frame, p = engine.Guard(func() { err = sc2.Load(data) })
	atomic.AddInt64(&convExec, 1)
	if p || err != nil {
		j.fail(pre+".nbt/load/failed", fmt.Sprintf("save.Chunk.Load of what Data(3) returned: panic=%v (%s@%s) err=%v", p, kind, frame, err))
		return
	}
	j.fromSave(&sc2, pre+".nbt", "", func(c string) bool { return !j.direct[c] })
}

// ---------------------------------------------------------------------------------------
// savedst: ChunkToSave histories on one save.Chunk

var saveMenu = []Case{
	menuItem(1, "le16:d16", "2-8:d8", false, "pattern", "none", "present", "full", 1),
	menuItem(1, "ge257:d257", "ge9:d9", false, "max", "none", "mixed", "empty", 2),
	menuItem(2, "17-256:d17", "2-8:d2", true, "pattern", "none", "present", "full", 3),
	menuItem(24, "le16:d16", "2-8:d8", true, "pattern", "none", "mixed", "full", 4),
	menuItem(24, "ge257:d1000", "ge9:all", true, "max", "none", "absent", "minecraft:full", 5),
	menuItem(1, "single:untouched", "single:untouched", false, "zero", "none", "absent", "", 6),
	menuItem(8, "17-256:d256", "ge9:d9", true, "pattern", "none", "present", "full", 7),
}

func saveDstPart() {
	maxLen := 2
	if rep.Thorough() {
		maxLen = 3
	}
	cases := seqCases("savedst", len(saveMenu), maxLen, []string{"to-save", "load"})
	engine.ParallelFor(len(cases), func(_, i int) { runSaveDst(&cases[i]) })
	rep.NonTrivial(int64(len(cases)))
	rep.AddStates(int64(len(cases)))
	rep.Count("savedst/histories-on-one-save.Chunk", int64(len(cases)))
	rep.Extra("savedst_menu", menuNames(saveMenu))
	rep.Extra("savedst_prefill", []string{"to-save: ChunkToSave of the earlier chunks into the same save.Chunk", "load: the same, then save.Chunk.Data(3) and Load into the save.Chunk that is converted into next"})
	rep.Extra("savedst_max_conversions_into_one_save.Chunk", maxLen)
	rep.Sample(cases[len(cases)-1])
}

func runSaveDst(cs *Case) {
	n := len(cs.Seq)
	for _, k := range cs.Seq {
		if k < 0 || k >= len(saveMenu) {
			engine.HarnessError("savedst: menu index %d", k)
		}
	}
	tmpl := saveTemplate(-4)
	sc := &tmpl
	for _, k := range cs.Seq[:n-1] {
		item := saveMenu[k]
		pb := buildChunk(&item)
		if pb.failure != "" {
			rep.Count("diagnostic/savedst/earlier-chunk-not-built", 1)
			return
		}
		atomic.AddInt64(&setOpsTotal, pb.setOps)
		var err error
		if _, _, p := engine.Guard(func() { err = level.ChunkToSave(pb.c, sc) }); p || err != nil {
			rep.Count("diagnostic/savedst/earlier-conversion-failed", 1)
			return
		}
		atomic.AddInt64(&convExec, 1)
		if cs.Prefill == "load" {
			var data []byte
			loaded := &save.Chunk{}
			if _, _, p := engine.Guard(func() {
				if data, err = sc.Data(3); err == nil {
					err = loaded.Load(data)
				}
			}); p || err != nil {
				rep.Count("diagnostic/savedst/earlier-conversion-failed", 1)
				return
			}
			sc = loaded
		}
	}
	item := saveMenu[cs.Seq[n-1]]
	b := buildChunk(&item)
	j := &judge{cs: &item, b: b, rec: cs, ctx: fmt.Sprintf("ChunkToSave history %v into one save.Chunk (menu indices, see savedst_menu), earlier contents by %q", cs.Seq, cs.Prefill)}
	atomic.AddInt64(&setOpsTotal, b.setOps)
	if b.failure != "" {
		j.fail("build/set-history/panic/"+b.failure+"@"+b.frame, "building the chunk panicked: "+b.failure+" in "+b.frame)
		return
	}
	var err error
	kind, frame, p := engine.Guard(func() { err = level.ChunkToSave(b.c, sc) })
	atomic.AddInt64(&convExec, 1)
	if p {
		j.fail("save/to-save/panic/"+kind+"@"+frame+"/destination=used", "ChunkToSave into a used save.Chunk panicked: "+kind+" in "+frame)
		return
	}
	if err != nil {
		j.fail("save/to-save/error/destination=used", "ChunkToSave into a used save.Chunk failed: "+err.Error())
		return
	}
	j.judgeSaved(sc, "save.used-destination")
}

// ---------------------------------------------------------------------------------------
// twolive: the outputs of two conversions alive at once

func twoLivePart() {
	var cases []Case
	for a := range saveMenu {
		for b := range saveMenu {
			for _, ct := range []string{"none", "gzip", "zlib"} {
				cases = append(cases, Case{Part: "twolive", Seq: []int{a, b}, Comp: ct, Ordinal: len(cases)})
			}
		}
	}
	engine.ParallelFor(len(cases), func(_, i int) { runTwoLive(&cases[i]) })
	rep.NonTrivial(int64(len(cases)))
	rep.AddStates(int64(len(cases)))
	rep.Count("twolive/pairs-of-chunks-converted-before-either-is-read-back", int64(len(cases)))
	rep.Extra("twolive_menu", "savedst_menu, every ordered pair x compression {none, gzip, zlib}")
	rep.Sample(cases[len(cases)-1])
}

func runTwoLive(cs *Case) {
	if len(cs.Seq) != 2 {
		engine.HarnessError("twolive: bad case %+v", *cs)
	}
	var ct byte
	for k, v := range compNames {
		if v == cs.Comp {
			ct = k
		}
	}
	if ct == 0 {
		engine.HarnessError("twolive: unknown compression %q", cs.Comp)
	}
	type side struct {
		item   Case
		j      *judge
		sc     save.Chunk
		data   []byte
		wire   []byte
		loaded save.Chunk
	}
	var sides [2]*side
	// phase 1: every conversion away from the chunk, for both chunks
	for i, k := range cs.Seq {
		if k < 0 || k >= len(saveMenu) {
			engine.HarnessError("twolive: menu index %d", k)
		}
		sd := &side{item: saveMenu[k]}
		sd.item.BE = "nested+empty" // the network sentence lists block entities
		sides[i] = sd
		b := buildChunk(&sd.item)
		sd.j = &judge{cs: &sd.item, b: b, rec: cs, ctx: fmt.Sprintf("chunks %v (savedst_menu) both converted (compression %s) before either result is read back; this is chunk #%d of the pair", cs.Seq, cs.Comp, i+1)}
		atomic.AddInt64(&setOpsTotal, b.setOps)
		if b.failure != "" {
			sd.j.fail("build/set-history/panic/"+b.failure+"@"+b.frame, "building the chunk panicked: "+b.failure+" in "+b.frame)
			return
		}
		sd.sc = saveTemplate(-4)
		var err error
		kind, frame, p := engine.Guard(func() {
			if err = level.ChunkToSave(b.c, &sd.sc); err != nil {
				return
			}
			if sd.data, err = sd.sc.Data(ct); err != nil {
				return
			}
			var buf bytes.Buffer
			if _, err = b.c.WriteTo(&buf); err == nil {
				sd.wire = buf.Bytes()
			}
		})
		atomic.AddInt64(&convExec, 3)
		if p || err != nil {
			// every one of these conversions is judged on its own by the chunk part
			rep.Count("diagnostic/twolive/conversion-failed", 1)
			_, _ = kind, frame
			return
		}
	}
	// phase 2: read everything back
	for _, sd := range sides {
		j := sd.j
		j.direct = map[string]bool{}
		j.fromSave(&sd.sc, "save.two-live", "", func(c string) bool { j.direct[c] = true; return true })
		var err error
		kind, frame, p := engine.Guard(func() { err = sd.loaded.Load(sd.data) })
		atomic.AddInt64(&convExec, 1)
		if p || err != nil {
			j.fail("save.two-live.nbt/load/failed", fmt.Sprintf("save.Chunk.Load of the %d bytes save.Chunk.Data(%d) returned for this chunk: panic=%v (%s@%s) err=%v", len(sd.data), ct, p, kind, frame, err))
		} else {
			j.fromSave(&sd.loaded, "save.two-live.nbt", "", func(c string) bool { return !j.direct[c] })
		}
		data := append(append([]byte(nil), sd.wire...), sentinel...)
		br := bytes.NewReader(data)
		dst := level.EmptyChunk(sd.item.Secs)
		var rerr error
		kind, frame, p = engine.Guard(func() { _, rerr = dst.ReadFrom(br) })
		atomic.AddInt64(&convExec, 1)
		rep.Eval(1)
		tag := "two-live"
		if p || rerr != nil {
			j.fail("net/read/failed/"+tag, fmt.Sprintf("Chunk.ReadFrom of what WriteTo produced: panic=%v (%s@%s) err=%v", p, kind, frame, rerr))
			continue
		}
		if consumed := len(data) - br.Len(); consumed != len(sd.wire) {
			j.fail("net/consumed-differs-from-written/"+tag, fmt.Sprintf("WriteTo wrote %d bytes, ReadFrom consumed %d", len(sd.wire), consumed))
		}
		j.compareNet(dst, tag)
	}
}

// ---------------------------------------------------------------------------------------
// sweep: widths and section counts outside the main product

func sweepCases() []Case {
	var cases []Case
	allB := append(append([]blockShape(nil), blockShapes...), extraBlockShapes...)
	allO := append(append([]biomeShape(nil), biomeShapes...), extraBiomeShapes...)
	for bi, bs := range allB {
		for oi, os := range allO {
			if bi < len(blockShapes) && oi < len(biomeShapes) {
				continue // in the main product
			}
			cases = append(cases, Case{Part: "chunk", Secs: 1, Blocks: bs.Name, Biomes: os.Name, HM: "pattern", BE: "nested+empty", Light: "mixed", Status: "minecraft:full", Ordinal: len(cases)})
		}
	}
	for secs := 3; secs <= 23; secs++ {
		for _, hm := range []string{"max", "pattern"} {
			cases = append(cases, Case{Part: "chunk", Secs: secs, Blocks: blockShapes[secs%len(blockShapes)].Name, Biomes: biomeShapes[secs%len(biomeShapes)].Name, Mix: true,
				HM: hm, BE: "nested", Light: "mixed", Status: "minecraft:full", Ordinal: len(cases)})
		}
	}
	return cases
}

func sweepPart() {
	cases := sweepCases()
	engine.ParallelFor(len(cases), func(_, i int) { runChunkCase(&cases[i]) })
	rep.NonTrivial(int64(len(cases)))
	rep.AddStates(int64(len(cases)))
	rep.Count("sweep/chunk-descriptors(extra widths, 3..23 sections)", int64(len(cases)))
	var names []string
	for _, s := range extraBlockShapes {
		names = append(names, "blocks="+s.Name)
	}
	for _, s := range extraBiomeShapes {
		names = append(names, "biomes="+s.Name)
	}
	rep.Extra("sweep_extra_shapes", names)
	rep.Extra("sweep_sections", "3..23 (shapes rotated over the sections, height maps max and pattern)")
	rep.Sample(cases[0])
}
