package main

// Part (iii): BlockCount against an independent recount after EVERY SetBlock history up to
// the depth bound, over positions {0,1,4095} x states {air, cave_air, void_air, stone, 15-bit id},
// from several starting sections and with a wire round trip inserted at every place.

import (
	"bytes"
	"fmt"
	"sync/atomic"
	"time"

	"github.com/Tnze/go-mc/level"
	"github.com/Tnze/go-mc/save"

	"verif/engine"
)

var (
	ctrPositions = []int{0, 1, 4095}
	ctrStates    = []string{"air", "cave_air", "void_air", "stone", "high"}
	ctrStarts    = []string{"fresh", "wire", "save-stone", "save-cave_air"}
	ctrProbe     = []int{0, 1, 2, 15, 16, 17, 255, 256, 2047, 2048, 4093, 4094, 4095}
	ctrHistories int64
	ctrOps       int64
)

func ctrStateID(name string) int {
	switch name {
	case "air":
		return idAir
	case "cave_air":
		return idCaveAir
	case "void_air":
		return idVoidAir
	case "stone":
		return idStone
	case "high":
		return idHigh
	}
	engine.HarnessError("unknown counter state %q", name)
	return 0
}

func ctrStateName(id int) string {
	for _, n := range ctrStates {
		if ctrStateID(n) == id {
			return n
		}
	}
	return "other"
}

const nCtrOps = 15

func ctrOp(i int) Op { return Op{Pos: ctrPositions[i/5], State: ctrStates[i%5]} }

func startIndex(s string) int {
	for i, v := range ctrStarts {
		if v == s {
			return i
		}
	}
	engine.HarnessError("unknown start %q", s)
	return 0
}

// wireRT sends a section through Section.WriteTo / Section.ReadFrom into a fresh section.
func wireRT(sec *level.Section) (*level.Section, string) {
	var buf bytes.Buffer
	var err error
	if k, f, p := engine.Guard(func() { _, err = sec.WriteTo(&buf) }); p {
		return nil, "write-panic/" + k + "@" + f
	} else if err != nil {
		return nil, "write-error"
	}
	dst := &level.EmptyChunk(1).Sections[0]
	if k, f, p := engine.Guard(func() { _, err = dst.ReadFrom(&buf) }); p {
		return nil, "read-panic/" + k + "@" + f
	} else if err != nil {
		return nil, "read-error"
	}
	if buf.Len() != 0 {
		return nil, "bytes-left-unread"
	}
	return dst, ""
}

func runCounterCase(cs *Case, size int) {
	fail := func(class, detail string) {
		c := *cs
		c.Ops = append([]Op(nil), cs.Ops...) // the enumerator reuses the slice
		recordFailure(class, size, func() engine.Failure {
			return engine.Failure{Detail: fmt.Sprintf("start=%s history=%s wire-round-trip-after-op=%d: %s", c.Start, opsString(c.Ops), c.RT, detail), Case: c}
		})
	}
	atomic.AddInt64(&ctrHistories, 1)
	rep.Eval(1)
	def := idAir
	var sec *level.Section
	switch cs.Start {
	case "fresh", "wire":
		sec = &level.EmptyChunk(1).Sections[0]
		if cs.Start == "wire" {
			var why string
			if sec, why = wireRT(sec); sec == nil {
				fail("counter/wire-round-trip-failed/"+why+"/start", "an untouched section did not survive Section.WriteTo/ReadFrom")
				return
			}
		}
	case "save-stone", "save-cave_air":
		name := "minecraft:" + cs.Start[5:]
		def = idStone
		if cs.Start == "save-cave_air" {
			def = idCaveAir
		}
		sc := save.Chunk{Sections: []save.Section{{
			BlockStates: save.PaletteContainer[save.BlockState]{Palette: []save.BlockState{{Name: name}}},
			Biomes:      save.PaletteContainer[save.BiomeState]{Palette: []save.BiomeState{"minecraft:plains"}},
		}}}
		var c *level.Chunk
		var err error
		if k, f, p := engine.Guard(func() { c, err = level.ChunkFromSave(&sc) }); p || err != nil {
			fail("counter/start/from-save-failed", fmt.Sprintf("ChunkFromSave of a one-section chunk of %s: panic=%v (%s@%s) err=%v", name, p, k, f, err))
			return
		}
		sec = &c.Sections[0]
	default:
		engine.HarnessError("unknown start %q", cs.Start)
	}
	touched := map[int]int{}
	want := func() int {
		n := 0
		if !airByName[def] {
			n = 4096 - len(touched)
		}
		for _, v := range touched {
			if !airByName[v] {
				n++
			}
		}
		return n
	}
	if int(sec.BlockCount) != want() {
		fail("counter/block-count-differs/start="+cs.Start+"/before-any-SetBlock", fmt.Sprintf("BlockCount=%d, non-air blocks=%d", sec.BlockCount, want()))
		return
	}
	for k, op := range cs.Ops {
		id := ctrStateID(op.State)
		old, ok := touched[op.Pos]
		if !ok {
			old = def
		}
		if kd, f, p := engine.Guard(func() { sec.SetBlock(op.Pos, level.BlocksState(id)) }); p {
			fail("counter/set-block/panic/"+kd+"@"+f, fmt.Sprintf("SetBlock #%d panicked: %s", k+1, kd))
			return
		}
		atomic.AddInt64(&ctrOps, 1)
		touched[op.Pos] = id
		if int(sec.BlockCount) != want() {
			fail("counter/block-count-differs/start="+cs.Start+"/set-"+op.State+"-over-"+ctrStateName(old),
				fmt.Sprintf("after SetBlock #%d (%s at %d over %s): BlockCount=%d, non-air blocks (by registry name)=%d", k+1, op.State, op.Pos, ctrStateName(old), sec.BlockCount, want()))
			return
		}
		if cs.RT == k+1 {
			var why string
			if sec, why = wireRT(sec); sec == nil {
				fail("counter/wire-round-trip-failed/"+why, fmt.Sprintf("after SetBlock #%d", k+1))
				return
			}
			if int(sec.BlockCount) != want() {
				fail("counter/block-count-differs/start="+cs.Start+"/after-wire-round-trip",
					fmt.Sprintf("after SetBlock #%d and a wire round trip: BlockCount=%d, non-air blocks=%d", k+1, sec.BlockCount, want()))
				return
			}
		}
	}
	// what the section really holds, everywhere
	recount, bad, gotv := 0, -1, 0
	if cs.RT != 0 && cs.RT != len(cs.Ops) {
		// a round trip in the middle: its end state is the end state of the shorter history with
		// the round trip at the end followed by plain SetBlocks; scan the touched positions and
		// their neighbours only
		for _, i := range ctrProbe {
			var v int
			if kd, f, p := engine.Guard(func() { v = int(sec.GetBlock(i)) }); p {
				fail("counter/get-block/panic/"+kd+"@"+f, "GetBlock panicked: "+kd)
				return
			}
			w, ok := touched[i]
			if !ok {
				w = def
			}
			if v != w {
				fail("counter/block-state-differs/start="+cs.Start, fmt.Sprintf("position %d holds %d (%s), want %d (%s)", i, v, stateName(v), w, stateName(w)))
				return
			}
		}
		atomic.AddInt64(&posCompared, int64(len(ctrProbe)))
		return
	}
	if kd, f, p := engine.Guard(func() {
		for i := 0; i < 4096; i++ {
			v := int(sec.GetBlock(i))
			w, ok := touched[i]
			if !ok {
				w = def
			}
			if v != w && bad < 0 {
				bad, gotv = i, v
			}
			if v < 0 || v >= nStates || !airByName[v] {
				recount++
			}
		}
	}); p {
		fail("counter/get-block/panic/"+kd+"@"+f, "GetBlock panicked: "+kd)
		return
	}
	atomic.AddInt64(&posCompared, 4096)
	if bad >= 0 {
		w, ok := touched[bad]
		if !ok {
			w = def
		}
		fail("counter/block-state-differs/start="+cs.Start, fmt.Sprintf("position %d holds %d (%s), want %d (%s)", bad, gotv, stateName(gotv), w, stateName(w)))
		return
	}
	if int(sec.BlockCount) != recount {
		fail("counter/block-count-differs/start="+cs.Start+"/recount-of-held-blocks", fmt.Sprintf("BlockCount=%d, the section holds %d non-air blocks", sec.BlockCount, recount))
	}
}

func opsString(ops []Op) string {
	s := "["
	for i, o := range ops {
		if i > 0 {
			s += " "
		}
		s += fmt.Sprintf("%s@%d", o.State, o.Pos)
	}
	return s + "]"
}

// counterPart enumerates every history of depth 0..D x every start x every round-trip place.
func counterPart(D int, allRT bool, deadline time.Time) {
	type item struct {
		start, d, lo, hi int
	}
	var items []item
	pow := 1
	for d := 0; d <= D; d++ {
		for s := range ctrStarts {
			const step = 3375
			for lo := 0; lo < pow; lo += step {
				hi := lo + step
				if hi > pow {
					hi = pow
				}
				items = append(items, item{s, d, lo, hi})
			}
		}
		pow *= nCtrOps
	}
	var skipped int64
	engine.ParallelFor(len(items), func(_, ii int) {
		it := items[ii]
		if time.Now().After(deadline) {
			atomic.AddInt64(&skipped, int64(it.hi-it.lo))
			return
		}
		ops := make([]Op, it.d)
		for seq := it.lo; seq < it.hi; seq++ {
			x := seq
			for k := it.d - 1; k >= 0; k-- {
				ops[k] = ctrOp(x % nCtrOps)
				x /= nCtrOps
			}
			for rt := 0; rt <= it.d; rt++ {
				if rt > 0 && !allRT && ctrStarts[it.start] != "fresh" {
					break // quick: the round trip at every place only from the fresh section
				}
				cs := Case{Part: "counter", Start: ctrStarts[it.start], Ops: ops, RT: rt}
				size := ((it.d*8+rt)*4+it.start)*800000 + seq
				runCounterCase(&cs, size)
			}
		}
	})
	if skipped > 0 {
		rep.Cap("counter part: deadline hit, %d operation sequences (longest depth last) not executed", skipped)
	}
	rep.Extra("counter_history_depth", D)
	rep.Extra("counter_round_trip_at_every_place_from_every_start", allRT)
}
