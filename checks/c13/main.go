// C13 — chunk wire/save conversions preserve blocks, biomes, height maps, block entities; the
// block-state <-> (name, properties) mapping is a bijection; BlockCount == number of non-air blocks.
//
// Exhaustive enumeration (never sampled) of three finite spaces, every case executed on the REAL
// go-mc code and judged against plain-array models:
//
//	registry  ALL states of block.StateList, packed into sections of 1 (single-value palette),
//	          15 (+air: linear palette) and 255 (+air: hash palette) states: ChunkToSave -> the
//	          saved (name, properties) of every state read with the independent NBT reader ->
//	          injective over the whole registry; ChunkFromSave (and save.Chunk.Data/Load) must
//	          give every state id back at every position; ToStateID[StateList[id]] == id.
//	chunk     the cross product sections {1,2,24} x block-palette shape (single/<=16/17-256/>=257,
//	          two or three boundary sizes of each: 9 shapes) x biome shape (single/2-8/>=9: 6 shapes)
//	          x height maps {zero,max,a distinct pattern per map} x block entities {0,1,2; empty /
//	          nested / absent NBT} x light {absent,present,mixed} x status (quick 2, thorough 15
//	          values); sections of a multi-section chunk rotate through all shapes starting at the
//	          named one (thorough: also uniform). Each chunk is built by SetBlock histories, then
//	          WriteTo -> ReadFrom into {fresh chunk from bytes.Reader, fresh from a plain io.Reader
//	          (fed with what WriteTo hands to a plain io.Writer instead of a bytes.Buffer),
//	          previously used chunk} of the same section count, and ChunkToSave -> ChunkFromSave with
//	          YPos {-4, 0} directly and through save.Chunk.Data/Load with compression {none, gzip,
//	          zlib}. Sub-variants that would repeat the very same execution are run once: the
//	          network form does not contain the status (2nd.. status: fresh/bytes.Reader read only);
//	          ChunkToSave does not look at block entities (other configurations: YPos=-4 direct only,
//	          unless save.Chunk.BlockEntities comes back non-empty).
//	counter   ALL SetBlock histories of depth <= 4 (5) over positions {0,1,4095} x states {air,
//	          cave_air, void_air, stone, a 15-bit id} x start {fresh, after a wire round trip,
//	          loaded from save as all-stone / all-cave_air}; a Section wire round trip inserted after
//	          every step (quick: from the fresh start only; thorough: from every start).
//
//	histories on ONE destination / ONE source / ONE save.Chunk and the width / section-count sweep:
//	          see the header of history.go.
//
// Oracles are exactly the clauses of the statement; everything else (returned byte counts,
// block entities through the save form, nil-vs-empty light arrays, fields level.Chunk does not
// carry, NBT field order) is counted as unspecified.
package main

import (
	"encoding/json"
	"fmt"
	"os"
	"runtime/pprof"
	"strings"
	"sync"
	"sync/atomic"
	"time"

	"github.com/Tnze/go-mc/level"

	"verif/engine"
	"verif/ref/refnbt"
	"verif/ref/refpal"
)

var rep *engine.Report

func main() {
	rep = engine.NewReport("C13")
	rep.Rule = "registry: every state id x group sizes {1,15,255} (one section per group, distinct = (group size, group)); " +
		"chunk: full cross product sections x block shape x biome shape x height-map class x block-entity configuration x light class x status " +
		"(distinct = distinct descriptor; every descriptor builds a different chunk; each runs 1-3 network reads and 1-5 save reads, see the header of main.go); " +
		"counter: every SetBlock history up to the depth bound x start x round-trip place (distinct = distinct (start, history, place)); " +
		"histories on one object (history.go; menus in nethist_menu / srchist_source_menu / srchist_steps / savedst_menu): nethist = every sequence of <=3 (4) menu chunks read into ONE destination, " +
		"srchist = one source under every sequence of <=3 (4) conversions and mutations ending in a conversion, savedst = every ordered pair (triple) of menu chunks converted into ONE save.Chunk " +
		"(distinct = distinct sequence; the last conversion of each is judged), twolive = every ordered pair of savedst chunks x compression with both converted before either result is read back; sweep = chunk descriptors for the palette widths and section counts 3..23 outside the main product. " +
		"non-trivial = all (every case reaches the conversion / the counter)"
	initRegistries()
	if pf := os.Getenv("C13_CPUPROFILE"); pf != "" { // development aid only
		if f, err := os.Create(pf); err == nil {
			pprof.StartCPUProfile(f)
			defer pprof.StopCPUProfile()
			stopProfile = pprof.StopCPUProfile
		}
	}
	if rep.ReplayPath != "" {
		replay()
		return
	}
	selftest()
	loadRegistryFile()
	// development aid only: C13_PARTS=registry,chunk,sweep,nethist,srchist,savedst,twolive,counter runs a subset
	// (the run is then marked as capped)
	want := func(string) bool { return true }
	if sel := os.Getenv("C13_PARTS"); sel != "" {
		rep.Cap("C13_PARTS=%s: only these parts were run", sel)
		want = func(p string) bool { return strings.Contains(","+sel+",", ","+p+",") }
	}
	t0 := time.Now()
	if want("registry") {
		registryPart()
	}
	t1 := time.Now()
	if want("chunk") {
		chunkPart()
	}
	th := time.Now()
	if want("sweep") {
		sweepPart()
	}
	if want("nethist") {
		netHistPart()
	}
	if want("srchist") {
		srcHistPart()
	}
	if want("savedst") {
		saveDstPart()
	}
	if want("twolive") {
		twoLivePart()
	}
	rep.Extra("seconds_sweep_and_history_families", time.Since(th).Seconds())
	t2 := time.Now()
	D := 4
	if rep.Thorough() {
		D = 5
	}
	ctrDeadline := time.Now().Add(90 * time.Second)
	if rep.Thorough() {
		ctrDeadline = time.Now().Add(14*time.Minute - rep.Elapsed())
	}
	if want("counter") {
		counterPart(D, rep.Thorough(), ctrDeadline)
	}
	t3 := time.Now()
	rep.Extra("seconds_registry_chunk_counter", []float64{t1.Sub(t0).Seconds(), t2.Sub(t1).Seconds(), t3.Sub(t2).Seconds()})
	rep.Extra("network_writer_x_reader_x_destination", []string{"bytes.Buffer -> bytes.Reader -> fresh", "plain io.Writer -> plain io.Reader -> fresh", "bytes.Buffer -> bytes.Reader -> used (rich chunk read before)", "bytes.Buffer -> bytes.Reader -> used by a chunk of the same shape (one-section chunks)"})
	rep.Extra("registry_states", nStates)
	rep.Extra("biome_registry", nBiomes)
	rep.Count("conversions-executed", atomic.LoadInt64(&convExec))
	rep.Count("SetBlock-operations-building-chunks", atomic.LoadInt64(&setOpsTotal))
	rep.Count("positions-compared", atomic.LoadInt64(&posCompared))
	rep.Count("counter/histories", atomic.LoadInt64(&ctrHistories))
	rep.NonTrivial(atomic.LoadInt64(&ctrHistories))
	rep.AddStates(atomic.LoadInt64(&ctrHistories))
	rep.Count("counter/SetBlock-operations", atomic.LoadInt64(&ctrOps))
	rep.AddTrans(atomic.LoadInt64(&setOpsTotal) + atomic.LoadInt64(&ctrOps) + atomic.LoadInt64(&convExec))
	rep.AddTraces(rep.Evaluations)
	rep.Assume("the reference NBT reader (ref/refnbt) and bit packer (ref/refpal) are trusted and pinned by their self-tests; air-ness is decided from the registry name (minecraft:air, cave_air, void_air)")
	rep.Assume("save.Chunk's raw NBT fields (block_ticks, fluid_ticks, PostProcessing, structures) are pre-filled with empty values: a save.Chunk whose raw fields are unset cannot be encoded at all, which is outside this property")
	stopProfile()
	rep.Finish()
}

var stopProfile = func() {}

// record is rep.FailLazy; while replaying, only the replayed class is recorded (the case may
// fail other classes too - they are printed, but their own minimal witnesses are left alone).
var (
	replayClass string
	alsoMu      sync.Mutex
	alsoFails   = map[string]bool{}
)

func recordFailure(class string, size int, mk func() engine.Failure) {
	if replayClass != "" && class != replayClass {
		alsoMu.Lock()
		if !alsoFails[class] {
			alsoFails[class] = true
			fmt.Printf("NOTE: the replayed case also fails class %s: %s\n", class, clip(mk().Detail, 300))
		}
		alsoMu.Unlock()
		return
	}
	rep.FailLazy(class, size, mk)
}

func selftest() {
	if err := refpal.SelfTest(); err != nil {
		engine.HarnessError("refpal self-test: %v", err)
	}
	// the nested block-entity payload must survive the reference writer/reader
	be := mkBE("nested", 0, 0, 0)
	tree, err := rawTree(be.Tag, be.Data)
	if err != nil || !refnbt.Equal(tree, be.Tree, false) || canon(tree) != canon(nestedTree()) {
		engine.HarnessError("refnbt self-test: nested payload does not round trip: %v", err)
	}
	// the save template must be encodable (precondition of the Data/Load path)
	sc := saveTemplate(0)
	if err := level.ChunkToSave(level.EmptyChunk(1), &sc); err != nil {
		engine.HarnessError("save template: ChunkToSave of an empty chunk failed: %v", err)
	}
	data, err := sc.Data(3)
	if err != nil {
		engine.HarnessError("save template is not encodable: %v", err)
	}
	if _, n, used, err := refnbt.Parse(data[1:], false); err != nil || used != len(data)-1 || n.Tag != refnbt.Compound {
		engine.HarnessError("save template: Data(3) is not one well-formed NBT compound: %v", err)
	}
	// wire layout reader against a hand-assembled chunk: {} heightmaps, 2 data bytes, one entity, 3 light bytes
	b := []byte{0x0a, 0x00, 0x02, 0xaa, 0xbb, 0x01, 0x12, 0xff, 0xc0, 0x05, 0x0a, 0x00, 9, 9, 9}
	l := parseWire(b)
	if l.Err != nil || len(l.Fields) != 4 || l.Fields[1].End != 5 || l.Fields[2].End != 12 || len(l.BE) != 1 || l.BE[0].Y != -64 || l.BE[0].Type != 5 || l.where(12, len(b)) != "start-of-light-data" {
		engine.HarnessError("wire layout self-test failed: %+v", l)
	}
}

// ---------------------------------------------------------------------------------------

func registryPart() {
	regKeys = make([]string, nStates)
	var cases []Case
	for _, g := range []int{255, 15, 1} {
		for i := 0; i*g < nStates; i++ {
			cases = append(cases, Case{Part: "registry", GroupSize: g, Group: i, Ordinal: len(cases)})
		}
	}
	engine.ParallelFor(len(cases), func(_, i int) { runRegistryCase(&cases[i], true) })
	registryBijection()
	rep.NonTrivial(int64(len(cases)))
	rep.AddStates(int64(3 * nStates))
	rep.Count("registry/sections-converted", int64(len(cases)))
	rep.Sample(cases[0])
}

func chunkCases(thorough bool) []Case {
	statuses := []string{"empty", "minecraft:full"}
	bes := []string{"none", "empty", "nested", "empty+nested", "nested+empty", "end"}
	if thorough {
		statuses = []string{"empty", "structure_starts", "structure_references", "biomes", "noise", "surface", "carvers", "liquid_carvers", "features", "light", "spawn", "heightmaps", "full", "", "minecraft:full"}
	}
	var cases []Case
	for _, secs := range []int{1, 2, 24} {
		mixes := []bool{false}
		if secs > 1 {
			mixes = []bool{true}
			if thorough {
				mixes = []bool{true, false}
			}
		}
		for _, mix := range mixes {
			for _, bs := range blockShapes {
				for _, os := range biomeShapes {
					for _, hm := range []string{"zero", "max", "pattern"} {
						for _, be := range bes {
							for _, light := range []string{"absent", "present", "mixed"} {
								for _, st := range statuses {
									cases = append(cases, Case{Part: "chunk", Secs: secs, Blocks: bs.Name, Biomes: os.Name, Mix: mix, HM: hm, BE: be, Light: light, Status: st, Ordinal: len(cases), leanNet: st != statuses[0]})
								}
							}
						}
					}
				}
			}
		}
	}
	// shapes outside the stated product, executed for totality only (verdict: unspecified)
	for _, secs := range []int{1, 2} {
		cases = append(cases, Case{Part: "chunk", Secs: secs, Blocks: "le16:d16", Biomes: "2-8:d8", HM: "zero", BE: "none", Light: "absent", Status: "full", Extra: "nil-heightmaps", Ordinal: len(cases)})
	}
	return cases
}

func chunkPart() {
	cases := chunkCases(rep.Thorough())
	deadline := time.Now().Add(150 * time.Second)
	if rep.Thorough() {
		deadline = time.Now().Add(20 * time.Minute)
	}
	wd := engine.NewWatchdog(engine.Workers()+1, 60*time.Second, func(desc string) {
		var c Case
		json.Unmarshal([]byte(desc), &c)
		rep.Fail(engine.Failure{Class: "chunk/non-termination", Detail: "one chunk case ran for more than 60 s: " + desc, Case: c}, 0)
		rep.Cap("aborted by the non-termination watchdog")
		rep.Finish()
	})
	var done, skipped int64
	engine.ParallelFor(len(cases), func(slot, i int) {
		if time.Now().After(deadline) {
			atomic.AddInt64(&skipped, 1)
			return
		}
		cs := &cases[i]
		wd.Begin(slot, func() string { b, _ := json.Marshal(cs); return string(b) })
		runChunkCase(cs)
		wd.End(slot)
		atomic.AddInt64(&done, 1)
	})
	if skipped > 0 {
		rep.Cap("chunk part: deadline hit, %d of %d descriptors not executed (enumeration order: sections 1, 2, 24)", skipped, len(cases))
	}
	rep.NonTrivial(done)
	rep.AddStates(done)
	rep.Count("chunk/descriptors", done)
	rep.Sample(cases[0])
	rep.Sample(cases[len(cases)/2])
	rep.Sample(cases[len(cases)-3])
}

// ---------------------------------------------------------------------------------------

func replay() {
	rp, err := engine.LoadReplay(rep.ReplayPath)
	if err != nil {
		engine.HarnessError("cannot load replay: %v", err)
	}
	var c Case
	if err := json.Unmarshal(rp.Case, &c); err != nil {
		engine.HarnessError("bad case: %v", err)
	}
	fmt.Printf("replaying %s case of class %s\n", c.Part, rp.Class)
	replayClass = rp.Class
	for i := 0; i < 5; i++ {
		switch c.Part {
		case "registry":
			regKeys = make([]string, nStates)
			runRegistryCase(&c, false)
		case "chunk":
			runChunkCase(&c)
		case "counter":
			runCounterCase(&c, 0)
		case "nethist":
			runNetHist(&c)
		case "srchist":
			runSrcHist(&c)
		case "savedst":
			runSaveDst(&c)
		case "twolive":
			runTwoLive(&c)
		default:
			fmt.Fprintln(os.Stderr, "unknown part", c.Part)
			os.Exit(2)
		}
	}
	rep.Finish()
}
