package main

import (
	"bytes"
	"encoding/hex"
	"fmt"
	"io"
	"strings"

	"github.com/Tnze/go-mc/chat"
	mcnet "github.com/Tnze/go-mc/net"
	pk "github.com/Tnze/go-mc/net/packet"

	"verif/engine"
	"verif/ref/refframe"
	"verif/ref/refrcon"
	"verif/ref/refwire"
)

// Input is one byte string that is exactly one value for the operation it is listed under.
type Input struct {
	ID   string
	Data []byte
	// Optional inputs come from a generator shared by several targets; when the contiguous run
	// rejects one (document shape does not fit the target) it is skipped and counted. A rejected
	// hand-picked input is a harness error.
	Optional bool
}

// ReadOp is one stream-reading operation of go-mc.
type ReadOp struct {
	Name string
	// Run performs the operation on r with a fresh destination. n < 0: the API reports no count.
	Run    func(r io.Reader) (val any, n int64, err error)
	Inputs []Input
	// ToEOF: the operation is defined as "everything up to EOF" (PluginMessageData): no sentinel
	// tail is appended, and a stream that *ends* early is just a shorter value (unspecified).
	ToEOF bool
	// NoByteSrc: the operation cannot see whether the source is an io.ByteReader.
	NoByteSrc bool
	// PooledRequests: the sizes of the operation's Read requests depend on process state (compressed-mode
	// UnPack copies the frame into a pooled bytes.Buffer whose spare capacity decides how much it asks
	// for once the frame is longer than 512 bytes). The results do not, but "the i-th Read returns
	// fewer bytes" is then not a reproducible environment; such inputs get cut-position environments.
	PooledRequests bool
	// Class is the entry point named in failure classes when several operations differ only in a
	// size parameter (default: Name).
	Class string
}

func (o *ReadOp) class() string {
	if o.Class != "" {
		return o.Class
	}
	return o.Name
}

func hx(s string) []byte {
	b, err := hex.DecodeString(strings.ReplaceAll(s, " ", ""))
	if err != nil {
		engine.HarnessError("bad hex literal %q: %v", s, err)
	}
	return b
}

func in(id string, data []byte) Input { return Input{ID: id, Data: data} }

// noise returns n bytes of a fixed xorshift sequence: deflate cannot shrink them, so a compressed frame
// of n payload bytes is itself longer than n bytes.
func noise(n int) []byte {
	b := make([]byte, n)
	x := uint32(0x9E3779B9)
	for i := range b {
		x ^= x << 13
		x ^= x >> 17
		x ^= x << 5
		b[i] = byte(x >> 11)
	}
	return b
}

// pattern returns n non-zero, non-repeating-looking bytes (a partial fill is always visible).
func pattern(n int) []byte {
	b := make([]byte, n)
	for i := range b {
		b[i] = byte(1 + (i*7+3)%250)
	}
	return b
}

func text(n int) string {
	b := make([]byte, n)
	for i := range b {
		b[i] = byte('a' + i%26)
	}
	return string(b)
}

// rf builds the ReadFrom operation of a field type whose pointer is a FieldDecoder.
func rf[T any, P interface {
	*T
	io.ReaderFrom
}](name string, inputs ...Input) *ReadOp {
	return &ReadOp{Name: name + ".ReadFrom", Inputs: inputs, Run: func(r io.Reader) (any, int64, error) {
		var v T
		n, err := P(&v).ReadFrom(r)
		return v, n, err
	}}
}

type pktVal struct {
	ID   int32
	Data []byte
}

func unpackOp(name string, threshold int, reuse bool, inputs []Input) *ReadOp {
	return &ReadOp{Name: name, Inputs: inputs, PooledRequests: threshold >= 0, Run: func(r io.Reader) (any, int64, error) {
		var p pk.Packet
		if reuse {
			p.Data = bytes.Repeat([]byte{0xAA}, 1024)[:0]
		}
		err := p.UnPack(r, threshold)
		return pktVal{p.ID, append([]byte(nil), p.Data...)}, -1, err
	}}
}

func frames(compression bool, deflate func(n int) bool) []Input {
	var out []Input
	for _, id := range []int32{0, 0x7f, 0x80, 300, -1} {
		for _, n := range []int{0, 1, 5, 130, 300} {
			// keep the product small: the full payload range for id 0, the id range for payload 5
			if id != 0 && n != 5 {
				continue
			}
			payload := pattern(n)
			var data []byte
			name := fmt.Sprintf("id=%d,payload=%d", id, n)
			switch {
			case !compression:
				data = refframe.AppendPlain(nil, id, payload)
			case deflate(n):
				data = refframe.AppendCompressionMode(nil, id, payload, true)
				name += ",deflated"
			default:
				data = refframe.AppendCompressionMode(nil, id, payload, false)
				name += ",stored"
			}
			out = append(out, in(name, data))
		}
	}
	// size classes (see sizeDocs): id 1, an incompressible payload (the compressed body is as long as the payload)
	for _, n := range sizeClasses() {
		payload := noise(n)
		name := fmt.Sprintf("id=1,payload=size=%d-incompressible", n)
		switch {
		case !compression:
			out = append(out, in(name, refframe.AppendPlain(nil, 1, payload)))
		case deflate(n):
			out = append(out, in(name+",deflated", refframe.AppendCompressionMode(nil, 1, payload, true)))
		default:
			out = append(out, in(name+",stored", refframe.AppendCompressionMode(nil, 1, payload, false)))
		}
	}
	return out
}

type rconVal struct {
	ID, Type int32
	Payload  string
}

func wireReadOps() []*ReadOp {
	var ops []*ReadOp
	add := func(o ...*ReadOp) { ops = append(ops, o...) }

	// ---- framing
	plain := frames(false, nil)
	add(unpackOp("UnPack[no-compression]", -1, false, plain))
	add(unpackOp("UnPack[no-compression,reused-buffer]", -1, true, plain))
	thr0 := frames(true, func(n int) bool { return true })
	// with threshold 0 a frame may still announce data length 0 (stored body)
	thr0 = append(thr0, frames(true, func(n int) bool { return false })[:3]...)
	add(unpackOp("UnPack[threshold=0]", 0, false, thr0))
	thr64 := frames(true, func(n int) bool { return n >= 64 })
	add(unpackOp("UnPack[threshold=64]", 64, false, thr64))
	add(unpackOp("UnPack[threshold=64,reused-buffer]", 64, true, thr64))

	// ---- fixed-size fields
	add(rf[pk.Boolean]("Boolean", in("false", hx("00")), in("true", hx("01"))))
	add(rf[pk.Byte]("Byte", in("7f", hx("7f")), in("80", hx("80"))))
	add(rf[pk.UnsignedByte]("UnsignedByte", in("ff", hx("ff")), in("01", hx("01"))))
	add(rf[pk.Short]("Short", in("0102", hx("0102")), in("ff7f", hx("ff7f"))))
	add(rf[pk.UnsignedShort]("UnsignedShort", in("fffe", hx("fffe")), in("0102", hx("0102"))))
	add(rf[pk.Int]("Int", in("01020304", hx("01020304")), in("fffefdfc", hx("fffefdfc"))))
	add(rf[pk.Long]("Long", in("0102030405060708", hx("0102030405060708")), in("fffefdfcfbfaf9f8", hx("fffefdfcfbfaf9f8"))))
	add(rf[pk.Float]("Float", in("1.5", refwire.AppendF32(nil, 1.5)), in("-2.25e10", refwire.AppendF32(nil, -2.25e10))))
	add(rf[pk.Double]("Double", in("1.5", refwire.AppendF64(nil, 1.5)), in("-2.25e100", refwire.AppendF64(nil, -2.25e100))))
	add(rf[pk.Position]("Position", in("1,2,3", refwire.AppendPosition(nil, 1, 2, 3)), in("-1,-1,-1", refwire.AppendPosition(nil, -1, -1, -1)),
		in("33554431,2047,-33554432", refwire.AppendPosition(nil, 33554431, 2047, -33554432))))
	add(rf[pk.Angle]("Angle", in("40", hx("40")), in("c0", hx("c0"))))
	add(rf[pk.UUID]("UUID", in("pattern", pattern(16)), in("ff", bytes.Repeat([]byte{0xff}, 16))))

	// ---- variable-length numbers
	var vi, vl []Input
	for _, v := range []int32{0, 1, 127, 128, 300, 16383, 16384, 2097152, 268435456, -1} {
		vi = append(vi, in(fmt.Sprint(v), refwire.AppendVarInt(nil, v)))
	}
	for _, v := range []int64{0, 127, 128, 16384, 1 << 28, 1 << 35, 1 << 49, 1 << 62, -1} {
		vl = append(vl, in(fmt.Sprint(v), refwire.AppendVarLong(nil, v)))
	}
	add(rf[pk.VarInt]("VarInt", vi...))
	add(rf[pk.VarLong]("VarLong", vl...))

	// ---- length-prefixed fields
	var strs []Input
	for _, s := range []string{"", "a", "hé世", "minecraft:stone", text(127), text(128), text(300)} {
		id := s
		if len(s) > 20 {
			id = fmt.Sprintf("len=%d", len(s))
		}
		strs = append(strs, in(fmt.Sprintf("%q", id), refwire.AppendString(nil, s)))
	}
	for _, n := range sizeClasses() {
		strs = append(strs, in(fmt.Sprintf("size=%d", n), refwire.AppendString(nil, text(n))))
	}
	add(rf[pk.String]("String", strs...))
	add(rf[pk.Identifier]("Identifier", in("minecraft:stone", refwire.AppendString(nil, "minecraft:stone")), in("a:b", refwire.AppendString(nil, "a:b"))))
	var bas []Input
	for _, n := range []int{0, 1, 3, 11, 130, 300} {
		bas = append(bas, in(fmt.Sprintf("len=%d", n), refwire.AppendByteArray(nil, pattern(n))))
	}
	for _, n := range sizeClasses() {
		bas = append(bas, in(fmt.Sprintf("size=%d", n), refwire.AppendByteArray(nil, pattern(n))))
	}
	add(rf[pk.ByteArray]("ByteArray", bas...))
	add(&ReadOp{Name: "ByteArray.ReadFrom[reused-buffer]", Inputs: bas, Run: func(r io.Reader) (any, int64, error) {
		v := pk.ByteArray(bytes.Repeat([]byte{0xAA}, 512)[:0])
		n, err := v.ReadFrom(r)
		return append([]byte(nil), v...), n, err
	}})
	add(rf[pk.BitSet]("BitSet", in("0-longs", refwire.AppendBitSet(nil, nil)), in("1-long", refwire.AppendBitSet(nil, []int64{0x0102030405060708})),
		in("2-longs", refwire.AppendBitSet(nil, []int64{-2, 0x1122334455667788})), in("3-longs", refwire.AppendBitSet(nil, []int64{1, -1, 0x0102030405060708}))))
	sizedBits := []int64{8, 20, 64, 128}
	for _, n := range sizeClasses() {
		sizedBits = append(sizedBits, int64(n)*8)
		longs := make([]int64, n/8)
		for i := range longs {
			longs[i] = int64(i+1) * 0x0101010101010101
		}
		ops = append(ops, rf[pk.BitSet](fmt.Sprintf("BitSet[size=%d]", n), in("longs", refwire.AppendBitSet(nil, longs))))
		ops[len(ops)-1].Class = "BitSet.ReadFrom"
		ops = append(ops, aryOp[pk.VarInt, pk.Int](fmt.Sprintf("Ary[VarInt]<Int>[size=%d]", n), in("ints", append(refwire.AppendVarInt(nil, int32(n/4)), pattern(n/4*4)...))))
		ops[len(ops)-1].Class = "Ary[VarInt]<Int>.ReadFrom"
	}
	for _, bits := range sizedBits {
		bits := bits
		nbytes := int((bits + 7) / 8)
		add(&ReadOp{Name: fmt.Sprintf("FixedBitSet[%d].ReadFrom", bits), Class: "FixedBitSet.ReadFrom", Inputs: []Input{in("pattern", pattern(nbytes)), in("ff", bytes.Repeat([]byte{0xff}, nbytes))},
			Run: func(r io.Reader) (any, int64, error) {
				f := pk.NewFixedBitSet(bits)
				n, err := f.ReadFrom(r)
				return []byte(f), n, err
			}})
	}
	var pmd []Input
	for _, n := range []int{0, 1, 5, 12, 600} {
		pmd = append(pmd, in(fmt.Sprintf("len=%d", n), pattern(n)))
	}
	for _, n := range sizeClasses() {
		pmd = append(pmd, in(fmt.Sprintf("size=%d", n), pattern(n)))
	}
	o := rf[pk.PluginMessageData]("PluginMessageData", pmd...)
	o.ToEOF = true
	add(o)

	// ---- composites
	type (
		optStr  = pk.Option[pk.String, *pk.String]
		optVI   = pk.Option[pk.VarInt, *pk.VarInt]
		optLong = pk.Option[pk.Long, *pk.Long]
		optUUID = pk.Option[pk.UUID, *pk.UUID]
		optDec  = pk.OptionDecoder[pk.ByteArray, *pk.ByteArray]
	)
	add(rf[optStr]("Option[String]", in("absent", hx("00")), in("abc", hx("01 03 616263")), in("empty", hx("01 00")), in("len=130", append(hx("01"), refwire.AppendString(nil, text(130))...))))
	add(rf[optVI]("Option[VarInt]", in("absent", hx("00")), in("300", hx("01 ac02")), in("-1", hx("01 ffffffff0f"))))
	add(rf[optLong]("Option[Long]", in("absent", hx("00")), in("present", hx("01 0102030405060708"))))
	add(rf[optUUID]("Option[UUID]", in("absent", hx("00")), in("present", append(hx("01"), pattern(16)...))))
	add(rf[optDec]("OptionDecoder[ByteArray]", in("absent", hx("00")), in("present", hx("01 03 0a0b0c"))))

	add(aryOp[pk.VarInt, pk.Int]("Ary[VarInt]<Int>", in("0", hx("00")), in("1", hx("01 01020304")), in("3", hx("03 01020304 05060708 090a0b0c")),
		in("130", append(refwire.AppendVarInt(nil, 130), pattern(130*4)...))))
	add(aryOp[pk.VarInt, pk.String]("Ary[VarInt]<String>", in("0", hx("00")), in("2", hx("02 01 61 03 626364")), in("3-with-empty", hx("03 00 01 61 00"))))
	add(aryOp[pk.VarInt, pk.VarInt]("Ary[VarInt]<VarInt>", in("3", hx("03 01 ac02 ffffffff0f"))))
	add(aryOp[pk.Byte, pk.Short]("Ary[Byte]<Short>", in("0", hx("00")), in("2", hx("02 0102 0304"))))
	add(aryOp[pk.UnsignedByte, pk.Boolean]("Ary[UnsignedByte]<Boolean>", in("3", hx("03 01 00 01")), in("200", append(hx("c8"), bytes.Repeat([]byte{1, 0}, 100)...))))
	add(aryOp[pk.Short, pk.VarInt]("Ary[Short]<VarInt>", in("2", hx("0002 7f 8001"))))
	add(aryOp[pk.UnsignedShort, pk.Byte]("Ary[UnsignedShort]<Byte>", in("3", hx("0003 01 02 03"))))
	add(aryOp[pk.Int, pk.Long]("Ary[Int]<Long>", in("1", hx("00000001 0102030405060708"))))
	add(aryOp[pk.Long, pk.UnsignedByte]("Ary[Long]<UnsignedByte>", in("2", hx("0000000000000002 fe fd"))))
	add(aryOp[pk.VarLong, pk.UUID]("Ary[VarLong]<UUID>", in("1", append(hx("01"), pattern(16)...))))
	add(aryOp[pk.VarInt, optStr]("Ary[VarInt]<Option[String]>", in("3", hx("03 00 01 02 6162 01 00"))))
	add(&ReadOp{Name: "Ary[VarInt]<Int>.ReadFrom[reused-buffer]", Inputs: []Input{in("0", hx("00")), in("2", hx("02 01020304 05060708"))},
		Run: func(r io.Reader) (any, int64, error) {
			s := make([]pk.Int, 1, 8)
			s[0] = -0x55555556
			n, err := pk.Ary[pk.VarInt]{Ary: &s}.ReadFrom(r)
			return s, n, err
		}})

	type tupVal struct {
		B  pk.Boolean
		V  pk.VarInt
		S  pk.String
		L  pk.Long
		U  pk.UUID
		BA pk.ByteArray
		A  pk.Angle
	}
	add(&ReadOp{Name: "Tuple<Boolean,VarInt,String,Long,UUID,ByteArray,Angle>.ReadFrom",
		Inputs: []Input{in("mixed", append(append(hx("01 ac02 03 616263 0102030405060708"), pattern(16)...), hx("02 0a0b 40")...)),
			in("minimal", append(append(hx("00 00 00 0000000000000000"), make([]byte, 16)...), hx("00 00")...))},
		Run: func(r io.Reader) (any, int64, error) {
			var t tupVal
			n, err := pk.Tuple{&t.B, &t.V, &t.S, &t.L, &t.U, &t.BA, &t.A}.ReadFrom(r)
			return t, n, err
		}})
	type optFieldVal struct {
		Has pk.Boolean
		I   pk.Int
		S   pk.String
		V   pk.VarInt
	}
	add(&ReadOp{Name: "Tuple<Boolean,Opt<Int>,Opt<func:String>,Opt<func:VarInt>>.ReadFrom",
		Inputs: []Input{in("absent", hx("00")), in("present", hx("01 01020304 02 6869 ac02"))},
		Run: func(r io.Reader) (any, int64, error) {
			var t optFieldVal
			n, err := pk.Tuple{&t.Has,
				pk.Opt{Has: &t.Has, Field: &t.I},
				pk.Opt{Has: func() bool { return bool(t.Has) }, Field: func() pk.FieldDecoder { return &t.S }},
				pk.Opt{Has: &t.Has, Field: func() pk.Field { return &t.V }},
			}.ReadFrom(r)
			return t, n, err
		}})
	add(&ReadOp{Name: "Tuple<VarInt,Ary[VarInt]<Option[String]>,FixedBitSet[20]>.ReadFrom",
		Inputs: []Input{in("nested", append(hx("8001 02 01 01 61 00"), pattern(3)...))},
		Run: func(r io.Reader) (any, int64, error) {
			var v pk.VarInt
			var s []optStr
			f := pk.NewFixedBitSet(20)
			n, err := pk.Tuple{&v, pk.Ary[pk.VarInt]{Ary: &s}, f}.ReadFrom(r)
			return []any{v, s, []byte(f)}, n, err
		}})

	// ---- text components (NBT documents decoded into a typed target through their own Unmarshaler)
	chatIn := []Input{
		in("bare-string", hx("08 0005 68656c6c6f")),
		in("bare-string-300", append(hx("08 012c"), []byte(text(300))...)),
		in("compound-text", hx("0a 08 0004 74657874 0002 6869 01 0004 626f6c64 01 00")),
		in("compound-translate-with-strings", hx("0a 08 0009 7472616e736c617465 0001 6b 09 0004 77697468 08 00000002 0001 61 0002 6263 00")),
		in("list-of-compounds", hx("09 0a 00000002 08 0004 74657874 0001 61 00 08 0004 74657874 0001 62 00")),
	}
	add(&ReadOp{Name: "chat.Message.ReadFrom", Inputs: chatIn, Run: func(r io.Reader) (any, int64, error) {
		var m chat.Message
		n, err := m.ReadFrom(r)
		return m, n, err
	}})
	add(&ReadOp{Name: "chat.Type.ReadFrom", Inputs: []Input{
		in("no-target", hx("05 08 0003 626f62 00")),
		in("with-target", hx("8001 08 0003 626f62 01 08 0005 616c696365")),
	}, Run: func(r io.Reader) (any, int64, error) {
		var t chat.Type
		n, err := t.ReadFrom(r)
		return t, n, err
	}})

	// ---- RCON
	var rc []Input
	for _, n := range []int{0, 1, 7, 300, refrcon.MaxPayload} {
		rc = append(rc, in(fmt.Sprintf("payload=%d", n), refrcon.Frame(int32(0x01020304), refrcon.TypeCommand, []byte(text(n)))))
	}
	rc = append(rc, in("login-id=-1", refrcon.Frame(-1, refrcon.TypeLogin, []byte("passwrd"))))
	add(&ReadOp{Name: "RCONConn.ReadPacket", Inputs: rc, NoByteSrc: true, Run: func(r io.Reader) (any, int64, error) {
		c := &mcnet.RCONConn{Conn: rwConn{r: r}}
		id, typ, payload, err := c.ReadPacket()
		return rconVal{id, typ, payload}, -1, err
	}})
	return ops
}

// aryOp is Ary[L]{&[]E}.ReadFrom into a nil slice.
func aryOp[L pk.VarInt | pk.VarLong | pk.Byte | pk.UnsignedByte | pk.Short | pk.UnsignedShort | pk.Int | pk.Long, E any](name string, inputs ...Input) *ReadOp {
	return &ReadOp{Name: name + ".ReadFrom", Inputs: inputs, Run: func(r io.Reader) (any, int64, error) {
		var s []E
		n, err := pk.Ary[L]{Ary: &s}.ReadFrom(r)
		return s, n, err
	}}
}
