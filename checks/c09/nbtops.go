package main

import (
	"fmt"
	"io"
	"sort"
	"strings"

	"github.com/Tnze/go-mc/nbt"
	"github.com/Tnze/go-mc/nbt/dynbt"
	pk "github.com/Tnze/go-mc/net/packet"

	"verif/engine"
	"verif/ref/refnbt"
)

// ---- tree construction helpers (refnbt nodes)

type N = refnbt.Node

func nByte(v int64) *N  { return &N{Tag: refnbt.Byte, I: v} }
func nShort(v int64) *N { return &N{Tag: refnbt.Short, I: v} }
func nInt(v int64) *N   { return &N{Tag: refnbt.Int, I: v} }
func nLong(v int64) *N  { return &N{Tag: refnbt.Long, I: v} }
func nFloat() *N        { return &N{Tag: refnbt.Float, I: 0xbfc00000} }          // -1.5
func nDouble() *N       { return &N{Tag: refnbt.Double, I: 0x3ff8000000000000} } // 1.5
func nStr(s string) *N  { return &N{Tag: refnbt.String, S: s} }
func nBA(v ...int64) *N { return &N{Tag: refnbt.ByteArray, A: v} }
func nIA(v ...int64) *N { return &N{Tag: refnbt.IntArray, A: v} }
func nLA(v ...int64) *N { return &N{Tag: refnbt.LongArray, A: v} }
func nList(et refnbt.Tag, e ...*N) *N {
	if e == nil {
		e = []*N{}
	}
	return &N{Tag: refnbt.List, ElemTag: et, Elems: e}
}
func kv(name string, v *N) refnbt.Field { return refnbt.Field{Name: name, Val: v} }
func nComp(f ...refnbt.Field) *N        { return &N{Tag: refnbt.Compound, Fields: f} }

// ---- decode targets

type inner struct {
	X int32  `nbt:"x"`
	S string `nbt:"s"`
}

// typedDoc has one field per decoding branch of (*Decoder).unmarshal.
type typedDoc struct {
	B    int8                   `nbt:"b"`
	Bo   bool                   `nbt:"bo"`
	U8   uint8                  `nbt:"u8"`
	S    int16                  `nbt:"s"`
	I    int32                  `nbt:"i"`
	L    int64                  `nbt:"l"`
	F    float32                `nbt:"f"`
	D    float64                `nbt:"d"`
	Str  string                 `nbt:"str"`
	BA   []byte                 `nbt:"ba"`
	I8A  []int8                 `nbt:"i8a"`
	BoA  []bool                 `nbt:"boa"`
	FBA  [2]byte                `nbt:"fba"`
	IA   []int32                `nbt:"ia"`
	FIA  [2]int32               `nbt:"fia"`
	LA   []int64                `nbt:"la"`
	ULA  []uint64               `nbt:"ula"`
	FLA  [2]int64               `nbt:"fla"`
	LS   []string               `nbt:"ls"`
	LL   [][]int16              `nbt:"ll"`
	LC   []inner                `nbt:"lc"`
	FL   [2]int16               `nbt:"fl"`
	C    inner                  `nbt:"c"`
	M    map[string]int32       `nbt:"m"`
	Any  any                    `nbt:"any"`
	Raw  nbt.RawMessage         `nbt:"raw"`
	Dyn  *dynbt.Value           `nbt:"dyn"`
	Snbt nbt.StringifiedMessage `nbt:"snbt"`
	P    *int32                 `nbt:"p"`
	U16  uint16                 `nbt:"u16"`
	U32  uint32                 `nbt:"u32"`
	U64  uint64                 `nbt:"u64"`
	F64  float64                `nbt:"f64"`
	NB   namedBytes             `nbt:"nb"`
	FI8  [2]int8                `nbt:"fi8"`
	FBo  [2]bool                `nbt:"fbo"`
	UIA  []uint32               `nbt:"uia"`
	FULA [2]uint64              `nbt:"fula"`
	Txt  textVal                `nbt:"txt"`
	Fold int32                  `nbt:"CaseFold"`
	Any2 any                    `nbt:"any2"`
	LSh  []int16                `nbt:"lsh"`
	*Emb
	Tail int32 `nbt:"tail"`
}

type namedBytes []uint8

// Emb is embedded by pointer: the decoder allocates it on first use.
type Emb struct {
	EmbI int32 `nbt:"embi"`
}

// textVal is a TextUnmarshaler / TextMarshaler.
type textVal struct{ s string }

func (t *textVal) UnmarshalText(b []byte) error { t.s = strings.ToUpper(string(b)); return nil }
func (t textVal) MarshalText() ([]byte, error)  { return []byte(strings.ToLower(t.s)), nil }

type skipAll struct {
	A any `nbt:"a"`
}

func decodeOp[T any](target string, network bool) *ReadOp {
	format := "file"
	if network {
		format = "network"
	}
	return &ReadOp{Name: fmt.Sprintf("nbt.Decode[%s,%s]", target, format), Run: func(r io.Reader) (any, int64, error) {
		var v T
		d := nbt.NewDecoder(r)
		d.NetworkFormat(network)
		name, err := d.Decode(&v)
		return []any{name, v}, -1, err
	}}
}

// prefilledOp decodes into a typedDoc whose interface, pointer, map and slice fields already hold
// values (the decoder loads through them instead of allocating).
func prefilledOp(network bool) *ReadOp {
	format := "file"
	if network {
		format = "network"
	}
	return &ReadOp{Name: fmt.Sprintf("nbt.Decode[typed-struct-prefilled,%s]", format), Run: func(r io.Reader) (any, int64, error) {
		x := int32(-1)
		v := typedDoc{Any: &inner{X: -1, S: "old"}, Any2: inner{X: -2, S: "by value"}, P: &x, M: map[string]int32{"old": 1}, BA: make([]byte, 1, 64), I8A: make([]int8, 1, 64),
			IA: make([]int32, 1, 64), LS: make([]string, 1, 8), Emb: &Emb{EmbI: -1}}
		d := nbt.NewDecoder(r)
		d.NetworkFormat(network)
		name, err := d.Decode(&v)
		return []any{name, v}, -1, err
	}}
}

// sample values of every tag type (used as known fields, unknown fields and list elements).
func sampleOf(t refnbt.Tag) *N {
	switch t {
	case refnbt.Byte:
		return nByte(-2)
	case refnbt.Short:
		return nShort(-0x0102)
	case refnbt.Int:
		return nInt(-0x01020304)
	case refnbt.Long:
		return nLong(-0x0102030405060708)
	case refnbt.Float:
		return nFloat()
	case refnbt.Double:
		return nDouble()
	case refnbt.ByteArray:
		return nBA(1, -2, 3)
	case refnbt.String:
		return nStr("héllo")
	case refnbt.List:
		return nList(refnbt.Short, nShort(1), nShort(-2))
	case refnbt.Compound:
		return nComp(kv("x", nInt(5)), kv("s", nStr("in")))
	case refnbt.IntArray:
		return nIA(1, -2)
	case refnbt.LongArray:
		return nLA(-1, 0x0102030405060708)
	}
	return nil
}

type doc struct {
	id   string
	tree *N
	key  string // serialised form (generated documents only)
}

// handDocs: compounds built so that every read site of unmarshal / rawRead / dynbt / the
// binary->SNBT converter is on the path of some document.
func handDocs() []doc {
	var out []doc
	add := func(id string, t *N) { out = append(out, doc{id: id, tree: t}) }
	all := nComp(
		kv("b", nByte(-2)), kv("bo", nByte(1)), kv("u8", nByte(-56)), kv("s", nShort(-0x0102)), kv("i", nInt(0x01020304)),
		kv("l", nLong(0x0102030405060708)), kv("f", nFloat()), kv("d", nDouble()), kv("str", nStr("héllo")),
		kv("ba", nBA(1, 2, 3)), kv("i8a", nBA(-1, 2)), kv("boa", nBA(1, 0, 1)), kv("fba", nBA(9, 8)),
		kv("ia", nIA(1, -2, 3)), kv("fia", nIA(7, 8)), kv("la", nLA(-1, 2)), kv("ula", nLA(-1, 5)), kv("fla", nLA(3, 4)),
		kv("ls", nList(refnbt.String, nStr("a"), nStr(""), nStr("bcd"))),
		kv("ll", nList(refnbt.List, nList(refnbt.Short, nShort(1), nShort(2)), nList(refnbt.Short), nList(refnbt.Short, nShort(3)))),
		kv("lc", nList(refnbt.Compound, nComp(kv("x", nInt(1)), kv("s", nStr("p"))), nComp(), nComp(kv("unknown", nLong(9)), kv("x", nInt(2))))),
		kv("fl", nList(refnbt.Short, nShort(4), nShort(5))),
		kv("c", nComp(kv("x", nInt(-1)), kv("s", nStr("q")))),
		kv("m", nComp(kv("k1", nInt(1)), kv("k2", nInt(2)))),
		kv("any", nComp(kv("z", nList(refnbt.Double, nDouble())), kv("y", nBA(5)))),
		kv("raw", nComp(kv("r", nList(refnbt.IntArray, nIA(1), nIA())), kv("t", nStr("raw")))),
		kv("dyn", nComp(kv("d", nList(refnbt.LongArray, nLA(1, 2))), kv("e", nFloat()))),
		kv("snbt", nComp(kv("q", nStr("it's \"q\"")), kv("n", nList(refnbt.Byte, nByte(1), nByte(2))))),
		kv("p", nInt(77)),
		kv("u16", nShort(-2)), kv("u32", nInt(-3)), kv("u64", nLong(-4)), kv("f64", nFloat()), kv("nb", nBA(4, 5, 6)),
		kv("fi8", nBA(-7, 8)), kv("fbo", nBA(0, 1)), kv("uia", nIA(-1, 9)), kv("fula", nLA(-1, 10)), kv("txt", nStr("shout")),
		kv("casefold", nInt(11)), kv("embi", nInt(12)), kv("any2", nComp(kv("s", nStr("v")), kv("other", nShort(1)), kv("x", nInt(13)))),
		kv("tail", nInt(0x0a0b0c0d)),
	)
	add("all-fields", all)
	add("empty-compound", nComp())
	add("any-as-inner", nComp(kv("any", sampleOf(refnbt.Compound)), kv("m", nComp(kv("old", nInt(2)), kv("new", nInt(3)))), kv("tail", nInt(6))))
	add("tail-only", nComp(kv("tail", nInt(0x0a0b0c0d))))
	// one known field each, followed by the tail field (a partial read of the field shifts the tail)
	for _, f := range all.Fields {
		if f.Name == "tail" {
			continue
		}
		add("field:"+f.Name, nComp(f, kv("tail", nInt(0x0a0b0c0d))))
	}
	// one unknown field of every tag type (skipped by rawRead in the typed target), then the tail
	for _, t := range refnbt.AllTags {
		add("unknown:"+refnbt.TagNames[t], nComp(kv("unknown", sampleOf(t)), kv("tail", nInt(0x0a0b0c0d))))
	}
	// unknown lists of every element type, and nested skipping
	for _, t := range refnbt.AllTags {
		add("unknown-list:"+refnbt.TagNames[t], nComp(kv("unknown", nList(t, sampleOf(t), sampleOf(t))), kv("tail", nInt(0x0a0b0c0d))))
	}
	add("unknown-empty-list", nComp(kv("unknown", nList(refnbt.End)), kv("tail", nInt(1))))
	deeper := nList(refnbt.Compound, nComp(kv("v", nBA(1, 2))), nComp())
	add("unknown-nested", nComp(kv("unknown", nComp(kv("deep", nComp(kv("deeper", deeper))), kv("l", nLong(3)))), kv("tail", nInt(2))))
	add("long-string", nComp(kv("str", nStr(text(300))), kv("tail", nInt(3))))
	add("long-key", nComp(kv(text(260), nInt(1)), kv("tail", nInt(4))))
	add("long-arrays", nComp(kv("ba", nBA(make([]int64, 300)...)), kv("ia", nIA(make([]int64, 20)...)), kv("la", nLA(make([]int64, 10)...)), kv("tail", nInt(5))))
	return out
}

// genDocs enumerates every tree of at most nodes nodes over a two-values-per-kind alphabet whose
// keys are one known ("a") and one unknown ("z") field name of the skipAll target.
func genDocs(nodes int) []doc {
	if nodes < 1 {
		return nil
	}
	al := *refnbt.Reduced()
	al.Keys = []string{"a", "z"}
	seen := map[string]bool{}
	var out []doc
	engine.Explore(engine.ExploreOpts{Workers: 1}, func(c *engine.Chooser) {
		t := refnbt.Gen(c, nodes, &al)
		key := string(refnbt.AppendPayload([]byte{t.Tag}, t))
		if seen[key] || refnbt.HasDupKeys(t) {
			return
		}
		seen[key] = true
		out = append(out, doc{"gen:" + t.String(), t, key})
	})
	sort.Slice(out, func(i, j int) bool {
		a, b := out[i].key, out[j].key
		if len(a) != len(b) {
			return len(a) < len(b)
		}
		return a < b
	})
	return out
}

// sizeDocs: one document per (payload kind, size class). A size class is a byte size just above a
// buffer size that stream code commonly works in (512: bytes.MinRead / io.ReadAll, 4096: bufio,
// 2*4096, 32768: io.Copy, 65536): code that moves a payload in blocks behaves differently from one
// block boundary on. Each kind appears under a known key of typedDoc and under an unknown key (the
// skipping path); the tail field behind it shows a payload that was cut short or over-read.
// bulk kinds (one length, one block of bytes): ByteArray, String, a long key; element-wise kinds (read
// element by element today): IntArray, LongArray, List<String>, List<Short>, up to 40000 bytes.
func sizeDocs(sizes []int, elementWise bool) []doc {
	var out []doc
	seq := func(n int) []int64 {
		a := make([]int64, n)
		for i := range a {
			a[i] = int64(int8(1 + (i*7+3)%250)) // non-zero, position dependent
		}
		return a
	}
	type kind struct {
		name, key string
		v         *N
	}
	for _, s := range sizes {
		strLen := min(s, 32767)
		var kinds []kind
		if !elementWise {
			kinds = []kind{{"ByteArray", "ba", nBA(seq(s)...)}, {"String", "str", nStr(text(strLen))}}
			out = append(out, doc{id: fmt.Sprintf("size=%d:key", s), tree: nComp(kv(text(strLen), nInt(1)), kv("tail", nInt(4)))})
		} else if s <= 40000 {
			shorts := make([]*N, s/2)
			for i := range shorts {
				shorts[i] = nShort(int64(i + 1))
			}
			strs := make([]*N, s/5)
			for i := range strs {
				strs[i] = nStr(text(3 + i%2)[i%2:]) // "abc" / "bcd"
			}
			kinds = []kind{{"IntArray", "ia", nIA(seq(s / 4)...)}, {"LongArray", "la", nLA(seq(s / 8)...)},
				{"List<String>", "ls", nList(refnbt.String, strs...)}, {"List<Short>", "lsh", nList(refnbt.Short, shorts...)}}
		}
		for _, k := range kinds {
			out = append(out, doc{id: fmt.Sprintf("size=%d:%s", s, k.name), tree: nComp(kv(k.key, k.v), kv("tail", nInt(0x0a0b0c0d)))})
			out = append(out, doc{id: fmt.Sprintf("size=%d:unknown:%s", s, k.name), tree: nComp(kv("unknown", k.v), kv("tail", nInt(0x0a0b0c0d)))})
		}
	}
	return out
}

// rootSizeDocs: the same payload kinds as the ROOT value of the document, where nothing is read behind
// the payload: a payload cut short at a block boundary is then not betrayed by the next tag being
// missing. Targets that cannot hold a bare array/string/list skip them (Optional inputs).
func rootSizeDocs(sizes []int, elementWise bool) []doc {
	var out []doc
	for _, d := range sizeDocs(sizes, elementWise) {
		if d.tree.Tag != refnbt.Compound || len(d.tree.Fields) != 2 || d.tree.Fields[0].Name == "unknown" || strings.HasSuffix(d.id, ":key") {
			continue
		}
		out = append(out, doc{id: d.id + ":as-root", tree: d.tree.Fields[0].Val})
	}
	return out
}

func docInputs(docs []doc, network, optional bool, rootName string) []Input {
	out := make([]Input, 0, len(docs))
	for _, d := range docs {
		out = append(out, Input{ID: d.id, Data: refnbt.Append(nil, rootName, d.tree, network), Optional: optional})
	}
	return out
}

func nbtReadOps(genNodes int, sizes []int, thorough bool) (ops []*ReadOp, nGen int) {
	hand := handDocs()
	gen := genDocs(genNodes)
	var small []int
	for _, s := range sizes {
		if s <= allOffsetsUpTo {
			small = append(small, s)
		}
	}
	for _, network := range []bool{false, true} {
		handIn := docInputs(hand, network, false, "root")
		genIn := docInputs(gen, network, true, "")
		both := append(append([]Input(nil), handIn...), genIn...)
		// Size-class documents. Every target gets the bulk kinds in one of its two formats (the formats
		// differ in the root header, not in the payload paths); the element-wise kinds go to one target
		// per reading routine: typed (unmarshal + the skipping rawRead), any, dynbt.Value and
		// (thorough tier) StringifiedMessage. The thorough tier adds, for the classes up to allOffsetsUpTo bytes, every
		// kind on every target in both formats.
		with := func(o *ReadOp, ins []Input, sized, ownRoutine bool) *ReadOp {
			o.Inputs = append([]Input(nil), ins...)
			if sized || thorough {
				rs := sizes
				if !sized {
					rs = small
				}
				o.Inputs = append(o.Inputs, docInputs(rootSizeDocs(rs, false), network, true, "root")...)
				if ownRoutine || thorough {
					o.Inputs = append(o.Inputs, docInputs(rootSizeDocs(rs, true), network, true, "root")...)
				}
			}
			switch {
			case sized:
				o.Inputs = append(o.Inputs, docInputs(sizeDocs(sizes, false), network, false, "root")...)
				if ownRoutine {
					o.Inputs = append(o.Inputs, docInputs(sizeDocs(sizes, true), network, false, "root")...)
				} else if thorough {
					o.Inputs = append(o.Inputs, docInputs(sizeDocs(small, true), network, false, "root")...)
				}
			case thorough:
				o.Inputs = append(o.Inputs, docInputs(sizeDocs(small, false), network, false, "root")...)
				o.Inputs = append(o.Inputs, docInputs(sizeDocs(small, true), network, false, "root")...)
			}
			return o
		}
		ops = append(ops,
			with(decodeOp[typedDoc]("typed-struct", network), handIn, !network, true),
			with(prefilledOp(network), handIn, network, false),
			with(decodeOp[skipAll]("struct-skipping", network), both, network, false),
			with(decodeOp[any]("any", network), both, !network, true),
			with(decodeOp[map[string]any]("map", network), handIn, network, false),
			with(decodeOp[nbt.RawMessage]("RawMessage", network), both, !network, false),
			with(decodeOp[dynbt.Value]("dynbt.Value", network), both, network, true),
			with(decodeOp[nbt.StringifiedMessage]("StringifiedMessage", network), both, !network, thorough), // quick tier: bulk kinds only
		)
	}
	// bare arrays, strings and lists as the root value into typed destinations
	bothKinds := func(sz []int) []doc { return append(rootSizeDocs(sz, false), rootSizeDocs(sz, true)...) }
	rootIn := append(docInputs(bothKinds(append([]int{3}, sizes...)), false, true, "root"), docInputs(bothKinds(small), true, true, "")...)
	for i := range rootIn {
		if i >= len(rootIn)-len(bothKinds(small)) {
			rootIn[i].ID += ":network"
		}
	}
	with := func(o *ReadOp) *ReadOp { o.Inputs = rootIn; return o }
	ops = append(ops, with(decodeOp[[]byte]("[]byte", false)), with(decodeOp[[]int32]("[]int32", false)), with(decodeOp[[]int64]("[]int64", false)),
		with(decodeOp[string]("string", false)), with(decodeOp[[]string]("[]string", false)), with(decodeOp[[]int16]("[]int16", false)))
	for _, o := range ops[len(ops)-6:] {
		o.Name = strings.Replace(o.Name, ",file]", ",root-value]", 1)
	}
	// NBTField (network format, counts bytes)
	handNet := docInputs(hand, true, false, "")
	genNet := docInputs(gen, true, true, "")
	bigNet := docInputs(sizeDocs(small, false), true, false, "")
	ops = append(ops,
		&ReadOp{Name: "NBTField{typed-struct,AllowUnknownFields}.ReadFrom", Inputs: handNet, Run: func(r io.Reader) (any, int64, error) {
			var v typedDoc
			n, err := pk.NBTField{V: &v, AllowUnknownFields: true}.ReadFrom(r)
			return v, n, err
		}},
		&ReadOp{Name: "NBTField{any}.ReadFrom", Inputs: append(append(append([]Input{in("TagEnd", []byte{0})}, handNet...), genNet...), bigNet...), Run: func(r io.Reader) (any, int64, error) {
			var v any
			n, err := pk.NBT(&v).ReadFrom(r)
			return v, n, err
		}},
		&ReadOp{Name: "NBTField{dynbt.Value}.ReadFrom", Inputs: handNet[:3], Run: func(r io.Reader) (any, int64, error) {
			var v dynbt.Value
			n, err := pk.NBT(&v).ReadFrom(r)
			return v, n, err
		}},
	)
	return ops, len(gen)
}
