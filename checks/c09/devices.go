package main

import (
	"io"
	"net"
	"runtime"
	"strings"
	"time"

	"verif/engine"
)

// segReader delivers data in segments: cut[i] == true puts a segment boundary in front of byte i.
// A Read returns min(len(p), bytes left in the current segment), always >= 1 until the data ends.
//
// Completeness: for an operation whose requests depend only on the bytes it has received, every
// behaviour of a legal io.Reader (each Read returns between 1 and min(asked, rest) bytes) equals
// the behaviour of segReader for the boundary set {end of every short read}; so walking all
// boundary sets walks all fragmentations.
type segReader struct {
	data []byte
	pos  int
	cut  []bool
}

func (s *segReader) Read(p []byte) (int, error) {
	if len(p) == 0 {
		return 0, nil
	}
	if s.pos >= len(s.data) {
		return 0, io.EOF
	}
	n := len(p)
	if r := len(s.data) - s.pos; r < n {
		n = r
	}
	for j := 1; j < n; j++ {
		if s.cut[s.pos+j] {
			n = j
			break
		}
	}
	copy(p[:n], s.data[s.pos:])
	s.pos += n
	return n, nil
}

// choiceSrc is engine.ChoiceReader (default: everything asked; every shorter legal count costs one
// deviation) with an optional cap on the alternatives offered per Read: with cap A > 0 and more
// than 2A shorter counts available, only 1..A and asked-A..asked-1 are offered.
type choiceSrc struct {
	data []byte
	pos  int
	c    *engine.Chooser
	a    int
}

func (s *choiceSrc) Read(p []byte) (int, error) {
	if len(p) == 0 {
		return 0, nil
	}
	if s.pos >= len(s.data) {
		return 0, io.EOF
	}
	n := len(p)
	if r := len(s.data) - s.pos; r < n {
		n = r
	}
	if n > 1 {
		shorter := n - 1
		if s.a <= 0 || shorter <= 2*s.a {
			if d := s.c.Deviate(shorter + 1); d > 0 {
				n = d
			}
		} else if d := s.c.Deviate(2*s.a + 1); d > 0 {
			if d <= s.a {
				n = d
			} else {
				n = n - (2*s.a + 1 - d) // d = A+1 -> n-A ... d = 2A -> n-1
			}
		}
	}
	copy(p[:n], s.data[s.pos:])
	s.pos += n
	return n, nil
}

// transientReader delivers data but fails exactly once, at offset k, with (0, err); afterwards it
// carries on (a temporary error of a socket). Before the failure no Read crosses offset k.
type transientReader struct {
	data  []byte
	pos   int
	k     int
	err   error
	fired bool
}

func (t *transientReader) Read(p []byte) (int, error) {
	if len(p) == 0 {
		return 0, nil
	}
	if !t.fired && t.pos == t.k {
		t.fired = true
		return 0, t.err
	}
	if t.pos >= len(t.data) {
		return 0, io.EOF
	}
	n := len(p)
	if r := len(t.data) - t.pos; r < n {
		n = r
	}
	if !t.fired && t.pos < t.k && n > t.k-t.pos {
		n = t.k - t.pos
	}
	copy(p[:n], t.data[t.pos:])
	t.pos += n
	return n, nil
}

// flakyWriter accepts k bytes, fails the one Write that crosses offset k (n < len(p), err != nil)
// and accepts everything afterwards.
type flakyWriter struct {
	k     int
	err   error
	buf   []byte
	fired bool
}

func (f *flakyWriter) Write(b []byte) (int, error) {
	if !f.fired && len(f.buf)+len(b) > f.k {
		room := f.k - len(f.buf)
		f.buf = append(f.buf, b[:room]...)
		f.fired = true
		return room, f.err
	}
	f.buf = append(f.buf, b...)
	return len(b), nil
}

// lateWriter accepts every byte of every Write; the Write during which the total reaches k bytes
// still takes all of its bytes (n == len(p)) but returns the error with them — a buffered or
// asynchronous sink that learns of the failure while the bytes are already handed over. Later
// Writes fail outright.
type lateWriter struct {
	k     int
	err   error
	buf   []byte
	fired bool
}

func (f *lateWriter) Write(b []byte) (int, error) {
	if f.fired {
		return 0, f.err
	}
	f.buf = append(f.buf, b...)
	if len(f.buf) >= f.k {
		f.fired = true
		return len(b), f.err
	}
	return len(b), nil
}

// event is one Read/Write call on which the environment deviated from "everything, no error".
type event struct {
	site string // first go-mc function above the call
	bare bool   // no io.ReadFull / io.Copy / bytes.Buffer.ReadFrom / io.ReadAll between go-mc and the call
	err  bool
}

// meter sits between the device and the code under test: it counts, optionally records the
// size of every non-empty Read (enough to re-execute the case with engine.ChunkReader) and,
// when tracing, remembers who issued the calls that saw a short count or an error.
type meter struct {
	r      io.Reader
	n      int // bytes handed out
	calls  int
	devs   int // calls that returned fewer bytes than asked or an error
	rec    bool
	sizes  []int
	trace  bool
	events []event
}

func (m *meter) Read(p []byte) (int, error) {
	n, err := m.r.Read(p)
	m.n += n
	m.calls++
	if n < len(p) || err != nil {
		m.devs++
		if m.trace {
			site, bare := callerSite()
			m.events = append(m.events, event{site, bare, err != nil})
		}
	}
	if m.rec && n > 0 {
		m.sizes = append(m.sizes, n)
	}
	return n, err
}

// byteSrc adds io.ByteReader to a meter (the shape of a buffered source such as bufio.Reader over
// a socket): go-mc takes different paths when the source can deliver single bytes.
// Per the io.ByteReader contract an error is never returned together with a byte; a fault device
// that fails "together with the last byte" fails again on the next call, so nothing is lost.
type byteSrc struct{ *meter }

func (b byteSrc) ReadByte() (byte, error) {
	var x [1]byte
	n, err := b.meter.Read(x[:])
	if n == 1 {
		return x[0], nil
	}
	if err == nil {
		err = io.ErrNoProgress
	}
	return 0, err
}

// site picks the call to blame from a trace: the last bare deviating call if there is one
// (a short count handed to io.ReadFull is dealt with by io.ReadFull), else the last deviating call.
func pickSite(ev []event) string {
	for i := len(ev) - 1; i >= 0; i-- {
		if ev[i].bare {
			return ev[i].site
		}
	}
	if len(ev) > 0 {
		return ev[len(ev)-1].site
	}
	return "no-deviating-call-observed"
}

const goMcPrefix = "github.com/Tnze/go-mc/"

func callerSite() (site string, bare bool) {
	var pcs [64]uintptr
	n := runtime.Callers(3, pcs[:])
	frames := runtime.CallersFrames(pcs[:n])
	bare = true
	for {
		f, more := frames.Next()
		fn := f.Function
		if strings.HasPrefix(fn, goMcPrefix) {
			fn = strings.TrimPrefix(fn, goMcPrefix)
			if fn == "net/packet.(*countingReader).Read" || fn == "net/packet.(*countingWriter).Write" {
				continue // pure forwarders inside go-mc: the caller is the site
			}
			return fn, bare
		}
		switch {
		case fn == "io.ReadAtLeast", fn == "io.ReadFull", fn == "io.ReadAll", fn == "io.copyBuffer", fn == "io.Copy", fn == "io.CopyN",
			fn == "bytes.(*Buffer).ReadFrom", fn == "io.discard.ReadFrom", strings.HasPrefix(fn, "encoding/binary."):
			bare = false
		}
		if !more {
			break
		}
	}
	return "no-go-mc-frame", bare
}

// plainWriter collects output and hides every optional interface.
type plainWriter struct{ buf []byte }

func (p *plainWriter) Write(b []byte) (int, error) {
	p.buf = append(p.buf, b...)
	return len(b), nil
}

// wmeter wraps the fault writer: counts calls and remembers who issued the first failing Write.
type wmeter struct {
	w     io.Writer
	calls int
	fails int
	trace bool
	site  string
	after int // Write calls issued after the first failure
}

func (m *wmeter) Write(p []byte) (int, error) {
	if m.fails > 0 {
		m.after++
	}
	n, err := m.w.Write(p)
	m.calls++
	if err != nil {
		m.fails++
		if m.trace && m.site == "" {
			m.site, _ = callerSite()
		}
	}
	return n, err
}

// rwConn is a net.Conn over one reader and one writer (RCON).
type rwConn struct {
	r io.Reader
	w io.Writer
}

type memAddr struct{}

func (memAddr) Network() string { return "mem" }
func (memAddr) String() string  { return "mem" }

func (c rwConn) Read(p []byte) (int, error) {
	if c.r == nil {
		return 0, io.EOF
	}
	return c.r.Read(p)
}

func (c rwConn) Write(p []byte) (int, error) {
	if c.w == nil {
		return len(p), nil
	}
	return c.w.Write(p)
}
func (rwConn) Close() error                     { return nil }
func (rwConn) LocalAddr() net.Addr              { return memAddr{} }
func (rwConn) RemoteAddr() net.Addr             { return memAddr{} }
func (rwConn) SetDeadline(time.Time) error      { return nil }
func (rwConn) SetReadDeadline(time.Time) error  { return nil }
func (rwConn) SetWriteDeadline(time.Time) error { return nil }
