package main

// Streams that end inside a payload whose DECLARED size no stream of this harness could hold: an NBT byte / int / long
// array announcing 2^28 .. 2^31-1 elements, followed by k payload bytes and then the end of the stream (io.EOF) or an
// injected failure. The generic fault families cut well-formed inputs at every offset, so their declared sizes are the
// sizes of inputs that exist; the arithmetic on a declared size (elements x width, in whatever integer type) is only
// exercised by sizes near the top of the length field. Every such read must return a non-nil error: it cannot have
// received what the header announces. Targets are limited to those that consume an array without allocating it up
// front (RawMessage at the root and in a field, an unknown field of a struct that is skipped); typed slices allocate
// the declared size before reading and are left to C08's overflow probes.

import (
	"bytes"
	"errors"
	"fmt"
	"io"
	"sync/atomic"

	"github.com/Tnze/go-mc/nbt"

	"verif/engine"
)

type hugeCase struct {
	Side   string `json:"side"` // "huge"
	Target string `json:"target"`
	Tag    byte   `json:"tag"`
	Len    int64  `json:"declared_len"`
	Tail   int    `json:"payload_bytes_present"`
	Zero   bool   `json:"payload_zero"`
	Err    string `json:"err"`
	Net    bool   `json:"network_format"`
}

var errHuge = errors.New("verif: injected read failure")

// endReader hands out data and then fails with err (on the call after the last byte).
type endReader struct {
	data []byte
	pos  int
	err  error
	saw  bool // the failure was returned to the caller at least once
}

func (e *endReader) Read(p []byte) (int, error) {
	if len(p) == 0 {
		return 0, nil
	}
	if e.pos >= len(e.data) {
		e.saw = true
		return 0, e.err
	}
	n := copy(p, e.data[e.pos:])
	e.pos += n
	return n, nil
}

type hugeSkip struct {
	Known int32 `nbt:"known"`
}

type hugeRawField struct {
	Raw nbt.RawMessage `nbt:"zz"`
}

var hugeCases int64

func hugeDoc(c hugeCase) []byte {
	var b []byte
	arr := func() []byte {
		x := []byte{byte(c.Len >> 24), byte(c.Len >> 16), byte(c.Len >> 8), byte(c.Len)}
		for i := 0; i < c.Tail; i++ {
			if c.Zero {
				x = append(x, 0)
			} else {
				x = append(x, byte(0x41+i))
			}
		}
		return x
	}
	name := func(s string) []byte { return append([]byte{byte(len(s) >> 8), byte(len(s))}, s...) }
	switch c.Target {
	case "RawMessage@root":
		b = append(b, c.Tag)
		if !c.Net {
			b = append(b, name("r")...)
		}
		b = append(b, arr()...)
	default: // a compound whose first field "zz" is the array
		b = append(b, 10)
		if !c.Net {
			b = append(b, name("r")...)
		}
		b = append(b, c.Tag)
		b = append(b, name("zz")...)
		b = append(b, arr()...)
	}
	return b
}

func runHuge(c hugeCase) (class, detail string) {
	doc := hugeDoc(c)
	var ferr error = io.EOF
	if c.Err == "injected" {
		ferr = errHuge
	}
	r := &endReader{data: doc, err: ferr}
	var err error
	kind, frame, panicked := engine.Guard(func() {
		d := nbt.NewDecoder(r)
		d.NetworkFormat(c.Net)
		switch c.Target {
		case "RawMessage@root":
			var v nbt.RawMessage
			_, err = d.Decode(&v)
		case "RawMessage@field":
			var v hugeRawField
			_, err = d.Decode(&v)
		case "unknown-field-skipped":
			var v hugeSkip
			_, err = d.Decode(&v)
		default:
			engine.HarnessError("unknown huge target %q", c.Target)
		}
	})
	atomic.AddInt64(&hugeCases, 1)
	pre := fmt.Sprintf("read/nbt.Decode[%s]/huge-declared-array/tag=%d/", c.Target, c.Tag)
	what := fmt.Sprintf("array tag %d declaring %d elements, %d payload bytes present, then %s (%x)", c.Tag, c.Len, c.Tail, c.Err, doc)
	if panicked {
		return pre + "panic/" + frame + "/" + kind, what + ": panic " + kind
	}
	if err == nil {
		return pre + "success-on-a-stream-that-ends-inside-the-payload/" + c.Err, what + fmt.Sprintf(": Decode returned nil (the reader's failure was delivered to the decoder: %v)", r.saw)
	}
	return "", ""
}

func hugeFamily() {
	var cs []hugeCase
	for _, target := range []string{"RawMessage@root", "RawMessage@field", "unknown-field-skipped"} {
		for _, tag := range []byte{7, 11, 12} {
			for _, l := range []int64{1 << 28, 1<<28 + 1, 1 << 29, 1<<29 + 1, 1 << 30, 1<<30 + 1, 3 << 29, 1<<31 - 1} {
				for _, tail := range []int{0, 1, 3, 4, 7, 8, 9, 16} {
					for _, zero := range []bool{true, false} {
						for _, e := range []string{"eof", "injected"} {
							for _, net := range []bool{false, true} {
								cs = append(cs, hugeCase{"huge", target, tag, l, tail, zero, e, net})
							}
						}
					}
				}
			}
		}
	}
	engine.ParallelFor(len(cs), func(slot, i int) {
		c := cs[i]
		wd.Begin(slot, func() string { return fmt.Sprintf(`{"side":"read","op":"huge %s tag %d len %d"}`, c.Target, c.Tag, c.Len) })
		class, detail := runHuge(c)
		wd.End(slot)
		if class != "" {
			rep.FailLazy(class, c.Tail*10+int(c.Len>>28), func() engine.Failure { return engine.Failure{Detail: detail, Case: c} })
		}
	})
	n := int64(len(cs))
	rep.Eval(n)
	rep.NonTrivial(n)
	rep.Count("huge_declared_array_cases", n)
	rep.Extra("huge_declared_arrays", map[string]any{"tags": "ByteArray, IntArray, LongArray", "declared_lengths": "2^28, 2^28+1, 2^29, 2^29+1, 2^30, 2^30+1, 3*2^29, 2^31-1",
		"payload_bytes_present": []int{0, 1, 3, 4, 7, 8, 9, 16}, "targets": []string{"RawMessage@root", "RawMessage@field", "unknown-field-skipped"}, "end": "io.EOF | injected error", "formats": "file, network"})
	_ = bytes.MinRead
}
