package main

// Concrete standard-library sources. Every other family hands go-mc a reader of the harness' own type (it has to
// observe each call), so a decoder that type-switches on *bytes.Buffer, *bytes.Reader or *bufio.Reader - to peek, to
// take a window with Next, to avoid a copy - never takes that path here. This family does: for every (operation, input)
// and every k below the number of bytes the operation needs, the source is a *bytes.Buffer / *bytes.Reader /
// *bufio.Reader that holds exactly the first k bytes. The stream ends inside the value, so the operation must return
// an error; with all needed bytes present it must return the contiguous run's value.
//
// Packet.Scan reads fields from an in-memory body; a body that ends inside a field is the same situation, so a menu
// of field tuples is scanned from every proper prefix of its own encoding.

import (
	"bufio"
	"bytes"
	"fmt"
	"io"
	"reflect"
	"sync/atomic"

	pk "github.com/Tnze/go-mc/net/packet"

	"verif/engine"
)

var concreteKinds = []string{"*bytes.Buffer", "*bytes.Reader", "*bufio.Reader(16)"}

func concreteSource(kind string, data []byte) io.Reader {
	d := append([]byte(nil), data...)
	switch kind {
	case "*bytes.Buffer":
		return bytes.NewBuffer(d)
	case "*bytes.Reader":
		return bytes.NewReader(d)
	}
	return bufio.NewReaderSize(&engine.PlainReader{Data: d}, 16)
}

type concreteCase struct {
	Side   string `json:"side"` // "concrete" | "scan"
	Op     string `json:"op"`
	Input  string `json:"input"`
	Hex    string `json:"input_hex,omitempty"`
	Source string `json:"source,omitempty"`
	K      int    `json:"k"`
}

var cntConcrete, cntScan int64

func judgeConcrete(op *ReadOp, inp *Input, b *baseline, kind string, k int) {
	st := stream(op, inp.Data)
	var val any
	var n int64
	var err error
	pkind, frame, panicked := engine.Guard(func() { val, n, err = op.Run(concreteSource(kind, st[:k])) })
	atomic.AddInt64(&cntConcrete, 1)
	mk := func() concreteCase {
		return concreteCase{"concrete", op.Name, inp.ID, fmt.Sprintf("%x", inp.Data), kind, k}
	}
	pre := "read/" + op.class() + "/"
	switch {
	case panicked:
		rep.FailLazy(pre+"panic/"+pkind+"/source="+kind, k, func() engine.Failure {
			return engine.Failure{Detail: fmt.Sprintf("%s on the first %d bytes of input %q held by a %s: panic %s in %s", op.Name, k, inp.ID, kind, pkind, frame), Case: mk()}
		})
	case k < b.consumed && err == nil:
		rep.FailLazy(pre+"io-failure-swallowed/source="+kind, k, func() engine.Failure {
			return engine.Failure{Detail: fmt.Sprintf("%s on input %q: a %s holding only the first %d of the %d bytes the operation needs; it returned nil error (value %s, contiguous value %s)", op.Name, inp.ID, kind, k, b.consumed, show(val), show(b.val)), Case: mk()}
		})
	case k >= b.consumed && err != nil:
		rep.FailLazy(pre+"error-where-contiguous-run-succeeds/source="+kind, k, func() engine.Failure {
			return engine.Failure{Detail: fmt.Sprintf("%s on input %q from a %s holding %d bytes (%d needed): %v", op.Name, inp.ID, kind, k, b.consumed, err), Case: mk()}
		})
	case k >= b.consumed && (!reflect.DeepEqual(val, b.val) || (b.n >= 0 && n != b.n)):
		rep.FailLazy(pre+"value-differs/source="+kind, k, func() engine.Failure {
			return engine.Failure{Detail: fmt.Sprintf("%s on input %q from a %s: value %s, n=%d; the contiguous run returns %s, n=%d", op.Name, inp.ID, kind, show(val), n, show(b.val), b.n), Case: mk()}
		})
	}
}

func concreteFamily(rtasks []readTask) {
	engine.ParallelFor(len(rtasks), func(_, i int) {
		t := rtasks[i]
		if t.op.ToEOF || timeUp() {
			return
		}
		st := stream(t.op, t.inp.Data)
		var n int64
		for _, k := range faultOffsets(len(st)) {
			if k > t.base.consumed && k != len(st) {
				continue
			}
			for _, kind := range concreteKinds {
				judgeConcrete(t.op, t.inp, t.base, kind, k)
				n++
			}
		}
		rep.Eval(n)
	})
	rep.Count("executions_concrete_sources", cntConcrete)
}

// ---- Packet.Scan over truncated bodies

type scanSpec struct {
	name string
	enc  func() []pk.FieldEncoder
	dec  func() ([]pk.FieldDecoder, func() any) // fresh destinations and a snapshot of what was decoded
}

func scanSpecs() []scanSpec {
	long := make([]byte, 300)
	for i := range long {
		long[i] = byte('a' + i%26)
	}
	return []scanSpec{
		{"String", func() []pk.FieldEncoder { return []pk.FieldEncoder{pk.String("hello, fragment")} },
			func() ([]pk.FieldDecoder, func() any) {
				var s pk.String
				return []pk.FieldDecoder{&s}, func() any { return s }
			}},
		{"String(300)", func() []pk.FieldEncoder { return []pk.FieldEncoder{pk.String(long)} },
			func() ([]pk.FieldDecoder, func() any) {
				var s pk.String
				return []pk.FieldDecoder{&s}, func() any { return s }
			}},
		{"VarInt,String,Long", func() []pk.FieldEncoder { return []pk.FieldEncoder{pk.VarInt(300), pk.String("abc"), pk.Long(7)} },
			func() ([]pk.FieldDecoder, func() any) {
				var a pk.VarInt
				var s pk.String
				var l pk.Long
				return []pk.FieldDecoder{&a, &s, &l}, func() any { return []any{a, s, l} }
			}},
		{"Identifier,ByteArray", func() []pk.FieldEncoder {
			return []pk.FieldEncoder{pk.Identifier("minecraft:brand"), pk.ByteArray(long[:70])}
		},
			func() ([]pk.FieldDecoder, func() any) {
				var a pk.Identifier
				var b pk.ByteArray
				return []pk.FieldDecoder{&a, &b}, func() any { return []any{a, []byte(b)} }
			}},
		{"UUID,Position,Angle,Boolean", func() []pk.FieldEncoder {
			return []pk.FieldEncoder{pk.UUID{1, 2, 3, 4, 5, 6, 7, 8, 9, 10, 11, 12, 13, 14, 15, 16}, pk.Position{X: -3, Y: 64, Z: 1000}, pk.Angle(7), pk.Boolean(true)}
		},
			func() ([]pk.FieldDecoder, func() any) {
				var u pk.UUID
				var p pk.Position
				var a pk.Angle
				var b pk.Boolean
				return []pk.FieldDecoder{&u, &p, &a, &b}, func() any { return []any{u, p, a, b} }
			}},
		{"Ary[VarInt]<String>,BitSet", func() []pk.FieldEncoder {
			ss := []pk.String{"a", "", "long enough to matter"}
			return []pk.FieldEncoder{pk.Ary[pk.VarInt]{Ary: ss}, pk.BitSet{1, -2, 3}}
		},
			func() ([]pk.FieldDecoder, func() any) {
				var ss []pk.String
				var b pk.BitSet
				return []pk.FieldDecoder{pk.Ary[pk.VarInt]{Ary: &ss}, &b}, func() any { return []any{ss, []int64(b)} }
			}},
		{"Float,Double,Short,UnsignedShort,Int,Byte", func() []pk.FieldEncoder {
			return []pk.FieldEncoder{pk.Float(1.5), pk.Double(-2.25), pk.Short(-2), pk.UnsignedShort(65535), pk.Int(1 << 30), pk.Byte(-1)}
		},
			func() ([]pk.FieldDecoder, func() any) {
				var f pk.Float
				var d pk.Double
				var s pk.Short
				var u pk.UnsignedShort
				var i pk.Int
				var b pk.Byte
				return []pk.FieldDecoder{&f, &d, &s, &u, &i, &b}, func() any { return []any{f, d, s, u, i, b} }
			}},
	}
}

func scanFamily() {
	specs := scanSpecs()
	for _, sp := range specs {
		sp := sp
		body := pk.Marshal(0x21, sp.enc()...).Data
		var want any
		{
			ds, snap := sp.dec()
			p := pk.Packet{ID: 0x21, Data: append([]byte(nil), body...)}
			if err := p.Scan(ds...); err != nil {
				engine.HarnessError("Packet.Scan[%s] fails on its own complete body %x: %v", sp.name, body, err)
			}
			want = snap()
		}
		for k := 0; k <= len(body); k++ {
			k := k
			ds, snap := sp.dec()
			p := pk.Packet{ID: 0x21, Data: append([]byte(nil), body[:k]...)}
			var err error
			pkind, frame, panicked := engine.Guard(func() { err = p.Scan(ds...) })
			atomic.AddInt64(&cntScan, 1)
			mk := func() concreteCase { return concreteCase{"scan", sp.name, "", fmt.Sprintf("%x", body), "", k} }
			pre := "read/Packet.Scan[" + sp.name + "]/"
			switch {
			case panicked:
				rep.FailLazy(pre+"panic/"+pkind, k, func() engine.Failure {
					return engine.Failure{Detail: fmt.Sprintf("Packet.Scan[%s] of a body cut at %d/%d: panic %s in %s", sp.name, k, len(body), pkind, frame), Case: mk()}
				})
			case k < len(body) && err == nil:
				got := snap()
				rep.FailLazy(pre+"io-failure-swallowed/body-ends-inside-a-field", k, func() engine.Failure {
					return engine.Failure{Detail: fmt.Sprintf("Packet.Scan[%s] of a body cut at %d/%d returned nil error (value %s; complete value %s)", sp.name, k, len(body), show(got), show(want)), Case: mk()}
				})
			case k == len(body) && (err != nil || !reflect.DeepEqual(snap(), want)):
				rep.FailLazy(pre+"complete-body-differs", k, func() engine.Failure {
					return engine.Failure{Detail: fmt.Sprintf("Packet.Scan[%s] of the complete body: err=%v", sp.name, err), Case: mk()}
				})
			}
		}
	}
	rep.Eval(cntScan)
	rep.Count("executions_packet_scan_prefixes", cntScan)
	rep.Extra("packet_scan_field_tuples", func() []string {
		var n []string
		for _, s := range specs {
			n = append(n, s.name)
		}
		return n
	}())
}
