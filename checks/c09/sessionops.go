package main

// Operations that go through the connection objects of go-mc (net.Conn, net.RCONConn) and histories
// of several reads on ONE connection / ONE destination: state that survives a call (a read-ahead
// buffer, recycled capacity, a request id) is only visible there.

import (
	"bytes"
	"fmt"
	"io"

	"github.com/Tnze/go-mc/chat"
	"github.com/Tnze/go-mc/nbt"
	mcnet "github.com/Tnze/go-mc/net"
	pk "github.com/Tnze/go-mc/net/packet"

	"verif/ref/refframe"
	"verif/ref/refnbt"
	"verif/ref/refrcon"
	"verif/ref/refwire"
)

// seqPayloads is the payload-size menu of the frame histories: every ordered pair and every ordered
// triple over it is one input (so a shorter frame follows a longer one and the reverse).
var seqPayloads = []int{0, 5, 130}

func newConn(r io.Reader, w io.Writer, threshold int) *mcnet.Conn {
	c := mcnet.WrapConn(rwConn{r: r, w: w})
	if r != nil {
		c.Reader = r // keep the source's own method set (io.ByteReader or not) visible
	}
	if w != nil {
		c.Writer = w
	}
	c.SetThreshold(threshold)
	return c
}

func oneFrame(threshold int, salt int, n int) []byte {
	payload := pattern(n + salt)[salt:]
	switch {
	case threshold < 0:
		return refframe.AppendPlain(nil, int32(salt), payload)
	default:
		return refframe.AppendCompressionMode(nil, int32(salt), payload, n >= threshold)
	}
}

// frameHistories: all ordered n-tuples over seqPayloads; frame i carries id i and a payload that
// differs from its neighbours' (a stale or misplaced byte is visible).
func frameHistories(threshold, n int) []Input {
	var out []Input
	var rec func(prefix []int)
	rec = func(prefix []int) {
		if len(prefix) == n {
			var data []byte
			name := "payloads="
			for i, n := range prefix {
				data = append(data, oneFrame(threshold, i, n)...)
				if i > 0 {
					name += ","
				}
				name += fmt.Sprint(n)
			}
			out = append(out, in(name, data))
			return
		}
		for _, n := range seqPayloads {
			rec(append(append([]int(nil), prefix...), n))
		}
	}
	rec(nil)
	return out
}

func sessionReadOps() []*ReadOp {
	var ops []*ReadOp
	add := func(o ...*ReadOp) { ops = append(ops, o...) }

	// ---- Conn.ReadPacket: one frame per connection
	for _, thr := range []int{-1, 64} {
		thr := thr
		mode := "no-compression"
		if thr >= 0 {
			mode = fmt.Sprintf("threshold=%d", thr)
		}
		add(&ReadOp{Name: "Conn.ReadPacket[" + mode + "]", PooledRequests: thr >= 0, Inputs: frames(thr >= 0, func(n int) bool { return n >= thr }),
			Run: func(r io.Reader) (any, int64, error) {
				c := newConn(r, nil, thr)
				var p pk.Packet
				err := c.ReadPacket(&p)
				return pktVal{p.ID, append([]byte(nil), p.Data...)}, -1, err
			}})
	}
	// ---- histories: n frames read one after the other from ONE Conn into ONE Packet (and through
	// Packet.UnPack on the bare stream, no connection object in between); the run stops at the first error
	for _, thr := range []int{-1, 64} {
		for _, n := range []int{2, 3} {
			thr, n := thr, n
			mode := "no-compression"
			if thr >= 0 {
				mode = fmt.Sprintf("threshold=%d", thr)
			}
			hist := frameHistories(thr, n)
			add(&ReadOp{Name: fmt.Sprintf("Conn.ReadPacket[%s,%d-frames-on-one-Conn-into-one-Packet]", mode, n), Class: "Conn.ReadPacket[" + mode + ",history]", PooledRequests: thr >= 0, Inputs: hist,
				Run: historyRun(n, func(r io.Reader) func() (any, error) {
					c := newConn(r, nil, thr)
					var p pk.Packet
					return func() (any, error) {
						err := c.ReadPacket(&p)
						return pktVal{p.ID, append([]byte(nil), p.Data...)}, err
					}
				})})
			add(&ReadOp{Name: fmt.Sprintf("UnPack[%s,%d-frames-on-one-stream-into-one-Packet]", mode, n), Class: "UnPack[" + mode + ",history]", PooledRequests: thr >= 0, Inputs: hist,
				Run: historyRun(n, func(r io.Reader) func() (any, error) {
					var p pk.Packet
					return func() (any, error) {
						err := p.UnPack(r, thr)
						return pktVal{p.ID, append([]byte(nil), p.Data...)}, err
					}
				})})
		}
	}

	// ---- RCON server and client side reads
	login := func(id int32, pw string) []byte { return refrcon.Frame(id, refrcon.TypeLogin, []byte(pw)) }
	cmd := func(id int32, n int) []byte { return refrcon.Frame(id, refrcon.TypeCommand, []byte(text(n))) }
	type rconSession struct {
		ReqID   int32
		Payload string
	}
	add(&ReadOp{Name: "RCONConn.AcceptLogin", NoByteSrc: true,
		Inputs: []Input{in("id=7", login(7, "passwrd")), in("id=-1", login(-1, "passwrd")), in("id=0x01020304", login(0x01020304, "passwrd"))},
		Run: func(r io.Reader) (any, int64, error) {
			c := &mcnet.RCONConn{Conn: rwConn{r: r}}
			err := c.AcceptLogin("passwrd")
			return rconSession{ReqID: c.ReqID}, -1, err
		}})
	var cmds []Input
	for _, n := range []int{0, 1, 7, 300, refrcon.MaxPayload} {
		cmds = append(cmds, in(fmt.Sprintf("payload=%d", n), cmd(0x0a0b0c0d, n)))
	}
	add(&ReadOp{Name: "RCONConn.AcceptCmd", NoByteSrc: true, Inputs: cmds,
		Run: func(r io.Reader) (any, int64, error) {
			c := &mcnet.RCONConn{Conn: rwConn{r: r}, ReqID: 1}
			s, err := c.AcceptCmd()
			return rconSession{c.ReqID, s}, -1, err
		}})
	var resps []Input
	for _, n := range []int{0, 1, 7, 300, refrcon.MaxPayload} {
		resps = append(resps, in(fmt.Sprintf("payload=%d", n), refrcon.Frame(0x01020304, 0, []byte(text(n)))))
	}
	add(&ReadOp{Name: "RCONConn.Resp", NoByteSrc: true, Inputs: resps,
		Run: func(r io.Reader) (any, int64, error) {
			c := &mcnet.RCONConn{Conn: rwConn{r: r}, ReqID: 0x01020304}
			s, err := c.Resp()
			return rconSession{c.ReqID, s}, -1, err
		}})
	// a whole server-side session on one RCONConn: login, then two commands of different sizes
	var sess []Input
	for _, a := range []int{0, 7, 300} {
		for _, b := range []int{0, 7, 300} {
			data := append(append(login(5, "passwrd"), cmd(6, a)...), cmd(7, b)...)
			sess = append(sess, in(fmt.Sprintf("login,cmd=%d,cmd=%d", a, b), data))
		}
	}
	add(&ReadOp{Name: "RCONConn[AcceptLogin,AcceptCmd,AcceptCmd on one connection]", NoByteSrc: true, Inputs: sess,
		Run: func(r io.Reader) (any, int64, error) {
			c := &mcnet.RCONConn{Conn: rwConn{r: r}}
			var got []rconSession
			if err := c.AcceptLogin("passwrd"); err != nil {
				return got, -1, err
			}
			got = append(got, rconSession{ReqID: c.ReqID})
			for i := 0; i < 2; i++ {
				s, err := c.AcceptCmd()
				if err != nil {
					return got, -1, err
				}
				got = append(got, rconSession{c.ReqID, s})
			}
			return got, -1, nil
		}})

	// ---- destinations that already hold data and spare capacity
	var pmd []Input
	for _, n := range []int{0, 1, 5, 12, 16, 17, 600} {
		pmd = append(pmd, in(fmt.Sprintf("len=%d", n), pattern(n)))
	}
	add(&ReadOp{Name: "PluginMessageData.ReadFrom[reused-buffer]", Class: "PluginMessageData.ReadFrom", ToEOF: true, Inputs: pmd,
		Run: func(r io.Reader) (any, int64, error) {
			v := pk.PluginMessageData(bytes.Repeat([]byte{0xAA}, 16)[:4])
			n, err := v.ReadFrom(r)
			return pk.PluginMessageData(append([]byte{}, v...)), n, err
		}})
	add(&ReadOp{Name: "BitSet.ReadFrom[reused-buffer]", Class: "BitSet.ReadFrom",
		Inputs: []Input{in("0-longs", refwire.AppendBitSet(nil, nil)), in("1-long", refwire.AppendBitSet(nil, []int64{0x0102030405060708})),
			in("3-longs", refwire.AppendBitSet(nil, []int64{1, -1, 0x0102030405060708})), in("5-longs", refwire.AppendBitSet(nil, []int64{1, 2, 3, 4, 5}))},
		Run: func(r io.Reader) (any, int64, error) {
			v := pk.BitSet(append(make([]int64, 0, 4), -0x5555555555555556, -0x5555555555555556))
			n, err := v.ReadFrom(r)
			return append(pk.BitSet{}, v...), n, err
		}})
	rawIn := docInputs(handDocs(), false, false, "root")
	add(&ReadOp{Name: "nbt.Decode[RawMessage-with-used-buffer,file]", Class: "nbt.Decode[RawMessage,file]", Inputs: rawIn,
		Run: func(r io.Reader) (any, int64, error) {
			v := nbt.RawMessage{Type: nbt.TagString, Data: bytes.Repeat([]byte{0xAA}, 64)[:9]}
			name, err := nbt.NewDecoder(r).Decode(&v)
			return []any{name, v.Type, append([]byte{}, v.Data...)}, -1, err
		}})
	// two documents through ONE Decoder from one stream
	two := twoDocInputs()
	add(&ReadOp{Name: "nbt.Decode[any,file,two-documents-through-one-Decoder]", Class: "nbt.Decode[any,file]", Inputs: two,
		Run: func(r io.Reader) (any, int64, error) {
			d := nbt.NewDecoder(r)
			var got []any
			for i := 0; i < 2; i++ {
				var v any
				name, err := d.Decode(&v)
				if err != nil {
					return got, -1, err
				}
				got = append(got, name, v)
			}
			return got, -1, nil
		}})
	add(&ReadOp{Name: "chat.Message.ReadFrom[two-components-from-one-stream-into-one-Message]", Class: "chat.Message.ReadFrom",
		Inputs: []Input{
			in("compound,bare-string", hx("0a 08 0004 74657874 0002 6869 01 0004 626f6c64 01 00  08 0005 68656c6c6f")),
			in("bare-string,compound", hx("08 0005 68656c6c6f  0a 08 0004 74657874 0002 6869 01 0004 626f6c64 01 00")),
		},
		Run: func(r io.Reader) (any, int64, error) {
			var got []chat.Message
			var total int64
			for i := 0; i < 2; i++ {
				var m chat.Message
				n, err := m.ReadFrom(r)
				total += n
				if err != nil {
					return got, total, err
				}
				got = append(got, m)
			}
			return got, total, nil
		}})
	return ops
}

// historyRun turns a per-stream step function into an operation that performs n steps on one stream;
// the value of the operation is the list of step results.
func historyRun(n int, start func(r io.Reader) func() (any, error)) func(r io.Reader) (any, int64, error) {
	return func(r io.Reader) (any, int64, error) {
		step := start(r)
		var got []any
		for i := 0; i < n; i++ {
			v, err := step()
			if err != nil {
				return got, -1, err
			}
			got = append(got, v)
		}
		return got, -1, nil
	}
}

func twoDocInputs() []Input {
	hand := handDocs()
	pick := map[string]bool{"all-fields": true, "empty-compound": true, "tail-only": true, "field:ba": true, "field:str": true, "long-string": true}
	var docs []doc
	for _, d := range hand {
		if pick[d.id] {
			docs = append(docs, d)
		}
	}
	var out []Input
	for _, a := range docs {
		for _, b := range docs {
			data := refnbt.Append(nil, "first", a.tree, false)
			data = refnbt.Append(data, "second", b.tree, false)
			out = append(out, in(a.id+"+"+b.id, data))
		}
	}
	return out
}

// sessionWriteOps: the write side of the connection objects. For the RCON server the reply of
// AcceptLogin is the output; its input (a well-formed login) comes from a reader that never fails.
func sessionWriteOps() []*WriteOp {
	var ops []*WriteOp
	for _, thr := range []int{-1, 64} {
		thr := thr
		name := "Conn.WritePacket[no-compression]"
		if thr >= 0 {
			name = fmt.Sprintf("Conn.WritePacket[threshold=%d]", thr)
		}
		op := &WriteOp{Name: name}
		for _, n := range []int{0, 5, 130} {
			p := pk.Packet{ID: 0x80, Data: pattern(n)}
			op.Inputs = append(op.Inputs, WInput{fmt.Sprintf("id=128,payload=%d", n), func(w io.Writer) (int64, error) { return -1, newConn(nil, w, thr).WritePacket(p) }})
		}
		ops = append(ops, op)
	}
	login := refrcon.Frame(7, refrcon.TypeLogin, []byte("passwrd"))
	ops = append(ops, &WriteOp{Name: "RCONConn.AcceptLogin[reply]", Inputs: []WInput{
		{"password-accepted", func(w io.Writer) (int64, error) {
			c := &mcnet.RCONConn{Conn: rwConn{r: bytes.NewReader(login), w: w}}
			return -1, c.AcceptLogin("passwrd")
		}},
		{"password-refused", func(w io.Writer) (int64, error) {
			c := &mcnet.RCONConn{Conn: rwConn{r: bytes.NewReader(login), w: w}}
			if err := c.AcceptLogin("another"); err == nil || err.Error() != "password wrong" {
				return -1, err // an I/O error, or (wrongly) nil
			}
			return -1, nil // the refusal itself was delivered: that is this operation's success
		}},
	}})
	cmdOp := &WriteOp{Name: "RCONConn.Cmd"}
	respOp := &WriteOp{Name: "RCONConn.RespCmd"}
	for _, n := range []int{0, 4, 300} {
		payload := text(n)
		cmdOp.Inputs = append(cmdOp.Inputs, WInput{fmt.Sprintf("payload=%d", n), func(w io.Writer) (int64, error) {
			return -1, (&mcnet.RCONConn{Conn: rwConn{w: w}, ReqID: 9}).Cmd(payload)
		}})
		respOp.Inputs = append(respOp.Inputs, WInput{fmt.Sprintf("payload=%d", n), func(w io.Writer) (int64, error) {
			return -1, (&mcnet.RCONConn{Conn: rwConn{w: w}, ReqID: 9}).RespCmd(payload)
		}})
	}
	ops = append(ops, cmdOp, respOp)
	msgOp := &WriteOp{Name: "chat.Message.WriteTo"}
	for _, e := range []struct {
		id string
		m  chat.Message
	}{{"text", chat.Text("hello")}, {"text-bold-with-extra", chat.Message{Text: "a", Bold: true, Extra: []chat.Message{chat.Text("b"), chat.Text("c")}}},
		{"translate-with-args", chat.TranslateMsg("chat.type.text", chat.Text("bob"), chat.Text("hi"))}} {
		e := e
		msgOp.Inputs = append(msgOp.Inputs, WInput{e.id, func(w io.Writer) (int64, error) { return e.m.WriteTo(w) }})
	}
	ops = append(ops, msgOp)
	return ops
}
