package main

// chat/sign: the 256-byte message signature is a fixed-size wire field (the property text names chat
// signatures among the readers that use a bare Read); sign.Signature.ReadFrom and the signature
// branch of sign.PackedSignature.ReadFrom are read operations like every other field's.

import (
	"io"

	"github.com/Tnze/go-mc/chat/sign"
)

func signReadOps() []*ReadOp {
	sig := pattern(256)
	return []*ReadOp{
		{Name: "sign.Signature.ReadFrom", Inputs: []Input{in("pattern", sig)},
			Run: func(r io.Reader) (any, int64, error) {
				var s sign.Signature
				n, err := s.ReadFrom(r)
				return s, n, err
			}},
		// wire id -1 (VarInt ff ff ff ff 0f) is the value for which ReadFrom reads a full signature
		// into the Signature the caller supplies
		{Name: "sign.PackedSignature.ReadFrom[full-signature-into-supplied-Signature]", Class: "sign.PackedSignature.ReadFrom",
			Inputs: []Input{in("pattern", append(hx("ffffffff0f"), sig...))},
			Run: func(r io.Reader) (any, int64, error) {
				var s sign.Signature
				n, err := sign.PackedSignature{Signature: &s}.ReadFrom(r)
				return s, n, err
			}},
	}
}
