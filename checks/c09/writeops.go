package main

import (
	"bytes"
	"fmt"
	"io"

	"github.com/Tnze/go-mc/nbt"
	"github.com/Tnze/go-mc/nbt/dynbt"
	mcnet "github.com/Tnze/go-mc/net"
	pk "github.com/Tnze/go-mc/net/packet"

	"verif/engine"
	"verif/ref/refnbt"
)

// WInput is one value to be written; Run writes it to w. n < 0: the API reports no count.
type WInput struct {
	ID  string
	Run func(w io.Writer) (n int64, err error)
}

// WriteOp is one stream-writing operation of go-mc.
type WriteOp struct {
	Name   string
	Inputs []WInput
}

type upper string

func (u upper) MarshalText() ([]byte, error) { return bytes.ToUpper([]byte(u)), nil }

type shade string

func (s shade) Dark() bool { return s == "black" }

type colour int

func (c colour) String() string { return fmt.Sprintf("colour-%d", int(c)) }

type omit struct {
	A []int16 `nbt:"a,omitempty"`
	B bool    `nbt:"b,omitempty"`
	C int32   `nbt:"c,omitempty"`
	D uint16  `nbt:"d,omitempty"`
	E float64 `nbt:"e,omitempty"`
	F any     `nbt:"f,omitempty"`
	G *int32  `nbt:"g,omitempty"`
	H string  `nbt:"h,omitempty"`
	Z int8    `nbt:"z"`
}

type embHolder struct {
	*Emb
	Z int8 `nbt:"z"`
}

type asList struct {
	V []int32 `nbt:"v,list"`
	W []int64 `nbt:"w,list"`
	E []byte  `nbt:"e,omitempty"`
	T int8    `nbt:"t"`
}

func mustDyn(tree *refnbt.Node) *dynbt.Value {
	var v dynbt.Value
	if err := nbt.Unmarshal(refnbt.Append(nil, "", tree, false), &v); err != nil {
		engine.HarnessError("cannot build dynbt value: %v", err)
	}
	return &v
}

func nbtValues() []struct {
	id string
	v  any
} {
	i32 := int32(77)
	all := handDocs()[0].tree
	full := typedDoc{B: -2, Bo: true, U8: 200, S: -258, I: 0x01020304, L: 0x0102030405060708, F: -1.5, D: 1.5, Str: "héllo",
		BA: []byte{1, 2, 3}, I8A: []int8{-1, 2}, BoA: []bool{true, false}, FBA: [2]byte{9, 8}, IA: []int32{1, -2, 3}, FIA: [2]int32{7, 8},
		LA: []int64{-1, 2}, ULA: []uint64{5}, FLA: [2]int64{3, 4}, LS: []string{"a", "", "bcd"}, LL: [][]int16{{1, 2}, {}, {3}},
		LC: []inner{{1, "p"}, {}}, FL: [2]int16{4, 5}, C: inner{-1, "q"}, M: map[string]int32{"k": 1},
		Any: map[string]any{"z": []float64{1.5}}, Raw: nbt.RawMessage{Type: nbt.TagCompound, Data: refnbt.AppendPayload(nil, sampleOf(refnbt.Compound))},
		Dyn: mustDyn(sampleOf(refnbt.Compound)), Snbt: nbt.StringifiedMessage(`{q:"it's",n:[1b,2b]}`), P: &i32,
		U16: 65534, U32: 0xfffffffd, U64: 1 << 63, F64: -1.5, NB: namedBytes{4, 5, 6}, FI8: [2]int8{-7, 8}, FBo: [2]bool{false, true},
		UIA: []uint32{9}, FULA: [2]uint64{10, 11}, Txt: textVal{"SHOUT"}, Fold: 11, Any2: inner{13, "v"}, Emb: &Emb{12}, Tail: 0x0a0b0c0d}
	return []struct {
		id string
		v  any
	}{
		{"int8", int8(-2)}, {"bool", true}, {"uint8", uint8(200)}, {"int16", int16(-258)}, {"uint16", uint16(65000)},
		{"int32", int32(0x01020304)}, {"uint32", uint32(0xfffefdfc)}, {"int64", int64(0x0102030405060708)}, {"uint64", uint64(1) << 63},
		{"float32", float32(-1.5)}, {"float64", 1.5}, {"string", "héllo"}, {"string-empty", ""}, {"string-300", text(300)},
		{"[]byte", []byte{1, 2, 3}}, {"[]byte-empty", []byte{}}, {"[]int8", []int8{-1, 2}}, {"[]bool", []bool{true, false, true}}, {"[3]byte", [3]byte{1, 2, 3}},
		{"[]int32", []int32{1, -2, 3}}, {"[]uint32", []uint32{1, 0xfffffffe}}, {"[2]int32", [2]int32{7, 8}}, {"[]int64", []int64{-1, 2}}, {"[]uint64", []uint64{5, 6}},
		{"[]string", []string{"a", "", "bcd"}}, {"[]string-empty", []string{}}, {"[][]int16", [][]int16{{1, 2}, {}, {3}}}, {"[][]int32", [][]int32{{1}, {2, 3}}},
		{"[]float32", []float32{1.5, -2}}, {"[]float64", []float64{1.5}}, {"[]struct", []inner{{1, "p"}, {2, ""}}}, {"[]any", []any{int16(1), int16(2)}},
		{"struct-every-kind", full}, {"*struct-every-kind", &full}, {"struct-list-tags", asList{V: []int32{1, 2}, W: []int64{3}, T: 4}},
		{"map-1-key", map[string]int32{"k": 5}}, {"map-empty", map[string]any{}}, {"map-any-nested", map[string]any{"k": []any{map[string]any{"j": int8(1)}}}},
		{"RawMessage", nbt.RawMessage{Type: nbt.TagCompound, Data: refnbt.AppendPayload(nil, all)}},
		{"RawMessage-scalar", nbt.RawMessage{Type: nbt.TagLong, Data: []byte{1, 2, 3, 4, 5, 6, 7, 8}}},
		{"[]RawMessage", []nbt.RawMessage{{Type: nbt.TagInt, Data: []byte{0, 0, 0, 1}}, {Type: nbt.TagInt, Data: []byte{0, 0, 0, 2}}}},
		{"*dynbt.Value", mustDyn(all)}, {"*dynbt.Value-scalar", dynbt.NewLong(5)}, {"*dynbt.Value-list", dynbt.NewList(dynbt.NewString("a"), dynbt.NewString("b"))},
		{"StringifiedMessage", nbt.StringifiedMessage(`{a:1b,b:[I;1,2],c:"x y",d:[1L,2L],e:[{f:1.5f},{g:2.5d}],h:[B;1b,2b],i:[L;3L],j:3s,k:[[1,2],[3]],l:[a,b],m:[]}`)},
		{"StringifiedMessage-scalar", nbt.StringifiedMessage(`12345`)}, {"StringifiedMessage-list", nbt.StringifiedMessage(`[1.5d, 2.5d]`)},
		{"StringifiedMessage-int-array", nbt.StringifiedMessage(`[I; 1, 2]`)}, {"StringifiedMessage-byte-array", nbt.StringifiedMessage(`[B;1b]`)},
		{"StringifiedMessage-long-array", nbt.StringifiedMessage(`[L;1L,2L]`)}, {"StringifiedMessage-list-of-compounds", nbt.StringifiedMessage(`[{a:1},{a:2}]`)},
		{"TextMarshaler", upper("shout")}, {"*TextMarshaler", &textVal{"Quiet"}}, {"*int32", &i32}, {"nil-*int32", (*int32)(nil)},
		{"[]any-int32", []any{int32(1), int32(2)}}, {"[]any-int64", []any{int64(1)}}, {"string-with-methods", shade("red")},
		{"map-Stringer-key", map[colour]int8{3: 1}}, {"map-interface-compound", map[string]any{"k": any(map[string]any{})}},
		{"struct-omitempty-every-kind", omit{}}, {"struct-omitempty-filled", omit{A: []int16{1}, B: true, C: 1, D: 2, E: 1.5, F: int8(1), G: &i32, H: "h"}},
		{"struct-dynbt-by-value", struct {
			V dynbt.Value `nbt:"v"`
		}{*mustDyn(sampleOf(refnbt.List))}},
		{"*struct-dynbt-by-value", &struct {
			V dynbt.Value `nbt:"v"`
		}{*mustDyn(sampleOf(refnbt.List))}},
		{"struct-nil-embedded-pointer", embHolder{Z: 1}}, {"struct-embedded-pointer", embHolder{&Emb{5}, 1}}, {"*dynbt.Value-zero", &dynbt.Value{}},
	}
}

// sizeValues: one value per (payload kind, size class), see sizeDocs.
func sizeValues() []struct {
	id string
	v  any
} {
	var out []struct {
		id string
		v  any
	}
	add := func(id string, v any) {
		out = append(out, struct {
			id string
			v  any
		}{id, v})
	}
	for _, s := range sizeClasses() {
		i32, u32 := make([]int32, s/4), make([]uint32, s/4)
		for i := range i32 {
			i32[i], u32[i] = int32(i+1), uint32(i+1)
		}
		i64, u64 := make([]int64, s/8), make([]uint64, s/8)
		for i := range i64 {
			i64[i], u64[i] = int64(i+1), uint64(i+1)
		}
		i16 := make([]int16, s/2)
		for i := range i16 {
			i16[i] = int16(i + 1)
		}
		strs := make([]string, s/5)
		for i := range strs {
			strs[i] = text(3 + i%2)[i%2:]
		}
		anyInts := make([]any, s/4)
		for i := range anyInts {
			anyInts[i] = int32(i + 1)
		}
		p := fmt.Sprintf("size=%d:", s)
		add(p+"[]byte", pattern(s))
		add(p+"string", text(min(s, 32767)))
		add(p+"RawMessage", nbt.RawMessage{Type: nbt.TagByteArray, Data: refnbt.AppendPayload(nil, nBA(make([]int64, s)...))})
		if s > 40000 {
			continue // element-wise kinds (one Write per element): up to 40000 bytes, as on the read side
		}
		add(p+"[]bool", make([]bool, s))
		add(p+"[]int32", i32)
		add(p+"[]uint32", u32)
		add(p+"[]int64", i64)
		add(p+"[]uint64", u64)
		add(p+"[]any-int32", anyInts)
		add(p+"[]string", strs)
		add(p+"[]int16", i16)
		add(p+"struct-list-tags", asList{V: i32, W: i64, T: 4})
		add(p+"map-long-key", map[string]int32{text(min(s, 32767)): 1})
	}
	return out
}

func nbtWriteOps() []*WriteOp {
	var ops []*WriteOp
	for _, network := range []bool{false, true} {
		network := network
		format := "file"
		if network {
			format = "network"
		}
		op := &WriteOp{Name: "nbt.Encode[" + format + "]"}
		vals := nbtValues()
		if !network || rep.Thorough() || rep.ReplayPath != "" {
			vals = append(vals, sizeValues()...) // quick tier: the size classes in the file format only
		}
		for _, e := range vals {
			e := e
			op.Inputs = append(op.Inputs, WInput{e.id, func(w io.Writer) (int64, error) {
				enc := nbt.NewEncoder(w)
				enc.NetworkFormat(network)
				return -1, enc.Encode(e.v, "root")
			}})
		}
		ops = append(ops, op)
	}
	op := &WriteOp{Name: "NBTField.WriteTo"}
	vals := nbtValues()
	if rep.Thorough() || rep.ReplayPath != "" {
		vals = append(vals, sizeValues()...)
	}
	for _, e := range vals {
		e := e
		op.Inputs = append(op.Inputs, WInput{e.id, func(w io.Writer) (int64, error) { return pk.NBT(e.v).WriteTo(w) }})
	}
	op.Inputs = append(op.Inputs, WInput{"nil", func(w io.Writer) (int64, error) { return pk.NBT(nil).WriteTo(w) }})
	ops = append(ops, op)
	return ops
}

func wf(id string, v io.WriterTo) WInput {
	return WInput{id, func(w io.Writer) (int64, error) { return v.WriteTo(w) }}
}

func wireWriteOps() []*WriteOp {
	var ops []*WriteOp
	field := func(name string, ins ...WInput) { ops = append(ops, &WriteOp{Name: name + ".WriteTo", Inputs: ins}) }

	// ---- framing
	for _, thr := range []int{-1, 0, 64} {
		thr := thr
		name := fmt.Sprintf("Pack[threshold=%d]", thr)
		if thr < 0 {
			name = "Pack[no-compression]"
		}
		op := &WriteOp{Name: name}
		for _, id := range []int32{0, 0x80, -1} {
			for _, n := range []int{0, 5, 63, 64, 130, 300} {
				if id != 0 && n != 5 && n != 130 {
					continue
				}
				p := pk.Packet{ID: id, Data: pattern(n)}
				op.Inputs = append(op.Inputs, WInput{fmt.Sprintf("id=%d,payload=%d", id, n), func(w io.Writer) (int64, error) { return -1, p.Pack(w, thr) }})
			}
		}
		ops = append(ops, op)
	}

	// ---- size classes (see sizeDocs)
	for _, s := range sizeClasses() {
		s := s
		id := fmt.Sprintf("size=%d", s)
		for _, thr := range []int{-1, 64} {
			thr := thr
			name := "Pack[no-compression]"
			if thr >= 0 {
				name = fmt.Sprintf("Pack[threshold=%d]", thr)
			}
			for _, op := range ops {
				if op.Name == name {
					p := pk.Packet{ID: 1, Data: noise(s)}
					op.Inputs = append(op.Inputs, WInput{"id=1,payload=" + id + "-incompressible", func(w io.Writer) (int64, error) { return -1, p.Pack(w, thr) }})
				}
			}
		}
		longs := make(pk.BitSet, s/8)
		ints := make([]pk.Int, s/4)
		for i := range ints {
			ints[i] = pk.Int(i + 1)
		}
		field("String["+id+"]", wf(id, pk.String(text(s))))
		field("ByteArray["+id+"]", wf(id, pk.ByteArray(pattern(s))))
		field("PluginMessageData["+id+"]", wf(id, pk.PluginMessageData(pattern(s))))
		field("BitSet["+id+"]", wf(id, longs))
		field("FixedBitSet["+id+"]", wf(id, pk.FixedBitSet(pattern(s))))
		field("Ary[VarInt]<Int>["+id+"]", wf(id, pk.Ary[pk.VarInt]{Ary: ints}))
	}

	// ---- fields
	field("Boolean", wf("true", pk.Boolean(true)), wf("false", pk.Boolean(false)))
	field("Byte", wf("-128", pk.Byte(-128)))
	field("UnsignedByte", wf("255", pk.UnsignedByte(255)))
	field("Short", wf("258", pk.Short(258)))
	field("UnsignedShort", wf("65534", pk.UnsignedShort(65534)))
	field("Int", wf("0x01020304", pk.Int(0x01020304)))
	field("Long", wf("0x0102030405060708", pk.Long(0x0102030405060708)))
	field("Float", wf("1.5", pk.Float(1.5)))
	field("Double", wf("1.5", pk.Double(1.5)))
	field("VarInt", wf("0", pk.VarInt(0)), wf("128", pk.VarInt(128)), wf("16384", pk.VarInt(16384)), wf("2097152", pk.VarInt(2097152)), wf("-1", pk.VarInt(-1)))
	field("VarLong", wf("0", pk.VarLong(0)), wf("128", pk.VarLong(128)), wf("1<<14", pk.VarLong(1<<14)), wf("1<<21", pk.VarLong(1<<21)),
		wf("1<<28", pk.VarLong(1<<28)), wf("1<<35", pk.VarLong(1<<35)), wf("1<<42", pk.VarLong(1<<42)), wf("1<<49", pk.VarLong(1<<49)), wf("1<<56", pk.VarLong(1<<56)), wf("-1", pk.VarLong(-1)))
	field("String", wf("empty", pk.String("")), wf("a", pk.String("a")), wf("hé世", pk.String("hé世")), wf("len=130", pk.String(text(130))), wf("len=300", pk.String(text(300))))
	field("Identifier", wf("minecraft:stone", pk.Identifier("minecraft:stone")))
	field("Position", wf("1,2,3", pk.Position{X: 1, Y: 2, Z: 3}), wf("-1,-1,-1", pk.Position{X: -1, Y: -1, Z: -1}))
	field("Angle", wf("64", pk.Angle(64)))
	field("UUID", wf("pattern", pk.UUID(*(*[16]byte)(pattern(16)))))
	field("ByteArray", wf("len=0", pk.ByteArray{}), wf("len=3", pk.ByteArray(pattern(3))), wf("len=130", pk.ByteArray(pattern(130))))
	field("PluginMessageData", wf("len=0", pk.PluginMessageData{}), wf("len=5", pk.PluginMessageData(pattern(5))))
	field("BitSet", wf("0-longs", pk.BitSet{}), wf("1-long", pk.BitSet{0x0102030405060708}), wf("3-longs", pk.BitSet{1, -1, 0x0102030405060708}))
	field("FixedBitSet", wf("0-bytes", pk.NewFixedBitSet(0)), wf("3-bytes", pk.FixedBitSet(pattern(3))), wf("16-bytes", pk.FixedBitSet(pattern(16))))

	type (
		optStr = pk.Option[pk.String, *pk.String]
		optVI  = pk.Option[pk.VarInt, *pk.VarInt]
	)
	field("Option[String]", wf("absent", optStr{}), wf("abc", optStr{Has: true, Val: "abc"}), wf("empty", optStr{Has: true}))
	field("Option[VarInt]", wf("absent", optVI{}), wf("300", optVI{Has: true, Val: 300}))
	field("OptionEncoder[Long]", wf("absent", pk.OptionEncoder[pk.Long]{}), wf("present", pk.OptionEncoder[pk.Long]{Has: true, Val: 5}))
	field("Ary[VarInt]<Int>", wf("0", pk.Ary[pk.VarInt]{Ary: []pk.Int{}}), wf("3", pk.Ary[pk.VarInt]{Ary: []pk.Int{1, 2, 3}}), wf("130-via-pointer", pk.Ary[pk.VarInt]{Ary: &[]pk.Int{129: 7}}))
	field("Ary[VarInt]<String>", wf("3-with-empty", pk.Array([]pk.String{"", "a", "bcd"})))
	field("Ary[Byte]<Short>", wf("2", pk.Ary[pk.Byte]{Ary: []pk.Short{1, 2}}))
	field("Ary[UnsignedByte]<Boolean>", wf("3", pk.Ary[pk.UnsignedByte]{Ary: []pk.Boolean{true, false, true}}))
	field("Ary[Short]<VarInt>", wf("2", pk.Ary[pk.Short]{Ary: []pk.VarInt{127, 128}}))
	field("Ary[UnsignedShort]<Byte>", wf("3", pk.Ary[pk.UnsignedShort]{Ary: []pk.Byte{1, 2, 3}}))
	field("Ary[Int]<Long>", wf("1", pk.Ary[pk.Int]{Ary: []pk.Long{5}}))
	field("Ary[Long]<UnsignedByte>", wf("2", pk.Ary[pk.Long]{Ary: []pk.UnsignedByte{1, 2}}))
	field("Ary[VarLong]<UUID>", wf("1", pk.Ary[pk.VarLong]{Ary: []pk.UUID{pk.UUID(*(*[16]byte)(pattern(16)))}}))
	field("Ary[VarInt]<Option[String]>", wf("3", pk.Array([]optStr{{}, {Has: true, Val: "ab"}, {Has: true}})))
	yes, no := true, false
	field("Tuple", wf("mixed", pk.Tuple{pk.Boolean(true), pk.VarInt(300), pk.String("abc"), pk.Long(1), pk.UUID{1}, pk.ByteArray{1, 2}, pk.Angle(3)}),
		wf("empty", pk.Tuple{}),
		wf("with-Opt", pk.Tuple{pk.Boolean(true), pk.Opt{Has: &yes, Field: pk.Int(5)}, pk.Opt{Has: &no, Field: pk.Int(6)},
			pk.Opt{Has: func() bool { return true }, Field: func() pk.FieldEncoder { return pk.String("hi") }},
			pk.Opt{Has: &yes, Field: func() pk.Field { v := pk.VarInt(300); return &v }}}),
		wf("nested", pk.Tuple{pk.VarInt(128), pk.Array([]optStr{{Has: true, Val: "a"}, {}}), pk.FixedBitSet(pattern(3)), pk.NBT(map[string]int32{"k": 1})}))

	// ---- RCON
	op := &WriteOp{Name: "RCONConn.WritePacket"}
	for _, n := range []int{0, 4, 300} {
		payload := text(n)
		op.Inputs = append(op.Inputs, WInput{fmt.Sprintf("payload=%d", n), func(w io.Writer) (int64, error) {
			c := &mcnet.RCONConn{Conn: rwConn{w: w}}
			return -1, c.WritePacket(0x01020304, 2, payload)
		}})
	}
	ops = append(ops, op)
	return ops
}
