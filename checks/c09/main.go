// C09 — stream reads are fragmentation-invariant; I/O failures are never swallowed.
//
// Every operation is run once on a contiguous, fault-free source (the baseline) and then under
// an exhaustively enumerated family of environments: every division of the input into segments
// (inputs <= 12 bytes), every placement of <= B short reads plus fixed-size chunkings (longer
// inputs), every failure offset x {io.EOF, injected error} x {error with the last bytes, error
// on the next call} x {contiguous, byte-at-a-time}, and for writers a failure after every number
// of accepted bytes. The oracle is differential against the baseline of the same operation:
// same value / byte count / residual stream under fragmentation; a non-nil error whenever the
// failure lies inside what the baseline consumed or produced; identical success beyond it.
package main

import (
	"bytes"
	"encoding/hex"
	"encoding/json"
	"fmt"
	"io"
	"os"
	"reflect"
	"sort"
	"strconv"
	"strings"
	"sync/atomic"
	"time"

	"verif/engine"
)

// Case describes one execution; it is what a replay file carries.
type Case struct {
	Side   string `json:"side"`  // read | write
	Op     string `json:"op"`    // operation name
	Input  string `json:"input"` // input id within the operation
	Hex    string `json:"input_hex,omitempty"`
	Source string `json:"source,omitempty"` // read: plain | bytereader
	// Mode: segments (Cuts = stream offsets with a segment boundary in front), reads (Sizes = size of
	// every non-empty Read in call order), fault (K, Err, Style, Frag), wfault (K).
	Mode  string `json:"mode"`
	Cuts  []int  `json:"cuts,omitempty"`
	Sizes []int  `json:"sizes,omitempty"`
	K     int    `json:"k"`
	Err   string `json:"err,omitempty"`  // eof | injected
	Style int    `json:"style"`          // 0: error together with the last bytes; 1: on the next call
	Frag  int    `json:"frag,omitempty"` // fault mode: >0 limits every Read to Frag bytes
}

var (
	rep      *engine.Report
	wd       *engine.Watchdog
	tail     = []byte{0xEE, 0xEE, 0xEE}
	deadline time.Time
	capped   int32
	budget   int64 // executions allowed for the short-read walk of one (operation, input, source)
)

const exhaustiveLen = 12

// allOffsetsUpTo: inputs up to this many bytes get a fault at EVERY offset; longer ones (the large
// size classes) at the offsets of faultOffsets.
const allOffsetsUpTo = 12000

// faultOffsets is the menu of failure offsets for a stream of n bytes: every offset for n <=
// allOffsetsUpTo; otherwise the first and last 600 offsets and every offset from 8 below to 40 above a
// multiple of 4096 (block boundaries of 4 KiB, 8 KiB, 32 KiB and 64 KiB buffers, counted from the start
// of the stream or from the start of a payload behind a header of up to 40 bytes, all lie there).
// fullProductAt: the whole product {EOF, injected} x {with the last bytes, on the next call} + a
// transient failure, on both source kinds, is run at offset k of an n-byte stream when n <=
// fullProductUpTo, in the first and last 300 offsets, and from 8 below to 40 above every multiple of
// 512; the other offsets of a longer stream get an EOF on the next call and an injected error with the
// last bytes, on the plain source.
const fullProductUpTo = 4500

func fullProductAt(n, k int) bool {
	return n <= fullProductUpTo || k < 300 || k > n-300 || (k+8)%512 <= 48
}

func faultOffsets(n int) []int {
	out := make([]int, 0, min(n+1, 4096))
	for k := 0; k <= n; k++ {
		if n <= allOffsetsUpTo || k < 600 || k > n-600 || (k+8)%4096 <= 48 {
			out = append(out, k)
		}
	}
	return out
}

// ---------------------------------------------------------------------------------------------
// read side

type baseline struct {
	val      any
	n        int64
	consumed int
}

type obs struct {
	val      any
	n        int64
	err      error
	consumed int
	calls    int
	devs     int
	sizes    []int
	events   []event
	panicked bool
	kind     string
	frame    string
}

func stream(op *ReadOp, data []byte) []byte {
	if op.ToEOF {
		return data
	}
	return append(append(make([]byte, 0, len(data)+len(tail)), data...), tail...)
}

func faultErr(name string) error {
	if name == "eof" {
		return io.EOF
	}
	return engine.ErrInjected
}

// execRead runs op once on the environment cs describes. c is only used in mode "choice".
func execRead(slot int, op *ReadOp, st []byte, cs *Case, c *engine.Chooser, altCap int, trace bool) obs {
	var dev io.Reader
	m := &meter{trace: trace}
	switch cs.Mode {
	case "contiguous":
		dev = &engine.PlainReader{Data: st}
	case "segments":
		cut := make([]bool, len(st)+1)
		for _, p := range cs.Cuts {
			cut[p] = true
		}
		dev = &segReader{data: st, cut: cut}
	case "reads":
		dev = &engine.ChunkReader{Data: st, Sizes: cs.Sizes}
	case "choice":
		dev = &choiceSrc{data: st, c: c, a: altCap}
		m.rec = true
	case "fault":
		if cs.Style == 2 {
			dev = &transientReader{data: st, k: cs.K, err: faultErr(cs.Err)}
		} else {
			dev = &engine.FaultReader{Data: st, K: cs.K, Err: faultErr(cs.Err), Style: cs.Style, Frag: cs.Frag}
		}
	default:
		engine.HarnessError("unknown mode %q", cs.Mode)
	}
	m.r = dev
	var src io.Reader = m
	if cs.Source == "bytereader" {
		src = byteSrc{m}
	}
	var o obs
	watched := wd != nil && slot >= 0 // slot < 0: a nested reference run inside a watched case
	if watched {
		wd.Begin(slot, func() string { b, _ := json.Marshal(cs); return string(b) })
	}
	o.kind, o.frame, o.panicked = engine.Guard(func() { o.val, o.n, o.err = op.Run(src) })
	if watched {
		wd.End(slot)
	}
	o.consumed, o.calls, o.devs, o.sizes, o.events = m.n, m.calls, m.devs, m.sizes, m.events
	return o
}

const (
	vOK = iota
	vUnspec
	vViolation
)

// verdictRead is the oracle. It returns the verdict, the oracle clause (class fragment) and a detail.
func verdictRead(op *ReadOp, data []byte, b *baseline, cs *Case, o *obs) (int, string, string) {
	if o.panicked {
		return vViolation, "panic/" + o.kind, fmt.Sprintf("panic %s in %s", o.kind, o.frame)
	}
	same := func(prefix string) (int, string, string) { return sameAs(b, o, prefix) }
	if cs.Mode != "fault" {
		return same("short-reads/")
	}
	need := b.consumed
	if op.ToEOF && cs.Style == 2 {
		need++ // the operation also needs to see the end of the stream: a failing call there is inside it
	}
	switch {
	case op.ToEOF && cs.K < len(data) && cs.Err == "eof":
		// The value is delimited by the end of the stream, so a stream that ends after k bytes IS the
		// stream data[:k]; whether its last bytes arrive together with io.EOF or before it is one more way
		// of delivering that stream, and the result must be the one of the contiguous read of data[:k].
		pb := prefixBaseline(op, data[:cs.K])
		if pb == nil {
			return vUnspec, "", "" // the shorter stream is not a value of this operation
		}
		return sameAs(pb, o, "end-of-stream-delivery/")
	case cs.K < need:
		if o.err == nil && cs.Style == 2 {
			if v, _, _ := same(""); v == vOK {
				// the operation rode out a temporary error and still produced the complete result:
				// not a truncated or partially filled result
				return vUnspec, "", ""
			}
		}
		if o.err == nil {
			return vViolation, "io-failure-swallowed", fmt.Sprintf("reader failed after %d of the %d bytes the operation needs, yet it returned nil error (value %s, contiguous value %s)", cs.K, need, show(o.val), show(b.val))
		}
		return vOK, "", ""
	case cs.K == need && cs.Style == 0 && o.err != nil && !op.ToEOF:
		// the reader handed over the last needed bytes together with its error: whether the
		// operation may report that error is not fixed by the statement
		return vUnspec, "", ""
	default:
		return same("fault-after-value/")
	}
}

// prefixBaseline is the contiguous, fault-free run of an end-of-stream-delimited operation on a shorter stream.
func prefixBaseline(op *ReadOp, st []byte) *baseline {
	cs := Case{Mode: "contiguous", Source: "plain"}
	o := execRead(-1, op, st, &cs, nil, 0, false)
	if o.panicked || o.err != nil {
		return nil
	}
	return &baseline{o.val, o.n, o.consumed}
}

// sameAs demands the result b of a contiguous run: value, reported count, bytes taken from the stream.
func sameAs(b *baseline, o *obs, prefix string) (int, string, string) {
	if o.err != nil {
		return vViolation, prefix + "error-where-contiguous-run-succeeds", fmt.Sprintf("returned error %q; the contiguous run of the same operation on the same bytes succeeds", o.err)
	}
	if !reflect.DeepEqual(o.val, b.val) {
		return vViolation, prefix + "value-differs", fmt.Sprintf("returned nil error and value %s; the contiguous run returns %s", show(o.val), show(b.val))
	}
	if b.n >= 0 && o.n != b.n {
		return vViolation, prefix + "byte-count-differs", fmt.Sprintf("reported %d bytes; the contiguous run reports %d", o.n, b.n)
	}
	if o.consumed != b.consumed {
		return vViolation, prefix + "residual-stream-differs", fmt.Sprintf("took %d bytes from the stream; the contiguous run takes %d", o.consumed, b.consumed)
	}
	return vOK, "", ""
}

func show(v any) string {
	s := fmt.Sprintf("%+v", v)
	if len(s) > 160 {
		s = s[:160] + "…"
	}
	return s
}

var (
	cntFragExec, cntFaultExec, cntWriteExec, cntNonTrivial, cntCalls int64
	cntSkippedOptional, cntPairs                                     int64
)

// judgeRead executes and judges one case; on a violation it re-executes with call tracing to name the site.
func judgeRead(slot int, op *ReadOp, inp *Input, b *baseline, cs Case, c *engine.Chooser, altCap int) int {
	st := stream(op, inp.Data)
	o := execRead(slot, op, st, &cs, c, altCap, false)
	atomic.AddInt64(&cntCalls, int64(o.calls))
	if o.devs > 0 {
		atomic.AddInt64(&cntNonTrivial, 1)
	}
	if cs.Mode == "choice" {
		cs.Mode, cs.Sizes = "reads", o.sizes
	}
	v, clause, detail := verdictRead(op, inp.Data, b, &cs, &o)
	switch v {
	case vOK:
		return v
	case vUnspec:
		rep.Unspec(1)
		switch {
		case cs.Style == 2:
			rep.Count("unspecified/transient-error-ridden-out-with-complete-result/"+op.class(), 1)
		case op.ToEOF:
			rep.Count("unspecified/stream-ended-early-and-the-shorter-stream-is-not-a-value/"+op.class(), 1)
		default:
			rep.Count("unspecified/error-delivered-with-the-last-needed-bytes-was-reported/"+op.class(), 1)
		}
		return v
	}
	// name the site: same case, traced
	ot := execRead(slot, op, st, &cs, nil, 0, true)
	v2, clause2, _ := verdictRead(op, inp.Data, b, &cs, &ot)
	site := pickSite(ot.events)
	if ot.panicked {
		site = ot.frame
	}
	if v2 != v || clause2 != clause {
		// The first execution really happened and really broke the oracle; the same bytes delivered in the
		// same way now give another result, so the operation depends on state outside the stream (a pooled
		// buffer's capacity decides how much a read-ahead takes, for instance). Still a violation; the site
		// of the re-execution would be misleading.
		site = "result-not-reproduced-on-re-execution"
		rep.Count("violations_not_reproduced_on_the_traced_re-execution_(operation_depends_on_process_state)", 1)
	}
	class := "read/" + op.class() + "/" + clause + "/" + site
	size := len(inp.Data)*100000 + (len(cs.Cuts)+len(cs.Sizes))*100 + cs.K
	if cs.Source == "bytereader" {
		size += 50
	}
	rep.FailLazy(class, size, func() engine.Failure {
		cs.Hex = hex.EncodeToString(inp.Data)
		return engine.Failure{Detail: fmt.Sprintf("%s on input %q (%d bytes) with %s: %s", op.Name, inp.ID, len(inp.Data), describe(&cs), detail), Case: cs}
	})
	return v
}

func describe(cs *Case) string {
	switch cs.Mode {
	case "segments":
		return fmt.Sprintf("source=%s delivering segments cut at stream offsets %v", cs.Source, cs.Cuts)
	case "reads":
		return fmt.Sprintf("source=%s whose successive Reads return %v bytes", cs.Source, clipInts(cs.Sizes))
	case "fault":
		style := "error returned together with the last bytes"
		if cs.Style == 1 {
			style = "error returned by the call after the last bytes"
		} else if cs.Style == 2 {
			style = "one failing call, then the stream carries on"
		}
		fr := ""
		if cs.Frag > 0 {
			fr = fmt.Sprintf(", at most %d byte(s) per Read", cs.Frag)
		}
		return fmt.Sprintf("source=%s failing with %s after %d bytes (%s%s)", cs.Source, cs.Err, cs.K, style, fr)
	case "wfault":
		if cs.Style == 1 {
			return fmt.Sprintf("writer accepting %d bytes, failing the Write that crosses that offset, and accepting everything afterwards", cs.K)
		}
		if cs.Style == 2 {
			return fmt.Sprintf("writer whose Write that brings the total to %d bytes takes all of its bytes and returns an error with them", cs.K)
		}
		return fmt.Sprintf("writer accepting %d bytes and then failing", cs.K)
	}
	return cs.Mode
}

func clipInts(a []int) []int {
	if len(a) > 24 {
		return a[:24]
	}
	return a
}

// makeBaseline runs the contiguous run twice (plain source) and once with a byte-capable source.
func makeBaseline(op *ReadOp, inp *Input) (*baseline, string) {
	st := stream(op, inp.Data)
	cs := Case{Mode: "contiguous", Source: "plain"}
	o := execRead(0, op, st, &cs, nil, 0, false)
	if o.panicked {
		return nil, "panic " + o.kind + " in " + o.frame
	}
	if o.err != nil {
		return nil, "error: " + o.err.Error()
	}
	o2 := execRead(0, op, st, &cs, nil, 0, false)
	if o2.err != nil || !reflect.DeepEqual(o.val, o2.val) || o.n != o2.n || o.consumed != o2.consumed {
		engine.HarnessError("%s on %q: two contiguous runs differ (value not comparable or operation nondeterministic): %s vs %s", op.Name, inp.ID, show(o.val), show(o2.val))
	}
	if o.consumed != len(inp.Data) {
		rep.Count("baseline_consumed_differs_from_input_length", 1)
		rep.Note("%s on %q: the contiguous run takes %d bytes from the stream, the input has %d", op.Name, inp.ID, o.consumed, len(inp.Data))
	}
	if o.n >= 0 && int(o.n) != o.consumed {
		rep.Count("baseline_reported_count_differs_from_consumed", 1)
	}
	return &baseline{o.val, o.n, o.consumed}, ""
}

// judgeContiguous looks at an input whose contiguous run fails. When the same bytes delivered one per
// Read are read successfully, the result depends on how the stream delivers its bytes (first sentence
// of the statement): a violation. Otherwise the input is simply not a value of the operation.
func judgeContiguous(op *ReadOp, inp *Input, why string) bool {
	st := stream(op, inp.Data)
	ones := make([]int, len(st))
	for i := range ones {
		ones[i] = 1
	}
	cs := Case{Side: "read", Op: op.Name, Input: inp.ID, Source: "plain", Mode: "reads", Sizes: ones}
	o := execRead(0, op, st, &cs, nil, 0, false)
	rep.Eval(1)
	if o.panicked || o.err != nil {
		return false
	}
	rep.FailLazy("read/"+op.class()+"/short-reads/contiguous-run-fails-where-one-byte-per-read-succeeds", len(inp.Data), func() engine.Failure {
		return engine.Failure{Detail: fmt.Sprintf("%s on input %q (%d bytes): the contiguous run fails (%s), yet the same stream delivered one byte per Read is read successfully (value %s, %d bytes taken)",
			op.Name, inp.ID, len(inp.Data), why, show(o.val), o.consumed),
			Case: Case{Side: "read", Op: op.Name, Input: inp.ID, Hex: hex.EncodeToString(inp.Data), Source: "plain", Mode: "contiguous-vs-bytewise"}}
	})
	return true
}

func sources(op *ReadOp) []string {
	if op.NoByteSrc {
		return []string{"plain"}
	}
	return []string{"plain", "bytereader"}
}

func timeUp() bool {
	if time.Now().After(deadline) {
		atomic.StoreInt32(&capped, 1)
		return true
	}
	return false
}

// exploreRead walks the whole environment family of one (operation, input) pair.
func exploreRead(slot int, op *ReadOp, inp *Input, b *baseline, bound int) {
	data := inp.Data
	st := stream(op, data)
	var execs int64
	for _, src := range sources(op) {
		// ---- fragmentation
		if len(data) <= exhaustiveLen {
			// every composition of the input, with and without a boundary between input and tail
			ends := []bool{false, true}
			if op.ToEOF || len(data) == 0 {
				ends = []bool{false}
			}
			for _, cutEnd := range ends {
				engine.Compositions(len(data), func(parts []int) {
					cuts := make([]int, 0, len(parts)+1)
					p := 0
					for _, s := range parts[:max(len(parts)-1, 0)] {
						p += s
						cuts = append(cuts, p)
					}
					if cutEnd {
						cuts = append(cuts, len(data))
					}
					judgeRead(slot, op, inp, b, Case{Side: "read", Op: op.Name, Input: inp.ID, Source: src, Mode: "segments", Cuts: cuts}, nil, 0)
					execs++
				})
			}
		} else if op.PooledRequests && len(data) > 512 {
			// request sizes are not reproducible here (see ReadOp.PooledRequests): every position of ONE
			// segment boundary in the stream (streams longer than allOffsetsUpTo: the positions of the
			// fault-offset menu), which does not refer to the operation's requests, plus the chunkings
			for _, p := range faultOffsets(len(st)) {
				if p == 0 || p >= len(st) {
					continue
				}
				judgeRead(slot, op, inp, b, Case{Side: "read", Op: op.Name, Input: inp.ID, Source: src, Mode: "segments", Cuts: []int{p}}, nil, 0)
				execs++
			}
			rep.Count("long_inputs_of_operations_with_pooled_request_sizes_walked_by_single_cut_positions_(pairs_x_sources)", 1)
			for _, s := range []int{1, 2, 3, 5, 7} {
				sizes := make([]int, len(st))
				for i := range sizes {
					sizes[i] = s
				}
				judgeRead(slot, op, inp, b, Case{Side: "read", Op: op.Name, Input: inp.ID, Source: src, Mode: "reads", Sizes: sizes}, nil, 0)
				execs++
			}
		} else {
			altCap := 0
			if len(data) > 96 {
				altCap = 4
			}
			// measure the number A of one-deviation alternatives with a bound-0 walk (one execution),
			// then walk to the largest bound <= the tier's bound whose estimated size A^b/b! fits the
			// per-pair execution budget (deterministic; reported per bound in the counters)
			var probe Case
			st0 := engine.Explore(engine.ExploreOpts{Bound: 0, Workers: 1}, func(c *engine.Chooser) {
				probe = Case{Mode: "choice", Source: src}
				execRead(slot, op, st, &probe, c, altCap, false)
			})
			// the budget counts executions of a 2000-byte input; longer inputs get proportionally fewer
			bud := budget
			if len(data) > 2000 {
				bud = budget * 2000 / int64(len(data))
			}
			bnd := 1
			for bnd < bound && estimate(st0.PrunedByBnd, bnd+1) <= bud {
				bnd++
			}
			rep.Count(fmt.Sprintf("long_inputs_walked_to_short_read_bound_%d_(pairs_x_sources)", bnd), 1)
			stt := engine.Explore(engine.ExploreOpts{Bound: bnd, Workers: 1, Deadline: deadline}, func(c *engine.Chooser) {
				judgeRead(slot, op, inp, b, Case{Side: "read", Op: op.Name, Input: inp.ID, Source: src, Mode: "choice"}, c, altCap)
			})
			execs += stt.Executions
			rep.AddTrans(stt.Points)
			if !stt.Complete {
				atomic.StoreInt32(&capped, 1)
			}
			// fixed-size chunkings: every Read returns at most s bytes (s = 1 is one byte at a time)
			for _, s := range []int{1, 2, 3, 5, 7} {
				sizes := make([]int, len(st))
				for i := range sizes {
					sizes[i] = s
				}
				judgeRead(slot, op, inp, b, Case{Side: "read", Op: op.Name, Input: inp.ID, Source: src, Mode: "reads", Sizes: sizes}, nil, 0)
				execs++
			}
		}
		atomic.AddInt64(&cntFragExec, execs)
		rep.Eval(execs)
		execs = 0
		if timeUp() {
			return
		}
		// ---- faults: every offset x error x style x {contiguous, byte at a time (inputs <= 96 bytes)}
		frags := []int{0, 1}
		if len(data) > 96 {
			frags = frags[:1]
		}
		for _, k := range faultOffsets(len(st)) {
			if !fullProductAt(len(st), k) {
				// long inputs, away from the stream ends and from block boundaries: the two basic failures
				if src == "plain" {
					judgeRead(slot, op, inp, b, Case{Side: "read", Op: op.Name, Input: inp.ID, Source: src, Mode: "fault", K: k, Err: "eof", Style: 1}, nil, 0)
					judgeRead(slot, op, inp, b, Case{Side: "read", Op: op.Name, Input: inp.ID, Source: src, Mode: "fault", K: k, Err: "injected", Style: 0}, nil, 0)
					execs += 2
				}
				continue
			}
			for _, e := range []string{"eof", "injected"} {
				for style := 0; style <= 1; style++ {
					for _, frag := range frags {
						judgeRead(slot, op, inp, b, Case{Side: "read", Op: op.Name, Input: inp.ID, Source: src, Mode: "fault", K: k, Err: e, Style: style, Frag: frag}, nil, 0)
						execs++
					}
				}
			}
			judgeRead(slot, op, inp, b, Case{Side: "read", Op: op.Name, Input: inp.ID, Source: src, Mode: "fault", K: k, Err: "injected", Style: 2}, nil, 0)
			execs++
		}
		atomic.AddInt64(&cntFaultExec, execs)
		rep.Eval(execs)
		execs = 0
	}
}

// ---------------------------------------------------------------------------------------------
// write side

type wobs struct {
	n        int64
	err      error
	out      []byte
	calls    int
	after    int
	failed   bool // some Write returned an error
	site     string
	panicked bool
	kind     string
	frame    string
}

func execWrite(slot int, in *WInput, k int, trace bool, cs *Case) wobs {
	fw := &engine.FaultWriter{K: k, Err: engine.ErrInjected}
	fl := &flakyWriter{k: k, err: engine.ErrInjected}
	lw := &lateWriter{k: k, err: engine.ErrInjected}
	m := &wmeter{w: fw, trace: trace}
	if cs.Style == 1 {
		m.w = fl
	} else if cs.Style == 2 {
		m.w = lw
	}
	var o wobs
	if wd != nil {
		wd.Begin(slot, func() string { b, _ := json.Marshal(cs); return string(b) })
	}
	o.kind, o.frame, o.panicked = engine.Guard(func() { o.n, o.err = in.Run(m) })
	if wd != nil {
		wd.End(slot)
	}
	o.out, o.calls, o.after, o.site = fw.Buf, m.calls, m.after, m.site
	if cs.Style == 1 {
		o.out = fl.buf
	} else if cs.Style == 2 {
		o.out = lw.buf
	}
	o.failed = m.fails > 0
	return o
}

type wbaseline struct {
	out []byte
	n   int64
}

func verdictWrite(b *wbaseline, k, style int, o *wobs) (int, string, string) {
	if o.panicked {
		return vViolation, "panic/" + o.kind, fmt.Sprintf("panic %s in %s", o.kind, o.frame)
	}
	if style == 2 {
		// every byte was taken, so there is no offset arithmetic: a Write returned an error, the operation must too
		if o.failed && o.err == nil {
			return vViolation, "io-failure-swallowed", fmt.Sprintf("a Write took all of its bytes but returned an error (total %d of the %d bytes the operation produces), yet the operation returned nil error", k, len(b.out))
		}
		if o.failed {
			return vOK, "", ""
		}
	} else if k < len(b.out) {
		if o.err == nil && style == 1 && bytes.Equal(o.out, b.out) {
			// the operation re-sent what the failing Write had not accepted: nothing is missing
			return vUnspec, "", ""
		}
		if o.err == nil {
			return vViolation, "io-failure-swallowed", fmt.Sprintf("writer failed after accepting %d of the %d bytes the operation produces, yet it returned nil error", k, len(b.out))
		}
		return vOK, "", ""
	}
	if o.err != nil {
		return vViolation, "no-failure/error-where-unlimited-writer-succeeds", fmt.Sprintf("returned error %q although the writer accepted all %d bytes", o.err, len(b.out))
	}
	if !bytes.Equal(o.out, b.out) {
		return vViolation, "no-failure/output-differs", fmt.Sprintf("wrote %x, the first run wrote %x", clipB(o.out), clipB(b.out))
	}
	if b.n >= 0 && o.n != b.n {
		return vViolation, "no-failure/byte-count-differs", fmt.Sprintf("reported %d bytes, the first run reported %d", o.n, b.n)
	}
	return vOK, "", ""
}

func clipB(b []byte) []byte {
	if len(b) > 48 {
		return b[:48]
	}
	return b
}

func judgeWrite(slot int, op *WriteOp, in *WInput, b *wbaseline, k, style int) int {
	cs := Case{Side: "write", Op: op.Name, Input: in.ID, Mode: "wfault", K: k, Style: style}
	o := execWrite(slot, in, k, false, &cs)
	atomic.AddInt64(&cntCalls, int64(o.calls))
	if k < len(b.out) || o.failed {
		atomic.AddInt64(&cntNonTrivial, 1)
	}
	if o.after > 0 {
		rep.Count("write_ops_that_kept_writing_after_a_failed_write", 1)
	}
	v, clause, detail := verdictWrite(b, k, style, &o)
	if v == vUnspec {
		rep.Unspec(1)
	}
	if v != vViolation {
		return v
	}
	ot := execWrite(slot, in, k, true, &cs)
	if v2, clause2, _ := verdictWrite(b, k, style, &ot); v2 != v || clause2 != clause {
		engine.HarnessError("nondeterministic: case %+v judged %q then %q", cs, clause, clause2)
	}
	site := ot.site
	if ot.panicked {
		site = ot.frame
	}
	if site == "" {
		site = "no-failing-write-observed"
	}
	rep.FailLazy("write/"+op.Name+"/"+clause+"/"+site, len(b.out)*1000+k*2+style, func() engine.Failure {
		return engine.Failure{Detail: fmt.Sprintf("%s of value %q (%d bytes of output) with a %s: %s", op.Name, in.ID, len(b.out), describe(&cs), detail), Case: cs}
	})
	return v
}

func makeWBaseline(op *WriteOp, in *WInput) *wbaseline {
	cs := Case{Side: "write", Op: op.Name, Input: in.ID, Mode: "wfault", K: 1 << 30}
	o := execWrite(0, in, 1<<30, false, &cs)
	if o.panicked || o.err != nil {
		engine.HarnessError("%s of value %q fails on a writer that never fails (%v %s %s): unusable input", op.Name, in.ID, o.err, o.kind, o.frame)
	}
	o2 := execWrite(0, in, 1<<30, false, &cs)
	if !bytes.Equal(o.out, o2.out) || o.n != o2.n {
		engine.HarnessError("%s of value %q is not deterministic: %x vs %x", op.Name, in.ID, clipB(o.out), clipB(o2.out))
	}
	return &wbaseline{append([]byte(nil), o.out...), o.n}
}

// ---------------------------------------------------------------------------------------------

type readTask struct {
	op   *ReadOp
	inp  *Input
	base *baseline
}

type writeTask struct {
	op   *WriteOp
	in   *WInput
	base *wbaseline
}

// sizeClasses is the menu of payload sizes (bytes) added on top of the hand-picked inputs.
func sizeClasses() []int {
	if rep.Thorough() || rep.ReplayPath != "" { // a replay must find every value by name
		return []int{600, 5000, 9000, 40000, 70000}
	}
	return []int{600, 5000}
}

func allReadOps(genNodes int) ([]*ReadOp, int) {
	ops := append(append(wireReadOps(), sessionReadOps()...), signReadOps()...)
	n, nGen := nbtReadOps(genNodes, sizeClasses(), rep.Thorough())
	return append(ops, n...), nGen
}

func allWriteOps() []*WriteOp {
	return append(append(wireWriteOps(), sessionWriteOps()...), nbtWriteOps()...)
}

func main() {
	rep = engine.NewReport("C09")
	rep.Rule = "case = (operation, input, source kind {plain io.Reader, io.Reader+io.ByteReader}, environment). Environments per (operation, input): " +
		"inputs <= 12 bytes: every set of segment boundaries inside the input x {boundary, no boundary} between input and sentinel tail (2^n; a Read returns min(asked, rest of segment) — this is every behaviour of a legal reader); " +
		"longer inputs: every placement of <= b short reads (each shorter legal count is one deviation; for inputs > 96 bytes only the 4 smallest and 4 largest shorter counts per Read), b = the largest bound <= B whose estimated walk fits the per-pair budget (budget x 2000/len for inputs > 2000 bytes; at least 1; see counters long_inputs_walked_to_short_read_bound_*), plus chunkings of at most 1,2,3,5,7 bytes per Read (operations whose request sizes depend on a pooled buffer, inputs > 512 bytes: every position of one segment boundary instead of the short-read walk); " +
		"faults (streams longer than 4500 bytes: the full product only in the first and last 300 offsets and from 8 below to 40 above every multiple of 512, elsewhere {EOF on the next call, injected with the last bytes} on the plain source): every offset k in 0..len(input+tail) (streams longer than 12000 bytes: the first and last 600 offsets and every offset from 8 below to 40 above a multiple of 4096) x {io.EOF, injected} x {error with the last bytes, error on the next call} x {contiguous, 1 byte per Read (inputs <= 96 bytes)}; " +
		"plus one transient failure (a single failing call at offset k, then the stream carries on) at every k; writers: for every k in 0..len(output) (outputs longer than 12000 bytes: the offsets of the reader menu) a writer that fails from offset k on, a writer that fails only the Write crossing offset k, and a writer whose Write reaching a total of k bytes takes all its bytes and returns an error with them. Cases are distinct by construction (nested loops / distinct choice tapes); " +
		"non-trivial = the environment actually deviated during the operation (some Read returned fewer bytes than asked or an error; writer failure inside the output)"
	wd = engine.NewWatchdog(engine.Workers()+1, 30*time.Second, func(desc string) {
		var c Case
		json.Unmarshal([]byte(desc), &c)
		rep.Fail(engine.Failure{Class: c.Side + "/" + c.Op + "/non-termination", Detail: "a single call ran for more than 30 s: " + desc, Case: c}, 0)
		rep.Cap("aborted by non-termination watchdog")
		rep.Finish()
	})
	bound, genNodes := 2, 2
	budget = 60_000
	deadline = time.Now().Add(90 * time.Second)
	if rep.Thorough() {
		bound, genNodes = 3, 3
		budget = 3_000_000
		deadline = time.Now().Add(13 * time.Minute)
	}
	// VERIF_DEADLINE_SCALE=<n> stretches the internal wall-clock deadline (a machine shared with other
	// jobs); it changes nothing in what is enumerated and is recorded in the evidence
	if sc, err := strconv.Atoi(os.Getenv("VERIF_DEADLINE_SCALE")); err == nil && sc > 1 {
		deadline = time.Now().Add(time.Until(deadline) * time.Duration(sc))
		rep.Extra("deadline_scale_(VERIF_DEADLINE_SCALE)", sc)
	}
	if rep.ReplayPath != "" {
		replay(genNodes)
		return
	}
	selftest()

	rops, nGen := allReadOps(genNodes)
	wops := allWriteOps()
	// C09_ONLY=<substring> (development aid): only the operations whose name contains it; the run is
	// then reported as capped, never as exhaustive
	if only := os.Getenv("C09_ONLY"); only != "" {
		var r2 []*ReadOp
		for _, o := range rops {
			if strings.Contains(o.Name, only) {
				r2 = append(r2, o)
			}
		}
		var w2 []*WriteOp
		for _, o := range wops {
			if strings.Contains(o.Name, only) {
				w2 = append(w2, o)
			}
		}
		rops, wops = r2, w2
		rep.Cap("C09_ONLY=%s: only %d read and %d write operations were run", only, len(r2), len(w2))
	}
	names := map[string]bool{}
	// ---- baselines (sequential, deterministic order)
	var rtasks []readTask
	for _, op := range rops {
		if names["r:"+op.Name] {
			engine.HarnessError("duplicate operation name %s", op.Name)
		}
		names["r:"+op.Name] = true
		ids := map[string]bool{}
		usable := 0
		for i := range op.Inputs {
			inp := &op.Inputs[i]
			if ids[inp.ID] {
				engine.HarnessError("%s: duplicate input id %q", op.Name, inp.ID)
			}
			ids[inp.ID] = true
			b, why := makeBaseline(op, inp)
			if b == nil && judgeContiguous(op, inp, why) {
				rep.Count("pairs_whose_contiguous_run_fails_while_one_byte_per_read_succeeds_(violation)", 1)
				usable++
				continue
			}
			if b == nil {
				if inp.Optional {
					cntSkippedOptional++
					continue
				}
				engine.HarnessError("%s: the contiguous run on hand-picked input %q (%x) fails (%s): unusable input", op.Name, inp.ID, clipB(inp.Data), why)
			}
			usable++
			rtasks = append(rtasks, readTask{op, inp, b})
		}
		if usable == 0 {
			engine.HarnessError("%s has no usable input", op.Name)
		}
		rep.Count("inputs/"+op.Name, int64(usable))
	}
	var wtasks []writeTask
	for _, op := range wops {
		if names["w:"+op.Name] {
			engine.HarnessError("duplicate operation name %s", op.Name)
		}
		names["w:"+op.Name] = true
		for i := range op.Inputs {
			in := &op.Inputs[i]
			wtasks = append(wtasks, writeTask{op, in, makeWBaseline(op, in)})
		}
		rep.Count("inputs/"+op.Name, int64(len(op.Inputs)))
	}
	// longest first: the big choice-tape walks must not start last
	sort.SliceStable(rtasks, func(i, j int) bool { return cost(rtasks[i]) > cost(rtasks[j]) })

	if os.Getenv("C09_ONLY") == "" {
		hugeFamily()
	}
	// ---- write side
	engine.ParallelFor(len(wtasks), func(slot, i int) {
		t := wtasks[i]
		ks := faultOffsets(len(t.base.out))
		for _, k := range ks {
			judgeWrite(slot, t.op, t.in, t.base, k, 0)
			judgeWrite(slot, t.op, t.in, t.base, k, 1)
			judgeWrite(slot, t.op, t.in, t.base, k, 2)
		}
		n := int64(3 * len(ks))
		atomic.AddInt64(&cntWriteExec, n)
		rep.Eval(n)
	})
	// ---- read side
	var done int64
	engine.ParallelFor(len(rtasks), func(slot, i int) {
		if timeUp() {
			return
		}
		t := rtasks[i]
		exploreRead(slot, t.op, t.inp, t.base, bound)
		atomic.AddInt64(&done, 1)
	})
	if os.Getenv("C09_ONLY") == "" {
		concreteFamily(rtasks)
		scanFamily()
	}
	if atomic.LoadInt32(&capped) != 0 {
		rep.Cap("deadline reached: %d of %d (read operation, input) pairs fully explored; all %d write pairs complete", done, len(rtasks), len(wtasks))
	}

	rep.AddStates(int64(len(rtasks) + len(wtasks)))
	rep.AddTrans(cntCalls)
	rep.AddTraces(rep.Evaluations)
	rep.NonTrivial(cntNonTrivial)
	rep.Count("read_operations", int64(len(rops)))
	rep.Count("write_operations", int64(len(wops)))
	rep.Count("read_pairs_operation_x_input", int64(len(rtasks)))
	rep.Count("write_pairs_operation_x_value", int64(len(wtasks)))
	rep.Count("generated_nbt_documents", int64(nGen))
	rep.Count("generated_documents_not_fitting_a_target_(skipped)", cntSkippedOptional)
	rep.Count("executions_fragmentation", cntFragExec)
	rep.Count("executions_reader_faults", cntFaultExec)
	rep.Count("executions_writer_faults", cntWriteExec)
	rep.Extra("short_read_deviation_bound", bound)
	rep.Extra("short_read_walk_budget_per_pair_and_source", budget)
	rep.Extra("exhaustive_segmentation_up_to_bytes", exhaustiveLen)
	rep.Extra("generated_nbt_tree_nodes", genNodes)
	rep.Extra("sentinel_tail_bytes", len(tail))
	rep.Sample(Case{Side: "read", Op: "FixedBitSet[20].ReadFrom", Input: "pattern", Source: "plain", Mode: "segments", Cuts: []int{1}})
	rep.Sample(Case{Side: "read", Op: "UnPack[threshold=64]", Input: "id=0,payload=130,deflated", Source: "plain", Mode: "fault", K: 17, Err: "eof", Style: 1})
	rep.Sample(Case{Side: "read", Op: "nbt.Decode[typed-struct,file]", Input: "unknown:LongArray", Source: "bytereader", Mode: "reads", Sizes: []int{1, 2, 1, 3}})
	rep.Sample(Case{Side: "write", Op: "Pack[threshold=64]", Input: "id=0,payload=130", Mode: "wfault", K: 9})
	rep.Assume("a legal io.Reader returns at least 1 byte or an error (0, nil is not generated); operations are deterministic functions of the bytes received (checked: two contiguous runs agree)")
	rep.Assume("which error is returned, and byte counts returned together with an error, are not judged; a failure delivered together with the last needed bytes (style 0, k == consumed) may or may not be reported")
	rep.Finish()
}

// estimate is the size of a walk with a alternatives per level to deviation bound b: sum of a^i/i!.
func estimate(a int64, b int) int64 {
	total, term := int64(1), int64(1)
	for i := 1; i <= b; i++ {
		term = term * a / int64(i)
		if term > 1<<40 {
			return 1 << 40
		}
		total += term
	}
	return total
}

func cost(t readTask) int {
	n := len(t.inp.Data)
	if n <= exhaustiveLen {
		return 1 << n
	}
	return n * n * 40
}

// selftest: the oracle must flag a reader that uses a bare Read / drops an error, and pass io.ReadFull.
func selftest() {
	bare := &ReadOp{Name: "selftest-bare", Run: func(r io.Reader) (any, int64, error) {
		var b [4]byte
		n, err := r.Read(b[:])
		return b, int64(n), err
	}}
	swallow := &ReadOp{Name: "selftest-swallow", Run: func(r io.Reader) (any, int64, error) {
		var b [4]byte
		n, _ := io.ReadFull(r, b[:])
		return b, int64(n), nil
	}}
	full := &ReadOp{Name: "selftest-full", Run: func(r io.Reader) (any, int64, error) {
		var b [4]byte
		n, err := io.ReadFull(r, b[:])
		return b, int64(n), err
	}}
	count := func(op *ReadOp) (frag, fault int) {
		inp := &Input{ID: "x", Data: []byte{1, 2, 3, 4}}
		st := stream(op, inp.Data)
		cs := Case{Mode: "contiguous", Source: "plain"}
		o := execRead(0, op, st, &cs, nil, 0, false)
		b := &baseline{o.val, o.n, o.consumed}
		engine.Compositions(4, func(parts []int) {
			var cuts []int
			p := 0
			for _, s := range parts[:len(parts)-1] {
				p += s
				cuts = append(cuts, p)
			}
			cs := Case{Mode: "segments", Source: "plain", Cuts: cuts}
			o := execRead(0, op, st, &cs, nil, 0, false)
			if v, _, _ := verdictRead(op, inp.Data, b, &cs, &o); v == vViolation {
				frag++
			}
		})
		for k := 0; k <= len(st); k++ {
			for style := 0; style <= 1; style++ {
				cs := Case{Mode: "fault", Source: "plain", K: k, Err: "eof", Style: style}
				o := execRead(0, op, st, &cs, nil, 0, true)
				if v, _, _ := verdictRead(op, inp.Data, b, &cs, &o); v == vViolation {
					fault++
					if pickSite(o.events) != "no-go-mc-frame" {
						engine.HarnessError("self-test: unexpected site %q", pickSite(o.events))
					}
				}
			}
		}
		return
	}
	if fr, fa := count(bare); fr != 7 || fa == 0 {
		engine.HarnessError("self-test: a bare Read must fail under 7 of 8 segmentations and under faults, got %d / %d", fr, fa)
	}
	if fr, fa := count(swallow); fr != 0 || fa == 0 {
		engine.HarnessError("self-test: a reader that drops errors must be flagged under faults only, got %d / %d", fr, fa)
	}
	if fr, fa := count(full); fr != 0 || fa != 0 {
		engine.HarnessError("self-test: io.ReadFull flagged (%d / %d)", fr, fa)
	}
	// writer: dropping the error of the final Write is flagged, returning it is not
	drop := &WInput{ID: "x", Run: func(w io.Writer) (int64, error) { w.Write([]byte{1, 2, 3}); return -1, nil }}
	keep := &WInput{ID: "x", Run: func(w io.Writer) (int64, error) { _, err := w.Write([]byte{1, 2, 3}); return -1, err }}
	wb := &wbaseline{out: []byte{1, 2, 3}, n: -1}
	// dropping the error of a Write that is followed by another Write is only visible when the writer recovers
	mid := &WInput{ID: "x", Run: func(w io.Writer) (int64, error) { w.Write([]byte{1, 2}); _, err := w.Write([]byte{3}); return -1, err }}
	bad, good, midP, midT := 0, 0, 0, 0
	for k := 0; k <= 3; k++ {
		for style := 0; style <= 1; style++ {
			cs := &Case{Style: style}
			o := execWrite(0, drop, k, false, cs)
			if v, _, _ := verdictWrite(wb, k, style, &o); v == vViolation {
				bad++
			}
			o = execWrite(0, keep, k, false, cs)
			if v, _, _ := verdictWrite(wb, k, style, &o); v == vViolation {
				good++
			}
			o = execWrite(0, mid, k, false, cs)
			if v, _, _ := verdictWrite(wb, k, style, &o); v == vViolation {
				if style == 0 {
					midP++
				} else {
					midT++
				}
			}
		}
	}
	if bad != 6 || good != 0 || midP != 0 || midT != 2 {
		engine.HarnessError("self-test: writer oracle wrong (%d / %d / %d / %d)", bad, good, midP, midT)
	}
}

func replay(genNodes int) {
	rp, err := engine.LoadReplay(rep.ReplayPath)
	if err != nil {
		engine.HarnessError("cannot load replay: %v", err)
	}
	var c Case
	if err := json.Unmarshal(rp.Case, &c); err != nil {
		engine.HarnessError("bad case: %v", err)
	}
	if c.Side == "concrete" || c.Side == "scan" {
		var cc concreteCase
		json.Unmarshal(rp.Case, &cc)
		if cc.Side == "scan" {
			scanFamily()
			rep.Finish()
		}
		ops, _ := allReadOps(0)
		data, _ := hex.DecodeString(cc.Hex)
		for _, op := range ops {
			if op.Name == cc.Op {
				inp := &Input{ID: cc.Input, Data: data}
				b, why := makeBaseline(op, inp)
				if b == nil {
					engine.HarnessError("replay: contiguous run fails: %s", why)
				}
				for j := 0; j < 5; j++ {
					judgeConcrete(op, inp, b, cc.Source, cc.K)
				}
				rep.Eval(5)
				rep.Finish()
			}
		}
		engine.HarnessError("replay: unknown read operation %q", cc.Op)
	}
	if c.Side == "huge" {
		var h hugeCase
		json.Unmarshal(rp.Case, &h)
		for j := 0; j < 5; j++ {
			if class, detail := runHuge(h); class != "" {
				rep.Fail(engine.Failure{Class: class, Detail: detail, Case: h}, 0)
			}
		}
		rep.Eval(5)
		rep.Finish()
	}
	if c.Side == "write" {
		for _, op := range allWriteOps() {
			if op.Name != c.Op {
				continue
			}
			for i := range op.Inputs {
				if op.Inputs[i].ID == c.Input {
					b := makeWBaseline(op, &op.Inputs[i])
					fmt.Printf("replaying %s of %q: %s; an unlimited writer receives %d bytes\n", c.Op, c.Input, describe(&c), len(b.out))
					for j := 0; j < 5; j++ {
						judgeWrite(0, op, &op.Inputs[i], b, c.K, c.Style)
					}
					rep.Eval(5)
					rep.Finish()
				}
			}
		}
		engine.HarnessError("replay: unknown write operation/value %q / %q", c.Op, c.Input)
	}
	data, err := hex.DecodeString(c.Hex)
	if err != nil {
		engine.HarnessError("bad input hex: %v", err)
	}
	ops, _ := allReadOps(0)
	for _, op := range ops {
		if op.Name != c.Op {
			continue
		}
		inp := &Input{ID: c.Input, Data: data}
		b, why := makeBaseline(op, inp)
		if c.Mode == "contiguous-vs-bytewise" {
			fmt.Printf("replaying %s on %x: contiguous run against one byte per Read; contiguous run: %s\n", c.Op, clipB(data), map[bool]string{true: "succeeds", false: why}[b != nil])
			for j := 0; j < 5 && b == nil; j++ {
				judgeContiguous(op, inp, why)
			}
			rep.Finish()
		}
		if b == nil {
			engine.HarnessError("replay: contiguous run fails: %s", why)
		}
		fmt.Printf("replaying %s on %x: %s; the contiguous run consumes %d bytes and returns %s\n", c.Op, clipB(data), describe(&c), b.consumed, show(b.val))
		for j := 0; j < 5; j++ {
			judgeRead(0, op, inp, b, c, nil, 0)
		}
		rep.Eval(5)
		rep.Finish()
	}
	engine.HarnessError("replay: unknown read operation %q", c.Op)
}
