package main

// Layout walker ("scanner"): an independent, boring reading of the wire layouts that the go-mc
// decoders under test consume. It never calls a go-mc decoder. It is used for three things:
//
//  1. locating every length prefix of a valid encoding (mutation sites);
//  2. the over-allocation guard: an input in which any declared length exceeds the site's guard
//     (2^20; 2^16 for NBT lists) is counted and NOT executed;
//  3. the error obligation of an input in which the check itself overwrote a length prefix.
//
// The walker follows the same order of fields as the decoder, stops at the first truncation,
// negative length or over-long VarInt (a decoder cannot sensibly continue there either) and
// reports the sites seen so far.

import (
	"bytes"
	"compress/zlib"
	"errors"
	"io"
	"strings"

	"verif/ref/refnbt"
)

const (
	guardLen     = 1 << 20 // declared lengths above this are not executed
	guardNBTList = 1 << 16 // NBT list lengths (elements may be large Go structs)
	probeHuge    = 1 << 62 // 64-bit "overflow probe": make() refuses it without allocating
)

// Site is one length/count prefix found in an input.
type Site struct {
	Off    int
	Width  int
	Enc    byte   // v VarInt, V VarLong, b int8, B uint8, s int16, S uint16, i int32, q int64 (big endian)
	Kind   string // string, bytearray, bitset, palette, dataarray, heightmap, compressed-data-length, packet-length, array-count, ...
	Val    int64
	Unit   int   // least number of input bytes one announced element needs
	Named  bool  // one of the places the property names (error obligation applies)
	Guard  int64 // largest value that is executed
	Expect int64 // the only consistent value (data array vs bits, height map vs chunk height); -1 unknown
	Cap    int64 // largest value the rest of the input could satisfy; -1 unknown
}

type scanner struct {
	d     []byte
	p     int
	end   int // walk limit (for nested regions)
	sites []Site
	halt  bool
}

type lay func(s *scanner) bool

func scan(l lay, d []byte) (sites []Site, clean bool, consumed int) {
	if l == nil {
		return nil, true, 0
	}
	s := &scanner{d: d, end: len(d)}
	ok := l(s)
	return s.sites, ok && !s.halt, s.p
}

func (s *scanner) stop() bool { s.halt = true; return false }

func (s *scanner) rest() int { return s.end - s.p }

func (s *scanner) skip(n int64) bool {
	if n < 0 || n > int64(s.rest()) {
		s.p = s.end
		return s.stop()
	}
	s.p += int(n)
	return true
}

func (s *scanner) u8() (byte, bool) {
	if s.rest() < 1 {
		return 0, s.stop()
	}
	b := s.d[s.p]
	s.p++
	return b, true
}

// varN reads a base-128 number the way the protocol defines it: at most max bytes, value
// reduced to the width of the type (excess bits of the last byte are dropped).
func (s *scanner) varN(max int) (uint64, int, bool) {
	var v uint64
	for i := 0; i < max; i++ {
		if s.p+i >= s.end {
			s.p = s.end
			return 0, 0, s.stop()
		}
		b := s.d[s.p+i]
		v |= uint64(b&0x7f) << (7 * uint(i))
		if b&0x80 == 0 {
			s.p += i + 1
			return v, i + 1, true
		}
	}
	s.p += max
	return 0, 0, s.stop()
}

func (s *scanner) varint() (int32, bool) {
	v, _, ok := s.varN(5)
	return int32(uint32(v)), ok
}

// readInt reads one integer in the given encoding.
func (s *scanner) readInt(enc byte) (val int64, width int, ok bool) {
	be := func(n int) (uint64, bool) {
		if s.rest() < n {
			s.p = s.end
			return 0, s.stop()
		}
		var v uint64
		for i := 0; i < n; i++ {
			v = v<<8 | uint64(s.d[s.p+i])
		}
		s.p += n
		return v, true
	}
	switch enc {
	case 'v':
		v, n, ok := s.varN(5)
		return int64(int32(uint32(v))), n, ok
	case 'V':
		v, n, ok := s.varN(10)
		return int64(v), n, ok
	case 'b':
		v, ok := be(1)
		return int64(int8(v)), 1, ok
	case 'B':
		v, ok := be(1)
		return int64(v), 1, ok
	case 's':
		v, ok := be(2)
		return int64(int16(v)), 2, ok
	case 'S':
		v, ok := be(2)
		return int64(v), 2, ok
	case 'i':
		v, ok := be(4)
		return int64(int32(v)), 4, ok
	case 'q':
		v, ok := be(8)
		return int64(v), 8, ok
	}
	panic("scan: unknown encoding")
}

// length reads a length prefix, records the site and reports whether the walk can go on
// (non-negative and within the guard).
func (s *scanner) length(enc byte, kind string, unit int, named bool, guard int64, expect int64) (int64, bool) {
	off := s.p
	v, w, ok := s.readInt(enc)
	if !ok {
		return 0, false
	}
	st := Site{Off: off, Width: w, Enc: enc, Kind: kind, Val: v, Unit: unit, Named: named, Guard: guard, Expect: expect}
	st.Cap = int64(s.end-s.p) / int64(unit)
	s.sites = append(s.sites, st)
	if v < 0 || v > guard {
		return v, s.stop()
	}
	return v, true
}

// ---------------------------------------------------------------------------------------------
// layout combinators

func lFixed(n int) lay { return func(s *scanner) bool { return s.skip(int64(n)) } }

func lVarInt(s *scanner) bool  { _, _, ok := s.varN(5); return ok }
func lVarLong(s *scanner) bool { _, _, ok := s.varN(10); return ok }
func lRest(s *scanner) bool    { s.p = s.end; return true }
func lNone(s *scanner) bool    { return true }

func lTuple(ls ...lay) lay {
	return func(s *scanner) bool {
		for _, l := range ls {
			if !l(s) {
				return false
			}
		}
		return true
	}
}

// lBytes: a length prefix counting bytes that follow (String, ByteArray).
func lBytes(kind string) lay {
	return func(s *scanner) bool {
		n, ok := s.length('v', kind, 1, true, guardLen, -1)
		if !ok {
			return false
		}
		return s.skip(n)
	}
}

var (
	lString    = lBytes("string")
	lByteArray = lBytes("bytearray")
)

func lBitSet(s *scanner) bool {
	n, ok := s.length('v', "bitset", 8, true, guardLen, -1)
	if !ok {
		return false
	}
	return s.skip(8 * n)
}

// lArray: count prefix in the given encoding followed by count elements.
func lArray(enc byte, kind string, unit int, elem lay) lay {
	return func(s *scanner) bool {
		n, ok := s.length(enc, kind, unit, false, guardLen, -1)
		if !ok {
			return false
		}
		for i := int64(0); i < n; i++ {
			if !elem(s) {
				return false
			}
		}
		return true
	}
}

// lOption: Boolean, then the value when the boolean is non-zero.
func lOption(elem lay) lay {
	return func(s *scanner) bool {
		b, ok := s.u8()
		if !ok {
			return false
		}
		if b != 0 {
			return elem(s)
		}
		return true
	}
}

// lNBT walks one network-format NBT document with the reference reader. longArr, when not
// empty, is the kind given to LongArray length fields (the chunk height maps) and expect their
// only consistent value.
func lNBT(longArr string, expect int64) lay {
	return func(s *scanner) bool {
		_, _, consumed, sites, err := refnbt.ParseSites(s.d[s.p:s.end], true)
		for _, ns := range sites {
			st := Site{Off: s.p + ns.Off, Width: ns.Width, Val: ns.Val, Expect: -1, Guard: guardLen, Unit: 1}
			switch {
			case ns.Kind == "strlen" || ns.Kind == "namelen":
				st.Enc, st.Kind = 's', "nbt-"+ns.Kind
			case ns.Kind == "listlen":
				st.Enc, st.Kind, st.Guard = 'i', "nbt-listlen", guardNBTList
			case strings.HasPrefix(ns.Kind, "arrlen:"):
				st.Enc, st.Kind = 'i', "nbt-"+ns.Kind
				switch ns.Kind {
				case "arrlen:IntArray":
					st.Unit = 4
				case "arrlen:LongArray":
					st.Unit = 8
					if longArr != "" {
						st.Kind, st.Named, st.Expect = longArr, true, expect
					}
				}
			default:
				continue // tag ids are not lengths
			}
			st.Cap = int64(s.end-(st.Off+st.Width)) / int64(st.Unit)
			s.sites = append(s.sites, st)
		}
		if err != nil {
			var pe *refnbt.ParseError
			if errors.As(err, &pe) && pe.Err == refnbt.ErrEndRoot && pe.Where == "tag:End-root" {
				s.p++ // a lone End tag: "no NBT here", one byte
				return true
			}
			s.p += consumed
			return s.stop()
		}
		s.p += consumed
		return true
	}
}

// lNested walks inner over the n bytes that follow (a byte-counted region that a decoder
// re-parses); a failure inside does not stop the outer walk.
func lNested(kind string, inner lay) lay {
	return func(s *scanner) bool {
		n, ok := s.length('v', kind, 1, true, guardLen, -1)
		if !ok {
			return false
		}
		if n > int64(s.rest()) {
			s.p = s.end
			return s.stop()
		}
		sub := &scanner{d: s.d, p: s.p, end: s.p + int(n)}
		inner(sub)
		s.sites = append(s.sites, sub.sites...)
		s.p += int(n)
		return true
	}
}

// ---------------------------------------------------------------------------------------------
// paletted container (protocol documentation, "Chunk format / Paletted Container"):
//   UnsignedByte bitsPerEntry | palette | VarInt dataLength | dataLength x Long
//   palette: bits 0 -> VarInt value; indirect -> VarInt count + count x VarInt; direct -> nothing
// blocks: 1..4 -> indirect 4 bits, 5..8 -> indirect, >= 9 -> direct (registry width)
// biomes: 1..3 -> indirect, >= 4 -> direct (registry width)

func lContainer(blocks bool, entries int, directBits int) lay {
	return func(s *scanner) bool {
		b, ok := s.u8()
		if !ok {
			return false
		}
		bits := int(b)
		store, indirect := 0, false
		switch {
		case bits == 0:
		case blocks && bits <= 4:
			store, indirect = 4, true
		case blocks && bits <= 8:
			store, indirect = bits, true
		case !blocks && bits <= 3:
			store, indirect = bits, true
		default:
			store = directBits
		}
		switch {
		case bits == 0:
			if !lVarInt(s) {
				return false
			}
		case indirect:
			n, ok := s.length('v', "palette", 1, true, guardLen, -1)
			if !ok {
				return false
			}
			for i := int64(0); i < n; i++ {
				if !lVarInt(s) {
					return false
				}
			}
		}
		expect := int64(-1)
		if store > 0 {
			per := 64 / store
			expect = int64((entries + per - 1) / per)
		}
		n, ok := s.length('v', "dataarray", 8, true, guardLen, expect)
		if !ok {
			return false
		}
		return s.skip(8 * n)
	}
}

// ---------------------------------------------------------------------------------------------
// frames

// lFramePlain: VarInt length | VarInt id | data.
func lFramePlain(s *scanner) bool {
	n, ok := s.length('v', "packet-length", 1, false, guardLen, -1)
	if !ok {
		return false
	}
	before := s.p
	if !lVarInt(s) {
		return false
	}
	return s.skip(n - int64(s.p-before))
}

// lFrameCompressed: VarInt packetLength | VarInt dataLength | body. The packet length only bounds
// what is copied from the stream (no allocation is sized by it), the data length sizes the
// receive buffer. Cap of the data length is the real inflated size when the body is a sound
// zlib stream.
func lFrameCompressed(s *scanner) bool {
	pl, ok := s.length('v', "packet-length", 1, false, 1<<31, -1)
	if !ok {
		return false
	}
	if pl > int64(s.rest()) {
		s.p = s.end
		return s.stop()
	}
	end := s.p + int(pl)
	sub := &scanner{d: s.d, p: s.p, end: end}
	dl, ok := sub.length('v', "compressed-data-length", 1, true, guardLen, -1)
	if len(sub.sites) > 0 {
		st := &sub.sites[0]
		st.Cap = -1
		if st.Val != 0 {
			zr, err := zlib.NewReader(bytes.NewReader(s.d[sub.p:end]))
			if err == nil {
				n, err := io.Copy(io.Discard, io.LimitReader(zr, 1<<22))
				if err == nil {
					st.Cap = n
				}
			}
		}
	}
	s.sites = append(s.sites, sub.sites...)
	s.p = end
	if !ok {
		return s.stop()
	}
	_ = dl
	return true
}
