package main

// The decoder table: every go-mc decoder a bot or server runs on peer bytes, with the layout the
// walker uses for it and the valid encodings that seed family (b).

import (
	"bytes"
	"encoding/json"
	"io"
	"math/bits"
	"strings"

	"github.com/Tnze/go-mc/bot"
	"github.com/Tnze/go-mc/bot/screen"
	"github.com/Tnze/go-mc/chat"
	"github.com/Tnze/go-mc/chat/sign"
	"github.com/Tnze/go-mc/level"
	"github.com/Tnze/go-mc/level/biome"
	"github.com/Tnze/go-mc/level/block"
	"github.com/Tnze/go-mc/nbt"
	pk "github.com/Tnze/go-mc/net/packet"
	"github.com/Tnze/go-mc/registry"
	"github.com/Tnze/go-mc/yggdrasil/user"

	"verif/engine"
	"verif/ref/refframe"
	"verif/ref/refnbt"
	"verif/ref/refwire"
)

type Decoder struct {
	Name     string
	Run      func(r io.Reader) error
	Lay      lay
	Valids   [][]byte // seeds of family (b), quick and thorough
	ValidsT  [][]byte // additional seeds, thorough only
	Wrong    [][]byte // family (c): self-consistent encodings whose data array / height map has the wrong size
	Reframe  bool     // compressed frames: additionally rewrite the data length with a refitted packet length
	NoBytes  bool     // skip family (a) (text entry points get the token family instead)
	JSONText bool     // input is JSON text (token family applies)
	JSONWrap bool     // input is String-prefixed JSON text (token family applies, wrapped)
}

var decoders []*Decoder

func add(d *Decoder) *Decoder {
	for _, o := range decoders {
		if o.Name == d.Name {
			engine.HarnessError("duplicate decoder name %s", d.Name)
		}
	}
	decoders = append(decoders, d)
	return d
}

func findDecoder(name string) *Decoder {
	for _, d := range decoders {
		if d.Name == name {
			return d
		}
	}
	return nil
}

// ---------------------------------------------------------------------------------------------
// small encoders (reference side)

func cat(parts ...[]byte) []byte {
	var out []byte
	for _, p := range parts {
		out = append(out, p...)
	}
	return out
}

func vi(v int32) []byte   { return refwire.AppendVarInt(nil, v) }
func vl(v int64) []byte   { return refwire.AppendVarLong(nil, v) }
func str(s string) []byte { return refwire.AppendString(nil, s) }
func barr(b []byte) []byte {
	return refwire.AppendByteArray(nil, b)
}
func bset(l ...int64) []byte { return refwire.AppendBitSet(nil, l) }
func u16(v uint16) []byte    { return refwire.AppendU16(nil, v) }
func u32(v uint32) []byte    { return refwire.AppendU32(nil, v) }
func u64(v uint64) []byte    { return refwire.AppendU64(nil, v) }
func rep8(b byte, n int) []byte {
	return bytes.Repeat([]byte{b}, n)
}

func nStr(s string) *refnbt.Node  { return &refnbt.Node{Tag: refnbt.String, S: s} }
func nByte(v int64) *refnbt.Node  { return &refnbt.Node{Tag: refnbt.Byte, I: v} }
func nInt(v int64) *refnbt.Node   { return &refnbt.Node{Tag: refnbt.Int, I: v} }
func nLong(v int64) *refnbt.Node  { return &refnbt.Node{Tag: refnbt.Long, I: v} }
func nFloat(b int64) *refnbt.Node { return &refnbt.Node{Tag: refnbt.Float, I: b} }
func nDouble(b int64) *refnbt.Node {
	return &refnbt.Node{Tag: refnbt.Double, I: b}
}
func nArr(t refnbt.Tag, a ...int64) *refnbt.Node {
	if a == nil {
		a = []int64{}
	}
	return &refnbt.Node{Tag: t, A: a}
}
func nList(et refnbt.Tag, e ...*refnbt.Node) *refnbt.Node {
	return &refnbt.Node{Tag: refnbt.List, ElemTag: et, Elems: e}
}

type kv struct {
	k string
	v *refnbt.Node
}

func nComp(f ...kv) *refnbt.Node {
	n := &refnbt.Node{Tag: refnbt.Compound}
	for _, x := range f {
		n.Fields = append(n.Fields, refnbt.Field{Name: x.k, Val: x.v})
	}
	return n
}
func nbtNet(n *refnbt.Node) []byte { return refnbt.Append(nil, "", n, true) }

func mustWrite(w io.WriterTo) []byte {
	var b bytes.Buffer
	if _, err := w.WriteTo(&b); err != nil {
		engine.HarnessError("go-mc encoder failed while building a seed: %v", err)
	}
	return b.Bytes()
}

// ---------------------------------------------------------------------------------------------
// generic constructors

func leafDec[T any, P interface {
	*T
	io.ReaderFrom
}](name string, l lay, valids ...[]byte) *Decoder {
	return add(&Decoder{Name: name, Lay: l, Valids: valids, Run: func(r io.Reader) error {
		var v T
		_, err := P(&v).ReadFrom(r)
		return err
	}})
}

func aryDec[L pk.VarInt | pk.VarLong | pk.Byte | pk.UnsignedByte | pk.Short | pk.UnsignedShort | pk.Int | pk.Long](name string, enc byte, mk func() any, elem lay, valids ...[]byte) *Decoder {
	return add(&Decoder{Name: name, Lay: lArray(enc, "array-count", 1, elem), Valids: valids, Run: func(r io.Reader) error {
		_, err := pk.Ary[L]{Ary: mk()}.ReadFrom(r)
		return err
	}})
}

func scanDec(name string, l lay, mk func() []pk.FieldDecoder, valids ...[]byte) *Decoder {
	return add(&Decoder{Name: "Scan/" + name, Lay: l, Valids: valids, Run: func(r io.Reader) error {
		data, _ := io.ReadAll(r)
		return pk.Packet{Data: data}.Scan(mk()...)
	}})
}

// ---------------------------------------------------------------------------------------------

func heightMapLongs(secs int) int {
	b := bits.Len(uint(secs)*16 + 1)
	per := 64 / b
	return (256 + per - 1) / per
}

func sectionLay() lay {
	return lTuple(lFixed(2), lContainer(true, 4096, block.BitsPerBlock), lContainer(false, 64, biome.BitsPerBiome))
}

func sectionsLay(secs int) lay {
	one := sectionLay()
	return func(s *scanner) bool {
		for i := 0; i < secs; i++ {
			if !one(s) {
				return false
			}
		}
		return true
	}
}

var blockEntityLay = lTuple(lFixed(3), lVarInt, lNBT("", -1))

func chunkLay(secs int) lay {
	return lTuple(
		lNBT("heightmap", int64(heightMapLongs(secs))),
		lNested("bytearray", sectionsLay(secs)),
		lArray('v', "array-count", 5, blockEntityLay),
		lBitSet, lBitSet, lBitSet, lBitSet,
		lArray('v', "array-count", 1, lByteArray),
		lArray('v', "array-count", 1, lByteArray),
	)
}

// statesEnc encodes (with go-mc's own writer) a 4096-entry block container holding k distinct values.
func statesEnc(k int) []byte {
	c := level.NewStatesPaletteContainer(4096, 0)
	for i := 0; i < k; i++ {
		c.Set(i, level.BlocksState(i))
	}
	return mustWrite(c)
}

func biomesEnc(k int) []byte {
	c := level.NewBiomesPaletteContainer(64, 0)
	for i := 0; i < k; i++ {
		c.Set(i, level.BiomesState(i))
	}
	return mustWrite(c)
}

func sectionEnc(kStates, kBiomes int) []byte {
	return cat(u16(uint16(kStates)), statesEnc(kStates), biomesEnc(kBiomes))
}

// chunkData: the section data of a chunk of secs sections (go-mc's writer), section 0 holding k distinct blocks.
func chunkData(secs, k int) []byte {
	c := level.EmptyChunk(secs)
	for i := 1; i < k; i++ {
		c.Sections[0].SetBlock(i, level.BlocksState(i))
	}
	d, err := c.Data()
	if err != nil {
		engine.HarnessError("Chunk.Data: %v", err)
	}
	return d
}

func longsNode(n int) *refnbt.Node {
	a := make([]int64, n)
	for i := range a {
		a[i] = int64(i) * 0x0101
	}
	return nArr(refnbt.LongArray, a...)
}

// chunkEnc assembles a chunk data packet body in the layout Chunk.ReadFrom consumes:
// NBT heightmaps | ByteArray sections | Array block entities | 4 BitSets | 2 Arrays of ByteArray.
// mb / ws: number of longs of the two height maps (-1: field absent).
func chunkEnc(mb, ws int, data []byte, nBE int) []byte {
	var f []kv
	if mb >= 0 {
		f = append(f, kv{"MOTION_BLOCKING", longsNode(mb)})
	}
	if ws >= 0 {
		f = append(f, kv{"WORLD_SURFACE", longsNode(ws)})
	}
	out := nbtNet(nComp(f...))
	out = append(out, barr(data)...)
	out = append(out, vi(int32(nBE))...)
	for i := 0; i < nBE; i++ {
		out = append(out, cat([]byte{0x12}, u16(64), vi(int32(i+1)), nbtNet(nComp(kv{"id", nStr("a")})))...)
	}
	out = append(out, cat(bset(1), bset(2), bset(), bset())...)
	out = append(out, cat(vi(1), barr(rep8(0x11, 8)), vi(0))...)
	return out
}

func framePackets() []struct {
	id      int32
	payload []byte
} {
	long := make([]byte, 300)
	for i := range long {
		long[i] = byte(i % 7)
	}
	return []struct {
		id      int32
		payload []byte
	}{{0, nil}, {1, []byte("abc")}, {0x80, rep8(0x5a, 10)}, {5, long}}
}

func newRegistryWith3[E any]() *registry.Registry[E] {
	r := registry.NewRegistry[E]()
	var z E
	r.Put("a:0", z)
	r.Put("a:1", z)
	r.Put("a:2", z)
	return &r
}

func regDec[E any](name string, valids [][]byte) {
	regLay := lArray('v', "registry-count", 2, lTuple(lString, lOption(lNBT("", -1))))
	add(&Decoder{Name: "Registry[" + name + "].ReadFrom", Lay: regLay, Valids: valids, Run: func(r io.Reader) error {
		reg := registry.NewRegistry[E]()
		_, err := reg.ReadFrom(r)
		return err
	}})
}

func buildDecoders() {
	// ---- fixed-size and unbounded leaves (no length prefixes)
	leafDec[pk.Boolean]("Boolean", lFixed(1), []byte{0}, []byte{1})
	leafDec[pk.Byte]("Byte", lFixed(1), []byte{0x80})
	leafDec[pk.UnsignedByte]("UnsignedByte", lFixed(1), []byte{0xff})
	leafDec[pk.Short]("Short", lFixed(2), u16(0x8000))
	leafDec[pk.UnsignedShort]("UnsignedShort", lFixed(2), u16(0xffff))
	leafDec[pk.Int]("Int", lFixed(4), u32(0x80000000))
	leafDec[pk.Long]("Long", lFixed(8), u64(1<<63))
	leafDec[pk.Float]("Float", lFixed(4), u32(0x7fc00001))
	leafDec[pk.Double]("Double", lFixed(8), u64(0x7ff8000000000001))
	leafDec[pk.Position]("Position", lFixed(8), refwire.AppendPosition(nil, -1, -2048, 1<<25-1))
	leafDec[pk.Angle]("Angle", lFixed(1), []byte{0x7f})
	leafDec[pk.UUID]("UUID", lFixed(16), rep8(0xab, 16))
	leafDec[pk.VarInt]("VarInt", lVarInt, vi(0), vi(127), vi(128), vi(2097151), vi(-1), vi(-0x80000000), vi(0x7fffffff))
	leafDec[pk.VarLong]("VarLong", lVarLong, vl(0), vl(128), vl(-1), vl(-1<<63), vl(1<<62))
	leafDec[pk.PluginMessageData]("PluginMessageData", lRest, nil, []byte("abc"))
	add(&Decoder{Name: "FixedBitSet", Lay: lRest, Valids: [][]byte{{1, 2, 3}}, Run: func(r io.Reader) error {
		_, err := pk.NewFixedBitSet(20).ReadFrom(r)
		return err
	}})

	// ---- length-prefixed leaves, fresh and reused destinations (the code branches on cap)
	strs := [][]byte{str(""), str("a"), str("ab"), str("é"), str(strings.Repeat("x", 127)), str(strings.Repeat("y", 128))}
	leafDec[pk.String]("String", lString, strs...)
	bas := [][]byte{barr(nil), barr([]byte{0}), barr([]byte{1, 2, 3}), barr(rep8(0x80, 128))}
	leafDec[pk.ByteArray]("ByteArray", lByteArray, bas...)
	add(&Decoder{Name: "ByteArray/reused", Lay: lByteArray, Valids: bas, Run: func(r io.Reader) error {
		v := make(pk.ByteArray, 2, 8)
		_, err := (&v).ReadFrom(r)
		return err
	}})
	bss := [][]byte{bset(), bset(0), bset(-1, 1), bset(1, 2, 3)}
	leafDec[pk.BitSet]("BitSet", lBitSet, bss...)
	add(&Decoder{Name: "BitSet/reused", Lay: lBitSet, Valids: bss, Run: func(r io.Reader) error {
		v := make(pk.BitSet, 1, 4)
		_, err := (&v).ReadFrom(r)
		return err
	}})

	// ---- NBT fields
	nbts := [][]byte{
		{0x00},
		nbtNet(nComp()),
		nbtNet(nComp(kv{"a", nInt(1)}, kv{"s", nStr("x")}, kv{"l", nArr(refnbt.LongArray, 1, 2)})),
		nbtNet(nComp(kv{"a", nInt(1)}, kv{"u", nList(refnbt.Compound, nComp(kv{"b", nByte(1)}))})),
		nbtNet(nStr("a")),
		nbtNet(nList(refnbt.String, nStr("a"), nStr("b"))),
		nbtNet(nArr(refnbt.ByteArray, 1, 2, 3)),
	}
	add(&Decoder{Name: "NBT[RawMessage]", Lay: lNBT("", -1), Valids: nbts, Run: func(r io.Reader) error {
		var v nbt.RawMessage
		_, err := pk.NBT(&v).ReadFrom(r)
		return err
	}})
	add(&Decoder{Name: "NBT[any]", Lay: lNBT("", -1), Valids: nbts, Run: func(r io.Reader) error {
		var v any
		_, err := pk.NBT(&v).ReadFrom(r)
		return err
	}})
	type nbtStruct struct {
		A int32   `nbt:"a"`
		S string  `nbt:"s"`
		L []int64 `nbt:"l"`
	}
	add(&Decoder{Name: "NBT[struct]", Lay: lNBT("", -1), Valids: nbts, Run: func(r io.Reader) error {
		var v nbtStruct
		_, err := pk.NBT(&v).ReadFrom(r)
		return err
	}})
	add(&Decoder{Name: "NBT[struct]/AllowUnknownFields", Lay: lNBT("", -1), Valids: nbts, Run: func(r io.Reader) error {
		var v nbtStruct
		_, err := pk.NBTField{V: &v, AllowUnknownFields: true}.ReadFrom(r)
		return err
	}})

	// ---- combinators
	aryDec[pk.VarInt]("Ary[VarInt][]VarInt", 'v', func() any { var s []pk.VarInt; return &s }, lVarInt,
		vi(0), cat(vi(1), vi(0)), cat(vi(3), vi(1), vi(128), vi(-1)))
	aryDec[pk.VarInt]("Ary[VarInt][]VarInt/reused", 'v', func() any { s := make([]pk.VarInt, 2, 4); return &s }, lVarInt,
		vi(0), cat(vi(3), vi(1), vi(128), vi(-1)), cat(vi(5), vi(1), vi(2), vi(3), vi(4), vi(5)))
	aryDec[pk.VarInt]("Ary[VarInt][]String", 'v', func() any { var s []pk.String; return &s }, lString,
		vi(0), cat(vi(2), str("a"), str("bc")))
	aryDec[pk.VarInt]("Ary[VarInt][]ByteArray", 'v', func() any { var s []pk.ByteArray; return &s }, lByteArray,
		vi(0), cat(vi(2), barr([]byte{1}), barr([]byte{2, 3})))
	aryDec[pk.VarInt]("Ary[VarInt][]BitSet", 'v', func() any { var s []pk.BitSet; return &s }, lBitSet,
		cat(vi(2), bset(1), bset()))
	aryDec[pk.VarInt]("Ary[VarInt][]Option[String]", 'v', func() any { var s []pk.Option[pk.String, *pk.String]; return &s }, lOption(lString),
		cat(vi(2), []byte{0}, []byte{1}, str("a")))
	mkBytes := func() any { var s []pk.Byte; return &s }
	aryDec[pk.VarLong]("Ary[VarLong][]Byte", 'V', mkBytes, lFixed(1), vl(0), cat(vl(2), []byte{1, 2}))
	aryDec[pk.Byte]("Ary[Byte][]Byte", 'b', mkBytes, lFixed(1), []byte{0}, []byte{2, 1, 2})
	aryDec[pk.UnsignedByte]("Ary[UnsignedByte][]Byte", 'B', mkBytes, lFixed(1), []byte{0}, []byte{2, 1, 2})
	aryDec[pk.Short]("Ary[Short][]Byte", 's', mkBytes, lFixed(1), u16(0), cat(u16(2), []byte{1, 2}))
	aryDec[pk.UnsignedShort]("Ary[UnsignedShort][]Byte", 'S', mkBytes, lFixed(1), u16(0), cat(u16(2), []byte{1, 2}))
	aryDec[pk.Int]("Ary[Int][]Byte", 'i', mkBytes, lFixed(1), u32(0), cat(u32(2), []byte{1, 2}))
	aryDec[pk.Long]("Ary[Long][]Byte", 'q', mkBytes, lFixed(1), u64(0), cat(u64(2), []byte{1, 2}))

	vecLay := lArray('v', "array-count", 1, lVarInt)
	aryDec[pk.VarInt]("Ary[VarInt][]Ary[VarInt][]VarInt", 'v', func() any { var s []vecVarInt; return &s }, vecLay,
		vi(0), cat(vi(2), vi(1), vi(7), vi(2), vi(300), vi(-1)))
	leafDec[pk.Option[vecVarInt, *vecVarInt]]("Option[Ary[VarInt][]VarInt]", lOption(vecLay), []byte{0}, cat([]byte{1}, vi(2), vi(1), vi(2)))
	add(&Decoder{Name: "Tuple{Boolean,Opt{func,func}}", Lay: lOption(lByteArray), Valids: [][]byte{{0}, cat([]byte{1}, barr([]byte{1, 2}))}, Run: func(r io.Reader) error {
		var has pk.Boolean
		var b pk.ByteArray
		_, err := pk.Tuple{&has, pk.Opt{Has: func() bool { return bool(has) }, Field: func() pk.FieldDecoder { return &b }}}.ReadFrom(r)
		return err
	}})
	leafDec[pk.Option[pk.String, *pk.String]]("Option[String]", lOption(lString), []byte{0}, cat([]byte{1}, str("a")))
	leafDec[pk.Option[pk.VarInt, *pk.VarInt]]("Option[VarInt]", lOption(lVarInt), []byte{0}, cat([]byte{1}, vi(300)))
	leafDec[pk.OptionDecoder[pk.ByteArray, *pk.ByteArray]]("OptionDecoder[ByteArray]", lOption(lByteArray), []byte{0}, cat([]byte{1}, barr([]byte{7})))
	add(&Decoder{Name: "Tuple{Boolean,Opt{String}}", Lay: lOption(lString), Valids: [][]byte{{0}, cat([]byte{1}, str("a"))}, Run: func(r io.Reader) error {
		var has pk.Boolean
		var s pk.String
		_, err := pk.Tuple{&has, pk.Opt{Has: &has, Field: &s}}.ReadFrom(r)
		return err
	}})
	add(&Decoder{Name: "Tuple{VarInt,String,ByteArray,Boolean}", Lay: lTuple(lVarInt, lString, lByteArray, lFixed(1)),
		Valids: [][]byte{cat(vi(300), str("ab"), barr([]byte{1, 2}), []byte{1})}, Run: func(r io.Reader) error {
			var a pk.VarInt
			var s pk.String
			var b pk.ByteArray
			var c pk.Boolean
			_, err := pk.Tuple{&a, &s, &b, &c}.ReadFrom(r)
			return err
		}})

	// ---- packet bodies as bot and server scan them (Packet.Scan over exported field types)
	scanDec("handshake", lTuple(lVarInt, lString, lFixed(2), lVarInt), func() []pk.FieldDecoder {
		var a, d pk.VarInt
		var s pk.String
		var p pk.UnsignedShort
		return []pk.FieldDecoder{&a, &s, &p, &d}
	}, cat(vi(767), str("localhost"), u16(25565), vi(2)))
	scanDec("login-start", lTuple(lString, lFixed(16)), func() []pk.FieldDecoder {
		var s pk.String
		var u pk.UUID
		return []pk.FieldDecoder{&s, &u}
	}, cat(str("Tnze"), rep8(0x11, 16)))
	scanDec("encryption-response", lTuple(lByteArray, lByteArray), func() []pk.FieldDecoder {
		var a, b pk.ByteArray
		return []pk.FieldDecoder{&a, &b}
	}, cat(barr(rep8(1, 16)), barr(rep8(2, 4))))
	scanDec("config-store-cookie", lTuple(lString, lByteArray), func() []pk.FieldDecoder {
		var k pk.Identifier
		var b pk.ByteArray
		return []pk.FieldDecoder{&k, &b}
	}, cat(str("a:b"), barr([]byte{1, 2, 3})))
	scanDec("config-enabled-features", lArray('v', "array-count", 1, lString), func() []pk.FieldDecoder {
		f := []pk.Identifier{}
		return []pk.FieldDecoder{pk.Array(&f)}
	}, cat(vi(2), str("minecraft:vanilla"), str("a:b")))
	scanDec("config-known-packs", lArray('v', "array-count", 3, lTuple(lString, lString, lString)), func() []pk.FieldDecoder {
		p := []bot.DataPack{}
		return []pk.FieldDecoder{pk.Array(&p)}
	}, vi(0), cat(vi(1), str("minecraft"), str("core"), str("1.21")))
	scanDec("config-resource-pack-push", lTuple(lFixed(16), lString, lString, lFixed(1), lOption(lNBT("", -1))), func() []pk.FieldDecoder {
		var id pk.UUID
		var u, h pk.String
		var f pk.Boolean
		var m pk.Option[chat.Message, *chat.Message]
		return []pk.FieldDecoder{&id, &u, &h, &f, &m}
	}, cat(rep8(3, 16), str("http://x"), str("00"), []byte{1}, []byte{1}, mustWrite(chat.Text("p"))),
		cat(rep8(3, 16), str("u"), str(""), []byte{0}, []byte{0}))

	// ---- frames
	var plain, comp [][]byte
	for _, p := range framePackets() {
		plain = append(plain, refframe.AppendPlain(nil, p.id, p.payload))
		comp = append(comp, refframe.AppendCompressionMode(nil, p.id, p.payload, false))
		comp = append(comp, refframe.AppendCompressionMode(nil, p.id, p.payload, true))
	}
	unpack := func(name string, T int, reused bool) {
		d := &Decoder{Name: name, Run: func(r io.Reader) error {
			var p pk.Packet
			if reused {
				p.Data = make([]byte, 3, 8)
			}
			return p.UnPack(r, T)
		}}
		if T < 0 {
			d.Lay, d.Valids = lFramePlain, plain
		} else {
			d.Lay, d.Valids, d.Reframe = lFrameCompressed, comp, true
		}
		add(d)
	}
	unpack("UnPack/T=-1", -1, false)
	unpack("UnPack/T=-1/reused", -1, true)
	unpack("UnPack/T=0", 0, false)
	unpack("UnPack/T=0/reused", 0, true)
	unpack("UnPack/T=1", 1, false)
	unpack("UnPack/T=64", 64, false)
	unpack("UnPack/T=256", 256, false)

	// ---- level
	bsLay := func(s *scanner) bool {
		n, ok := s.length('v', "dataarray", 8, true, guardLen, -1)
		if !ok {
			return false
		}
		return s.skip(8 * n)
	}
	bsValids := [][]byte{bset(), bset(0x0102030405060708), bset(1, 2, 3)}
	add(&Decoder{Name: "BitStorage", Lay: bsLay, Valids: bsValids, Run: func(r io.Reader) error {
		var b level.BitStorage
		_, err := b.ReadFrom(r)
		return err
	}})
	add(&Decoder{Name: "BitStorage/reused", Lay: bsLay, Valids: bsValids, Run: func(r io.Reader) error {
		b := level.NewBitStorage(4, 32, nil) // two longs of capacity
		_, err := b.ReadFrom(r)
		return err
	}})

	statesLay := lContainer(true, 4096, block.BitsPerBlock)
	biomesLay := lContainer(false, 64, biome.BitsPerBiome)
	st := &Decoder{Name: "PaletteContainer[states]", Lay: statesLay, Run: func(r io.Reader) error {
		c := level.NewStatesPaletteContainer(4096, 0)
		_, err := c.ReadFrom(r)
		return err
	}}
	for _, k := range []int{1, 2, 17, 300} {
		st.Valids = append(st.Valids, statesEnc(k))
	}
	for _, k := range []int{16, 33, 256, 257} {
		st.ValidsT = append(st.ValidsT, statesEnc(k))
	}
	st.Wrong = wrongDataArrays(statesLay, st.Valids[1:])
	add(st)
	bi := &Decoder{Name: "PaletteContainer[biomes]", Lay: biomesLay, Run: func(r io.Reader) error {
		c := level.NewBiomesPaletteContainer(64, 0)
		_, err := c.ReadFrom(r)
		return err
	}}
	for _, k := range []int{1, 2, 3, 5, 9} {
		bi.Valids = append(bi.Valids, biomesEnc(k))
	}
	bi.Wrong = wrongDataArrays(biomesLay, bi.Valids[1:])
	add(bi)

	sec := &Decoder{Name: "Section", Lay: sectionLay(), Run: func(r io.Reader) error {
		c := level.EmptyChunk(1)
		_, err := c.Sections[0].ReadFrom(r)
		return err
	}}
	sec.Valids = [][]byte{sectionEnc(1, 1), sectionEnc(2, 2), sectionEnc(17, 5), sectionEnc(300, 9)}
	sec.Wrong = wrongDataArrays(sec.Lay, sec.Valids[1:])
	add(sec)

	for _, secs := range []int{1, 2} {
		secs := secs
		pd := &Decoder{Name: "Chunk.PutData/secs=" + itoa(secs), Lay: sectionsLay(secs), Run: func(r io.Reader) error {
			data, _ := io.ReadAll(r)
			return level.EmptyChunk(secs).PutData(data)
		}}
		pd.Valids = [][]byte{chunkData(secs, 1), chunkData(secs, 3), chunkData(secs, 20)}
		pd.ValidsT = [][]byte{chunkData(secs, 300)}
		pd.Wrong = wrongDataArrays(pd.Lay, pd.Valids[1:])
		add(pd)
	}

	for _, secs := range []int{1, 24} {
		secs := secs
		h := heightMapLongs(secs)
		ch := &Decoder{Name: "Chunk/secs=" + itoa(secs), Lay: chunkLay(secs), Run: func(r io.Reader) error {
			_, err := level.EmptyChunk(secs).ReadFrom(r)
			return err
		}}
		ch.Valids = [][]byte{
			chunkEnc(h, h, chunkData(secs, 1), 0),
			chunkEnc(h, h, chunkData(secs, 3), 1),
			chunkEnc(-1, -1, chunkData(secs, 1), 0),
			cat([]byte{0x00}, chunkEnc(-1, -1, chunkData(secs, 1), 0)[2:]), // a lone End tag instead of the compound
			mustWrite(level.EmptyChunk(secs)),                              // go-mc's own writer (carries one more boolean than the reader consumes)
		}
		ch.ValidsT = [][]byte{chunkEnc(h, h, chunkData(secs, 20), 2)}
		for _, k := range []int{0, 1, h - 1, h + 1, heightMapLongs(25 - secs)} {
			ch.Wrong = append(ch.Wrong, chunkEnc(k, h, chunkData(secs, 1), 0), chunkEnc(h, k, chunkData(secs, 1), 0), chunkEnc(k, k, chunkData(secs, 3), 1))
		}
		ch.Wrong = append(ch.Wrong, chunkEnc(h+1, -1, chunkData(secs, 1), 0), chunkEnc(-1, 0, chunkData(secs, 1), 0))
		// the smallest body that reaches the height-map assembly: one empty height map, no sections, no light
		ch.Wrong = append(ch.Wrong, cat(nbtNet(nComp(kv{"MOTION_BLOCKING", nArr(refnbt.LongArray)})), barr(nil), vi(0), bset(), bset(), bset(), bset(), vi(0), vi(0)))
		add(ch)
	}

	beValids := [][]byte{
		cat([]byte{0x12}, u16(64), vi(1), nbtNet(nComp(kv{"id", nStr("a")}))),
		cat([]byte{0xff}, u16(0xffff), vi(300), []byte{0x00}),
	}
	leafDec[level.BlockEntity]("BlockEntity", blockEntityLay, beValids...)
	aryDec[pk.VarInt]("Ary[VarInt][]BlockEntity", 'v', func() any { var s []level.BlockEntity; return &s }, blockEntityLay,
		vi(0), cat(vi(2), beValids[0], beValids[1]))

	// ---- text components
	msgs := []chat.Message{
		chat.Text("a"), chat.Text(""),
		{Text: "a", Bold: true, Color: "red"},
		chat.Text("a").Append(chat.Text("b")),
		chat.TranslateMsg("k", chat.Text("x")),
		{Translate: "k", With: chat.TranslateArgs{"s"}},
		{Text: "c", ClickEvent: chat.OpenURL("u")},
		{Text: "h", HoverEvent: chat.ShowText(chat.Text("t"))},
	}
	var msgNBT, msgJSONWire, msgJSONText [][]byte
	for _, m := range msgs {
		msgNBT = append(msgNBT, mustWrite(m))
		msgJSONWire = append(msgJSONWire, mustWrite(chat.JsonMessage(m)))
		j, err := json.Marshal(m)
		if err != nil {
			engine.HarnessError("json.Marshal(Message): %v", err)
		}
		msgJSONText = append(msgJSONText, j)
	}
	msgNBT = append(msgNBT,
		nbtNet(nStr("a")),
		nbtNet(nList(refnbt.Compound, nComp(kv{"text", nStr("a")}), nComp(kv{"text", nStr("b")}))),
		nbtNet(nList(refnbt.String, nStr("a"))),
		nbtNet(nComp(kv{"translate", nStr("k")}, kv{"with", nArr(refnbt.IntArray, 1, 2)})),
		nbtNet(nComp(kv{"translate", nStr("k")}, kv{"with", nArr(refnbt.ByteArray, 1)})),
		nbtNet(nComp(kv{"translate", nStr("k")}, kv{"with", nArr(refnbt.LongArray, 1)})),
		nbtNet(nComp(kv{"translate", nStr("k")}, kv{"with", nList(refnbt.String, nStr("s"))})),
		nbtNet(nComp(kv{"text", nInt(5)})),
		nbtNet(nComp(kv{"text", nStr("a")}, kv{"extra", nList(refnbt.List, nList(refnbt.Compound, nComp(kv{"text", nStr("n")})))})),
	)
	add(&Decoder{Name: "chat.Message.ReadFrom", Lay: lNBT("", -1), Valids: msgNBT, Run: func(r io.Reader) error {
		var m chat.Message
		_, err := m.ReadFrom(r)
		return err
	}})
	add(&Decoder{Name: "chat.Type.ReadFrom", Lay: lTuple(lVarInt, lNBT("", -1), lOption(lNBT("", -1))),
		Valids: [][]byte{
			cat(vi(1), msgNBT[0], []byte{0}),
			cat(vi(300), msgNBT[3], []byte{1}, msgNBT[4]),
		}, Run: func(r io.Reader) error {
			var t chat.Type
			_, err := t.ReadFrom(r)
			return err
		}})
	msgJSONText = append(msgJSONText, []byte(`"a"`), []byte(`[{"text":"a"},"b"]`), []byte(`{"translate":"k","with":["s",{"text":"x"}]}`), []byte(` {"text":1}`))
	add(&Decoder{Name: "chat.JsonMessage.ReadFrom", Lay: lString, Valids: msgJSONWire, JSONWrap: true, Run: func(r io.Reader) error {
		var m chat.JsonMessage
		_, err := m.ReadFrom(r)
		return err
	}})
	add(&Decoder{Name: "chat.Message.UnmarshalJSON", Lay: lRest, Valids: msgJSONText, JSONText: true, Run: func(r io.Reader) error {
		raw, _ := io.ReadAll(r)
		var m chat.Message
		return m.UnmarshalJSON(raw)
	}})
	add(&Decoder{Name: "json.Unmarshal(*chat.Message)", Lay: lRest, Valids: msgJSONText, JSONText: true, NoBytes: true, Run: func(r io.Reader) error {
		raw, _ := io.ReadAll(r)
		var m chat.Message
		return json.Unmarshal(raw, &m)
	}})

	// ---- registries and tags
	dmg := nbtNet(nComp(kv{"message_id", nStr("m")}, kv{"scaling", nStr("never")}, kv{"exhaustion", nFloat(0x3dcccccd)}))
	dim := nbtNet(nComp(kv{"has_skylight", nByte(1)}, kv{"coordinate_scale", nDouble(0x3ff0000000000000)}, kv{"min_y", nInt(-64)},
		kv{"height", nInt(384)}, kv{"infiniburn", nStr("#a")}, kv{"monster_spawn_light_level", nInt(7)}, kv{"fixed_time", nLong(6000)}))
	deco := nComp(kv{"translation_key", nStr("k")}, kv{"parameters", nList(refnbt.String, nStr("sender"), nStr("content"))},
		kv{"style", nComp(kv{"italic", nByte(1)}, kv{"color", nStr("gray")})})
	chatType := nbtNet(nComp(kv{"chat", deco}, kv{"narration", deco}))
	regEnc := func(data []byte) [][]byte {
		return [][]byte{
			vi(0),
			cat(vi(1), str("a:b"), []byte{0}),
			cat(vi(2), str("a:b"), []byte{1}, data, str("c:d"), []byte{0}),
			cat(vi(2), str("a:b"), []byte{1}, data, str("c:d"), []byte{1}, data),
		}
	}
	regDec[nbt.RawMessage]("RawMessage", regEnc(dmg))
	regDec[registry.DamageType]("DamageType", regEnc(dmg))
	regDec[registry.Dimension]("Dimension", regEnc(dim))
	regDec[registry.ChatType]("ChatType", regEnc(chatType))

	tagLay := lArray('v', "tag-count", 2, lTuple(lString, lArray('v', "tag-length", 1, lVarInt)))
	tagValids := [][]byte{
		vi(0),
		cat(vi(1), str("a:t"), vi(2), vi(0), vi(1)),
		cat(vi(2), str("a:t"), vi(0), str("a:u"), vi(3), vi(2), vi(1), vi(0)),
		cat(vi(1), str("a:t"), vi(1), vi(3)), // id outside the registry
	}
	add(&Decoder{Name: "Registry[RawMessage].ReadTagsFrom", Lay: tagLay, Valids: tagValids, Run: func(r io.Reader) error {
		_, err := newRegistryWith3[nbt.RawMessage]().ReadTagsFrom(r)
		return err
	}})
	add(&Decoder{Name: "Registry[Dimension].ReadTagsFrom/empty", Lay: tagLay, Valids: tagValids, Run: func(r io.Reader) error {
		reg := registry.NewRegistry[registry.Dimension]()
		_, err := reg.ReadTagsFrom(r)
		return err
	}})
	add(&Decoder{Name: "Registries.Registry(damage_type)", Lay: lTuple(lArray('v', "registry-count", 2, lTuple(lString, lOption(lNBT("", -1)))), tagLay),
		Valids: [][]byte{cat(regEnc(dmg)[3], tagValids[1])}, Run: func(r io.Reader) error {
			// the path of the bot's configuration handler: registry data, then tags bound to it
			codec := registry.NewNetworkCodec()
			reg := codec.Registry("minecraft:damage_type")
			if _, err := reg.ReadFrom(r); err != nil {
				return err
			}
			_, err := reg.ReadTagsFrom(r)
			return err
		}})

	// ---- further field types go-mc defines for bot/server packets (compositions of the above)
	packedSig := func(s *scanner) bool {
		v, ok := s.varint()
		if !ok {
			return false
		}
		if v == -1 {
			n := 256
			if s.rest() < n {
				n = s.rest()
			}
			return s.skip(int64(n))
		}
		return true
	}
	leafDec[sign.PackedMessageBody]("sign.PackedMessageBody", lTuple(lString, lFixed(16), lArray('v', "array-count", 1, packedSig)),
		cat(str("hi"), u64(1700000000000), u64(7), vi(0)),
		cat(str("hi"), u64(1700000000000), u64(7), vi(2), vi(5), vi(0)),
		cat(str(""), u64(0), u64(0), vi(1), vi(-1), rep8(0x33, 256)))
	leafDec[sign.HistoryMessage]("sign.HistoryMessage", lTuple(lFixed(16), lByteArray), cat(rep8(1, 16), barr(rep8(2, 8))))
	leafDec[sign.HistoryUpdate]("sign.HistoryUpdate", lVarInt, vi(3))
	leafDec[sign.FilterMask]("sign.FilterMask", func(s *scanner) bool {
		v, ok := s.varint()
		if !ok {
			return false
		}
		if byte(v) == 2 {
			return lBitSet(s)
		}
		return true
	}, vi(0), vi(1), cat(vi(2), bset(5)), cat(vi(258), bset()))
	rsaDER := cat([]byte{0x30, 0x24, 0x30, 0x0d, 0x06, 0x09, 0x2a, 0x86, 0x48, 0x86, 0xf7, 0x0d, 0x01, 0x01, 0x01, 0x05, 0x00, 0x03, 0x13, 0x00,
		0x30, 0x10, 0x02, 0x09, 0x00, 0xc1, 0x02, 0x03, 0x04, 0x05, 0x06, 0x07, 0x09, 0x02, 0x03, 0x01, 0x00, 0x01})
	leafDec[sign.Session]("sign.Session", lTuple(lFixed(16), lFixed(8), lByteArray, lByteArray),
		cat(rep8(9, 16), u64(1700000000000), barr(rsaDER), barr(rep8(4, 8))))
	leafDec[user.Property]("user.Property", lTuple(lString, lString, lOption(lString)),
		cat(str("textures"), str("e30="), []byte{0}), cat(str("textures"), str("e30="), []byte{1}, str("sig")))
	leafDec[screen.Slot]("screen.Slot", func(s *scanner) bool {
		v, ok := s.varint()
		if !ok {
			return false
		}
		if v > 0 {
			return lTuple(lVarInt, lVarInt, lVarInt)(s)
		}
		return true
	}, vi(0), cat(vi(1), vi(5), vi(0), vi(0)))
}

// vecVarInt: an "Array of VarInt" as a field type of its own, so that it can nest under Ary and Option.
type vecVarInt []pk.VarInt

func (v vecVarInt) WriteTo(w io.Writer) (int64, error) { return pk.Array([]pk.VarInt(v)).WriteTo(w) }
func (v *vecVarInt) ReadFrom(r io.Reader) (int64, error) {
	return pk.Array((*[]pk.VarInt)(v)).ReadFrom(r)
}

func itoa(n int) string {
	if n == 0 {
		return "0"
	}
	var b []byte
	for n > 0 {
		b = append([]byte{byte('0' + n%10)}, b...)
		n /= 10
	}
	return string(b)
}

// wrongDataArrays rebuilds each seed with its LAST data array replaced by a self-consistent one of a
// wrong size (count k and exactly k longs), for every container of the seed whose width is known.
func wrongDataArrays(l lay, seeds [][]byte) [][]byte {
	var out [][]byte
	for _, v := range seeds {
		sites, clean, used := scan(l, v)
		if !clean || used != len(v) {
			engine.HarnessError("seed does not walk cleanly while building wrong-size variants")
		}
		for _, s := range sites {
			if s.Kind != "dataarray" || s.Expect < 0 {
				continue
			}
			bodyEnd := s.Off + s.Width + int(s.Val)*8
			for _, k := range []int64{0, 1, s.Expect - 1, s.Expect + 1} {
				if k < 0 || k == s.Expect {
					continue
				}
				m := append([]byte(nil), v[:s.Off]...)
				m = append(m, vi(int32(k))...)
				m = append(m, bytes.Repeat([]byte{0, 0, 0, 0, 0, 0, 0, 0x11}, int(k))...)
				m = append(m, v[bodyEnd:]...)
				out = append(out, m)
			}
		}
	}
	return out
}
