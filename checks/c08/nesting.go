package main

// Family (i): nesting depth. A peer chooses how deeply lists and compounds nest inside one frame (5 bytes per level
// for a list in a list, 3 for a compound in a compound: a 2 MiB frame holds ~400 000 levels). A decoder that recurses
// once per level without a bound dies with "fatal error: stack overflow", which no recover() can catch: the process
// ends, check.sh sees the crash, finds go-mc's frames innermost on the crashing goroutine and reports it (class
// process-crash). So these cases are executed in-process like every other one; on a tree that bounds its recursion
// they are ordinary value-or-error cases.
//
// Menu (complete, every tier): shapes {list-in-list, compound-in-compound, list/compound alternating, the same inside a
// skipped unknown field} x depths {1, 100, 511, 512, 513, 9999, 10000, 10001, 100000, 400000} x every NBT-consuming
// decoder of the catalogue that takes a bare network-format value. Depths above 10001 are not given to
// chat.Message.ReadFrom: its per-level reader wrapping is quadratic in the depth (slow, not wrong).

import (
	"bytes"
	"fmt"
	"io"
	"strings"
	"sync"
	"sync/atomic"

	"verif/engine"
)

var nestShapes = []string{"list", "compound", "alternating", "skipped-list", "skipped-compound"}
var nestDepths = []int{1, 100, 511, 512, 513, 9999, 10000, 10001, 100000, 400000}

var nestingCases int64

// nestBody builds a network-format NBT value (root tag id, no name) nested depth levels deep around one string.
func nestBody(shape string, depth int) []byte {
	var b bytes.Buffer
	switch shape {
	case "list":
		b.WriteByte(9)
		for i := 0; i < depth; i++ {
			b.Write([]byte{9, 0, 0, 0, 1})
		}
		b.Write([]byte{8, 0, 0, 0, 1, 0, 1, 'a'})
	case "compound":
		b.WriteByte(10)
		for i := 0; i < depth; i++ {
			b.Write([]byte{10, 0, 1, 'a'})
		}
		for i := 0; i < depth+1; i++ {
			b.WriteByte(0)
		}
	case "alternating":
		// compound { a: list [ compound { a: list [ ... ] } ] }
		b.WriteByte(10)
		for i := 0; i < depth; i++ {
			b.Write([]byte{9, 0, 1, 'a', 10, 0, 0, 0, 1})
		}
		for i := 0; i < depth+1; i++ {
			b.WriteByte(0)
		}
	case "skipped-list", "skipped-compound":
		// compound { zz: <nested>, } : a typed destination skips the unknown field through the raw reader
		inner := nestBody(strings.TrimPrefix(shape, "skipped-"), depth)
		b.WriteByte(10)
		b.WriteByte(inner[0])
		b.Write([]byte{0, 2, 'z', 'z'})
		b.Write(inner[1:])
		b.WriteByte(0)
	}
	return b.Bytes()
}

func nestingDecoders() []*Decoder {
	var out []*Decoder
	for _, d := range decoders {
		if strings.HasPrefix(d.Name, "NBT[") || d.Name == "chat.Message.ReadFrom" {
			out = append(out, d)
		}
	}
	return out
}

// deepGate admits one case of more than 10001 levels at a time: a decoder that recurses per level (bounded or not)
// holds a stack of hundreds of megabytes while it runs, and 16 of those at once is more than the check may use.
var deepGate sync.Mutex

func runNesting(slot int, d *Decoder, shape string, depth int) {
	if depth > 10001 {
		deepGate.Lock()
		defer deepGate.Unlock()
	}
	data := nestBody(shape, depth)
	mk := func() Case {
		return Case{Kind: "nesting", Decoder: d.Name, Origin: fmt.Sprintf("famI:%s:%d", shape, depth), SiteOff: -1}
	}
	for src := 0; src < 2; src++ {
		var r io.Reader = bytes.NewReader(data)
		if src == 1 {
			r = &engine.PlainReader{Data: data}
		}
		wd.Begin(slot, func() string { return caseJSON(mk()) })
		kind, frame, panicked := engine.Guard(func() { _ = d.Run(r) })
		wd.End(slot)
		if panicked {
			rep.FailLazy(d.Name+"/panic/"+frame+"/"+kind+"/nesting:"+shape, depth, func() engine.Failure {
				return engine.Failure{Detail: fmt.Sprintf("panic %q in %s while %s decodes a %s nesting of depth %d (%d bytes)", kind, frame, d.Name, shape, depth, len(data)), Case: mk()}
			})
		}
	}
	rep.Eval(2)
	atomic.AddInt64(&nestingCases, 1)
}

func famNesting() []func(slot int) {
	var jobs []func(slot int)
	for _, d := range nestingDecoders() {
		for _, shape := range nestShapes {
			for _, depth := range nestDepths {
				if d.Name == "chat.Message.ReadFrom" && depth > 10001 {
					continue
				}
				d, shape, depth := d, shape, depth
				jobs = append(jobs, func(slot int) { runNesting(slot, d, shape, depth) })
			}
		}
	}
	return jobs
}

// replayNesting re-executes one nesting case (origin "famI:<shape>:<depth>").
func replayNesting(c Case) {
	d := findDecoder(c.Decoder)
	var shape string
	var depth int
	parts := strings.Split(c.Origin, ":")
	if d == nil || len(parts) != 3 {
		engine.HarnessError("bad nesting case %+v", c)
	}
	shape = parts[1]
	fmt.Sscanf(parts[2], "%d", &depth)
	fmt.Printf("replaying %s on a %s nesting of depth %d\n", c.Decoder, shape, depth)
	for i := 0; i < 5; i++ {
		runNesting(0, d, shape, depth)
	}
	rep.Finish()
}

// Family (j): 32-bit overflow probes. A declared element count of 2^28 or more is legal on the wire and makes
// "count x element size" wrap in 32-bit arithmetic (a byte count computed as VarInt*8). Every other family stops at
// declared lengths of 2^20 (the over-allocation guard), so these few inputs are run here, one at a time: an honest
// decoder allocates what the input declares (at most 2 GiB of untouched memory), fails to read it and returns an
// error. Only the prefix is sent, no body.
var overflowProbes = []struct {
	Dec  string
	Lens []int64
}{
	{"BitSet", []int64{1 << 28, 1<<28 + 3}},
	{"BitSet/reused", []int64{1 << 28, 1<<28 + 3}},
	{"BitStorage", []int64{1 << 28, 1<<28 + 3}},
	{"BitStorage/reused", []int64{1 << 28}},
	{"ByteArray", []int64{1 << 30, 1<<31 - 1}},
	{"String", []int64{1 << 30, 1<<31 - 1}},
	{"chat.JsonMessage.ReadFrom", []int64{1<<31 - 1}},
	{"Ary[VarInt][]VarInt", []int64{1 << 29, 1<<29 + 1}},
	{"UnPack/T=-1", []int64{1 << 30, 1<<31 - 1}},
	{"UnPack/T=0", []int64{1 << 30, 1<<31 - 1}},
}

var overflowCases int64

func runOverflowProbe(slot int, d *Decoder, n int64) {
	deepGate.Lock()
	defer deepGate.Unlock()
	data := append(vi(int32(n)), 0x01, 0x02, 0x03)
	mk := func() Case {
		return Case{Kind: "overflow", Decoder: d.Name, Hex: fmt.Sprintf("%x", data), Origin: fmt.Sprintf("famJ:declared-count:%d", n), SiteOff: 0}
	}
	var err error
	wd.Begin(slot, func() string { return caseJSON(mk()) })
	kind, frame, panicked := engine.Guard(func() { err = d.Run(bytes.NewReader(data)) })
	wd.End(slot)
	rep.Eval(1)
	atomic.AddInt64(&overflowCases, 1)
	if panicked {
		rep.FailLazy(d.Name+"/panic/"+frame+"/"+kind+"/declared-count-2^28-or-more", int(n>>20), func() engine.Failure {
			return engine.Failure{Detail: fmt.Sprintf("panic %q in %s while %s decodes a declared count of %d followed by 3 bytes", kind, frame, d.Name, n), Case: mk()}
		})
		return
	}
	if err == nil {
		rep.FailLazy(d.Name+"/accepted/declared-count-beyond-the-input", int(n>>20), func() engine.Failure {
			return engine.Failure{Detail: fmt.Sprintf("%s returned a nil error for a declared count of %d followed by 3 bytes", d.Name, n), Case: mk()}
		})
	}
}

func famOverflow() []func(slot int) {
	var jobs []func(slot int)
	for _, p := range overflowProbes {
		d := findDecoder(p.Dec)
		if d == nil {
			engine.HarnessError("overflow probes: unknown decoder %s", p.Dec)
		}
		for _, n := range p.Lens {
			d, n := d, n
			jobs = append(jobs, func(slot int) { runOverflowProbe(slot, d, n) })
		}
	}
	return jobs
}
