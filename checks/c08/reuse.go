package main

// Family (g): decode histories on ONE destination. A bot keeps its chunk columns, palette containers,
// packets and byte buffers alive and decodes the next peer message into them, and several decoders
// recycle the destination's spare capacity (ByteArray, BitSet, BitStorage, both palettes,
// Packet.Data). Whether such a decoder is safe therefore depends on what the previous decode left
// behind (len < cap after a shorter or failed read), which a single decode into a fresh value can
// never show. For every destination below and every ordered pair (first, second) of inputs from its
// menu a fresh destination decodes first and then second; thorough also runs every triple over a
// reduced menu. Obligations: no panic and no non-termination in any step (errors are fine), and an input that
// a FRESH destination of the same kind rejects (a length prefix inconsistent with the rest, a truncated body)
// is rejected by the used destination too: whether bytes from the peer are malformed does not depend on what
// was decoded before. (The converse - a used destination rejecting what a fresh one accepts - is only counted.)

import (
	"bytes"
	"encoding/hex"
	"fmt"
	"io"
	"strings"
	"sync"
	"sync/atomic"

	"github.com/Tnze/go-mc/level"
	pk "github.com/Tnze/go-mc/net/packet"

	"verif/engine"
)

type reusable struct {
	Name   string
	New    func() func(r io.Reader) error
	Menu   [][]byte // quick and thorough
	MenuT  [][]byte // added in thorough
	Triple [][]byte // thorough: all ordered triples over this reduced menu

	fresh sync.Map // input -> error text of decoding it into a fresh destination ("" if accepted, "panic" if it panicked)
}

// freshVerdict decodes in into a fresh destination of u (memoised per input).
func (u *reusable) freshVerdict(in []byte) string {
	if v, ok := u.fresh.Load(string(in)); ok {
		return v.(string)
	}
	verdict := ""
	dec := u.New()
	if _, _, panicked := engine.Guard(func() {
		if err := dec(bytes.NewReader(in)); err != nil {
			verdict = "error: " + err.Error()
		}
	}); panicked {
		verdict = "panic"
	}
	u.fresh.Store(string(in), verdict)
	return verdict
}

var reusables []*reusable

func findReusable(name string) *reusable {
	for _, u := range reusables {
		if u.Name == name {
			return u
		}
	}
	return nil
}

// prefixed builds the menu of a length-prefixed field whose elements are `unit` bytes wide:
// for every declared length in lens the full body, no body at all and half of the body.
func prefixed(head func(n int) []byte, unit int, lens []int) [][]byte {
	var out [][]byte
	for _, n := range lens {
		h := head(n)
		body := make([]byte, n*unit)
		for i := range body {
			body[i] = byte((i*7 + n) % 23) // < 0x80: as nested length prefixes these stay small
		}
		out = append(out, cat(h, body))
		if n > 0 {
			out = append(out, h, cat(h, body[:len(body)/2]))
		}
	}
	return out
}

func span(lo, hi int, extra ...int) []int {
	var out []int
	for i := lo; i <= hi; i++ {
		out = append(out, i)
	}
	return append(out, extra...)
}

// decoderMenu collects, for an existing single-shot decoder, its seeds, wrong-size variants and every
// systematic length-prefix rewrite and truncation of them that the allocation guard lets through.
func decoderMenu(name string, withT bool, maxLen int) [][]byte {
	d := findDecoder(name)
	if d == nil {
		engine.HarnessError("reuse family: unknown decoder %s", name)
	}
	seen := map[string]bool{}
	var out [][]byte
	put := func(m []byte) {
		if len(m) > maxLen || seen[string(m)] {
			return
		}
		if sites, _, _ := scan(d.Lay, m); !executable(sites) {
			return
		}
		seen[string(m)] = true
		out = append(out, append([]byte(nil), m...))
	}
	seeds := append([][]byte{}, d.Valids...)
	if withT {
		seeds = append(seeds, d.ValidsT...)
	}
	for _, v := range seeds {
		put(v)
		sites, _, _ := scan(d.Lay, v)
		for _, s := range sites {
			put(v[:s.Off])
			put(v[:s.Off+s.Width])
			rest := len(v) - s.Off - s.Width
			for _, val := range candidates(s, rest) {
				mm := append([]byte(nil), v[:s.Off]...)
				mm = append(mm, encodeInt(s.Enc, val)...)
				put(append([]byte(nil), mm...)) // rewritten prefix, nothing behind it
				mm = append(mm, v[s.Off+s.Width:]...)
				put(mm)
			}
		}
	}
	for _, v := range d.Wrong {
		put(v)
	}
	return out
}

func buildReusables() {
	quickLens := span(0, 40, 342, 384)
	secondLens := span(41, 80, 410, 432)
	addU := func(u *reusable) { reusables = append(reusables, u) }
	small := func(head func(n int) []byte, unit int) [][]byte {
		return prefixed(head, unit, []int{0, 1, 2, 3, 5, 7, 8, 9, 10, 16, 17})
	}

	bsHead := func(n int) []byte { return vi(int32(n)) }
	addU(&reusable{Name: "BitStorage", New: func() func(io.Reader) error {
		b := new(level.BitStorage)
		return func(r io.Reader) error { _, err := b.ReadFrom(r); return err }
	}, Menu: prefixed(bsHead, 8, append(quickLens, secondLens...)), Triple: small(bsHead, 8)})
	addU(&reusable{Name: "BitStorage/4bit", New: func() func(io.Reader) error {
		b := level.NewBitStorage(4, 32, nil)
		return func(r io.Reader) error { _, err := b.ReadFrom(r); return err }
	}, Menu: prefixed(bsHead, 8, span(0, 24)), Triple: small(bsHead, 8)})
	addU(&reusable{Name: "ByteArray", New: func() func(io.Reader) error {
		var b pk.ByteArray
		return func(r io.Reader) error { _, err := b.ReadFrom(r); return err }
	}, Menu: prefixed(bsHead, 1, append(quickLens, secondLens...)), Triple: small(bsHead, 1)})
	addU(&reusable{Name: "BitSet", New: func() func(io.Reader) error {
		var b pk.BitSet
		return func(r io.Reader) error { _, err := b.ReadFrom(r); return err }
	}, Menu: prefixed(bsHead, 8, append(quickLens, secondLens...)), Triple: small(bsHead, 8)})
	addU(&reusable{Name: "Ary[VarInt][]VarInt", New: func() func(io.Reader) error {
		var s []pk.VarInt
		return func(r io.Reader) error { _, err := pk.Ary[pk.VarInt]{Ary: &s}.ReadFrom(r); return err }
	}, Menu: prefixed(bsHead, 1, span(0, 40)), Triple: small(bsHead, 1)})
	addU(&reusable{Name: "Ary[VarInt][]ByteArray", New: func() func(io.Reader) error {
		var s []pk.ByteArray
		return func(r io.Reader) error { _, err := pk.Ary[pk.VarInt]{Ary: &s}.ReadFrom(r); return err }
	}, Menu: prefixed(bsHead, 1, span(0, 24)), Triple: small(bsHead, 1)}) // element bytes 0..: each a ByteArray prefix
	plainHead := func(n int) []byte { return cat(vi(int32(n+1)), []byte{0x21}) }
	addU(&reusable{Name: "UnPack/T=-1", New: func() func(io.Reader) error {
		var p pk.Packet
		return func(r io.Reader) error { return p.UnPack(r, -1) }
	}, Menu: prefixed(plainHead, 1, append(quickLens, secondLens...)), Triple: small(plainHead, 1)})
	compHead := func(n int) []byte { return cat(vi(int32(n+2)), []byte{0x00, 0x21}) }
	addU(&reusable{Name: "UnPack/T=256", New: func() func(io.Reader) error {
		var p pk.Packet
		return func(r io.Reader) error { return p.UnPack(r, 256) }
	}, Menu: append(prefixed(compHead, 1, append(quickLens, secondLens...)), findDecoder("UnPack/T=256").Valids...), Triple: small(compHead, 1)})

	addU(&reusable{Name: "PaletteContainer[states]", New: func() func(io.Reader) error {
		c := level.NewStatesPaletteContainer(4096, 0)
		return func(r io.Reader) error { _, err := c.ReadFrom(r); return err }
	}, Menu: decoderMenu("PaletteContainer[states]", true, 1<<20), Triple: decoderMenu("PaletteContainer[states]", false, 2200)})
	addU(&reusable{Name: "PaletteContainer[biomes]", New: func() func(io.Reader) error {
		c := level.NewBiomesPaletteContainer(64, 0)
		return func(r io.Reader) error { _, err := c.ReadFrom(r); return err }
	}, Menu: decoderMenu("PaletteContainer[biomes]", true, 1<<20), Triple: decoderMenu("PaletteContainer[biomes]", false, 40)})
	addU(&reusable{Name: "Section", New: func() func(io.Reader) error {
		c := level.EmptyChunk(1)
		return func(r io.Reader) error { _, err := c.Sections[0].ReadFrom(r); return err }
	}, Menu: decoderMenu("Section", true, 1<<20)})
	addU(&reusable{Name: "Chunk.PutData/secs=2", New: func() func(io.Reader) error {
		c := level.EmptyChunk(2)
		return func(r io.Reader) error { data, _ := io.ReadAll(r); return c.PutData(data) }
	}, Menu: decoderMenu("Chunk.PutData/secs=2", false, 1<<20)})
	addU(&reusable{Name: "Chunk/secs=1", New: func() func(io.Reader) error {
		c := level.EmptyChunk(1)
		return func(r io.Reader) error { _, err := c.ReadFrom(r); return err }
	}, Menu: decoderMenu("Chunk/secs=1", false, 1<<20)})
}

var reuseHistories, reuseSteps, reuseStricter int64

// runHistory decodes the inputs one after another into one fresh destination.
func runHistory(slot int, u *reusable, hist [][]byte) {
	mk := func(step int) Case {
		c := Case{Kind: "reuse", Decoder: u.Name, Origin: fmt.Sprintf("famG:step=%d", step), SiteOff: -1}
		for _, h := range hist {
			c.History = append(c.History, hex.EncodeToString(h))
		}
		return c
	}
	dec := u.New()
	for i, in := range hist {
		i := i
		wd.Begin(slot, func() string { return caseJSON(mk(i)) })
		var derr error
		kind, frame, panicked := engine.Guard(func() { derr = dec(bytes.NewReader(in)) })
		wd.End(slot)
		if !panicked && i > 0 {
			fv := u.freshVerdict(in)
			switch {
			case derr == nil && strings.HasPrefix(fv, "error"):
				rep.FailLazy(u.Name+"/reused-destination/accepts-what-a-fresh-destination-rejects", len(hist)*1000+len(in), func() engine.Failure {
					return engine.Failure{Detail: fmt.Sprintf("%s decodes input %d of the history %s into the destination the earlier inputs were decoded into and returns nil; a fresh destination rejects the same bytes (%s)", u.Name, i+1, clipHist(hist), fv), Case: mk(i)}
				})
			case derr != nil && fv == "":
				atomic.AddInt64(&reuseStricter, 1)
			}
		}
		if panicked {
			prev := "fresh"
			if i > 0 {
				prev = "reused"
			}
			rep.FailLazy(u.Name+"/"+prev+"-destination/panic/"+frame+"/"+kind, len(hist)*1000+len(in), func() engine.Failure {
				return engine.Failure{Detail: fmt.Sprintf("panic %q in %s while %s decodes input %d of the history %s into the destination the earlier inputs were decoded into", kind, frame, u.Name, i+1, clipHist(hist)), Case: mk(i)}
			})
			break
		}
	}
	atomic.AddInt64(&reuseSteps, int64(len(hist)))
	atomic.AddInt64(&reuseHistories, 1)
}

func clipHist(h [][]byte) string {
	s := "["
	for i, b := range h {
		if i > 0 {
			s += " ; "
		}
		s += clip(b)
	}
	return s + "]"
}

func famReuse(thorough bool) []func(slot int) {
	var jobs []func(slot int)
	for _, u := range reusables {
		u := u
		menu := append([][]byte{}, u.Menu...)
		if thorough {
			menu = append(menu, u.MenuT...)
		}
		const stripe = 8
		for s := 0; s < stripe; s++ {
			s := s
			jobs = append(jobs, func(slot int) {
				var n int64
				for i := s; i < len(menu); i += stripe {
					for _, b := range menu {
						runHistory(slot, u, [][]byte{menu[i], b})
						n++
					}
				}
				if thorough {
					for i := s; i < len(u.Triple); i += stripe {
						for _, b := range u.Triple {
							for _, c := range u.Triple {
								runHistory(slot, u, [][]byte{u.Triple[i], b, c})
								n++
							}
						}
					}
				}
				rep.Count("famG_histories", n)
				rep.Count("famG_histories/"+u.Name, n)
				rep.Eval(n)
				rep.NonTrivial(n)
				rep.AddStates(n)
			})
		}
	}
	return jobs
}
