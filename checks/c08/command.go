package main

// Command dispatcher part: every command line up to a length bound over a 6-symbol alphabet
// against a generated family of command graphs. Oracle: Execute returns (nil or an error); it
// never panics and never spins.

import (
	"context"
	"encoding/hex"
	"errors"
	"fmt"
	"strings"
	"sync/atomic"

	"github.com/Tnze/go-mc/server/command"

	"verif/engine"
)

type graphSpec struct {
	name  string
	build func() *command.Graph
}

var cmdAlphabet = []byte{'a', 'b', '"', '\\', ' ', '\t'}

func okHandler(context.Context, []command.ParsedData) error { return nil }
func errHandler(context.Context, []command.ParsedData) error {
	return errors.New("handler refused")
}

// graphs builds the family: literal chains, literal->argument for each StringParser mode,
// argument->argument, argument->literal, nodes with a handler and nodes registered with Unhandle().
func graphs() []graphSpec {
	var gs []graphSpec
	addg := func(name string, b func(g *command.Graph)) {
		gs = append(gs, graphSpec{name, func() *command.Graph {
			g := command.NewGraph()
			b(g)
			return g
		}})
	}
	addg("root-only", func(g *command.Graph) {})
	addg("lit(a)", func(g *command.Graph) { g.AppendLiteral(g.Literal("a").HandleFunc(okHandler)) })
	addg("lit(a)/unhandled", func(g *command.Graph) { g.AppendLiteral(g.Literal("a").Unhandle()) })
	addg("lit(a)/handler-error", func(g *command.Graph) { g.AppendLiteral(g.Literal("a").HandleFunc(errHandler)) })
	addg("lit(a),lit(b)", func(g *command.Graph) {
		g.AppendLiteral(g.Literal("a").HandleFunc(okHandler)).AppendLiteral(g.Literal("b").Unhandle())
	})
	addg("lit(ab),lit(a)", func(g *command.Graph) {
		g.AppendLiteral(g.Literal("ab").HandleFunc(okHandler)).AppendLiteral(g.Literal("a").HandleFunc(okHandler))
	})
	addg("lit(a)->lit(b)", func(g *command.Graph) {
		g.AppendLiteral(g.Literal("a").AppendLiteral(g.Literal("b").HandleFunc(okHandler)).HandleFunc(okHandler))
	})
	addg("lit(a)->lit(b)->lit(a)", func(g *command.Graph) {
		g.AppendLiteral(g.Literal("a").AppendLiteral(
			g.Literal("b").AppendLiteral(g.Literal("a").HandleFunc(okHandler)).Unhandle()).Unhandle())
	})
	addg("lit(a)->{lit(a),lit(b)}", func(g *command.Graph) {
		g.AppendLiteral(g.Literal("a").
			AppendLiteral(g.Literal("a").HandleFunc(okHandler)).
			AppendLiteral(g.Literal("b").HandleFunc(okHandler)).HandleFunc(okHandler))
	})
	for mode := 0; mode <= 2; mode++ {
		mode := mode
		addg(fmt.Sprintf("lit(a)->arg(%d)", mode), func(g *command.Graph) {
			g.AppendLiteral(g.Literal("a").AppendArgument(
				g.Argument("x", command.StringParser(mode)).HandleFunc(okHandler)).HandleFunc(okHandler))
		})
		addg(fmt.Sprintf("lit(a)/unhandled->arg(%d)/unhandled", mode), func(g *command.Graph) {
			g.AppendLiteral(g.Literal("a").AppendArgument(
				g.Argument("x", command.StringParser(mode)).Unhandle()).Unhandle())
		})
	}
	for _, p := range [][2]int{{0, 0}, {1, 1}, {0, 1}, {1, 0}, {1, 2}, {2, 0}, {2, 1}} {
		p := p
		addg(fmt.Sprintf("lit(a)->arg(%d)->arg(%d)", p[0], p[1]), func(g *command.Graph) {
			g.AppendLiteral(g.Literal("a").AppendArgument(
				g.Argument("x", command.StringParser(p[0])).AppendArgument(
					g.Argument("y", command.StringParser(p[1])).HandleFunc(okHandler)).HandleFunc(okHandler)).Unhandle())
		})
	}
	for mode := 0; mode <= 1; mode++ {
		mode := mode
		addg(fmt.Sprintf("lit(a)->arg(%d)->lit(b)", mode), func(g *command.Graph) {
			g.AppendLiteral(g.Literal("a").AppendArgument(
				g.Argument("x", command.StringParser(mode)).AppendLiteral(
					g.Literal("b").HandleFunc(okHandler)).HandleFunc(okHandler)).HandleFunc(okHandler))
		})
	}
	addg("lit(a)->arg(1)->lit(b)->arg(1)", func(g *command.Graph) {
		g.AppendLiteral(g.Literal("a").AppendArgument(
			g.Argument("x", command.StringParser(1)).AppendLiteral(
				g.Literal("b").AppendArgument(g.Argument("y", command.StringParser(1)).HandleFunc(okHandler)).Unhandle()).Unhandle()).Unhandle())
	})
	return gs
}

// cmdCase: Line is for the reader; LineHex is authoritative (a line may hold bytes that are not
// valid UTF-8, which JSON text cannot carry).
func cmdCase(graph, line string) Case {
	return Case{Kind: "command", Graph: graph, Line: line, LineHex: hex.EncodeToString([]byte(line)), SiteOff: -1}
}

func runCommand(slot int, gs graphSpec, line string) {
	g := gs.build()
	var err error
	wd.Begin(slot, func() string { return caseJSON(cmdCase(gs.name, line)) })
	kind, frame, panicked := engine.Guard(func() { err = g.Execute(context.Background(), line) })
	wd.End(slot)
	_ = err
	if panicked {
		if strings.HasPrefix(kind, "expect_") {
			// Node.parse's own panic message quotes the command line: keep raw input out of the class
			// (one class per line would be millions of classes over the wide alphabet)
			kind = "expect_<rest-of-line>_prefixed_with_<literal>"
		}
		rep.FailLazy("Graph.Execute/panic/"+frame+"/"+kind, len(line)*100+len(gs.name), func() engine.Failure {
			return engine.Failure{Detail: fmt.Sprintf("panic %s in %s executing command line %q on graph %s", kind, frame, line, gs.name),
				Case: cmdCase(gs.name, line)}
		})
	}
}

// cmdExtraSymbols: family (e2). Every character class a blank-trimming / word-splitting /
// rune-walking step of the dispatcher could tell apart, one representative per code point that Go,
// Java or Unicode treats as a blank, and the encodings a rune loop can trip over. Each entry is ONE
// symbol of the line alphabet (it may be several bytes long).
var cmdExtraSymbols = []struct{ name, s string }{
	// ASCII blanks other than space and tab (space and tab are in the base alphabet of family (e))
	{"LF", "\n"}, {"VT", "\v"}, {"FF", "\f"}, {"CR", "\r"},
	// ASCII controls that are not blanks for Go (1c..1f are for Java's Character.isWhitespace)
	{"NUL", "\x00"}, {"FS", "\x1c"}, {"US", "\x1f"}, {"DEL", "\x7f"},
	// every other code point with the Unicode White_Space property (what strings.TrimSpace strips)
	{"U+0085", "\u0085"}, {"U+00A0", "\u00a0"}, {"U+1680", "\u1680"},
	{"U+2000", "\u2000"}, {"U+2001", "\u2001"}, {"U+2002", "\u2002"}, {"U+2003", "\u2003"}, {"U+2004", "\u2004"},
	{"U+2005", "\u2005"}, {"U+2006", "\u2006"}, {"U+2007", "\u2007"}, {"U+2008", "\u2008"}, {"U+2009", "\u2009"},
	{"U+200A", "\u200a"}, {"U+2028", "\u2028"}, {"U+2029", "\u2029"}, {"U+202F", "\u202f"}, {"U+205F", "\u205f"},
	{"U+3000", "\u3000"},
	// look-alikes that are NOT White_Space
	{"U+180E", "\u180e"}, {"U+200B", "\u200b"}, {"U+2060", "\u2060"}, {"U+FEFF", "\ufeff"},
	// ordinary letters of 2, 3 and 4 bytes
	{"U+00E9", "\u00e9"}, {"U+20AC", "\u20ac"}, {"U+1F600", "\U0001f600"},
	// byte sequences that are not valid UTF-8: a lone continuation byte, ff, a lead byte without its
	// continuation (c2 would start U+0085/U+00A0, e3 80 would start U+3000), an encoded surrogate
	{"80", "\x80"}, {"ff", "\xff"}, {"c2", "\xc2"}, {"e380", "\xe3\x80"}, {"eda080", "\xed\xa0\x80"},
}

// famCommands: all lines of length <= L over cmdAlphabet x every graph.
func famCommands(L int) []func(slot int) {
	gs := graphs()
	var jobs []func(slot int)
	var total int64
	for _, g := range gs {
		g := g
		jobs = append(jobs, func(slot int) { runCommand(slot, g, ""); rep.Eval(1); atomic.AddInt64(&total, 1) })
		for _, first := range cmdAlphabet {
			first := first
			jobs = append(jobs, func(slot int) {
				buf := []byte{first}
				n := int64(0)
				var rec func()
				rec = func() {
					runCommand(slot, g, string(buf))
					n++
					if len(buf) == L {
						return
					}
					for _, a := range cmdAlphabet {
						buf = append(buf, a)
						rec()
						buf = buf[:len(buf)-1]
					}
				}
				rec()
				rep.Eval(n)
				rep.Count("command_executions", n)
				rep.NonTrivial(n)
				rep.AddStates(n)
			})
		}
	}
	rep.Extra("command_graphs", len(gs))
	rep.Extra("command_line_max_len", L)
	rep.Count("command_executions", int64(len(gs)))
	rep.NonTrivial(int64(len(gs)))
	rep.AddStates(int64(len(gs)))
	return jobs
}

// famCommandsWide: family (e2). For every extra symbol X of cmdExtraSymbols and every graph: all lines of
// <= L symbols over {a, b, ", \, space, X} that contain X at least once (the lines without X belong to
// family (e)). Same oracle: no panic, no spinning.
func famCommandsWide(L int) []func(slot int) {
	gs := graphs()
	base := []string{"a", "b", `"`, `\`, " "}
	var jobs []func(slot int)
	for _, g := range gs {
		g := g
		for _, x := range cmdExtraSymbols {
			x := x
			jobs = append(jobs, func(slot int) {
				var n int64
				var rec func(line []byte, k int, used bool)
				rec = func(line []byte, k int, used bool) {
					if used {
						runCommand(slot, g, string(line))
						n++
					}
					if k == L {
						return
					}
					for _, a := range base {
						rec(append(line[:len(line):len(line)], a...), k+1, used)
					}
					rec(append(line[:len(line):len(line)], x.s...), k+1, true)
				}
				rec(nil, 0, false)
				rep.Eval(n)
				rep.Count("command_executions_wide_alphabet", n)
				rep.NonTrivial(n)
				rep.AddStates(n)
			})
		}
	}
	var names []string
	for _, x := range cmdExtraSymbols {
		names = append(names, x.name)
	}
	rep.Extra("command_wide_symbols", names)
	rep.Extra("command_wide_line_max_symbols", L)
	return jobs
}

// Family (e3): spellings. Literal names of real command trees (kick, list uuids, say, stop, k, s, sk) with every letter
// replaced by every member of its case-folding orbit: lower case, upper case and the non-ASCII code points that fold
// to it (U+212A KELVIN SIGN -> k, U+017F LONG S -> s, U+0130 / U+0131 dotted / dotless i). A dispatcher that starts
// to match names ignoring case meets strings whose folded form equals a literal while their byte length does not.
// Every combination of spellings along every path of the graph, alone, with a trailing blank and with an argument.
var foldOrbit = map[rune][]string{
	'k': {"k", "K", "\u212a"},
	's': {"s", "S", "\u017f"},
	'i': {"i", "I", "\u0130", "\u0131"},
}

func spellings(word string) []string {
	out := []string{""}
	for _, r := range word {
		orbit, ok := foldOrbit[r]
		if !ok {
			orbit = []string{string(r), strings.ToUpper(string(r))}
		}
		var next []string
		for _, p := range out {
			for _, o := range orbit {
				next = append(next, p+o)
			}
		}
		out = next
	}
	return out
}

func spellingGraph() graphSpec {
	return graphSpec{"kick(arg),list->uuids,say(greedy),stop,k,s,sk", func() *command.Graph {
		g := command.NewGraph()
		g.AppendLiteral(g.Literal("kick").AppendArgument(g.Argument("who", command.StringParser(0)).HandleFunc(okHandler)).Unhandle())
		g.AppendLiteral(g.Literal("list").AppendLiteral(g.Literal("uuids").HandleFunc(okHandler)).HandleFunc(okHandler))
		g.AppendLiteral(g.Literal("say").AppendArgument(g.Argument("msg", command.StringParser(2)).HandleFunc(okHandler)).Unhandle())
		g.AppendLiteral(g.Literal("stop").HandleFunc(okHandler))
		g.AppendLiteral(g.Literal("k").HandleFunc(okHandler))
		g.AppendLiteral(g.Literal("s").HandleFunc(errHandler))
		g.AppendLiteral(g.Literal("sk").Unhandle())
		return g
	}}
}

func famCommandSpellings() []func(slot int) {
	gs := spellingGraph()
	paths := [][]string{{"kick"}, {"list"}, {"list", "uuids"}, {"say"}, {"stop"}, {"k"}, {"s"}, {"sk"}}
	var jobs []func(slot int)
	for _, path := range paths {
		path := path
		jobs = append(jobs, func(slot int) {
			lines := []string{""}
			for i, w := range path {
				var next []string
				for _, p := range lines {
					for _, sp := range spellings(w) {
						if i > 0 {
							next = append(next, p+" "+sp)
						} else {
							next = append(next, sp)
						}
					}
				}
				lines = next
			}
			var n int64
			for _, l := range lines {
				for _, tail := range []string{"", " ", " x", " \"q r\"", "x", "\u212a"} {
					runCommand(slot, gs, l+tail)
					n++
				}
			}
			rep.Eval(n)
			rep.Count("command_executions_spellings", n)
			rep.NonTrivial(n)
			rep.AddStates(n)
		})
	}
	rep.Extra("command_spelling_graph", gs.name)
	return jobs
}
