package main

// Command dispatcher part: every command line up to a length bound over a 6-symbol alphabet
// against a generated family of command graphs. Oracle: Execute returns (nil or an error); it
// never panics and never spins.

import (
	"context"
	"errors"
	"fmt"
	"sync/atomic"

	"github.com/Tnze/go-mc/server/command"

	"verif/engine"
)

type graphSpec struct {
	name  string
	build func() *command.Graph
}

var cmdAlphabet = []byte{'a', 'b', '"', '\\', ' ', '\t'}

func okHandler(context.Context, []command.ParsedData) error { return nil }
func errHandler(context.Context, []command.ParsedData) error {
	return errors.New("handler refused")
}

// graphs builds the family: literal chains, literal->argument for each StringParser mode,
// argument->argument, argument->literal, nodes with a handler and nodes registered with Unhandle().
func graphs() []graphSpec {
	var gs []graphSpec
	addg := func(name string, b func(g *command.Graph)) {
		gs = append(gs, graphSpec{name, func() *command.Graph {
			g := command.NewGraph()
			b(g)
			return g
		}})
	}
	addg("root-only", func(g *command.Graph) {})
	addg("lit(a)", func(g *command.Graph) { g.AppendLiteral(g.Literal("a").HandleFunc(okHandler)) })
	addg("lit(a)/unhandled", func(g *command.Graph) { g.AppendLiteral(g.Literal("a").Unhandle()) })
	addg("lit(a)/handler-error", func(g *command.Graph) { g.AppendLiteral(g.Literal("a").HandleFunc(errHandler)) })
	addg("lit(a),lit(b)", func(g *command.Graph) {
		g.AppendLiteral(g.Literal("a").HandleFunc(okHandler)).AppendLiteral(g.Literal("b").Unhandle())
	})
	addg("lit(ab),lit(a)", func(g *command.Graph) {
		g.AppendLiteral(g.Literal("ab").HandleFunc(okHandler)).AppendLiteral(g.Literal("a").HandleFunc(okHandler))
	})
	addg("lit(a)->lit(b)", func(g *command.Graph) {
		g.AppendLiteral(g.Literal("a").AppendLiteral(g.Literal("b").HandleFunc(okHandler)).HandleFunc(okHandler))
	})
	addg("lit(a)->lit(b)->lit(a)", func(g *command.Graph) {
		g.AppendLiteral(g.Literal("a").AppendLiteral(
			g.Literal("b").AppendLiteral(g.Literal("a").HandleFunc(okHandler)).Unhandle()).Unhandle())
	})
	addg("lit(a)->{lit(a),lit(b)}", func(g *command.Graph) {
		g.AppendLiteral(g.Literal("a").
			AppendLiteral(g.Literal("a").HandleFunc(okHandler)).
			AppendLiteral(g.Literal("b").HandleFunc(okHandler)).HandleFunc(okHandler))
	})
	for mode := 0; mode <= 2; mode++ {
		mode := mode
		addg(fmt.Sprintf("lit(a)->arg(%d)", mode), func(g *command.Graph) {
			g.AppendLiteral(g.Literal("a").AppendArgument(
				g.Argument("x", command.StringParser(mode)).HandleFunc(okHandler)).HandleFunc(okHandler))
		})
		addg(fmt.Sprintf("lit(a)/unhandled->arg(%d)/unhandled", mode), func(g *command.Graph) {
			g.AppendLiteral(g.Literal("a").AppendArgument(
				g.Argument("x", command.StringParser(mode)).Unhandle()).Unhandle())
		})
	}
	for _, p := range [][2]int{{0, 0}, {1, 1}, {0, 1}, {1, 0}, {1, 2}, {2, 0}, {2, 1}} {
		p := p
		addg(fmt.Sprintf("lit(a)->arg(%d)->arg(%d)", p[0], p[1]), func(g *command.Graph) {
			g.AppendLiteral(g.Literal("a").AppendArgument(
				g.Argument("x", command.StringParser(p[0])).AppendArgument(
					g.Argument("y", command.StringParser(p[1])).HandleFunc(okHandler)).HandleFunc(okHandler)).Unhandle())
		})
	}
	for mode := 0; mode <= 1; mode++ {
		mode := mode
		addg(fmt.Sprintf("lit(a)->arg(%d)->lit(b)", mode), func(g *command.Graph) {
			g.AppendLiteral(g.Literal("a").AppendArgument(
				g.Argument("x", command.StringParser(mode)).AppendLiteral(
					g.Literal("b").HandleFunc(okHandler)).HandleFunc(okHandler)).HandleFunc(okHandler))
		})
	}
	addg("lit(a)->arg(1)->lit(b)->arg(1)", func(g *command.Graph) {
		g.AppendLiteral(g.Literal("a").AppendArgument(
			g.Argument("x", command.StringParser(1)).AppendLiteral(
				g.Literal("b").AppendArgument(g.Argument("y", command.StringParser(1)).HandleFunc(okHandler)).Unhandle()).Unhandle()).Unhandle())
	})
	return gs
}

type CmdCase struct {
	Graph string `json:"graph"`
	Line  string `json:"line"`
}

func runCommand(slot int, gs graphSpec, line string) {
	g := gs.build()
	var err error
	wd.Begin(slot, func() string { return caseJSON(Case{Kind: "command", Graph: gs.name, Line: line}) })
	kind, frame, panicked := engine.Guard(func() { err = g.Execute(context.Background(), line) })
	wd.End(slot)
	_ = err
	if panicked {
		rep.FailLazy("Graph.Execute/panic/"+frame+"/"+kind, len(line)*100+len(gs.name), func() engine.Failure {
			return engine.Failure{Detail: fmt.Sprintf("panic %s in %s executing command line %q on graph %s", kind, frame, line, gs.name),
				Case: Case{Kind: "command", Graph: gs.name, Line: line}}
		})
	}
}

// famCommands: all lines of length <= L over cmdAlphabet x every graph.
func famCommands(L int) []func(slot int) {
	gs := graphs()
	var jobs []func(slot int)
	var total int64
	for _, g := range gs {
		g := g
		jobs = append(jobs, func(slot int) { runCommand(slot, g, ""); rep.Eval(1); atomic.AddInt64(&total, 1) })
		for _, first := range cmdAlphabet {
			first := first
			jobs = append(jobs, func(slot int) {
				buf := []byte{first}
				n := int64(0)
				var rec func()
				rec = func() {
					runCommand(slot, g, string(buf))
					n++
					if len(buf) == L {
						return
					}
					for _, a := range cmdAlphabet {
						buf = append(buf, a)
						rec()
						buf = buf[:len(buf)-1]
					}
				}
				rec()
				rep.Eval(n)
				rep.Count("command_executions", n)
				rep.NonTrivial(n)
				rep.AddStates(n)
			})
		}
	}
	rep.Extra("command_graphs", len(gs))
	rep.Extra("command_line_max_len", L)
	rep.Count("command_executions", int64(len(gs)))
	rep.NonTrivial(int64(len(gs)))
	rep.AddStates(int64(len(gs)))
	return jobs
}
