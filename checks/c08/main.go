// C08 — peer-controlled input never crashes a bot or server: decoders return errors.
//
// For every decoder of the table in decoders.go (frame unpacking in both modes, every packet
// field type and combinator, packet bodies as bot/server scan them, bit storage, paletted
// containers, sections, chunks, block entities, text components in NBT and JSON form, registry
// and tag data) the check enumerates exhaustively:
//
//	(a) every byte string of length <= L (quick 5, thorough 7) over {00,01,02,0a,7f,80,ff};
//	(b) for every seed (a valid encoding of an enumerated value): every truncation, every
//	    single-byte substitution from the same alphabet, and every length prefix the layout
//	    walker locates overwritten (spliced) with the encodings of {-1, min, 0, actual-1,
//	    actual+1, remaining+1, 2^20} (+ 2^62 for 64-bit counts); compressed frames additionally
//	    with the packet length refitted to the rewritten data length;
//	(c) self-consistent encodings whose data array / height map has the wrong size;
//	(d) JSON text: every sequence of <= N tokens (quick 5, thorough 6) over a 13-token alphabet;
//	(e) the command dispatcher: every command line of length <= M (quick 6, thorough 8) over
//	    {a,b,",\,space,tab} x a family of 25 command graphs; (e2) every line of <= MW symbols
//	    (quick 4, thorough 6) over {a,b,",\,space,X} that contains X, for every X of a menu of 39
//	    blanks (all of Unicode White_Space), controls, look-alikes, multi-byte letters and
//	    malformed UTF-8 sequences (command.go);
//	(f) inflated bodies behind a sound zlib stream; (g) decode histories on one destination
//	    (reuse.go); (h) declared-length sweeps (sweep.go).
//
// Oracle: the call returns (value or error): no panic, no call running > 20 s; and when the
// check itself wrote a negative length, a length the rest of the input cannot satisfy, or a
// data-array / height-map length that contradicts the entry width / chunk height into one of the
// places the property names (string, byte array, bit set, palette, data array, height map,
// compressed data length), the call must return a non-nil error.
//
// Unspecified (executed, counted, only the no-panic / termination clauses apply):
//   - which error is returned, partial results, bytes consumed;
//   - overwritten prefixes outside the named places (array counts, registry/tag counts, packet
//     length, NBT-internal lengths) and values that the rest of the input can satisfy
//     (actual-1, 0, actual+1 followed by more data) — a decoder may accept them;
//   - truncations and substitutions (the statement does not demand an error for them);
//   - a compressed data length smaller than the inflated size (as in C07);
//   - the data-array length of a single-valued (0 bit) container.
//
// Over-allocation guard: an input in which the walker finds a declared length above 2^20 (2^16
// for NBT lists) is counted and not executed; 2^62 in a 64-bit count is executed (make() refuses
// it without allocating).
package main

import (
	"bytes"
	"compress/zlib"
	"encoding/hex"
	"encoding/json"
	"fmt"
	"io"
	"math"
	"os"
	"sort"
	"sync"
	"sync/atomic"
	"time"

	"verif/engine"
	"verif/ref/refframe"
	"verif/ref/refwire"
)

type Case struct {
	Kind    string   `json:"kind"`              // decoder | command | reuse
	History []string `json:"history,omitempty"` // reuse: hex inputs decoded one after another into one destination
	Decoder string   `json:"decoder,omitempty"`
	Hex     string   `json:"hex,omitempty"`
	Origin  string   `json:"origin,omitempty"`
	SiteOff int      `json:"site_off"` // offset of the length prefix the check wrote, -1 none
	Graph   string   `json:"graph,omitempty"`
	Line    string   `json:"line,omitempty"`
	LineHex string   `json:"line_hex,omitempty"` // command: the bytes of the line (authoritative when present)
}

func caseJSON(c Case) string { b, _ := json.Marshal(c); return string(b) }

var (
	rep *engine.Report
	wd  *engine.Watchdog

	guarded, mustErr, noObligation, unspecPrefix int64
)

var alphabet = []byte{0x00, 0x01, 0x02, 0x0a, 0x7f, 0x80, 0xff}

func clip(b []byte) string {
	if len(b) > 48 {
		return fmt.Sprintf("%x…(%d bytes)", b[:48], len(b))
	}
	return fmt.Sprintf("%x", b)
}

// executable applies the over-allocation guard.
func executable(sites []Site) bool {
	for _, s := range sites {
		if s.Val > s.Guard {
			if s.Val >= 1<<60 && (s.Enc == 'V' || s.Enc == 'q') {
				continue // make() panics on this instead of allocating
			}
			return false
		}
	}
	return true
}

// obligation: the error obligation created by the prefix the check wrote at siteOff.
func obligation(sites []Site, siteOff int) (reason string, unspec bool) {
	for _, s := range sites {
		if s.Off != siteOff {
			continue
		}
		if !s.Named {
			return "", true
		}
		switch {
		case s.Val < 0:
			return "negative-" + s.Kind, false
		case s.Cap >= 0 && s.Val > s.Cap:
			return "overrun-" + s.Kind, false
		case s.Expect >= 0 && s.Val != s.Expect:
			return "mismatch-" + s.Kind, false
		}
		return "", true
	}
	// the prefix the check wrote is cut short by an enclosing length (e.g. a 5-byte data length in
	// a frame whose packet length is 2): no obligation
	rep.Count("written_prefix_cut_by_enclosing_length", 1)
	return "", true
}

// runCase executes one (decoder, bytes) case from both reader kinds and judges it.
func runCase(slot int, d *Decoder, data []byte, origin string, siteOff int) {
	sites, _, _ := scan(d.Lay, data)
	if !executable(sites) {
		atomic.AddInt64(&guarded, 1)
		return
	}
	must := ""
	if siteOff >= 0 {
		var unspec bool
		must, unspec = obligation(sites, siteOff)
		if unspec {
			atomic.AddInt64(&unspecPrefix, 1)
			rep.Unspec(1)
		}
	}
	if must != "" {
		atomic.AddInt64(&mustErr, 1)
	} else {
		atomic.AddInt64(&noObligation, 1)
	}
	mk := func() Case {
		return Case{Kind: "decoder", Decoder: d.Name, Hex: hex.EncodeToString(data), Origin: origin, SiteOff: siteOff}
	}
	for src := 0; src < 2; src++ {
		var r io.Reader
		if src == 0 {
			r = bytes.NewReader(data)
		} else {
			r = &engine.PlainReader{Data: data}
		}
		var err error
		wd.Begin(slot, func() string { return caseJSON(mk()) })
		kind, frame, panicked := engine.Guard(func() { err = d.Run(r) })
		wd.End(slot)
		if panicked {
			rep.FailLazy(d.Name+"/panic/"+frame+"/"+kind, len(data), func() engine.Failure {
				return engine.Failure{Detail: fmt.Sprintf("panic %q in %s while %s decodes %s (%s)", kind, frame, d.Name, clip(data), origin), Case: mk()}
			})
			continue
		}
		if must != "" && err == nil {
			rep.FailLazy(d.Name+"/accepted/"+must, len(data), func() engine.Failure {
				return engine.Failure{Detail: fmt.Sprintf("%s returned a nil error for %s in which the length prefix at offset %d was overwritten (%s): %s", d.Name, clip(data), siteOff, origin, must), Case: mk()}
			})
		}
	}
	rep.Eval(2)
}

// ---------------------------------------------------------------------------------------------
// family (a)

func famA(L int) []func(slot int) {
	var jobs []func(slot int)
	for _, d := range decoders {
		if d.NoBytes {
			continue
		}
		d := d
		jobs = append(jobs, func(slot int) {
			runCase(slot, d, nil, "famA", -1)
			rep.Count("famA_strings", 1)
		})
		for _, first := range alphabet {
			first := first
			jobs = append(jobs, func(slot int) {
				buf := make([]byte, 1, L)
				buf[0] = first
				n := int64(0)
				var rec func()
				rec = func() {
					runCase(slot, d, buf, "famA", -1)
					n++
					if len(buf) == L {
						return
					}
					for _, a := range alphabet {
						buf = append(buf, a)
						rec()
						buf = buf[:len(buf)-1]
					}
				}
				rec()
				rep.Count("famA_strings", n)
			})
		}
	}
	return jobs
}

func inFamA(m []byte, L int) bool {
	if len(m) > L {
		return false
	}
	for _, b := range m {
		if bytes.IndexByte(alphabet, b) < 0 {
			return false
		}
	}
	return true
}

// ---------------------------------------------------------------------------------------------
// family (b): systematic mutants of a seed

func encRange(enc byte) (min, max int64) {
	switch enc {
	case 'v', 'i':
		return math.MinInt32, math.MaxInt32
	case 'V', 'q':
		return math.MinInt64, math.MaxInt64
	case 'b':
		return math.MinInt8, math.MaxInt8
	case 'B':
		return 0, math.MaxUint8
	case 's':
		return math.MinInt16, math.MaxInt16
	case 'S':
		return 0, math.MaxUint16
	}
	panic("unknown encoding")
}

func encodeInt(enc byte, v int64) []byte {
	switch enc {
	case 'v':
		return refwire.AppendVarInt(nil, int32(v))
	case 'V':
		return refwire.AppendVarLong(nil, v)
	case 'b', 'B':
		return []byte{byte(v)}
	case 's', 'S':
		return refwire.AppendU16(nil, uint16(v))
	case 'i':
		return refwire.AppendU32(nil, uint32(v))
	case 'q':
		return refwire.AppendU64(nil, uint64(v))
	}
	panic("unknown encoding")
}

// candidates: the values written over a length prefix.
func candidates(s Site, restBytes int) []int64 {
	min, max := encRange(s.Enc)
	big := int64(guardLen)
	if s.Guard < big {
		big = 1 << 12
	}
	if big > max {
		big = max
	}
	c := []int64{-1, min, 0, s.Val - 1, s.Val + 1, int64(restBytes) + 1, big}
	if s.Enc == 'V' || s.Enc == 'q' {
		c = append(c, math.MinInt32, probeHuge)
	}
	var out []int64
	seen := map[int64]bool{s.Val: true}
	for _, v := range c {
		if v < min || v > max || seen[v] {
			continue
		}
		seen[v] = true
		out = append(out, v)
	}
	return out
}

// mutants calls f for every systematic mutant of seed v. strict: the seed must walk cleanly.
func mutants(d *Decoder, v []byte, strict bool, f func(m []byte, how string, siteOff int)) (restricted bool) {
	sites, clean, used := scan(d.Lay, v)
	if strict && (!clean || used != len(v)) {
		engine.HarnessError("%s: seed %s does not walk cleanly (clean=%v, used %d of %d)", d.Name, clip(v), clean, used, len(v))
	}
	pos := make([]bool, len(v)+1)
	if len(v) <= 200 {
		for i := range pos {
			pos[i] = true
		}
	} else {
		restricted = true
		for i := 0; i < 64; i++ {
			pos[i] = true
		}
		for i := len(v) - 8; i <= len(v); i++ {
			pos[i] = true
		}
		for _, s := range sites {
			for j := s.Off - 2; j < s.Off+s.Width+2; j++ {
				if j >= 0 && j <= len(v) {
					pos[j] = true
				}
			}
		}
	}
	for k := 0; k < len(v); k++ {
		if pos[k] {
			f(v[:k], "trunc", -1)
		}
	}
	m := make([]byte, len(v))
	for p := range v {
		if !pos[p] {
			continue
		}
		for _, a := range alphabet {
			if v[p] == a {
				continue
			}
			copy(m, v)
			m[p] = a
			f(m, "subst", -1)
		}
	}
	for _, s := range sites {
		rest := len(v) - s.Off - s.Width
		for _, val := range candidates(s, rest) {
			mm := append([]byte(nil), v[:s.Off]...)
			mm = append(mm, encodeInt(s.Enc, val)...)
			mm = append(mm, v[s.Off+s.Width:]...)
			f(mm, "site:"+s.Kind, s.Off)
		}
		if d.Reframe && s.Kind == "compressed-data-length" {
			body := v[s.Off+s.Width:]
			for _, val := range candidates(s, rest) {
				mm := refframe.AppendRawCompressed(nil, int32(val), body)
				off := len(mm) - len(body) - len(encodeInt('v', val))
				f(mm, "reframed:"+s.Kind, off)
			}
		}
	}
	return restricted
}

var (
	seedsTotal, seedsAccepted, seedsRestricted int64
	sampleMu                                   sync.Mutex
)

func famB(L int, thorough bool) []func(slot int) {
	var jobs []func(slot int)
	for _, d := range decoders {
		d := d
		jobs = append(jobs, func(slot int) {
			seen := map[string]struct{}{}
			var muts, dups int64
			emit := func(m []byte, how string, siteOff int) {
				if siteOff < 0 && !d.NoBytes && inFamA(m, L) {
					dups++
					return // already executed by family (a)
				}
				key := string(m) + "|" + itoa(siteOff+1)
				if _, ok := seen[key]; ok {
					dups++
					return
				}
				seen[key] = struct{}{}
				muts++
				runCase(slot, d, append([]byte(nil), m...), "famB:"+how, siteOff)
			}
			seeds := append(append([][]byte{}, d.Valids...), d.ValidsT...) // the same seeds in both tiers
			_ = thorough
			for i, v := range seeds {
				atomic.AddInt64(&seedsTotal, 1)
				var serr error
				if _, _, panicked := engine.Guard(func() { serr = d.Run(bytes.NewReader(v)) }); !panicked && serr == nil {
					atomic.AddInt64(&seedsAccepted, 1)
				} // a panic on the seed itself is reported by the judged run of the same bytes just below
				emit(v, "seed", -1)
				strict := !(len(d.Name) > 6 && d.Name[:6] == "Chunk/" && i == 4) // go-mc's own chunk writer output carries an extra boolean
				if mutants(d, v, strict, emit) {
					atomic.AddInt64(&seedsRestricted, 1)
				}
			}
			// family (c)
			var wrong int64
			for _, v := range d.Wrong {
				sites, clean, used := scan(d.Lay, v)
				if !clean || used != len(v) {
					engine.HarnessError("%s: wrong-size variant %s does not walk cleanly", d.Name, clip(v))
				}
				off := -1
				for _, s := range sites {
					if s.Named && s.Expect >= 0 && s.Val != s.Expect {
						off = s.Off
						break
					}
				}
				if off < 0 {
					engine.HarnessError("%s: wrong-size variant %s has no mismatching site", d.Name, clip(v))
				}
				wrong++
				emit(v, "wrong-size", off)
			}
			rep.Count("famB_mutants", muts)
			rep.Count("famB_duplicates_skipped", dups)
			rep.Count("famC_wrong_size_variants", wrong)
			rep.NonTrivial(muts)
			rep.AddStates(muts)
		})
	}
	return jobs
}

// ---------------------------------------------------------------------------------------------
// family (d): JSON token sequences

var jsonTokens = []string{"{", "}", "[", "]", ":", ",", `"text"`, `"extra"`, `"with"`, `"translate"`, `"a"`, "1", "null"}

// famInflated: family (f). For the compressed-frame decoders every byte string of length <= L over
// the 7-symbol alphabet is taken as the INFLATED content (packet id varint, canonical or over-long,
// followed by data), deflated by compress/zlib, and framed with every declared data length
// 1..len+1: malformed content behind a well-formed zlib stream, which byte-level mutation of the
// frame cannot produce. No error obligation: no panic, no non-termination.
func famInflated(L int) []func(slot int) {
	var jobs []func(slot int)
	for _, d := range decoders {
		d := d
		if !d.Reframe {
			continue
		}
		jobs = append(jobs, func(slot int) {
			var n int64
			body := make([]byte, 0, L)
			var rec func()
			rec = func() {
				if len(body) > 0 {
					var zb bytes.Buffer
					zw := zlib.NewWriter(&zb)
					zw.Write(body)
					zw.Close()
					for dl := 1; dl <= len(body)+1; dl++ {
						runCase(slot, d, refframe.AppendRawCompressed(nil, int32(dl), zb.Bytes()), "famF:inflated-body", -1)
						n++
					}
				}
				if len(body) == L {
					return
				}
				for _, a := range alphabet {
					body = append(body, a)
					rec()
					body = body[:len(body)-1]
				}
			}
			rec()
			rep.Count("famF_inflated_body_frames", n)
			rep.NonTrivial(n)
			rep.AddStates(n)
		})
	}
	return jobs
}

func famJSON(N int) []func(slot int) {
	var jobs []func(slot int)
	for _, d := range decoders {
		if !d.JSONText && !d.JSONWrap {
			continue
		}
		d := d
		for first := range jsonTokens {
			first := first
			jobs = append(jobs, func(slot int) {
				var n int64
				var rec func(text []byte, k int)
				rec = func(text []byte, k int) {
					in := text
					if d.JSONWrap {
						in = refwire.AppendString(nil, string(text))
					}
					runCase(slot, d, in, "json-tokens", -1)
					n++
					if k == N {
						return
					}
					for _, t := range jsonTokens {
						rec(append(text[:len(text):len(text)], t...), k+1)
					}
				}
				rec([]byte(jsonTokens[first]), 1)
				rep.Count("json_token_sequences", n)
				rep.NonTrivial(n)
				rep.AddStates(n)
			})
		}
	}
	return jobs
}

// ---------------------------------------------------------------------------------------------

func main() {
	rep = engine.NewReport("C08")
	rep.Rule = "per decoder: (a) every byte string of length <= L over {00,01,02,0a,7f,80,ff}; (b) every truncation, single-byte substitution (same alphabet) and length-prefix overwrite of every seed encoding; (c) self-consistent wrong-size data arrays / height maps; (d) every JSON token sequence of <= N tokens; (e) every command line of length <= M over {a,b,\",\\,space,tab} x every command graph, (e2) every line of <= MW symbols over {a,b,\",\\,space,X} containing X, for every X of a menu of blanks, controls, multi-byte and malformed UTF-8 sequences; (g) every ordered pair (thorough: triple) of inputs decoded into one destination; (h) every declared length of a sweep menu for every length-prefixed leaf (full / no / short body) and every located prefix of every small seed rewritten with every n <= N2 (counted as evaluations only, not as distinct cases: a few coincide with (a)/(b)); (i) every NBT-consuming decoder on every nesting shape x depth of a menu reaching the deepest nesting a 2 MiB frame can hold; (j) declared counts of 2^28 and more (32-bit byte-count overflow) on the length-prefixed leaves. distinct = distinct (decoder, bytes, written-site) triples: (a),(d),(e) are injective enumerations, (b)/(c) are deduplicated by an exact set per decoder and against (a); non-trivial = all (every input is handed to the decoder, from a bytes.Reader and from a plain io.Reader)"
	wd = engine.NewWatchdog(engine.Workers()+1, 20*time.Second, func(desc string) {
		var c Case
		json.Unmarshal([]byte(desc), &c)
		name := c.Decoder
		if c.Kind == "command" {
			name = "Graph.Execute"
		}
		rep.Fail(engine.Failure{Class: name + "/non-termination", Detail: "a single call ran for more than 20 s: " + desc, Case: c}, 0)
		rep.Cap("aborted by the non-termination watchdog")
		rep.Finish()
	})
	buildDecoders()
	buildReusables()
	if rep.ReplayPath != "" {
		replay()
		return
	}
	selftest()
	L, N, M, MW := 5, 5, 6, 4
	if rep.Thorough() {
		L, N, M, MW = 7, 6, 8, 6
	}
	var jobs []func(slot int)
	jobs = append(jobs, famB(L, rep.Thorough())...) // the heavy per-decoder jobs first
	jobs = append(jobs, famCommands(M)...)
	jobs = append(jobs, famCommandsWide(MW)...)
	jobs = append(jobs, famCommandSpellings()...)
	jobs = append(jobs, famJSON(N)...)
	jobs = append(jobs, famA(L)...)
	jobs = append(jobs, famInflated(4)...)
	jobs = append(jobs, famReuse(rep.Thorough())...)
	jobs = append(jobs, famNesting()...)
	jobs = append(jobs, famOverflow()...)
	if rep.Thorough() {
		jobs = append(jobs, famSweep(4200, 1100)...)
	} else {
		jobs = append(jobs, famSweep(600, 300)...)
	}
	engine.ParallelFor(len(jobs), func(slot, i int) { jobs[i](slot) })

	var famAStrings int64
	nA := 0
	for _, d := range decoders {
		if !d.NoBytes {
			nA++
		}
	}
	per := int64(0)
	for k, p := 0, int64(1); k <= L; k, p = k+1, p*int64(len(alphabet)) {
		per += p
	}
	famAStrings = per * int64(nA)
	rep.NonTrivial(famAStrings)
	rep.AddStates(famAStrings)
	rep.AddTraces(rep.Evaluations)
	rep.AddTrans(rep.Evaluations)
	names := make([]string, 0, len(decoders))
	for _, d := range decoders {
		names = append(names, d.Name)
	}
	sort.Strings(names)
	rep.Extra("decoders", names)
	rep.Extra("L_bytes", L)
	rep.Extra("json_max_tokens", N)
	rep.Extra("alphabet", "00 01 02 0a 7f 80 ff")
	rep.Extra("overwrite_values", "-1, min of the prefix type, 0, actual-1, actual+1, remaining+1, 2^20 (2^12 for NBT list lengths; type maximum when smaller); 64-bit counts also MinInt32 and 2^62")
	rep.Extra("mutation_positions", "seeds of <= 200 bytes: every offset; longer seeds: first 64 bytes, last 8 bytes and 2 bytes around every length prefix")
	rep.Extra("reuse_destinations", func() []string {
		var n []string
		for _, u := range reusables {
			n = append(n, u.Name)
		}
		return n
	}())
	rep.Count("famG_steps_where_the_used_destination_rejected_what_a_fresh_one_accepts(counted only)", reuseStricter)
	rep.Count("famI_nesting_cases", nestingCases)
	rep.Count("famJ_overflow_probes", overflowCases)
	rep.Extra("overflow_probes", "declared counts 2^28, 2^28+3 (8-byte elements), 2^29 (4-byte), 2^30, 2^31-1 (bytes) on the length-prefixed leaves, prefix + 3 bytes, one at a time")
	rep.Extra("nesting_shapes", nestShapes)
	rep.Extra("nesting_depths", nestDepths)
	rep.Count("famH_length_sweep_inputs", sweepInputs)
	rep.Count("famH_length_sweep_sites", sweepSites)
	rep.Count("seeds", seedsTotal)
	rep.Count("seeds_accepted_by_go-mc", seedsAccepted)
	rep.Count("seeds_with_restricted_positions", seedsRestricted)
	rep.Count("inputs_skipped_by_allocation_guard", guarded)
	rep.Count("inputs_that_must_error", mustErr)
	rep.Count("inputs_without_error_obligation", noObligation)
	rep.Count("overwritten_prefix_unspecified", unspecPrefix)
	rep.Sample(Case{Kind: "decoder", Decoder: "String", Hex: "ffffffff0f61", Origin: "famB:site:string", SiteOff: 0})
	rep.Sample(Case{Kind: "decoder", Decoder: "PaletteContainer[states]", Hex: "0080", Origin: "famA", SiteOff: -1})
	rep.Sample(Case{Kind: "command", Graph: "lit(a)->arg(1)", Line: `a "\"`, SiteOff: -1})
	rep.Assume("inputs in which the layout walker finds a declared length above 2^20 (2^16 for NBT lists) are not executed (over-allocation guard); the layout walker (checks/c08/scan.go), ref/refnbt, ref/refwire and ref/refframe are trusted and pinned by the self-test; the direct-palette widths are taken from go-mc's block/biome tables")
	rep.Finish()
}

// selftest pins the references and the layout walker to hand-assembled vectors.
func selftest() {
	if s := refwire.SelfTest(); s != "" {
		engine.HarnessError("refwire self-test: %s", s)
	}
	if s := refframe.SelfTest(); s != "" {
		engine.HarnessError("refframe self-test: %s", s)
	}
	unhex := func(s string) []byte { b, err := hex.DecodeString(s); _ = err; return b }
	type want struct {
		kind   string
		off    int
		val    int64
		expect int64
	}
	check := func(name string, l lay, in []byte, clean bool, used int, ws ...want) {
		sites, c, u := scan(l, in)
		if c != clean || u != used || len(sites) != len(ws) {
			engine.HarnessError("walker self-test %s: clean=%v used=%d sites=%+v", name, c, u, sites)
		}
		for i, w := range ws {
			if sites[i].Kind != w.kind || sites[i].Off != w.off || sites[i].Val != w.val || sites[i].Expect != w.expect {
				engine.HarnessError("walker self-test %s: site %d = %+v, want %+v", name, i, sites[i], w)
			}
		}
	}
	check("string", lString, unhex("0161"), true, 2, want{"string", 0, 1, -1})
	check("string-negative", lString, unhex("ffffffff0f61"), false, 5, want{"string", 0, -1, -1})
	check("single-valued container", lContainer(true, 4096, 15), unhex("000500"), true, 3, want{"dataarray", 2, 0, -1})
	ind := append(unhex("0402000180"+"02"), make([]byte, 256*8)...)
	check("indirect container", lContainer(true, 4096, 15), ind, true, len(ind), want{"palette", 1, 2, -1}, want{"dataarray", 4, 256, 256})
	dir := append(unhex("0f8008"), make([]byte, 1024*8)...)
	check("direct container", lContainer(true, 4096, 15), dir, true, len(dir), want{"dataarray", 1, 1024, 1024})
	bio := append(unhex("01020001"+"01"), make([]byte, 8)...)
	check("biome container", lContainer(false, 64, 6), bio, true, len(bio), want{"palette", 1, 2, -1}, want{"dataarray", 4, 1, 1})
	check("plain frame", lFramePlain, unhex("0401616263"), true, 5, want{"packet-length", 0, 4, -1})
	cf := refframe.AppendCompressionMode(nil, 1, []byte("abc"), true)
	sites, c, u := scan(lFrameCompressed, cf)
	if !c || u != len(cf) || len(sites) != 2 || sites[1].Kind != "compressed-data-length" || sites[1].Val != 4 || sites[1].Cap != 4 {
		engine.HarnessError("walker self-test compressed frame: %+v", sites)
	}
	if s, _, _ := scan(lString, unhex("ffffffff07")); executable(s) {
		engine.HarnessError("guard self-test: a 2^31-1 byte string would be executed")
	}
	if heightMapLongs(24) != 37 || heightMapLongs(1) != 22 {
		engine.HarnessError("height map size self-test")
	}
	// every seed must walk cleanly to its end (checked again, strictly, when mutating)
	for _, d := range decoders {
		for i, v := range append(append([][]byte{}, d.Valids...), d.ValidsT...) {
			if len(d.Name) > 6 && d.Name[:6] == "Chunk/" && i == 4 {
				continue
			}
			if _, c, u := scan(d.Lay, v); !c || u != len(v) {
				engine.HarnessError("%s: seed %d (%s) does not walk cleanly: clean=%v used=%d of %d", d.Name, i, clip(v), c, u, len(v))
			}
		}
	}
}

func replay() {
	rp, err := engine.LoadReplay(rep.ReplayPath)
	if err != nil {
		engine.HarnessError("cannot load replay: %v", err)
	}
	var c Case
	if err := json.Unmarshal(rp.Case, &c); err != nil {
		engine.HarnessError("bad case: %v", err)
	}
	if c.Kind == "command" {
		for _, g := range append(graphs(), spellingGraph()) {
			if g.name == c.Graph {
				line := c.Line
				if c.LineHex != "" {
					b, err := hex.DecodeString(c.LineHex)
					if err != nil {
						engine.HarnessError("bad line_hex: %v", err)
					}
					line = string(b)
				}
				fmt.Printf("replaying Graph.Execute(%q) on graph %s\n", line, c.Graph)
				for i := 0; i < 5; i++ {
					runCommand(0, g, line)
				}
				rep.Eval(5)
				rep.Finish()
			}
		}
		fmt.Fprintln(os.Stderr, "unknown graph", c.Graph)
		os.Exit(2)
	}
	if c.Kind == "nesting" {
		replayNesting(c)
	}
	if c.Kind == "overflow" {
		var n int64
		fmt.Sscanf(c.Origin, "famJ:declared-count:%d", &n)
		d := findDecoder(c.Decoder)
		if d == nil || n == 0 {
			engine.HarnessError("bad overflow case %+v", c)
		}
		for i := 0; i < 5; i++ {
			runOverflowProbe(0, d, n)
		}
		rep.Finish()
	}
	if c.Kind == "reuse" {
		u := findReusable(c.Decoder)
		if u == nil {
			fmt.Fprintln(os.Stderr, "unknown reusable destination", c.Decoder)
			os.Exit(2)
		}
		var hist [][]byte
		for _, h := range c.History {
			b, err := hex.DecodeString(h)
			if err != nil {
				engine.HarnessError("bad hex: %v", err)
			}
			hist = append(hist, b)
		}
		fmt.Printf("replaying the history %s on one %s destination\n", clipHist(hist), c.Decoder)
		for i := 0; i < 5; i++ {
			runHistory(0, u, hist)
		}
		rep.Eval(5)
		rep.Finish()
	}
	d := findDecoder(c.Decoder)
	if d == nil {
		fmt.Fprintln(os.Stderr, "unknown decoder", c.Decoder)
		os.Exit(2)
	}
	data, err := hex.DecodeString(c.Hex)
	if err != nil {
		engine.HarnessError("bad hex: %v", err)
	}
	sites, clean, used := scan(d.Lay, data)
	fmt.Printf("replaying %s on %s (origin %s, written site %d); walker: clean=%v used=%d of %d, %d sites\n", c.Decoder, clip(data), c.Origin, c.SiteOff, clean, used, len(data), len(sites))
	for _, s := range sites {
		fmt.Printf("  site off=%d width=%d kind=%s val=%d cap=%d expect=%d named=%v\n", s.Off, s.Width, s.Kind, s.Val, s.Cap, s.Expect, s.Named)
	}
	for i := 0; i < 5; i++ {
		runCase(0, d, data, c.Origin, c.SiteOff)
	}
	rep.Finish()
}
