package main

// Family (h): length sweeps. Families (a)-(c) write only a handful of values over a length prefix
// (-1, min, 0, actual-1, actual+1, remaining+1, 2^20) and their valid seeds hold at most a few
// hundred elements, so a decoder that treats one SIZE CLASS differently (a stack buffer for short
// strings, a chunked read for long arrays, a pooled buffer below a limit, a fast path for
// "fits in the old capacity") is never driven across its class boundary. This family enumerates
// the declared length itself:
//
//	(h1) for every length-prefixed leaf (String, ByteArray, BitSet, BitStorage, Ary, plain and
//	     compressed-mode frames, both reused variants): every declared length n of the sweep menu
//	     (every n <= N, then 2^k-1, 2^k, 2^k+1 up to 2^16+1, and 2^20) followed by the full body,
//	     by no body at all, and by a body that is one byte short;
//	(h2) for every seed of at most 4 KiB of every decoder: every length prefix the walker locates
//	     rewritten in place with every n <= N2.
//
// Oracle as everywhere: no panic, no call above 20 s, and a non-nil error where the written prefix
// cannot be satisfied by the rest of the input / contradicts the entry width (decided by the walker).

import (
	"sync/atomic"

	"verif/engine"
)

type leafSweep struct {
	Dec     string
	Unit    int
	MaxFull int                   // largest n for which the full body is built
	Head    func(n int) []byte    // everything before the body
	SiteOff func(head []byte) int // offset of the written prefix inside head
}

func sweepBody(n, unit int) []byte {
	body := make([]byte, n*unit)
	for i := range body {
		body[i] = byte((i*7 + n) % 23) // < 0x80: as nested VarInts these stay one byte long
	}
	return body
}

func sweepLens(N int) []int {
	var out []int
	for n := 0; n <= N; n++ {
		out = append(out, n)
	}
	for k := 9; k <= 16; k++ {
		for _, n := range []int{1<<k - 1, 1 << k, 1<<k + 1} {
			if n > N {
				out = append(out, n)
			}
		}
	}
	return append(out, guardLen)
}

func leafSweeps() []leafSweep {
	zero := func([]byte) int { return 0 }
	pfx := func(n int) []byte { return vi(int32(n)) }
	var out []leafSweep
	for _, name := range []string{"String", "ByteArray", "ByteArray/reused", "Ary[VarInt][]VarInt", "Ary[VarInt][]VarInt/reused"} {
		out = append(out, leafSweep{Dec: name, Unit: 1, MaxFull: guardLen, Head: pfx, SiteOff: zero})
	}
	for _, name := range []string{"BitSet", "BitSet/reused", "BitStorage", "BitStorage/reused"} {
		out = append(out, leafSweep{Dec: name, Unit: 8, MaxFull: 1<<16 + 1, Head: pfx, SiteOff: zero})
	}
	out = append(out, leafSweep{Dec: "Ary[VarInt][]ByteArray", Unit: 1, MaxFull: 1<<16 + 1, Head: pfx, SiteOff: zero}) // body bytes 0..22: each element a ByteArray prefix
	out = append(out, leafSweep{Dec: "chat.JsonMessage.ReadFrom", Unit: 1, MaxFull: guardLen, Head: pfx, SiteOff: zero})
	for _, name := range []string{"UnPack/T=-1", "UnPack/T=-1/reused"} {
		out = append(out, leafSweep{Dec: name, Unit: 1, MaxFull: guardLen, Head: func(n int) []byte { return cat(vi(int32(n+1)), []byte{0x21}) }, SiteOff: zero})
	}
	for _, name := range []string{"UnPack/T=0", "UnPack/T=0/reused", "UnPack/T=256"} {
		out = append(out, leafSweep{Dec: name, Unit: 1, MaxFull: guardLen, Head: func(n int) []byte { return cat(vi(int32(n+2)), []byte{0x00, 0x21}) }, SiteOff: zero})
	}
	return out
}

var sweepInputs, sweepSites int64

func famSweep(N, N2 int) []func(slot int) {
	var jobs []func(slot int)
	lens := sweepLens(N)
	for _, ls := range leafSweeps() {
		ls := ls
		d := findDecoder(ls.Dec)
		if d == nil {
			engine.HarnessError("length sweep: unknown decoder %s", ls.Dec)
		}
		const stripe = 4
		for s := 0; s < stripe; s++ {
			s := s
			jobs = append(jobs, func(slot int) {
				var n int64
				for i := s; i < len(lens); i += stripe {
					ln := lens[i]
					head := ls.Head(ln)
					off := ls.SiteOff(head)
					runCase(slot, d, head, "famH:declared-length/no-body", off)
					n++
					if ln == 0 || ln > ls.MaxFull {
						continue
					}
					body := sweepBody(ln, ls.Unit)
					runCase(slot, d, cat(head, body), "famH:declared-length/full-body", off)
					runCase(slot, d, cat(head, body[:len(body)-1]), "famH:declared-length/one-byte-short", off)
					n += 2
				}
				atomic.AddInt64(&sweepInputs, n)
			})
		}
	}
	// (h2)
	for _, d := range decoders {
		d := d
		jobs = append(jobs, func(slot int) {
			var n, ns int64
			seen := map[string]bool{}
			for _, v := range append(append([][]byte{}, d.Valids...), d.ValidsT...) {
				if len(v) > 4096 {
					continue
				}
				sites, _, _ := scan(d.Lay, v)
				for _, st := range sites {
					min, max := encRange(st.Enc)
					ns++
					for val := int64(0); val <= int64(N2); val++ {
						if val < min || val > max || val == st.Val {
							continue
						}
						m := cat(v[:st.Off], encodeInt(st.Enc, val), v[st.Off+st.Width:])
						key := string(m) + "|" + itoa(st.Off+1)
						if seen[key] {
							continue
						}
						seen[key] = true
						runCase(slot, d, m, "famH:site-sweep:"+st.Kind, st.Off)
						n++
					}
				}
			}
			atomic.AddInt64(&sweepInputs, n)
			atomic.AddInt64(&sweepSites, ns)
		})
	}
	rep.Extra("length_sweep_leaf_decoders", func() []string {
		var s []string
		for _, ls := range leafSweeps() {
			s = append(s, ls.Dec)
		}
		return s
	}())
	rep.Extra("length_sweep_declared_lengths", "every n <= "+itoa(N)+"; 2^k-1, 2^k, 2^k+1 for k = 9..16; 2^20; each with full body, no body, body one byte short")
	rep.Extra("length_sweep_site_values", "every located length prefix of every seed <= 4096 bytes rewritten with every n <= "+itoa(N2))
	return jobs
}
