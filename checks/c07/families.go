package main

// Two further parts.
//
//	edge      payload lengths found by search: for every VarInt size boundary B (2^7, 2^14, 2^21) of the
//	          PACKET LENGTH of a deflated frame, the payload lengths around the point where the packet
//	          length of an incompressible payload crosses B. The crossing point depends on the zlib
//	          output size, so no fixed list of lengths hits it; it is located with the reference
//	          writer (same stdlib deflater) by bisection and the window n0-4..n0+4 is run through the
//	          ordinary matrix judge. How many frames with packet length exactly B-1 and B were seen
//	          is counted from what go-mc emitted (evidence: deflated_frames_with_packet_length_*).
//	loopback  the socket constructors of a Conn: ListenMC + Listener.Accept on 127.0.0.1 and DialMC to
//	          it; 8 frames in both directions in the state the constructors leave (no compression),
//	          then after SetThreshold(T) on both ends. Skipped (and counted) when the sandbox has no
//	          loopback TCP.

import (
	"bytes"
	"errors"
	"fmt"
	"os"
	"sync"
	"sync/atomic"
	"time"

	mcnet "github.com/Tnze/go-mc/net"
	pk "github.com/Tnze/go-mc/net/packet"

	"verif/engine"
	"verif/ref/refframe"
	"verif/ref/refwire"
)

var edgeBoundaries = []int{1 << 7, 1 << 14, 1 << 21}

// edgeSeen[i][0/1]: deflated frames emitted by go-mc whose packet length is edgeBoundaries[i]-1 / edgeBoundaries[i]
var edgeSeen [3][2]int64

func noteEdge(f refframe.Frame) {
	if !f.Deflated {
		return
	}
	for i, B := range edgeBoundaries {
		switch f.PacketLength {
		case int64(B - 1):
			atomic.AddInt64(&edgeSeen[i][0], 1)
		case int64(B):
			atomic.AddInt64(&edgeSeen[i][1], 1)
		}
	}
}

// refPacketLength is the packet length of the deflated frame the reference writer builds for
// id and n incompressible (content class 1) payload bytes.
func refPacketLength(id int32, n int) int {
	idb := refwire.AppendVarInt(nil, id)
	z := refframe.Deflate(append(idb, payload(1, n)...))
	return refwire.VarIntLen(int32(len(idb)+n)) + len(z)
}

// edgeLengths returns the payload lengths n0-4..n0+4 (B = 2^21: n0-2..n0+2; inside the domain) where n0 is the smallest
// payload length whose reference packet length reaches B (bisection; the size is monotone up to
// block-boundary jitter, which the window absorbs).
func edgeLengths(id int32, B int) []int {
	hi := maxData - refwire.VarIntLen(id)
	if refPacketLength(id, hi) < B {
		return nil
	}
	lo := 0 // invariant: answer in [lo, hi]
	for lo < hi {
		mid := (lo + hi) / 2
		if refPacketLength(id, mid) >= B {
			hi = mid
		} else {
			lo = mid + 1
		}
	}
	w := 4
	if B == 1<<21 {
		w = 2 // 2 MiB cases are expensive; stored blocks grow by exactly one byte per payload byte there
	}
	var out []int
	for n := lo - w; n <= lo+w; n++ {
		if n >= 0 && n+refwire.VarIntLen(id) <= maxData {
			out = append(out, n)
		}
	}
	return out
}

func runEdge(thorough bool) int64 {
	ids := bigIDsQuick
	if thorough {
		ids = matrixIDs
	}
	type ej struct {
		id int32
		B  int
	}
	var ejs []ej
	for bi := len(edgeBoundaries) - 1; bi >= 0; bi-- { // the expensive searches first
		for _, id := range ids {
			ejs = append(ejs, ej{id, edgeBoundaries[bi]})
		}
	}
	lens := make([][]int, len(ejs))
	engine.ParallelFor(len(ejs), func(slot, i int) { lens[i] = edgeLengths(ejs[i].id, ejs[i].B) })
	var cases []Case
	for i, j := range ejs {
		for _, n := range lens[i] {
			for _, T := range []int{0, 64} {
				if j.B == 1<<21 && T != 0 {
					continue
				}
				cases = append(cases, Case{Part: "matrix", ID: j.id, T: T, Len: n, Content: 1})
			}
		}
	}
	engine.ParallelFor(len(cases), func(slot, i int) {
		fails, unspec := judgeMatrix(cases[i])
		if unspec {
			engine.HarnessError("edge case outside the domain: %+v", cases[i])
		}
		record(cases[i], fails)
	})
	rep.Count("edge_cases(packet-length boundary x id x window x threshold {0,64})", int64(len(cases)))
	rep.Extra("edge_menu", fmt.Sprintf("boundaries 2^7, 2^14, 2^21 of the packet length of a deflated frame x %d ids x payload lengths n0-4..n0+4 (2^21: n0-2..n0+2; n0 by bisection on the reference writer, incompressible content) x thresholds {0,64} (2^21: {0})", len(ids)))
	return int64(len(cases))
}

func reportEdgeSeen() {
	for i, B := range edgeBoundaries {
		rep.Count(fmt.Sprintf("deflated_frames_with_packet_length_%d(last %d-byte VarInt)", B-1, i+1), atomic.LoadInt64(&edgeSeen[i][0]))
		rep.Count(fmt.Sprintf("deflated_frames_with_packet_length_%d(first %d-byte VarInt)", B, i+2), atomic.LoadInt64(&edgeSeen[i][1]))
	}
}

// ---------------------------------------------------------------------------------------------
// loopback part

var loopbackUnavailable, loopbackExchanges int64

// loopbackQuiet: the exchange counts as blocked for good when the whole process has been idle
// for this many consecutive one-second observations (engine.WaitDone; not a wall-clock limit).
const loopbackQuiet = 20

// loopState is what the goroutine that drives one connection shares with the stall observer.
type loopState struct {
	mu       sync.Mutex
	fails    []fail
	setup    bool   // listener, dial and accept are through
	what     string // the exchange in progress
	wrote    bool   // its WritePacket has returned nil
	closers  []func() error
	abandons bool // the observer gave up on this connection: later results are not recorded
}

func (st *loopState) addFail(f fail) {
	st.mu.Lock()
	if !st.abandons {
		st.fails = append(st.fails, f)
	}
	st.mu.Unlock()
}

func (st *loopState) onClose(f func() error) {
	st.mu.Lock()
	st.closers = append(st.closers, f)
	st.mu.Unlock()
}

type sockResult struct {
	err         error
	kind, frame string
	panicked    bool
}

// sockExchange: WritePacket on w in a goroutine, ReadPacket on r here. No deadlines: an exchange
// that never completes is found by the stall observer in judgeLoopback.
func sockExchange(st *loopState, w, r *mcnet.Conn, s frameSpec, T int, dir string, keep *[]received) bool {
	data := payload(s.content, s.n)
	what := fmt.Sprintf("%s, threshold %d, id=%d, %d bytes of %s", dir, T, s.id, s.n, contentNames[s.content])
	st.mu.Lock()
	st.what, st.wrote = what, false
	st.mu.Unlock()
	wres := make(chan sockResult, 1)
	atomic.AddInt64(&packs, 1)
	go func() {
		var res sockResult
		res.kind, res.frame, res.panicked = engine.Guard(func() { res.err = w.WritePacket(pk.Packet{ID: s.id, Data: data}) })
		if res.panicked || res.err != nil {
			r.Socket.SetDeadline(time.Now()) // nothing more will arrive: release the reader (a cancel, not a limit)
		} else {
			st.mu.Lock()
			st.wrote = true
			st.mu.Unlock()
		}
		wres <- res
	}()
	var q pk.Packet
	var rerr error
	atomic.AddInt64(&unpacks, 1)
	atomic.AddInt64(&loopbackExchanges, 1)
	kind, frame, panicked := engine.Guard(func() { rerr = r.ReadPacket(&q) })
	if panicked || rerr != nil {
		w.Socket.SetDeadline(time.Now()) // the reader gave up: release a writer blocked on a full socket
	}
	wr := <-wres
	canceled := func(err error) bool { return errors.Is(err, os.ErrDeadlineExceeded) }
	switch {
	case wr.panicked:
		st.addFail(fail{"loopback/WritePacket/panic/" + wr.frame + "/" + wr.kind, what + ": " + wr.kind})
		return false
	case wr.err != nil && !canceled(wr.err):
		st.addFail(fail{"loopback/WritePacket/error-on-open-connection", what + ": " + wr.err.Error()})
		return false
	case panicked:
		st.addFail(fail{"loopback/ReadPacket/panic/" + frame + "/" + kind, what + ": " + kind})
		return false
	case rerr != nil:
		st.addFail(fail{"loopback/ReadPacket/error-on-peer-frame", what + ": ReadPacket returned " + rerr.Error()})
		return false
	case wr.err != nil:
		st.addFail(fail{"loopback/WritePacket/error-on-open-connection", what + ": " + wr.err.Error()})
		return false
	}
	if q.ID != s.id || !bytes.Equal(q.Data, data) {
		st.addFail(fail{"loopback/ReadPacket/wrong-id-or-payload", fmt.Sprintf("%s: got id=%d, %d payload bytes", what, q.ID, len(q.Data))})
	} else {
		*keep = append(*keep, received{q, s, what})
	}
	return true
}

// driveLoopback sets the connection up and runs the exchanges; it returns false when the
// sandbox could not give us the connection.
func driveLoopback(c Case, st *loopState) bool {
	l, err := mcnet.ListenMC("127.0.0.1:0")
	if err != nil {
		return false
	}
	st.onClose(l.Close)
	type accepted struct {
		c   mcnet.Conn
		err error
	}
	ch := make(chan accepted, 1)
	go func() {
		c, err := l.Accept()
		ch <- accepted{c, err}
	}()
	cli, err := mcnet.DialMC(l.Addr().String())
	if err != nil {
		l.Close()
		<-ch
		return false
	}
	st.onClose(cli.Close)
	acc := <-ch
	if acc.err != nil {
		return false
	}
	srv := &acc.c
	st.onClose(srv.Close)
	st.mu.Lock()
	st.setup = true
	st.mu.Unlock()
	var keep []received
	for phase := 0; phase < 2; phase++ {
		T, when := -1, "before SetThreshold"
		if phase == 1 {
			T, when = c.T, "after SetThreshold"
			cli.SetThreshold(T)
			srv.SetThreshold(T)
		}
		for _, s := range frameAlphabet(T) {
			if !sockExchange(st, cli, srv, s, T, "DialMC -> Accept "+when, &keep) {
				return true
			}
			if !sockExchange(st, srv, cli, s, T, "Accept -> DialMC "+when, &keep) {
				return true
			}
		}
	}
	for _, k := range keep {
		if k.q.ID != k.spec.id || !bytes.Equal(k.q.Data, payload(k.spec.content, k.spec.n)) {
			st.addFail(fail{"loopback/ReadPacket/received-packet-changed-by-later-exchange", k.what + ": the packet was received intact into its own Packet, but after the later exchanges it differs from what was sent"})
			break
		}
	}
	return true
}

func judgeLoopback(c Case) []fail {
	st := &loopState{}
	done := make(chan struct{})
	var available int32
	go func() {
		defer close(done)
		if driveLoopback(c, st) {
			atomic.StoreInt32(&available, 1)
		}
	}()
	finished := engine.WaitDone(done, loopbackQuiet)
	st.mu.Lock()
	setup := st.setup
	if !finished && setup {
		// nothing in this process has run for loopbackQuiet observations: blocked for good
		if st.wrote {
			st.fails = append(st.fails, fail{"loopback/ReadPacket/blocked-for-good-after-complete-write", st.what + ": the peer's WritePacket returned nil, ReadPacket waits for bytes that will never come"})
		} else {
			st.fails = append(st.fails, fail{"loopback/exchange-blocked-for-good", st.what + ": neither WritePacket nor ReadPacket returns and nothing is in flight"})
		}
	}
	st.abandons = !finished
	fails := append([]fail(nil), st.fails...)
	closers := st.closers
	st.mu.Unlock()
	for _, f := range closers {
		f() // also releases goroutines still blocked on the sockets
	}
	if finished && atomic.LoadInt32(&available) == 0 || !finished && !setup {
		atomic.AddInt64(&loopbackUnavailable, 1)
		return nil
	}
	return fails
}

func runLoopback() int64 {
	ts := []int{-1, 0, 1, 64, 256}
	for _, T := range ts { // one connection at a time
		c := Case{Part: "loopback", T: T}
		record(c, judgeLoopback(c))
	}
	rep.Count("loopback_cases(connection per threshold)", int64(len(ts)))
	rep.Count("loopback_exchanges", atomic.LoadInt64(&loopbackExchanges))
	rep.Count("loopback_connections_unavailable(skipped)", atomic.LoadInt64(&loopbackUnavailable))
	rep.Extra("loopback_menu", "ListenMC(127.0.0.1:0)+Accept <-> DialMC: 8-frame alphabet x 2 directions in the constructors' state (no compression), then SetThreshold(T) on both ends, T in {-1,0,1,64,256}, 8 frames x 2 directions")
	return int64(len(ts))
}
