package main

// Part "prochist": histories in one process. Pack and UnPack draw their scratch buffer and their zlib writer from
// package-level pools; what a call leaves in a pooled object is the next call's starting state. Every call of the
// other parts succeeds and is followed by more successful calls, so state left behind by a FAILED call (a frame body
// cut short, a read error in the middle of a body) is never the starting state of anything. This part runs every
// sequence of at most 3 (thorough 4) operations of a fixed menu on one goroutine with one processor (so the pool
// hands the object just put back to the next caller), and judges every operation by its own fixed expectation:
// a result that depends on what ran before fails at the shortest history that shows it.

import (
	"bytes"
	"errors"
	"fmt"
	"io"
	"runtime"

	pk "github.com/Tnze/go-mc/net/packet"

	"verif/ref/refframe"
)

var histMenu = []string{
	"pack/no-compression/n=40", "pack/T=0/deflated/n=600", "pack/T=64/plain-body/n=20",
	"unpack/no-compression/n=40", "unpack/T=0/deflated/n=600", "unpack/T=64/plain-body/n=20",
	"unpack/T=0/body-ends-early", "unpack/T=0/read-error-inside-body", "unpack/T=64/plain-body-ends-early", "unpack/no-compression/body-ends-early",
}

var errInjected = errors.New("injected read error")

// failAfter delivers data[:k] and then err.
type failAfter struct {
	data []byte
	k    int
	pos  int
	err  error
}

func (f *failAfter) Read(p []byte) (int, error) {
	if f.pos >= f.k {
		return 0, f.err
	}
	n := copy(p, f.data[f.pos:f.k])
	f.pos += n
	return n, nil
}

func histOp(op int, step int) []fail {
	name := histMenu[op]
	id := int32(0x30 + op)
	bad := func(kind, format string, a ...any) []fail {
		return []fail{{"prochist/" + name + "/" + kind, fmt.Sprintf("step %d (%s): ", step, name) + fmt.Sprintf(format, a...)}}
	}
	packCase := func(T, n int) []fail {
		p := pk.Packet{ID: id, Data: append([]byte(nil), payload(1, n)...)}
		var buf bytes.Buffer
		if err := p.Pack(&buf, T); err != nil {
			return bad("pack-error", "Pack failed: %v", err)
		}
		var fs []fail
		if _, ok := judgeFrame(buf.Bytes(), id, payload(1, n), T, &fs); !ok || len(fs) > 0 {
			for i := range fs {
				fs[i].class = "prochist/" + name + "/" + fs[i].class
				fs[i].detail = fmt.Sprintf("step %d (%s): ", step, name) + fs[i].detail
			}
			return fs
		}
		f, err := refframe.Parse(buf.Bytes(), T >= 0)
		if err != nil || f.Total != buf.Len() {
			return bad("bytes-around-the-frame", "Pack wrote %d bytes, the frame it contains has %d (%v): %s", buf.Len(), f.Total, err, clip(buf.Bytes()))
		}
		return nil
	}
	frame := func(T, n int) []byte {
		if T < 0 {
			return refframe.AppendPlain(nil, id, payload(1, n))
		}
		return refframe.AppendCompressionMode(nil, id, payload(1, n), n >= T)
	}
	unpackOK := func(T, n int) []fail {
		fr := frame(T, n)
		r := bytes.NewReader(append(append([]byte(nil), fr...), tail...))
		var q pk.Packet
		if err := q.UnPack(r, T); err != nil {
			return bad("error-on-well-formed-frame", "UnPack failed: %v", err)
		}
		if q.ID != id || !bytes.Equal(q.Data, payload(1, n)) {
			return bad("wrong-packet", "UnPack returned id=%d and %d bytes (equal=%v), sent id=%d and %d bytes", q.ID, len(q.Data), bytes.Equal(q.Data, payload(1, n)), id, n)
		}
		if r.Len() != len(tail) {
			return bad("consumed-not-exactly-one-frame", "%d bytes left after the frame, %d sentinel bytes follow it", r.Len(), len(tail))
		}
		return nil
	}
	unpackBroken := func(T, n int, err error) []fail {
		fr := frame(T, n)
		cut := len(fr) - n/2 // inside the body, after part of it has arrived
		var q pk.Packet
		if e := q.UnPack(&failAfter{data: fr, k: cut, err: err}, T); e == nil {
			return bad("broken-stream-accepted", "UnPack returned nil although the stream ended after %d of %d frame bytes", cut, len(fr))
		}
		return nil
	}
	switch op {
	case 0:
		return packCase(-1, 40)
	case 1:
		return packCase(0, 600)
	case 2:
		return packCase(64, 20)
	case 3:
		return unpackOK(-1, 40)
	case 4:
		return unpackOK(0, 600)
	case 5:
		return unpackOK(64, 20)
	case 6:
		return unpackBroken(0, 600, io.EOF)
	case 7:
		return unpackBroken(0, 600, errInjected)
	case 8:
		return unpackBroken(64, 20, io.EOF)
	case 9:
		return unpackBroken(-1, 40, io.EOF)
	}
	return nil
}

func judgeProcHist(c Case) (fails []fail) {
	for step, op := range c.Frames {
		if op < 0 || op >= len(histMenu) {
			return []fail{{"prochist/bad-case", "unknown operation"}}
		}
		if fs := histOp(op, step); len(fs) > 0 {
			for i := range fs {
				fs[i].detail += fmt.Sprintf(" [history %v]", histNames(c.Frames[:step+1]))
			}
			return fs
		}
	}
	return nil
}

func histNames(ops []int) []string {
	var s []string
	for _, o := range ops {
		s = append(s, histMenu[o])
	}
	return s
}

// runProcHist enumerates the histories on this goroutine with a single processor.
func runProcHist(maxLen int) int64 {
	prev := runtime.GOMAXPROCS(1)
	runtime.LockOSThread()
	defer func() { runtime.UnlockOSThread(); runtime.GOMAXPROCS(prev) }()
	var n int64
	var rec func(prefix []int)
	rec = func(prefix []int) {
		if len(prefix) > 0 {
			c := Case{Part: "prochist", Frames: append([]int(nil), prefix...)}
			record(c, judgeProcHist(c))
			n++
		}
		if len(prefix) == maxLen {
			return
		}
		for op := range histMenu {
			rec(append(prefix, op))
		}
	}
	rec(nil)
	rep.Count("process_histories", n)
	rep.Extra("process_history_menu", histMenu)
	rep.Extra("process_history_max_len", maxLen)
	return n
}
